/-
  Helper lemmas for C18 (TamocV/Props/C18.lean): list/table round trips, the name-by-name
  read-back of the particle table from each model's file, the user-composition fold.
-/
import TamocV.Model.SaveLoad
import TamocV.Real
import TamocV.Lemmas.Basic
import Mathlib.Data.List.Basic
import Mathlib.Data.List.Nodup
set_option linter.unusedSimpArgs false
set_option linter.unusedVariables false
set_option linter.unusedSectionVars false
namespace TamocV.Lemmas.C18
open TamocV.Model.SaveLoad
variable {α β γ : Type}

theorem at1_map (l : List γ) (g : γ → Cell β) (i : Nat) : at1 (l.map g) i = (l[i]?).bind g := by
  unfold at1
  rw [List.getElem?_map]
  cases l[i]? <;> simp

theorem at1_map_some (l : List γ) (g : γ → β) (i : Nat) (h : i < l.length) :
    at1 (l.map fun p => some (g p)) i = some (g l[i]) := by
  rw [at1_map, List.getElem?_eq_getElem h]; rfl

theorem at1_singleton (x : Cell β) : at1 [x] 0 = x := by simp [at1]

theorem at2_tabulate2 (nr nc : Nat) (g : Nat → Nat → Cell β) (r c : Nat) (hr : r < nr) (hc : c < nc) :
    at2 (tabulate2 nr nc g) r c = g r c := by
  unfold at2 tabulate2
  simp [hr, hc]

theorem range_map_getD (l : List β) (n : Nat) (d : β) (h : l.length = n) :
    (List.range n).map (fun k => l.getD k d) = l := by
  subst h
  apply List.ext_getElem
  · simp
  · intro i h1 h2
    simp at h1
    simp [List.getD, h1]

/-- a table given element-wise by the entries of a rectangular list of rows is that list -/
theorem tabulate2_eq (y : List (List β)) (nr nc : Nat) (g : Nat → Nat → β)
    (hr : y.length = nr) (hc : ∀ row ∈ y, row.length = nc)
    (hg : ∀ r c (h : r < y.length) (h2 : c < y[r].length), g r c = y[r][c]) :
    tabulate2 nr nc g = y := by
  subst hr
  unfold tabulate2
  apply List.ext_getElem
  · simp
  · intro r h1 h2
    have hrow : y[r].length = nc := hc _ (List.getElem_mem h2)
    simp only [List.getElem_map, List.getElem_range]
    apply List.ext_getElem
    · simp [hrow]
    · intro c h3 h4
      simp only [List.getElem_map, List.getElem_range]
      exact hg r c h2 h4

theorem at1_map_get (l : List γ) (g : γ → Cell β) (i : Nat) (h : i < l.length) :
    at1 (l.map g) i = g l[i] := by
  unfold at1
  rw [List.getElem?_map, List.getElem?_eq_getElem h]; rfl

theorem findUser_nodup [Num α] (ud : List (UserChem α)) (hn : (ud.map (·.name)).Nodup)
    (j : Nat) (h : j < ud.length) : findUser ud (ud[j].name) = some ud[j] := by
  induction ud generalizing j with
  | nil => simp at h
  | cons u us ih =>
    simp only [List.map_cons, List.nodup_cons] at hn
    cases j with
    | zero => simp [findUser, List.find?]
    | succ j =>
      have hj : j < us.length := by simpa using h
      have hne : u.name ≠ us[j].name := by
        intro he
        apply hn.1
        rw [he]
        exact List.mem_map_of_mem (List.getElem_mem hj)
      have : (u.name == us[j].name) = false := by simpa using hne
      simp only [findUser, List.find?, List.getElem_cons_succ, this]
      exact ih hn.2 j hj

section
variable [Num α]

/-- invariant of the fold that picks the user composition -/
theorem userComposition_inv (ucomp : List String) (ps : List (Particle α))
    (hk : ∀ p ∈ ps, ∀ f, p.dbm = .fluid f → f.user_data = [] ∨ f.user_data.map (·.name) = ucomp) :
    userComposition ps = (ucomp.length, ucomp) ∨
      (userComposition ps = (0, []) ∧ ∀ p ∈ ps, ∀ f, p.dbm = .fluid f → f.user_data = []) := by
  unfold userComposition
  suffices H : ∀ (acc : Nat × List String), (acc = (ucomp.length, ucomp) ∨ acc = (0, [])) →
      (ps.foldl (fun acc p => match p.dbm with
        | .fluid f => if f.user_data.length > acc.1 then (f.user_data.length, f.user_data.map (·.name)) else acc
        | .insol _ => acc) acc = (ucomp.length, ucomp)) ∨
      (ps.foldl (fun acc p => match p.dbm with
        | .fluid f => if f.user_data.length > acc.1 then (f.user_data.length, f.user_data.map (·.name)) else acc
        | .insol _ => acc) acc = acc ∧ acc = (0, []) ∧ ∀ p ∈ ps, ∀ f, p.dbm = .fluid f → f.user_data = []) by
    rcases H (0, []) (Or.inr rfl) with h | ⟨h1, _, h3⟩
    · exact Or.inl h
    · exact Or.inr ⟨h1, h3⟩
  induction ps with
  | nil =>
    intro acc hacc
    rcases hacc with h | h
    · exact Or.inl (by simpa using h)
    · exact Or.inr ⟨rfl, h, by simp⟩
  | cons p ps ih =>
    intro acc hacc
    have hk' : ∀ q ∈ ps, ∀ f, q.dbm = .fluid f → f.user_data = [] ∨ f.user_data.map (·.name) = ucomp :=
      fun q hq => hk q (List.mem_cons_of_mem _ hq)
    simp only [List.foldl_cons]
    cases hd : p.dbm with
    | insol i =>
      simp only
      rcases ih hk' acc hacc with h | ⟨h1, h2, h3⟩
      · exact Or.inl h
      · refine Or.inr ⟨h1, h2, ?_⟩
        intro q hq f hf
        rcases List.mem_cons.mp hq with rfl | hq
        · rw [hd] at hf; cases hf
        · exact h3 q hq f hf
    | fluid f =>
      simp only
      rcases hk p (List.mem_cons_self) f hd with he | hn
      · -- no user data: the accumulator is unchanged
        have : ¬ (f.user_data.length > acc.1) := by simp [he]
        simp only [this, if_false]
        rcases ih hk' acc hacc with h | ⟨h1, h2, h3⟩
        · exact Or.inl h
        · refine Or.inr ⟨h1, h2, ?_⟩
          intro q hq g hg
          rcases List.mem_cons.mp hq with rfl | hq
          · rw [hd] at hg; cases hg; exact he
          · exact h3 q hq g hg
      · have hl : f.user_data.length = ucomp.length := by rw [← hn]; simp
        rcases hacc with ha | ha
        · -- accumulator already holds ucomp: same length, not replaced
          have : ¬ (f.user_data.length > acc.1) := by rw [ha, hl]; simp
          simp only [this, if_false]
          rcases ih hk' acc (Or.inl ha) with h | ⟨h1, h2, h3⟩
          · exact Or.inl h
          · exact Or.inl (by rw [h1, ha])
        · by_cases hz : f.user_data.length > acc.1
          · simp only [hz, if_true]
            rcases ih hk' (f.user_data.length, f.user_data.map (·.name)) (Or.inl (by rw [hl, hn])) with h | ⟨h1, h2, h3⟩
            · exact Or.inl h
            · exact Or.inl (by rw [h1, hl, hn])
          · simp only [hz, if_false]
            have h0 : f.user_data = [] := by
              rw [ha] at hz
              simpa using hz
            rcases ih hk' acc (Or.inr ha) with h | ⟨h1, h2, h3⟩
            · exact Or.inl h
            · refine Or.inr ⟨h1, h2, ?_⟩
              intro q hq g hg
              rcases List.mem_cons.mp hq with rfl | hq
              · rw [hd] at hg; cases hg; exact h0
              · exact h3 q hq g hg
end

section
variable [Num α]
structure TableOK (pt : Nat) (t : Table α) : Prop where
  user_len : t.next_chems > 0 → t.user.length = 13
  user_nil : t.next_chems = 0 → t.user = [] ∧ t.user_composition = []
  plume_nil : pt = 0 → t.nb0 = [] ∧ t.lambda_1 = []
  bent_nil : pt ≠ 2 → t.nbe = [] ∧ t.integrate = [] ∧ t.sim_stored = [] ∧ t.farfield = [] ∧ t.tp = [] ∧
    t.xp = [] ∧ t.yp = [] ∧ t.zp = [] ∧ t.te = [] ∧ t.xe = [] ∧ t.ye = [] ∧ t.ze = []
  ta : t.Ta = []

theorem list13 {β : Type} (l : List β) (d : β) (h : l.length = 13) :
    [l[0]?.getD d, l[1]?.getD d, l[2]?.getD d, l[3]?.getD d, l[4]?.getD d, l[5]?.getD d, l[6]?.getD d, l[7]?.getD d,
     l[8]?.getD d, l[9]?.getD d, l[10]?.getD d, l[11]?.getD d, l[12]?.getD d] = l := by
  match l, h with
  | [a0,a1,a2,a3,a4,a5,a6,a7,a8,a9,a10,a11,a12], _ => rfl

theorem ofFile_sbm (h : Header) (s : Sbm α) (t : Table α) (ok : TableOK 0 t) :
    Table.ofFile ((header h).add ((sbmOwn s).add (t.toFile 0))) = t := by
  obtain ⟨ul, un, pn, bn, ta⟩ := ok
  have pn := pn rfl
  have bn := bn (by decide)
  rcases t with ⟨composition, user_composition, nparticles, nchems, next_chems, particle_type, issoluble, isair, isfluid, iscompressible, calc_delta, extern_data, fp_type, rho_p, gamma, beta, co, sigma_correction, delta_groups, m0, T0, K, K_T, fdis, t_hyd, nb0, lambda_1, nbe, integrate, sim_stored, farfield, tp, xp, yp, zp, te, xe, ye, ze, user, Ta⟩
  simp only at ul un pn bn ta
  by_cases hn : next_chems > 0
  · have hu := list13 _ [] (ul hn)
    obtain ⟨p1, p2⟩ := pn
    obtain ⟨b1, b2, b3, b4, b5, b6, b7, b8, b9, b10, b11, b12⟩ := bn
    subst p1 p2 b1 b2 b3 b4 b5 b6 b7 b8 b9 b10 b11 b12 ta
    simp [Table.ofFile, Table.toFile, File.add, header, sbmOwn, File.i1, File.f1, File.f2, File.f3, File.names,
      File.dim, List.lookup, vI, vF, vF2, hn, userVars, List.range, List.range.loop, hu]
  · have h0 : next_chems = 0 := by omega
    obtain ⟨u1, u2⟩ := un h0
    obtain ⟨p1, p2⟩ := pn
    obtain ⟨b1, b2, b3, b4, b5, b6, b7, b8, b9, b10, b11, b12⟩ := bn
    subst h0 u1 u2 p1 p2 b1 b2 b3 b4 b5 b6 b7 b8 b9 b10 b11 b12 ta
    simp [Table.ofFile, Table.toFile, File.add, header, sbmOwn, File.i1, File.f1, File.f2, File.f3, File.names,
      File.dim, List.lookup, vI, vF, vF2]
end

section
variable [Num α]

theorem saveSbm_eq (h : Header) (s : Sbm α) (f : File α) (hs : saveSbm h s = some f) :
    ∃ tbl, s.K_T0_0d = false ∧ saveTable 0 s.composition [s.particle] [s.K_T0] = some tbl ∧
      f = (header h).add ((sbmOwn s).add (tbl.toFile 0)) := by
  unfold saveSbm at hs
  cases h0 : s.K_T0_0d with
  | true => simp [h0] at hs
  | false =>
    simp only [h0, Bool.false_eq_true, if_false] at hs
    obtain ⟨tbl, h1, h2⟩ := Option.map_eq_some_iff.mp hs
    exact ⟨tbl, rfl, h1, h2.symm⟩

theorem sbm_arrays (h : Header) (s : Sbm α) (f : File α) (hs : saveSbm h s = some f)
    (hy : ∀ row ∈ s.y, row.length = (s.y.headD []).length) (hlen : s.y.length = s.t.length) :
    (loadSbm f).t = s.t ∧ (loadSbm f).y = s.y ∧ (loadSbm f).K_T0 = s.K_T0 ∧ (loadSbm f).delta_t = s.delta_t := by
  obtain ⟨tbl, _, _, rfl⟩ := saveSbm_eq h s f hs
  have ht : (List.map valF (List.map some s.t)) = s.t := by
    rw [List.map_map]; simp [Function.comp_def, valF]
  refine ⟨?_, ?_, ?_, ?_⟩
  · simp [loadSbm, sbmOwn, File.f1, File.add, header, vF, vF2, List.lookup, ht]
  · have hf1 : File.f1 ((header h).add ((sbmOwn s).add (Table.toFile 0 tbl))) "t" = s.t.map some := by
      simp [sbmOwn, File.f1, File.add, header, vF, vF2, List.lookup]
    have hf2 : File.f2 ((header h).add ((sbmOwn s).add (Table.toFile 0 tbl))) "y" =
        tabulate2 s.t.length (s.y.headD []).length fun r c => (s.y[r]?).bind (·[c]?) := by
      simp [sbmOwn, File.f2, File.add, header, vF, vF2, List.lookup]
    have hd : File.dim ((header h).add ((sbmOwn s).add (Table.toFile 0 tbl))) "ns" = (s.y.headD []).length := by
      simp [sbmOwn, File.dim, File.add, header, List.lookup]
    simp only [loadSbm, hf1, hf2, hd, ht]
    apply tabulate2_eq _ _ _ _ hlen hy
    intro r c h1 h2
    have hc : c < (s.y.headD []).length := by rw [← hy _ (List.getElem_mem h1)]; exact h2
    rw [at2_tabulate2 _ _ _ _ _ (hlen ▸ h1) hc]
    simp [h1, h2, valF]
  · simp [loadSbm, sbmOwn, File.f1, File.add, header, vF, vF2, List.lookup, at1, valF]
  · simp [loadSbm, sbmOwn, File.f1, File.add, header, vF, vF2, List.lookup, at1, valF]
end

section
variable [Num α]

/-- what the constructor's treatment of the group-contribution array must leave unchanged
    (dbm.py l.283-345), the shape of the array, the key set of the user data -/
structure FluidWF (chem ucomp : List String) (f : Fluid α) : Prop where
  comp : f.composition = chem
  keys : f.user_data = [] ∨ f.user_data.map (·.name) = ucomp
  nodup : (f.user_data.map (·.name)).Nodup
  props : ∀ u ∈ f.user_data, u.props.length = 13
  calcd : f.calc_delta ≠ 0
  groups : normGroups chem.length f.delta_groups = (f.calc_delta, f.delta_groups)
  /-- guard of the division in `normGroups`: with group contributions on, no row of the array sums
      to zero (the real code then yields 0/0; nothing is concluded from Lean's `x / 0 = 0`) -/
  nozero : f.calc_delta = 1 → ∀ r ∈ f.delta_groups, isZero (Num.sum r) = false
  chempos : 0 < chem.length
  dglen : f.delta_groups.length = chem.length

/-- attributes a particle class does not have are at their defaults -/
def Canon (pt : Nat) (p : Particle α) : Prop :=
  (pt = 0 → p.nb0 = 0 ∧ p.lambda_1 = 0) ∧
  (pt ≠ 2 → p.nbe = 0 ∧ p.integrate = false ∧ p.sim_stored = false ∧ p.farfield = false ∧ p.tp = 0 ∧
    p.xp = 0 ∧ p.yp = 0 ∧ p.zp = 0 ∧ p.exit = none)

structure ParticleWF (pt : Nat) (chem ucomp : List String) (Ta : α) (p : Particle α) : Prop where
  dbm : match p.dbm with
    | .fluid f => FluidWF chem ucomp f ∧ p.m0.length = chem.length
    | .insol _ => p.m0.length = 1
  canon : Canon pt p
  exit_pos : ∀ e, p.exit = some e → 0 < e.1
  heat : pt ≥ 1 → ¬ (0 < p.K_T ∧ Num.abs (Ta - p.T0) < 0.5)

theorem bcast_self {β : Type} (n : Nat) (l : List β) (h : l.length = n) : bcast n l = l := by
  simp [bcast, h]

theorem nchemsOf_pos (chem : List String) (h : 0 < chem.length) : nchemsOf chem = chem.length := by
  simp [nchemsOf, h]

theorem take_map_length {β γ : Type} (l : List β) (g : β → γ) : (l.map g).take l.length = l.map g := by
  apply List.take_of_length_le; simp

theorem map_valF_some (l : List α) : (l.map some).map valF = l := by
  rw [List.map_map]; simp [Function.comp_def, valF]

theorem map2_valF_some (l : List (List α)) : (l.map (·.map some)).map (·.map valF) = l := by
  rw [List.map_map]
  conv => rhs; rw [← List.map_id l]
  apply List.map_congr_left
  intro r _
  simp [Function.comp_def, valF]

/-- the user data of particle `i` as the reader rebuilds them -/
theorem loadUser_mkTable (pt : Nat) (chem ucomp : List String) (ps : List (Particle α)) (KT0 : List α)
    (ta : List (Cell α)) (i : Nat) (hi : i < ps.length) (f : Fluid α) (hf : ps[i].dbm = .fluid f)
    (huc : userComposition ps = (ucomp.length, ucomp)) (hne : f.user_data ≠ [])
    (wf : FluidWF chem ucomp f) :
    loadUser { mkTable pt chem ps KT0 with Ta := ta } i = f.user_data.map UserChem.forget := by
  have hnames : f.user_data.map (·.name) = ucomp := by
    rcases wf.keys with h | h
    · exact absurd h hne
    · exact h
  have hlen : ucomp.length = f.user_data.length := by rw [← hnames]; simp
  have hpos : ucomp.length > 0 := by
    rw [hlen]; exact List.length_pos_of_ne_nil hne
  unfold loadUser
  simp only [mkTable, huc, hpos, if_true]
  rw [hlen]
  apply List.ext_getElem
  · simp
  · intro j h1 h2
    have hj : j < f.user_data.length := by simpa using h1
    have hju : j < ucomp.length := by rw [hlen]; exact hj
    have hname : ucomp.getD j "" = f.user_data[j].name := by
      simp only [← hnames]
      simp [List.getD, hj]
    have hname' : ucomp[j] = f.user_data[j].name := by
      simp only [← hnames]; simp
    simp only [List.getElem_map, List.getElem_range, UserChem.forget, hname]
    congr 1
    have hprops := wf.props _ (List.getElem_mem hj)
    conv => rhs; rw [← range_map_getD f.user_data[j].props 13 0 hprops]
    apply List.map_congr_left
    intro k hk
    have hk13 : k < 13 := List.mem_range.mp hk
    have hget : (List.map (fun k => List.map (userRow ucomp k) ps) (List.range 13)).getD k [] =
        List.map (userRow ucomp k) ps := by
      simp [List.getD, hk13]
    rw [hget]
    unfold at2
    simp only [List.getElem?_map, List.getElem?_eq_getElem hi, Option.map_some, Option.bind_some]
    have hemp : f.user_data.isEmpty = false := by
      cases hud : f.user_data with
      | nil => exact absurd hud hne
      | cons _ _ => rfl
    simp only [userRow, hf, hemp]
    simp only [Bool.false_eq_true, if_false, List.getElem?_map, List.getElem?_eq_getElem hju, Option.map_some,
      hname', findUser_nodup _ wf.nodup j hj, Option.join, Option.bind_some, valF, Option.getD_some, id]

@[simp] theorem valF_some (x : α) : valF (some x) = x := rfl
@[simp] theorem valI_some (x : Int) : valI (some x) = x := rfl
@[simp] theorem truthy_some (x : Int) : truthy (some x) = (x != 0) := rfl

theorem valI_ptype (pt : Nat) : valI (at1 [some (Int.ofNat pt)] 0) = Int.ofNat pt := by
  simp [at1, valI]

theorem b2i_truthy (b : Bool) : ((if b = true then (1 : Int) else 0) != 0) = b := by
  cases b <;> rfl

theorem singleton_head (l : List α) (h : l.length = 1) : [l.head?.getD 0] = l := by
  match l, h with
  | [x], _ => rfl

theorem prod4_eta (e : α × α × α × α) : (e.1, e.2.1, e.2.2.1, e.2.2.2) = e := by
  rcases e with ⟨a, b, c, d⟩; rfl

/-- the reader applied to the writer's table gives back particle `i`, up to the fields
    the file does not hold -/
theorem loadParticleT_mkTable (pt : Nat) (hpt : pt ≤ 2) (chem ucomp : List String) (ps : List (Particle α))
    (ta : List (Cell α)) (i : Nat) (hi : i < ps.length)
    (hwf : ∀ p ∈ ps, ParticleWF pt chem ucomp (valF (at1 ta 0)) p) :
    loadParticleT { mkTable pt chem ps (ps.map (·.K_T)) with Ta := ta } i = ps[i].forget := by
  have wf := hwf _ (List.getElem_mem hi)
  have hk : ∀ p ∈ ps, ∀ f, p.dbm = .fluid f → f.user_data = [] ∨ f.user_data.map (·.name) = ucomp := by
    intro p hp f hf
    have := (hwf p hp).dbm
    rw [hf] at this
    exact this.1.keys
  have huc := userComposition_inv ucomp ps hk
  obtain ⟨wdbm, wcanon, wexit, wheat⟩ := wf
  obtain ⟨wc0, wc2⟩ := wcanon
  have hat2 : ∀ (g : Particle α → List (Cell α)) (j : Nat), at2 (ps.map g) i j = ((g ps[i])[j]?).join := by
    intro g j
    simp [at2, List.getElem?_map, List.getElem?_eq_getElem hi]
  have hgetD : ∀ {β : Type} (g : Particle α → β) (d : β), (ps.map g).getD i d = g ps[i] := by
    intro β g d
    simp [List.getD, List.getElem?_eq_getElem hi]
  have hK : pt ≥ 1 → (decide (0 < ps[i].K_T) && decide (Num.abs (valF (at1 ta 0) - ps[i].T0) < 0.5)) = false := by
    intro h1
    have := wheat h1
    cases h2 : decide (0 < ps[i].K_T) <;> cases h3 : decide (Num.abs (valF (at1 ta 0) - ps[i].T0) < 0.5) <;> simp_all
  have hexit : (match ps[i].exit.map (·.1) with
      | some te => if 0 < te then some (te, valF (ps[i].exit.map (·.2.1)), valF (ps[i].exit.map (·.2.2.1)),
          valF (ps[i].exit.map (·.2.2.2))) else none
      | none => none) = ps[i].exit := by
    cases he : ps[i].exit with
    | none => rfl
    | some e =>
      have := wexit e he
      simp [this, prod4_eta]
  -- the user data and the dbm object
  have hdbm : ∀ f, ps[i].dbm = .fluid f →
      (if truthy (some (if f.user_data.isEmpty = true then (0 : Int) else 1)) = true then
        loadUser { mkTable pt chem ps (ps.map (·.K_T)) with Ta := ta } i else []) = f.user_data.map UserChem.forget := by
    intro f hf
    cases hud : f.user_data with
    | nil => simp [truthy]
    | cons u us =>
      have hne : f.user_data ≠ [] := by rw [hud]; simp
      have wff : FluidWF chem ucomp f := by rw [hf] at wdbm; exact wdbm.1
      rcases huc with h | ⟨_, h⟩
      · rw [← hud]
        simp only [hud, List.isEmpty_cons, truthy, Bool.false_eq_true, if_false]
        rw [← hud]
        simpa using loadUser_mkTable pt chem ucomp ps _ ta i hi f hf h hne wff
      · exact absurd (h _ (List.getElem_mem hi) f hf) hne
  cases hd : ps[i].dbm with
  | insol ins =>
    rw [hd] at wdbm
    simp only at wdbm
    have hm0 := singleton_head _ wdbm
    rcases (by omega : pt = 0 ∨ pt = 1 ∨ pt = 2) with rfl | rfl | rfl
    ·
      obtain ⟨c1, c2⟩ := wc0 rfl
      obtain ⟨d1, d2, d3, d4, d5, d6, d7, d8, d9⟩ := wc2 (by decide)
      simp only [loadParticleT, mkTable, valI_ptype, take_map_length, List.map_map, Function.comp_def,
        hat2, hgetD, m0Row, hd, Particle.forget, ge_iff_le, Nat.le_refl, if_true, if_false,
        show ¬ ((0:Nat) ≥ 1) by decide, show ((2:Nat) ≥ 1) by decide, show ¬ ((0:Nat) = 2) by decide,
        show ¬ ((1:Nat) = 2) by decide, at1_map_get _ _ _ hi, valF_some, valI_some, truthy_some, hexit]
      simp [hexit, b2i, hm0, b2i_truthy, c1, c2, d1, d2, d3, d4, d5, d6, d7, d8, d9]
    ·
      obtain ⟨d1, d2, d3, d4, d5, d6, d7, d8, d9⟩ := wc2 (by decide)
      have hK := hK (by decide)
      simp only [loadParticleT, mkTable, valI_ptype, take_map_length, List.map_map, Function.comp_def,
        hat2, hgetD, m0Row, hd, Particle.forget, ge_iff_le, Nat.le_refl, if_true, if_false,
        show ¬ ((0:Nat) ≥ 1) by decide, show ((2:Nat) ≥ 1) by decide, show ¬ ((0:Nat) = 2) by decide,
        show ¬ ((1:Nat) = 2) by decide, at1_map_get _ _ _ hi, valF_some, valI_some, truthy_some, hexit]
      simp [hexit, b2i, hm0, b2i_truthy, hK, d1, d2, d3, d4, d5, d6, d7, d8, d9]
    ·
      have hK := hK (by decide)
      simp only [loadParticleT, mkTable, valI_ptype, take_map_length, List.map_map, Function.comp_def,
        hat2, hgetD, m0Row, hd, Particle.forget, ge_iff_le, Nat.le_refl, if_true, if_false,
        show ¬ ((0:Nat) ≥ 1) by decide, show ((2:Nat) ≥ 1) by decide, show ¬ ((0:Nat) = 2) by decide,
        show ¬ ((1:Nat) = 2) by decide, at1_map_get _ _ _ hi, valF_some, valI_some, truthy_some, hexit]
      simp [hexit, b2i, hm0, b2i_truthy, hK]
      exact hexit
  | fluid f =>
    have wff : FluidWF chem ucomp f := by rw [hd] at wdbm; exact wdbm.1
    have hm0l : ps[i].m0.length = chem.length := by rw [hd] at wdbm; exact wdbm.2
    have hU := hdbm f hd
    have hcd : (f.calc_delta != 0) = true := by simpa using wff.calcd
    have hnc := nchemsOf_pos chem wff.chempos
    have hb1 : bcast (nchemsOf chem) (ps[i].m0.map some) = ps[i].m0.map some := bcast_self _ _ (by simp [hnc, hm0l])
    have hb2 : bcast (nchemsOf chem) (f.delta_groups.map (·.map some)) = f.delta_groups.map (·.map some) :=
      bcast_self _ _ (by simp [hnc, wff.dglen])
    rcases (by omega : pt = 0 ∨ pt = 1 ∨ pt = 2) with rfl | rfl | rfl
    ·
      obtain ⟨c1, c2⟩ := wc0 rfl
      obtain ⟨d1, d2, d3, d4, d5, d6, d7, d8, d9⟩ := wc2 (by decide)
      simp only [loadParticleT, mkTable, valI_ptype, take_map_length, List.map_map, Function.comp_def,
        hat2, hgetD, m0Row, hd, Particle.forget, ge_iff_le, Nat.le_refl, if_true, if_false,
        show ¬ ((0:Nat) ≥ 1) by decide, show ((2:Nat) ≥ 1) by decide, show ¬ ((0:Nat) = 2) by decide,
        show ¬ ((1:Nat) = 2) by decide, at1_map_get _ _ _ hi, valF_some, valI_some, truthy_some, hexit] at hU ⊢
      simp only [dgBlock, hcd, if_true, hb1, hb2, map2_valF_some, map_valF_some, mkFluid, wff.groups] at hU ⊢
      rw [hU]
      simp [hexit, b2i, b2i_truthy, hU, wff.comp, c1, c2, d1, d2, d3, d4, d5, d6, d7, d8, d9]
    ·
      obtain ⟨d1, d2, d3, d4, d5, d6, d7, d8, d9⟩ := wc2 (by decide)
      have hK := hK (by decide)
      simp only [loadParticleT, mkTable, valI_ptype, take_map_length, List.map_map, Function.comp_def,
        hat2, hgetD, m0Row, hd, Particle.forget, ge_iff_le, Nat.le_refl, if_true, if_false,
        show ¬ ((0:Nat) ≥ 1) by decide, show ((2:Nat) ≥ 1) by decide, show ¬ ((0:Nat) = 2) by decide,
        show ¬ ((1:Nat) = 2) by decide, at1_map_get _ _ _ hi, valF_some, valI_some, truthy_some, hexit] at hU ⊢
      simp only [dgBlock, hcd, if_true, hb1, hb2, map2_valF_some, map_valF_some, mkFluid, wff.groups] at hU ⊢
      rw [hU]
      simp [hexit, b2i, b2i_truthy, hU, wff.comp, hK, d1, d2, d3, d4, d5, d6, d7, d8, d9]
    ·
      have hK := hK (by decide)
      simp only [loadParticleT, mkTable, valI_ptype, take_map_length, List.map_map, Function.comp_def,
        hat2, hgetD, m0Row, hd, Particle.forget, ge_iff_le, Nat.le_refl, if_true, if_false,
        show ¬ ((0:Nat) ≥ 1) by decide, show ((2:Nat) ≥ 1) by decide, show ¬ ((0:Nat) = 2) by decide,
        show ¬ ((1:Nat) = 2) by decide, at1_map_get _ _ _ hi, valF_some, valI_some, truthy_some, hexit] at hU ⊢
      simp only [dgBlock, hcd, if_true, hb1, hb2, map2_valF_some, map_valF_some, mkFluid, wff.groups] at hU ⊢
      rw [hU]
      simp [hexit, b2i, b2i_truthy, hU, wff.comp, hK]
      exact hexit
end

section
variable [Num α]

theorem userComposition_fst_snd (ps : List (Particle α)) :
    (userComposition ps).1 = 0 → (userComposition ps).2 = [] := by
  unfold userComposition
  suffices H : ∀ acc : Nat × List String, acc.2.length = acc.1 →
      (ps.foldl (fun acc p => match p.dbm with
        | .fluid f => if f.user_data.length > acc.1 then (f.user_data.length, f.user_data.map (·.name)) else acc
        | .insol _ => acc) acc).2.length =
      (ps.foldl (fun acc p => match p.dbm with
        | .fluid f => if f.user_data.length > acc.1 then (f.user_data.length, f.user_data.map (·.name)) else acc
        | .insol _ => acc) acc).1 by
    intro h0
    have := H (0, []) rfl
    exact List.eq_nil_of_length_eq_zero (this.trans h0)
  induction ps with
  | nil => intro acc h; simpa using h
  | cons p ps ih =>
    intro acc h
    simp only [List.foldl_cons]
    apply ih
    cases p.dbm with
    | insol i => simpa using h
    | fluid f =>
      simp only
      split
      · simp
      · exact h

theorem mkTable_ok (pt : Nat) (chem : List String) (ps : List (Particle α)) (KT0 : List α) :
    TableOK pt (mkTable pt chem ps KT0) := by
  refine ⟨?_, ?_, ?_, ?_, rfl⟩
  · intro h
    simp only [mkTable] at h ⊢
    simp [h]
  · intro h
    simp only [mkTable] at h ⊢
    simp [h, userComposition_fst_snd ps h]
  · intro h; subst h; simp [mkTable]
  · intro h
    simp [mkTable, h]

theorem ofFile_bpm (h : Header) (s : Bpm α) (c : α) (t : Table α) (ok : TableOK 2 t) :
    Table.ofFile ((header h).add ((bpmOwn s c).add (t.toFile 2))) = { t with Ta := [some s.Ta] } := by
  obtain ⟨ul, un, pn, bn, ta⟩ := ok
  rcases t with ⟨composition, user_composition, nparticles, nchems, next_chems, particle_type, issoluble, isair, isfluid, iscompressible, calc_delta, extern_data, fp_type, rho_p, gamma, beta, co, sigma_correction, delta_groups, m0, T0, K, K_T, fdis, t_hyd, nb0, lambda_1, nbe, integrate, sim_stored, farfield, tp, xp, yp, zp, te, xe, ye, ze, user, Ta⟩
  simp only at ul un ta
  by_cases hn : next_chems > 0
  · have hu := list13 _ [] (ul hn)
    simp [Table.ofFile, Table.toFile, File.add, header, bpmOwn, p1, File.i1, File.f1, File.f2, File.f3, File.names,
      File.dim, List.lookup, vI, vF, vF2, hn, userVars, List.range, List.range.loop, hu]
  · have h0 : next_chems = 0 := by omega
    obtain ⟨u1, u2⟩ := un h0
    subst h0 u1 u2
    simp [Table.ofFile, Table.toFile, File.add, header, bpmOwn, p1, File.i1, File.f1, File.f2, File.f3, File.names,
      File.dim, List.lookup, vI, vF, vF2]

theorem ofFile_spm (h : Header) (s : Spm α) (t : Table α) (ok : TableOK 1 t) :
    Table.ofFile ((header h).add ((spmOwn s).add (t.toFile 1))) = { t with Ta := [some s.Ta] } := by
  obtain ⟨ul, un, pn, bn, ta⟩ := ok
  have bn := bn (by decide)
  rcases t with ⟨composition, user_composition, nparticles, nchems, next_chems, particle_type, issoluble, isair, isfluid, iscompressible, calc_delta, extern_data, fp_type, rho_p, gamma, beta, co, sigma_correction, delta_groups, m0, T0, K, K_T, fdis, t_hyd, nb0, lambda_1, nbe, integrate, sim_stored, farfield, tp, xp, yp, zp, te, xe, ye, ze, user, Ta⟩
  simp only at ul un bn ta
  obtain ⟨b1, b2, b3, b4, b5, b6, b7, b8, b9, b10, b11, b12⟩ := bn
  subst b1 b2 b3 b4 b5 b6 b7 b8 b9 b10 b11 b12
  by_cases hn : next_chems > 0
  · have hu := list13 _ [] (ul hn)
    simp [Table.ofFile, Table.toFile, File.add, header, spmOwn, p1, File.i1, File.f1, File.f2, File.f3, File.names,
      File.dim, List.lookup, vI, vF, vF2, hn, userVars, List.range, List.range.loop, hu]
  · have h0 : next_chems = 0 := by omega
    obtain ⟨u1, u2⟩ := un h0
    subst h0 u1 u2
    simp [Table.ofFile, Table.toFile, File.add, header, spmOwn, p1, File.i1, File.f1, File.f2, File.f3, File.names,
      File.dim, List.lookup, vI, vF, vF2]

/-- the particle part alone, with the ambient temperature the plume-particle constructors need -/
theorem ofFile_plain (Ta : α) (pt : Nat) (hpt : pt ≤ 2) (t : Table α) (ok : TableOK pt t) :
    Table.ofFile ((taFile Ta).add (t.toFile pt)) = { t with Ta := [some Ta] } := by
  obtain ⟨ul, un, pn, bn, ta⟩ := ok
  rcases t with ⟨composition, user_composition, nparticles, nchems, next_chems, particle_type, issoluble, isair, isfluid, iscompressible, calc_delta, extern_data, fp_type, rho_p, gamma, beta, co, sigma_correction, delta_groups, m0, T0, K, K_T, fdis, t_hyd, nb0, lambda_1, nbe, integrate, sim_stored, farfield, tp, xp, yp, zp, te, xe, ye, ze, user, Ta'⟩
  simp only at ul un pn bn ta
  rcases (by omega : pt = 0 ∨ pt = 1 ∨ pt = 2) with rfl | rfl | rfl
  · obtain ⟨p1', p2'⟩ := pn rfl
    obtain ⟨b1, b2, b3, b4, b5, b6, b7, b8, b9, b10, b11, b12⟩ := bn (by decide)
    subst p1' p2' b1 b2 b3 b4 b5 b6 b7 b8 b9 b10 b11 b12
    by_cases hn : next_chems > 0
    · have hu := list13 _ [] (ul hn)
      simp [Table.ofFile, Table.toFile, File.add, taFile, File.i1, File.f1, File.f2, File.f3, File.names,
        File.dim, List.lookup, vI, vF, vF2, hn, userVars, List.range, List.range.loop, hu]
    · have h0 : next_chems = 0 := by omega
      obtain ⟨u1, u2⟩ := un h0
      subst h0 u1 u2
      simp [Table.ofFile, Table.toFile, File.add, taFile, File.i1, File.f1, File.f2, File.f3, File.names,
        File.dim, List.lookup, vI, vF, vF2]
  · obtain ⟨b1, b2, b3, b4, b5, b6, b7, b8, b9, b10, b11, b12⟩ := bn (by decide)
    subst b1 b2 b3 b4 b5 b6 b7 b8 b9 b10 b11 b12
    by_cases hn : next_chems > 0
    · have hu := list13 _ [] (ul hn)
      simp [Table.ofFile, Table.toFile, File.add, taFile, File.i1, File.f1, File.f2, File.f3, File.names,
        File.dim, List.lookup, vI, vF, vF2, hn, userVars, List.range, List.range.loop, hu]
    · have h0 : next_chems = 0 := by omega
      obtain ⟨u1, u2⟩ := un h0
      subst h0 u1 u2
      simp [Table.ofFile, Table.toFile, File.add, taFile, File.i1, File.f1, File.f2, File.f3, File.names,
        File.dim, List.lookup, vI, vF, vF2]
  · by_cases hn : next_chems > 0
    · have hu := list13 _ [] (ul hn)
      simp [Table.ofFile, Table.toFile, File.add, taFile, File.i1, File.f1, File.f2, File.f3, File.names,
        File.dim, List.lookup, vI, vF, vF2, hn, userVars, List.range, List.range.loop, hu]
    · have h0 : next_chems = 0 := by omega
      obtain ⟨u1, u2⟩ := un h0
      subst h0 u1 u2
      simp [Table.ofFile, Table.toFile, File.add, taFile, File.i1, File.f1, File.f2, File.f3, File.names,
        File.dim, List.lookup, vI, vF, vF2]

end

section
variable [Num α]

theorem saveTable_some (pt : Nat) (chem : List String) (ps : List (Particle α)) (KT0 : List α) (t : Table α)
    (h : saveTable pt chem ps KT0 = some t) : t = mkTable pt chem ps KT0 := by
  unfold saveTable at h
  split at h
  · exact (Option.some.inj h).symm
  · cases h

theorem loadParticlesT_mkTable (pt : Nat) (hpt : pt ≤ 2) (chem ucomp : List String) (ps : List (Particle α))
    (ta : List (Cell α)) (hwf : ∀ p ∈ ps, ParticleWF pt chem ucomp (valF (at1 ta 0)) p) :
    loadParticlesT { mkTable pt chem ps (ps.map (·.K_T)) with Ta := ta } = (ps.map Particle.forget, chem) := by
  unfold loadParticlesT
  refine Prod.ext ?_ ?_
  · simp only
    apply List.ext_getElem
    · simp [mkTable]
    · intro i h1 h2
      have hi : i < ps.length := by simpa using h2
      simp only [List.getElem_map, List.getElem_range]
      exact loadParticleT_mkTable pt hpt chem ucomp ps ta i hi hwf
  · simp [mkTable]

theorem ParticleWF.ta_irrel {chem ucomp : List String} {Ta Ta' : α} {p : Particle α}
    (h : ParticleWF 0 chem ucomp Ta p) : ParticleWF 0 chem ucomp Ta' p :=
  ⟨h.dbm, h.canon, h.exit_pos, fun h0 => absurd h0 (by decide)⟩

theorem forget_K_T (ps : List (Particle α)) : (ps.map Particle.forget).map (·.K_T) = ps.map (·.K_T) := by
  rw [List.map_map]; rfl

/-- rows of the stored time column of the bent plume model -/
theorem col0_roundtrip (t : List α) :
    (List.range t.length).map (fun r => valF (at2 (t.map fun x => [some x]) r 0)) = t := by
  apply List.ext_getElem
  · simp
  · intro i h1 h2
    have hi : i < t.length := by simpa using h1
    simp [at2, hi, valF]

theorem tab_roundtrip (y : List (List α)) (nr nz nc : Nat) (hr : y.length = nr) (hz : nr ≤ nz)
    (hc : ∀ row ∈ y, row.length = nc) :
    tabulate2 nr nc (fun r c => valF (at2 (tabulate2 nz nc fun r c => (y[r]?).bind (·[c]?)) r c)) = y := by
  apply tabulate2_eq _ _ _ _ hr hc
  intro r c h1 h2
  have hcc : c < nc := by rw [← hc _ (List.getElem_mem h1)]; exact h2
  rw [at2_tabulate2 _ _ _ _ _ (by omega) hcc]
  simp [h1, h2, valF]

theorem zcol_roundtrip (zi zo : List α) :
    (List.range zi.length).map (fun r => valF (at2 ((List.range (Nat.max zi.length zo.length)).map fun r => [zi[r]?, zo[r]?]) r 0)) = zi ∧
    (List.range zo.length).map (fun r => valF (at2 ((List.range (Nat.max zi.length zo.length)).map fun r => [zi[r]?, zo[r]?]) r 1)) = zo := by
  constructor
  · apply List.ext_getElem
    · simp
    · intro i h1 h2
      have hi : i < zi.length := by simpa using h1
      have hm : i < Nat.max zi.length zo.length := Nat.lt_of_lt_of_le hi (Nat.le_max_left _ _)
      simp [at2, hi, hm, valF]
  · apply List.ext_getElem
    · simp
    · intro i h1 h2
      have hi : i < zo.length := by simpa using h1
      have hm : i < Nat.max zi.length zo.length := Nat.lt_of_lt_of_le hi (Nat.le_max_right _ _)
      simp [at2, hi, hm, valF]

end

section
variable [Num α]

theorem findUser_forget (ud : List (UserChem α)) (name : String) :
    findUser (ud.map UserChem.forget) name = (findUser ud name).map UserChem.forget := by
  induction ud with
  | nil => rfl
  | cons u us ih =>
    simp only [findUser, List.map_cons, List.find?] at ih ⊢
    have : (UserChem.forget u).name = u.name := rfl
    rw [this]
    cases h : (u.name == name)
    · simpa using ih
    · rfl

theorem userRow_forget (ucomp : List String) (k : Nat) (p : Particle α) :
    userRow ucomp k p.forget = userRow ucomp k p := by
  cases hd : p.dbm with
  | insol i => simp [userRow, Particle.forget, hd]
  | fluid f =>
    simp only [userRow, Particle.forget, hd, List.isEmpty_map, findUser_forget, Option.map_map]
    rfl

theorem userOk_forget (ucomp : List String) (p : Particle α) : userOk ucomp p.forget = userOk ucomp p := by
  cases hd : p.dbm with
  | insol i => simp [userOk, Particle.forget, hd]
  | fluid f =>
    simp only [userOk, Particle.forget, hd, List.isEmpty_map, findUser_forget, Option.isSome_map]

theorem m0Row_forget (n : Nat) (p : Particle α) : m0Row n p.forget = m0Row n p := by
  cases hd : p.dbm <;> simp [m0Row, Particle.forget, hd]

theorem m0Ok_forget (n : Nat) (p : Particle α) : m0Ok n p.forget = m0Ok n p := by
  cases hd : p.dbm <;> simp [m0Ok, Particle.forget, hd]

theorem dgBlock_forget (n m : Nat) (f : Fluid α) :
    dgBlock n m { f with delta := zeros f.composition.length f.composition.length,
                         user_data := f.user_data.map UserChem.forget } = dgBlock n m f := rfl

theorem userComposition_forget (ps : List (Particle α)) :
    userComposition (ps.map Particle.forget) = userComposition ps := by
  unfold userComposition
  rw [List.foldl_map]
  congr 1
  funext acc p
  cases hd : p.dbm with
  | insol i => simp [Particle.forget, hd]
  | fluid f => simp [Particle.forget, hd, UserChem.forget, Function.comp_def]

theorem map_forget_congr {β : Type} (ps : List (Particle α)) (g : Particle α → β)
    (h : ∀ p, g p.forget = g p) : (ps.map Particle.forget).map g = ps.map g := by
  rw [List.map_map]
  apply List.map_congr_left
  intro p _
  exact h p

theorem saveOk_forget (chem : List String) (ps : List (Particle α)) (KT0 : List α) :
    saveOk chem (ps.map Particle.forget) KT0 = saveOk chem ps KT0 := by
  simp only [saveOk, userComposition_forget, List.all_map, Function.comp_def, m0Ok_forget, userOk_forget,
    List.length_map]

theorem mkTable_forget (pt : Nat) (chem : List String) (ps : List (Particle α)) (KT0 : List α) :
    mkTable pt chem (ps.map Particle.forget) KT0 = mkTable pt chem ps KT0 := by
  have hdbm : ∀ (β : Type) (g : Fluid α → β) (h : Insol α → β),
      (∀ f : Fluid α, g { f with delta := zeros f.composition.length f.composition.length,
                                 user_data := f.user_data.map UserChem.forget } = g f) →
      (∀ i : Insol α, h { i with k_bio := 0, t_bio := 0, fp_type := 1 } = h i) →
      (ps.map Particle.forget).map (fun p => match p.dbm with | .fluid f => g f | .insol i => h i) =
        ps.map (fun p => match p.dbm with | .fluid f => g f | .insol i => h i) := by
    intro β g h hg hh
    apply map_forget_congr
    intro p
    cases hd : p.dbm with
    | insol i => simp [Particle.forget, hd, hh]
    | fluid f => simp [Particle.forget, hd, hg]
  simp only [mkTable, userComposition_forget, List.length_map]
  congr 1
  all_goals first
    | rfl
    | (apply hdbm <;> intros <;> first | rfl | simp)
    | (apply map_forget_congr; intro p; first | rfl | exact m0Row_forget _ p)
    | (split <;> first | rfl | (apply map_forget_congr; intro p; rfl))
    | skip
  simp only [List.map_map, Function.comp_def, userRow_forget]

/-- the writer does not look at the fields the file does not hold -/
theorem saveTable_forget (pt : Nat) (chem : List String) (ps : List (Particle α)) (KT0 : List α) :
    saveTable pt chem (ps.map Particle.forget) KT0 = saveTable pt chem ps KT0 := by
  simp only [saveTable, saveOk_forget, mkTable_forget]
end

theorem lookup_mapVal {β : Type} (l : List (String × β)) (g : String → β → β) (n : String) :
    (mapVal l g).lookup n = (l.lookup n).map (g n) := by
  induction l with
  | nil => rfl
  | cons e es ih =>
    obtain ⟨k, v⟩ := e
    simp only [mapVal, List.map_cons, List.lookup_cons] at ih ⊢
    by_cases h : n == k
    · have : n = k := by simpa using h
      subst this
      simp
    · simp only [h]
      exact ih

theorem lookup_append_single {β : Type} (l : List (String × β)) (k n : String) (b : β) :
    (l ++ [(k, b)]).lookup n = match l.lookup n with
      | some x => some x
      | none => if n == k then some b else none := by
  induction l with
  | nil => cases h : n == k <;> simp [List.lookup, h]
  | cons e es ih =>
    obtain ⟨k', v⟩ := e
    simp only [List.cons_append, List.lookup_cons]
    by_cases h : n == k'
    · simp [h]
    · simp only [h]
      exact ih

theorem lookup_setAttr_ne (as : List (String × AttrVal α)) (k n : String) (v : AttrVal α) (h : n ≠ k) :
    (setAttr as k v).lookup n = as.lookup n := by
  unfold setAttr
  have hb : (n == k) = false := by simpa using h
  split
  · have := lookup_mapVal as (fun key w => if key == k then v else w) n
    have hm : (as.map fun a => if (a.1 == k) = true then (k, v) else a) = mapVal as (fun key w => if key == k then v else w) := by
      unfold mapVal
      apply List.map_congr_left
      intro a _
      by_cases ha : a.1 == k
      · have : a.1 = k := by simpa using ha
        simp [ha, this]
      · simp [ha]
    rw [hm, this]
    cases as.lookup n <;> simp [hb]
  · rw [lookup_append_single]
    cases as.lookup n <;> simp [hb]

section
variable [Num α]

/-- variable `c.name` holds the column: its values and its units -/
def Holds (vars : List (String × Var α)) (c : Col α) : Prop :=
  ∃ v, vars.lookup c.name = some v ∧ v.data = .f1 (c.vals.map some) ∧ v.attrs.lookup "units" = some (.s c.units)

theorem fillVar_holds (vars vars' : List (String × Var α)) (c : Col α) (l s : String)
    (h : fillVar vars c l s = some vars') : Holds vars' c := by
  unfold fillVar at h
  cases hv : vars.lookup c.name with
  | none =>
    simp only [hv] at h
    cases h
    refine ⟨⟨"f8", ["z"], .f1 (c.vals.map some), va l s c.units ++ coordAttr ++ [("comment", .s c.comment)]⟩, ?_, rfl, ?_⟩
    · rw [lookup_append_single, hv]; simp
    · simp [va, coordAttr, List.lookup]
  | some v =>
    simp only [hv] at h
    cases hu : v.attrs.lookup "units" with
    | none => simp [hu] at h
    | some a =>
      cases a with
      | s u =>
        simp only [hu] at h
        by_cases he : u == c.units
        · simp only [he, if_true] at h
          cases h
          refine ⟨{ v with data := .f1 (c.vals.map some), attrs := setAttr v.attrs "comment" (.s c.comment) }, ?_, rfl, ?_⟩
          · rw [lookup_mapVal, hv]; simp
          · rw [lookup_setAttr_ne _ _ _ _ (by decide), hu]
            have : u = c.units := by simpa using he
            rw [this]
        · simp [he] at h
      | names x => simp [hu] at h
      | n x => simp [hu] at h
      | f x => simp [hu] at h

theorem fillVar_other (vars vars' : List (String × Var α)) (c : Col α) (l s n : String)
    (h : fillVar vars c l s = some vars') (hn : n ≠ c.name) : vars'.lookup n = vars.lookup n := by
  have hb : (n == c.name) = false := by simpa using hn
  unfold fillVar at h
  cases hv : vars.lookup c.name with
  | none =>
    simp only [hv] at h
    cases h
    rw [lookup_append_single]
    cases vars.lookup n <;> simp [hb]
  | some v =>
    simp only [hv] at h
    cases hu : v.attrs.lookup "units" with
    | none => simp [hu] at h
    | some a =>
      cases a with
      | s u =>
        simp only [hu] at h
        by_cases he : u == c.units
        · simp only [he, if_true] at h
          cases h
          rw [lookup_mapVal]
          cases vars.lookup n <;> simp [hb]
        · simp [he] at h
      | names x => simp [hu] at h
      | n x => simp [hu] at h
      | f x => simp [hu] at h

theorem holds_congr (vars vars' : List (String × Var α)) (c : Col α)
    (h : vars'.lookup c.name = vars.lookup c.name) (hc : Holds vars c) : Holds vars' c := by
  obtain ⟨v, h1, h2, h3⟩ := hc
  exact ⟨v, h.trans h1, h2, h3⟩

theorem fillCols_holds (cols : List (Col α)) (vars vars' : List (String × Var α))
    (h : fillCols vars cols = some vars') (hnd : (cols.map (·.name)).Nodup) :
    (∀ c ∈ cols, Holds vars' c) ∧ ∀ n, n ∉ cols.map (·.name) → vars'.lookup n = vars.lookup n := by
  induction cols generalizing vars with
  | nil =>
    simp only [fillCols, List.foldlM_nil] at h
    cases h
    exact ⟨by simp, fun _ _ => rfl⟩
  | cons c cs ih =>
    simp only [fillCols, List.foldlM_cons] at h
    cases h1 : fillVar vars c (pyCapitalize (stdName c.name)) (stdName c.name) with
    | none => simp [h1] at h
    | some v1 =>
      simp only [h1] at h
      simp only [List.map_cons, List.nodup_cons] at hnd
      obtain ⟨ihA, ihB⟩ := ih v1 h hnd.2
      constructor
      · intro d hd
        rcases List.mem_cons.mp hd with rfl | hd
        · exact holds_congr v1 vars' d (ihB _ hnd.1) (fillVar_holds _ _ _ _ _ h1)
        · exact ihA d hd
      · intro n hn
        simp only [List.map_cons, List.mem_cons, not_or] at hn
        rw [ihB n hn.2]
        exact fillVar_other _ _ _ _ _ n h1 hn.1

theorem setValid_holds (vars : List (String × Var α)) (z c : Col α) (hc : Holds vars c) :
    Holds (setValid vars z) c := by
  obtain ⟨v, h1, h2, h3⟩ := hc
  unfold setValid
  by_cases hk : c.name == z.name
  · refine ⟨{ v with attrs := setAttr (setAttr v.attrs "valid_min" (.f (minL z.vals))) "valid_max" (.f (maxL z.vals)) },
      by rw [lookup_mapVal, h1]; simp [hk], h2, ?_⟩
    rw [lookup_setAttr_ne _ _ _ _ (by decide), lookup_setAttr_ne _ _ _ _ (by decide)]
    exact h3
  · exact ⟨v, by rw [lookup_mapVal, h1]; simp [hk], h2, h3⟩

/-- reading a held column back -/
theorem loadCol_of_holds (f : File α) (c : Col α) (h : Holds f.vars c) :
    (c.name, f.vattrS c.name "units", (f.f1 c.name).map valF) = (c.name, c.units, c.vals) := by
  obtain ⟨v, h1, h2, h3⟩ := h
  rcases v with ⟨dt, dims, data, attrs⟩
  simp only at h2 h3
  subst h2
  simp only [File.vattrS, File.f1, h1, h3, map_valF_some]

end

section
variable [Num α]

/-- every particle of the list is well formed (see `ParticleWF`) -/
def ListWF (pt : Nat) (chem ucomp : List String) (Ta : α) (ps : List (Particle α)) : Prop :=
  ∀ p ∈ ps, ParticleWF pt chem ucomp Ta p

/-- the definition uses none of the fields the writer drops -/
def NoLoss (p : Particle α) : Prop := p.forget = p

theorem saveBpm_eq (h : Header) (s : Bpm α) (f : File α) (hs : saveBpm h s = some f) :
    ∃ c tbl, s.cj.getLast? = some c ∧ saveTable 2 s.chem_names s.particles s.K_T0 = some tbl ∧
      f = (header h).add ((bpmOwn s c).add (tbl.toFile 2)) := by
  unfold saveBpm at hs
  cases hc : s.cj.getLast? with
  | none => simp [hc] at hs
  | some c =>
    simp only [hc] at hs
    obtain ⟨tbl, h1, h2⟩ := Option.map_eq_some_iff.mp hs
    exact ⟨c, tbl, rfl, h1, h2.symm⟩

theorem forget_K_T' (p : Particle α) : p.forget.K_T = p.K_T := rfl

theorem list3 (X : List α) (h : X.length = 3) : [X[0]?.getD 0, X[1]?.getD 0, X[2]?.getD 0] = X := by
  match X, h with
  | [a, b, c], _ => rfl

theorem saveSpm_eq (h : Header) (s : Spm α) (f : File α) (hs : saveSpm h s = some f) :
    ∃ tbl, saveTable 1 s.chem_names s.particles s.K_T0 = some tbl ∧
      f = (header h).add ((spmOwn s).add (tbl.toFile 1)) := by
  unfold saveSpm at hs
  obtain ⟨tbl, h1, h2⟩ := Option.map_eq_some_iff.mp hs
  exact ⟨tbl, h1, h2.symm⟩

end

section
variable [Num α]

/-- a particle without the state a bent-plume particle carries (not part of its definition) -/
def Particle.noState (p : Particle α) : Particle α :=
  { p with integrate := false, tp := 0, xp := 0, yp := 0, zp := 0 }

theorem lagReset_forget (st : List (PState α)) (ps : List (Particle α)) :
    lagReset st (ps.map Particle.forget) = (lagReset st ps).map Particle.forget := by
  induction ps generalizing st with
  | nil => cases st <;> rfl
  | cons p ps ih =>
    cases st with
    | nil => rfl
    | cons s st => simp only [List.map_cons, lagReset, ih]; rfl

/-- `LagElement.update` followed by the restoration of `K_T` leaves everything but integrate, t, x, y, z -/
theorem lagReset_noState (st : List (PState α)) (ps : List (Particle α)) :
    (lagReset st ps).map Particle.noState = ps.map Particle.noState := by
  induction ps generalizing st with
  | nil => cases st <;> rfl
  | cons p ps ih =>
    cases st with
    | nil => rfl
    | cons s st => simp only [List.map_cons, lagReset, ih]; rfl

theorem lagReset_K_T (st : List (PState α)) (ps : List (Particle α)) :
    (lagReset st ps).map (·.K_T) = ps.map (·.K_T) := by
  induction ps generalizing st with
  | nil => cases st <;> rfl
  | cons p ps ih =>
    cases st with
    | nil => rfl
    | cons s st => simp only [List.map_cons, lagReset, ih]

end

/-! ### ℝ: helpers and the witnesses of the losses -/

theorem isZero_real (x : ℝ) : isZero x = decide (x = 0) := by
  unfold isZero
  simp only [Num.real_zero]
  by_cases h : x = 0
  · subst h; simp
  · have : ¬ (x ≤ 0 ∧ 0 ≤ x) := fun ⟨a, b⟩ => h (le_antisymm a b)
    simp [h, this]

theorem sum_map_div (l : List ℝ) (s : ℝ) : (l.map (· / s)).sum = l.sum / s := by
  induction l with
  | nil => simp
  | cons x xs ih => simp [ih, add_div]

theorem sum_zeros_row (m : Nat) : (List.replicate m (0 : ℝ)).sum = 0 := by simp

noncomputable def wUser : UserChem ℝ :=
  ⟨"methane", [0.016043, 4599000, 190.56, 9.86e-5, 111.66, 3.77e-5, 0.011, 2.2689e-7, 1575.558872, 3.47e-5,
               -0.009999, -41863.8, 0.000127], some 1e-6, some 100, some 1e-6, some 1e-8⟩

/-- FluidParticle(['methane','ethane'], delta=[[0,.05],[.05,0]], user_data={'methane': {…, 'k_bio': 1e-6,
    't_bio': 100, 'C_pen': 1e-6, 'C_pen_T': 1e-8}}) -/
noncomputable def wFluid : Fluid ℝ :=
  { composition := ["methane", "ethane"], fp_type := 0, isair := false, sigma := 1, calc_delta := -1,
    delta_groups := zeros 2 15, delta := [[0, 0.05], [0.05, 0]], user_data := [wUser] }

noncomputable def wBase (d : Dbm ℝ) (m0 : List ℝ) (lag : Bool) : Particle ℝ :=
  { dbm := d, m0 := m0, T0 := 290, K := 1, K_T := 1, fdis := 1e-6, t_hyd := 0, lag_time := lag,
    nb0 := 0, lambda_1 := 0, nbe := 0, integrate := false, sim_stored := false, farfield := false,
    tp := 0, xp := 0, yp := 0, zp := 0, exit := none }

/-- SingleParticle(wFluid, [1e-6, 1e-6], 290., lag_time=False) -/
noncomputable def wP : Particle ℝ := wBase (.fluid wFluid) [1e-6, 1e-6] false

/-- SingleParticle(InsolubleParticle(True, False, rho_p=900., k_bio=1e-5, t_bio=50., fp_type=0), [1e-5], 290.) -/
noncomputable def wI : Particle ℝ := wBase (.insol ⟨true, false, 900, 30, 7e-4, 2.9e-9, 1e-5, 50, 0⟩) [1e-5] true


end TamocV.Lemmas.C18
