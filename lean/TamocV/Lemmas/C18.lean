/-
  Helper lemmas for C18 (TamocV/Props/C18.lean): list/table round trips, the name-by-name
  read-back of the particle table from each model's file, the user-composition fold.
-/
import TamocV.Model.SaveLoad
import Mathlib.Data.List.Basic
import Mathlib.Data.List.Nodup
set_option linter.unusedSimpArgs false
set_option linter.unusedVariables false
set_option linter.unusedSectionVars false
namespace TamocV.Lemmas.C18
open TamocV.Model.SaveLoad
variable {α β γ : Type}

theorem at1_map (l : List γ) (g : γ → Cell β) (i : Nat) : at1 (l.map g) i = (l[i]?).bind g := by
  unfold at1
  rw [List.getElem?_map]
  cases l[i]? <;> simp

theorem at1_map_some (l : List γ) (g : γ → β) (i : Nat) (h : i < l.length) :
    at1 (l.map fun p => some (g p)) i = some (g l[i]) := by
  rw [at1_map, List.getElem?_eq_getElem h]; rfl

theorem at1_singleton (x : Cell β) : at1 [x] 0 = x := by simp [at1]

theorem at2_tabulate2 (nr nc : Nat) (g : Nat → Nat → Cell β) (r c : Nat) (hr : r < nr) (hc : c < nc) :
    at2 (tabulate2 nr nc g) r c = g r c := by
  unfold at2 tabulate2
  simp [hr, hc]

theorem range_map_getD (l : List β) (n : Nat) (d : β) (h : l.length = n) :
    (List.range n).map (fun k => l.getD k d) = l := by
  subst h
  apply List.ext_getElem
  · simp
  · intro i h1 h2
    simp at h1
    simp [List.getD, h1]

/-- a table given element-wise by the entries of a rectangular list of rows is that list -/
theorem tabulate2_eq (y : List (List β)) (nr nc : Nat) (g : Nat → Nat → β)
    (hr : y.length = nr) (hc : ∀ row ∈ y, row.length = nc)
    (hg : ∀ r c (h : r < y.length) (h2 : c < y[r].length), g r c = y[r][c]) :
    tabulate2 nr nc g = y := by
  subst hr
  unfold tabulate2
  apply List.ext_getElem
  · simp
  · intro r h1 h2
    have hrow : y[r].length = nc := hc _ (List.getElem_mem h2)
    simp only [List.getElem_map, List.getElem_range]
    apply List.ext_getElem
    · simp [hrow]
    · intro c h3 h4
      simp only [List.getElem_map, List.getElem_range]
      exact hg r c h2 h4

theorem at1_map_get (l : List γ) (g : γ → Cell β) (i : Nat) (h : i < l.length) :
    at1 (l.map g) i = g l[i] := by
  unfold at1
  rw [List.getElem?_map, List.getElem?_eq_getElem h]; rfl

theorem findUser_nodup [Num α] (ud : List (UserChem α)) (hn : (ud.map (·.name)).Nodup)
    (j : Nat) (h : j < ud.length) : findUser ud (ud[j].name) = some ud[j] := by
  induction ud generalizing j with
  | nil => simp at h
  | cons u us ih =>
    simp only [List.map_cons, List.nodup_cons] at hn
    cases j with
    | zero => simp [findUser, List.find?]
    | succ j =>
      have hj : j < us.length := by simpa using h
      have hne : u.name ≠ us[j].name := by
        intro he
        apply hn.1
        rw [he]
        exact List.mem_map_of_mem (List.getElem_mem hj)
      have : (u.name == us[j].name) = false := by simpa using hne
      simp only [findUser, List.find?, List.getElem_cons_succ, this]
      exact ih hn.2 j hj

section
variable [Num α]

/-- invariant of the fold that picks the user composition -/
theorem userComposition_inv (ucomp : List String) (ps : List (Particle α))
    (hk : ∀ p ∈ ps, ∀ f, p.dbm = .fluid f → f.user_data = [] ∨ f.user_data.map (·.name) = ucomp) :
    userComposition ps = (ucomp.length, ucomp) ∨
      (userComposition ps = (0, []) ∧ ∀ p ∈ ps, ∀ f, p.dbm = .fluid f → f.user_data = []) := by
  unfold userComposition
  suffices H : ∀ (acc : Nat × List String), (acc = (ucomp.length, ucomp) ∨ acc = (0, [])) →
      (ps.foldl (fun acc p => match p.dbm with
        | .fluid f => if f.user_data.length > acc.1 then (f.user_data.length, f.user_data.map (·.name)) else acc
        | .insol _ => acc) acc = (ucomp.length, ucomp)) ∨
      (ps.foldl (fun acc p => match p.dbm with
        | .fluid f => if f.user_data.length > acc.1 then (f.user_data.length, f.user_data.map (·.name)) else acc
        | .insol _ => acc) acc = acc ∧ acc = (0, []) ∧ ∀ p ∈ ps, ∀ f, p.dbm = .fluid f → f.user_data = []) by
    rcases H (0, []) (Or.inr rfl) with h | ⟨h1, _, h3⟩
    · exact Or.inl h
    · exact Or.inr ⟨h1, h3⟩
  induction ps with
  | nil =>
    intro acc hacc
    rcases hacc with h | h
    · exact Or.inl (by simpa using h)
    · exact Or.inr ⟨rfl, h, by simp⟩
  | cons p ps ih =>
    intro acc hacc
    have hk' : ∀ q ∈ ps, ∀ f, q.dbm = .fluid f → f.user_data = [] ∨ f.user_data.map (·.name) = ucomp :=
      fun q hq => hk q (List.mem_cons_of_mem _ hq)
    simp only [List.foldl_cons]
    cases hd : p.dbm with
    | insol i =>
      simp only
      rcases ih hk' acc hacc with h | ⟨h1, h2, h3⟩
      · exact Or.inl h
      · refine Or.inr ⟨h1, h2, ?_⟩
        intro q hq f hf
        rcases List.mem_cons.mp hq with rfl | hq
        · rw [hd] at hf; cases hf
        · exact h3 q hq f hf
    | fluid f =>
      simp only
      rcases hk p (List.mem_cons_self) f hd with he | hn
      · -- no user data: the accumulator is unchanged
        have : ¬ (f.user_data.length > acc.1) := by simp [he]
        simp only [this, if_false]
        rcases ih hk' acc hacc with h | ⟨h1, h2, h3⟩
        · exact Or.inl h
        · refine Or.inr ⟨h1, h2, ?_⟩
          intro q hq g hg
          rcases List.mem_cons.mp hq with rfl | hq
          · rw [hd] at hg; cases hg; exact he
          · exact h3 q hq g hg
      · have hl : f.user_data.length = ucomp.length := by rw [← hn]; simp
        rcases hacc with ha | ha
        · -- accumulator already holds ucomp: same length, not replaced
          have : ¬ (f.user_data.length > acc.1) := by rw [ha, hl]; simp
          simp only [this, if_false]
          rcases ih hk' acc (Or.inl ha) with h | ⟨h1, h2, h3⟩
          · exact Or.inl h
          · exact Or.inl (by rw [h1, ha])
        · by_cases hz : f.user_data.length > acc.1
          · simp only [hz, if_true]
            rcases ih hk' (f.user_data.length, f.user_data.map (·.name)) (Or.inl (by rw [hl, hn])) with h | ⟨h1, h2, h3⟩
            · exact Or.inl h
            · exact Or.inl (by rw [h1, hl, hn])
          · simp only [hz, if_false]
            have h0 : f.user_data = [] := by
              rw [ha] at hz
              simpa using hz
            rcases ih hk' acc (Or.inr ha) with h | ⟨h1, h2, h3⟩
            · exact Or.inl h
            · refine Or.inr ⟨h1, h2, ?_⟩
              intro q hq g hg
              rcases List.mem_cons.mp hq with rfl | hq
              · rw [hd] at hg; cases hg; exact h0
              · exact h3 q hq g hg
end

section
variable [Num α]
structure TableOK (pt : Nat) (t : Table α) : Prop where
  user_len : t.next_chems > 0 → t.user.length = 13
  user_nil : t.next_chems = 0 → t.user = [] ∧ t.user_composition = []
  plume_nil : pt = 0 → t.nb0 = [] ∧ t.lambda_1 = []
  bent_nil : pt ≠ 2 → t.nbe = [] ∧ t.integrate = [] ∧ t.sim_stored = [] ∧ t.farfield = [] ∧ t.tp = [] ∧
    t.xp = [] ∧ t.yp = [] ∧ t.zp = [] ∧ t.te = [] ∧ t.xe = [] ∧ t.ye = [] ∧ t.ze = []
  ta : t.Ta = []

theorem list13 {β : Type} (l : List β) (d : β) (h : l.length = 13) :
    [l[0]?.getD d, l[1]?.getD d, l[2]?.getD d, l[3]?.getD d, l[4]?.getD d, l[5]?.getD d, l[6]?.getD d, l[7]?.getD d,
     l[8]?.getD d, l[9]?.getD d, l[10]?.getD d, l[11]?.getD d, l[12]?.getD d] = l := by
  match l, h with
  | [a0,a1,a2,a3,a4,a5,a6,a7,a8,a9,a10,a11,a12], _ => rfl

theorem ofFile_sbm (h : Header) (s : Sbm α) (t : Table α) (ok : TableOK 0 t) :
    Table.ofFile ((header h).add ((sbmOwn s).add (t.toFile 0))) = t := by
  obtain ⟨ul, un, pn, bn, ta⟩ := ok
  have pn := pn rfl
  have bn := bn (by decide)
  rcases t with ⟨composition, user_composition, nparticles, nchems, next_chems, particle_type, issoluble, isair, isfluid, iscompressible, calc_delta, extern_data, fp_type, rho_p, gamma, beta, co, sigma_correction, delta_groups, m0, T0, K, K_T, fdis, t_hyd, nb0, lambda_1, nbe, integrate, sim_stored, farfield, tp, xp, yp, zp, te, xe, ye, ze, user, Ta⟩
  simp only at ul un pn bn ta
  by_cases hn : next_chems > 0
  · have hu := list13 _ [] (ul hn)
    obtain ⟨p1, p2⟩ := pn
    obtain ⟨b1, b2, b3, b4, b5, b6, b7, b8, b9, b10, b11, b12⟩ := bn
    subst p1 p2 b1 b2 b3 b4 b5 b6 b7 b8 b9 b10 b11 b12 ta
    simp [Table.ofFile, Table.toFile, File.add, header, sbmOwn, File.i1, File.f1, File.f2, File.f3, File.names,
      File.dim, List.lookup, vI, vF, vF2, hn, userVars, List.range, List.range.loop, hu]
  · have h0 : next_chems = 0 := by omega
    obtain ⟨u1, u2⟩ := un h0
    obtain ⟨p1, p2⟩ := pn
    obtain ⟨b1, b2, b3, b4, b5, b6, b7, b8, b9, b10, b11, b12⟩ := bn
    subst h0 u1 u2 p1 p2 b1 b2 b3 b4 b5 b6 b7 b8 b9 b10 b11 b12 ta
    simp [Table.ofFile, Table.toFile, File.add, header, sbmOwn, File.i1, File.f1, File.f2, File.f3, File.names,
      File.dim, List.lookup, vI, vF, vF2]
end

section
variable [Num α]

theorem saveSbm_eq (h : Header) (s : Sbm α) (f : File α) (hs : saveSbm h s = some f) :
    ∃ tbl, saveTable 0 s.composition [s.particle] [s.K_T0] = some tbl ∧
      f = (header h).add ((sbmOwn s).add (tbl.toFile 0)) := by
  unfold saveSbm at hs
  obtain ⟨tbl, h1, h2⟩ := Option.map_eq_some_iff.mp hs
  exact ⟨tbl, h1, h2.symm⟩

theorem sbm_arrays (h : Header) (s : Sbm α) (f : File α) (hs : saveSbm h s = some f)
    (hy : ∀ row ∈ s.y, row.length = (s.y.headD []).length) (hlen : s.y.length = s.t.length) :
    (loadSbm f).t = s.t ∧ (loadSbm f).y = s.y ∧ (loadSbm f).K_T0 = s.K_T0 ∧ (loadSbm f).delta_t = s.delta_t := by
  obtain ⟨tbl, _, rfl⟩ := saveSbm_eq h s f hs
  have ht : (List.map valF (List.map some s.t)) = s.t := by
    rw [List.map_map]; simp [Function.comp_def, valF]
  refine ⟨?_, ?_, ?_, ?_⟩
  · simp [loadSbm, sbmOwn, File.f1, File.add, header, vF, vF2, List.lookup, ht]
  · have hf1 : File.f1 ((header h).add ((sbmOwn s).add (Table.toFile 0 tbl))) "t" = s.t.map some := by
      simp [sbmOwn, File.f1, File.add, header, vF, vF2, List.lookup]
    have hf2 : File.f2 ((header h).add ((sbmOwn s).add (Table.toFile 0 tbl))) "y" =
        tabulate2 s.t.length (s.y.headD []).length fun r c => (s.y[r]?).bind (·[c]?) := by
      simp [sbmOwn, File.f2, File.add, header, vF, vF2, List.lookup]
    have hd : File.dim ((header h).add ((sbmOwn s).add (Table.toFile 0 tbl))) "ns" = (s.y.headD []).length := by
      simp [sbmOwn, File.dim, File.add, header, List.lookup]
    simp only [loadSbm, hf1, hf2, hd, ht]
    apply tabulate2_eq _ _ _ _ hlen hy
    intro r c h1 h2
    have hc : c < (s.y.headD []).length := by rw [← hy _ (List.getElem_mem h1)]; exact h2
    rw [at2_tabulate2 _ _ _ _ _ (hlen ▸ h1) hc]
    simp [h1, h2, valF]
  · simp [loadSbm, sbmOwn, File.f1, File.add, header, vF, vF2, List.lookup, at1, valF]
  · simp [loadSbm, sbmOwn, File.f1, File.add, header, vF, vF2, List.lookup, at1, valF]
end

end TamocV.Lemmas.C18
