import TamocV.Model.SaveLoad
namespace TamocV.Lemmas.C18
end TamocV.Lemmas.C18
