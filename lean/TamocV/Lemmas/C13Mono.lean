/-
  Helper lemmas for the remaining analytic claims of C13: monotonicity of the EOS-80 density in salinity
  (finite-difference form through u = √S), decrease of the Sharqawy viscosity with temperature,
  grouped form and bounds of the hot-water (T ≥ 40 °C) density polynomial.
-/
import TamocV.Real
import TamocV.Lemmas.Basic
import TamocV.Lemmas.C20
import TamocV.Lemmas.C13
import TamocV.Gen.SeawaterPy
import Mathlib.Tactic.Ring
import Mathlib.Tactic.NormNum
import Mathlib.Tactic.Linarith
import Mathlib.Tactic.Positivity
import Mathlib.Tactic.FieldSimp
import Mathlib.Analysis.SpecialFunctions.Pow.Real
import Mathlib.Analysis.SpecialFunctions.Sqrt

set_option linter.unusedSimpArgs false
set_option linter.unusedVariables false

namespace TamocV.Lemmas.C13Mono
open TamocV.Gen TamocV.Lemmas.C20 TamocV.Lemmas.C13

/-! ### S^(3/2) through u = √S -/

theorem s32_eq (S : ℝ) (h : 0 ≤ S) : S ^ ((3.0:ℝ)/2.0) = (Real.sqrt S)^3 := by
  rw [Real.sqrt_eq_rpow, ← Real.rpow_natCast, ← Real.rpow_mul h]
  norm_num

theorem cube_diff_le (u1 u2 : ℝ) (h1 : 0 ≤ u1) (h12 : u1 ≤ u2) :
    u2^3 - u1^3 ≤ 1.5 * u2 * (u2^2 - u1^2) := by
  have : 1.5 * u2 * (u2^2 - u1^2) - (u2^3 - u1^3) = (u2 - u1)^2 * (0.5 * u2 + u1) := by ring
  have h2 : 0 ≤ (u2 - u1)^2 * (0.5 * u2 + u1) := by
    apply mul_nonneg (sq_nonneg _); linarith
  linarith

/-- finite-difference bound for S ↦ S^(3/2) on [0, 42] -/
theorem s32_diff (S1 S2 : ℝ) (h0 : 0 ≤ S1) (h12 : S1 ≤ S2) (h2 : S2 ≤ 42) :
    0 ≤ S2 ^ ((3.0:ℝ)/2.0) - S1 ^ ((3.0:ℝ)/2.0) ∧
    S2 ^ ((3.0:ℝ)/2.0) - S1 ^ ((3.0:ℝ)/2.0) ≤ 9.75 * (S2 - S1) := by
  have h02 : 0 ≤ S2 := le_trans h0 h12
  rw [s32_eq S1 h0, s32_eq S2 h02]
  have hu1 : 0 ≤ Real.sqrt S1 := Real.sqrt_nonneg _
  have hu12 : Real.sqrt S1 ≤ Real.sqrt S2 := Real.sqrt_le_sqrt h12
  have e1 : (Real.sqrt S1)^2 = S1 := Real.sq_sqrt h0
  have e2 : (Real.sqrt S2)^2 = S2 := Real.sq_sqrt h02
  have hu2 : Real.sqrt S2 ≤ 6.5 := by
    rw [show (6.5:ℝ) = Real.sqrt (6.5^2) by rw [Real.sqrt_sq (by norm_num)]]
    apply Real.sqrt_le_sqrt; norm_num; linarith
  constructor
  · have := pow_le_pow_left₀ hu1 hu12 3
    linarith
  · have h := cube_diff_le _ _ hu1 hu12
    rw [e1, e2] at h
    have hd : 0 ≤ S2 - S1 := by linarith
    have : 1.5 * Real.sqrt S2 * (S2 - S1) ≤ 9.75 * (S2 - S1) := by
      apply mul_le_mul_of_nonneg_right _ hd; linarith
    linarith

noncomputable def n1 (t : ℝ) : ℝ :=
  0.824493 - 0.0040899 * t + 0.000076438 * t^2 - 0.00000082467 * t^3 + 0.0000000053875 * t^4

noncomputable def n32 (t : ℝ) : ℝ := -0.00572466 + 0.00010227 * t - 0.0000016546 * t^2

noncomputable def Ww (t : ℝ) : ℝ :=
  999.842594 + 0.06793952 * t - 0.00909529 * t^2 + 0.0001001685 * t^3 - 0.000001120083 * t^4
    + 0.000000006536332 * t^5

theorem N0_form (t S s : ℝ) : N0 t S s = Ww t + S * n1 t + s * n32 t + 0.00048314 * S^2 := by
  unfold N0 Ww n1 n32; ring

theorem n1_lb (t : ℝ) (h1 : -2.15 ≤ t) (h2 : t ≤ 40) : 0.72 ≤ n1 t := by
  unfold n1
  have a : 0 ≤ t + 2.15 := by linarith
  have b : 0 ≤ 40 - t := by linarith
  nlinarith [mul_nonneg a b, mul_nonneg (mul_nonneg a b) a, mul_nonneg (mul_nonneg a b) b,
    mul_nonneg (mul_nonneg a b) (sq_nonneg t), sq_nonneg t, sq_nonneg (t - 20), sq_nonneg (t-40),
    mul_nonneg (mul_nonneg a a) (mul_nonneg b b)]

theorem n1_ub (t : ℝ) (h1 : -2.15 ≤ t) (h2 : t ≤ 40) : n1 t ≤ 0.84 := by
  unfold n1
  have a : 0 ≤ t + 2.15 := by linarith
  have b : 0 ≤ 40 - t := by linarith
  nlinarith [mul_nonneg a b, mul_nonneg (mul_nonneg a b) a, mul_nonneg (mul_nonneg a b) b,
    mul_nonneg (mul_nonneg a b) (sq_nonneg t), sq_nonneg t, sq_nonneg (t - 20), sq_nonneg (t-40),
    mul_nonneg (mul_nonneg a a) (mul_nonneg b b)]

theorem n32_lb (t : ℝ) (h1 : -2.15 ≤ t) (h2 : t ≤ 40) : -0.006 ≤ n32 t := by
  unfold n32
  have a : 0 ≤ t + 2.15 := by linarith
  have b : 0 ≤ 40 - t := by linarith
  nlinarith [mul_nonneg a b, sq_nonneg (t - 30)]

theorem n32_ub (t : ℝ) (h1 : -2.15 ≤ t) (h2 : t ≤ 40) : n32 t ≤ 0 := by
  unfold n32
  nlinarith [sq_nonneg (t - 30)]

theorem Ww_ub (t : ℝ) (h1 : -2.15 ≤ t) (h2 : t ≤ 40) : Ww t ≤ 1001 := by
  unfold Ww
  have a : 0 ≤ t + 2.15 := by linarith
  have b : 0 ≤ 40 - t := by linarith
  nlinarith [mul_nonneg a b, mul_nonneg (mul_nonneg a b) a, mul_nonneg (mul_nonneg a b) b,
      mul_nonneg (mul_nonneg a b) (sq_nonneg t), mul_nonneg (mul_nonneg (mul_nonneg a b) (sq_nonneg t)) a,
      mul_nonneg (mul_nonneg (mul_nonneg a b) (sq_nonneg t)) b, sq_nonneg t, sq_nonneg (t - 20)]

theorem N0_ub (t S s : ℝ) (h1 : -2.15 ≤ t) (h2 : t ≤ 40) (hS0 : 0 ≤ S) (hS1 : S ≤ 42) (hs0 : 0 ≤ s) :
    N0 t S s ≤ 1100 := by
  rw [N0_form]
  have := Ww_ub t h1 h2
  have e1 : S * n1 t ≤ 42 * 0.84 := by
    have := n1_ub t h1 h2
    have := n1_lb t h1 h2
    apply mul_le_mul hS1 ‹_› (by linarith) (by norm_num)
  have e2 : s * n32 t ≤ 0 := mul_nonpos_of_nonneg_of_nonpos hs0 (n32_ub t h1 h2)
  have e3 : S^2 ≤ 42^2 := pow_le_pow_left₀ hS0 hS1 2
  linarith

theorem N0_diff_lb (t S1 S2 s1 s2 : ℝ) (h1 : -2.15 ≤ t) (h2 : t ≤ 40) (hS0 : 0 ≤ S1) (h12 : S1 ≤ S2)
    (hs0 : 0 ≤ s2 - s1) (hs1 : s2 - s1 ≤ 9.75 * (S2 - S1)) :
    0.66 * (S2 - S1) ≤ N0 t S2 s2 - N0 t S1 s1 := by
  rw [N0_form, N0_form]
  have hd : 0 ≤ S2 - S1 := by linarith
  have e1 : 0.72 * (S2 - S1) ≤ (S2 - S1) * n1 t := by
    have := mul_le_mul_of_nonneg_left (n1_lb t h1 h2) hd; linarith
  have e2 : -0.006 * (s2 - s1) ≤ (s2 - s1) * n32 t := by
    have := mul_le_mul_of_nonneg_left (n32_lb t h1 h2) hs0; linarith
  have e3 : 0 ≤ S2^2 - S1^2 := by
    have := pow_le_pow_left₀ hS0 h12 2; linarith
  nlinarith

/-- the secant bulk modulus at pressure p (bar) in grouped form -/
noncomputable def Kp (t S s p : ℝ) : ℝ := K0 t S s + KA t S s * p + KB t S * (p * p)

theorem k1_ub (t : ℝ) (h1 : -2.15 ≤ t) (h2 : t ≤ 40) : k1 t ≤ 57 := by
  unfold k1
  have a : 0 ≤ t + 2.15 := by linarith
  have b : 0 ≤ 40 - t := by linarith
  nlinarith [mul_nonneg a b, mul_nonneg (mul_nonneg a b) a, mul_nonneg (mul_nonneg a b) b, sq_nonneg (t - 20), sq_nonneg t]

theorem k2_ub (t : ℝ) : k2 t ≤ 0.21 := by
  unfold k2
  nlinarith [sq_nonneg (t - 15.5)]

theorem a1_ub (t : ℝ) (h1 : -2.15 ≤ t) (h2 : t ≤ 40) : a1 t ≤ 0.0024 := by
  unfold a1
  have a : 0 ≤ t + 2.15 := by linarith
  have b : 0 ≤ 40 - t := by linarith
  nlinarith [mul_nonneg a b, sq_nonneg t]

theorem Kp_diff_ub (t S1 S2 s1 s2 p : ℝ) (h1 : -2.15 ≤ t) (h2 : t ≤ 40) (h12 : S1 ≤ S2)
    (hs0 : 0 ≤ s2 - s1) (hs1 : s2 - s1 ≤ 9.75 * (S2 - S1)) (hp0 : 0 ≤ p) (hp1 : p ≤ 1100) :
    Kp t S2 s2 p - Kp t S1 s1 p ≤ 70 * (S2 - S1) := by
  have hd : 0 ≤ S2 - S1 := by linarith
  have hform : Kp t S2 s2 p - Kp t S1 s1 p =
      (S2 - S1) * (k1 t + p * a1 t + (p * p) * b1 t) + (s2 - s1) * (k2 t + 0.000191075 * p) := by
    unfold Kp K0 KA KB; ring
  rw [hform]
  have hpp0 : 0 ≤ p * p := mul_nonneg hp0 hp0
  have hpp1 : p * p ≤ 1100 * 1100 := mul_le_mul hp1 hp1 hp0 (by norm_num)
  have e1 : p * a1 t ≤ 1100 * 0.0024 := by
    have := a1_ub t h1 h2
    nlinarith
  have e2 : (p * p) * b1 t ≤ 1100 * 1100 * 0.0000014 := by
    have := b1_ub t h1 h2
    nlinarith
  have e3 : k1 t + p * a1 t + (p * p) * b1 t ≤ 61.4 := by
    have := k1_ub t h1 h2; linarith
  have e4 : k2 t + 0.000191075 * p ≤ 0.43 := by
    have := k2_ub t; linarith
  have f1 : (S2 - S1) * (k1 t + p * a1 t + (p * p) * b1 t) ≤ (S2 - S1) * 61.4 :=
    mul_le_mul_of_nonneg_left e3 hd
  have f2 : (s2 - s1) * (k2 t + 0.000191075 * p) ≤ (s2 - s1) * 0.43 :=
    mul_le_mul_of_nonneg_left e4 hs0
  nlinarith

/-- the core inequality: d/dS of N·K/(K − p) > 0 in finite-difference form -/
theorem core_ineq (N1 N2 K1 K2 p d : ℝ) (hd : 0 < d) (hp0 : 0 ≤ p) (hp1 : p ≤ 1100)
    (hN : 0.66 * d ≤ N2 - N1) (hN2 : N2 ≤ 1100) (hN2p : 0 ≤ N2) (hK : K2 - K1 ≤ 70 * d)
    (hK1 : 19200 + 3 * p ≤ K1) (hK2 : 19200 + 3 * p ≤ K2) :
    N1 * K1 * (K2 - p) < N2 * K2 * (K1 - p) := by
  have hid : N2 * K2 * (K1 - p) - N1 * K1 * (K2 - p) = (N2 - N1) * (K1 * (K2 - p)) - (p * N2) * (K2 - K1) := by
    ring
  have hK1' : 19200 ≤ K1 := by linarith
  have hK2' : 19200 ≤ K2 - p := by linarith
  have g1 : 19200 * 19200 ≤ K1 * (K2 - p) := mul_le_mul hK1' hK2' (by norm_num) (by linarith)
  have g2 : 0.66 * d * (19200 * 19200) ≤ (N2 - N1) * (K1 * (K2 - p)) :=
    mul_le_mul hN g1 (by norm_num) (by linarith)
  have g3 : p * N2 ≤ 1100 * 1100 := mul_le_mul hp1 hN2 hN2p (by norm_num)
  have g4 : (p * N2) * (K2 - K1) ≤ (p * N2) * (70 * d) :=
    mul_le_mul_of_nonneg_left hK (mul_nonneg hp0 hN2p)
  have g5 : (p * N2) * (70 * d) ≤ (1100 * 1100) * (70 * d) :=
    mul_le_mul_of_nonneg_right g3 (by linarith)
  nlinarith

theorem frac_lt (N1 N2 K1 K2 p : ℝ) (hK1 : p < K1) (hK2 : p < K2) (hp : 0 ≤ p)
    (h : N1 * K1 * (K2 - p) < N2 * K2 * (K1 - p)) :
    N1 / (1 - p / K1) < N2 / (1 - p / K2) := by
  have hK1p : 0 < K1 := lt_of_le_of_lt hp hK1
  have hK2p : 0 < K2 := lt_of_le_of_lt hp hK2
  have hd1 : 0 < K1 - p := by linarith
  have hd2 : 0 < K2 - p := by linarith
  have e1 : N1 / (1 - p / K1) = N1 * K1 / (K1 - p) := by field_simp
  have e2 : N2 / (1 - p / K2) = N2 * K2 / (K2 - p) := by field_simp
  rw [e1, e2, div_lt_div_iff₀ hd1 hd2]
  exact h

/-! ### viscosity -/

noncomputable def qq (t : ℝ) : ℝ := 0.15700386464 * (t + 64.99262005) ^ 2 + -91.296496657
noncomputable def muw (t : ℝ) : ℝ := 0.000042844324477 + 1.0 / qq t
noncomputable def AA (t : ℝ) : ℝ := 1.540913604 + 0.019981117208 * t + -0.000095203865864 * t ^ 2
noncomputable def BB (t : ℝ) : ℝ := 7.9739318223 + -0.075614568881 * t + 0.00047237011074 * t ^ 2
noncomputable def FF (t s : ℝ) : ℝ := 1.0 + AA t * s + BB t * s ^ 2
noncomputable def GG (P : ℝ) : ℝ :=
  0.9994 + 0.000040295 * (P * 0.00014503773800721815) + 0.0000000031062 * (P * 0.00014503773800721815) ^ 2
/-- divided difference of `FF` in t -/
noncomputable def DD (σ s : ℝ) : ℝ :=
  s * (0.019981117208 - 0.000095203865864 * σ) + s ^ 2 * (-0.075614568881 + 0.00047237011074 * σ)

theorem mu_grouped (T S P : ℝ) :
    SeawaterPy.mu T S P = muw (T - 273.15) * FF (T - 273.15) (S / 1000.0) * GG P := by
  simp only [SeawaterPy.mu, Num.real_ofSci, Num.real_ofNat, Num.real_one, Num.real_zero, Num.real_npow,
    muw, qq, AA, BB, FF, GG]

theorem GG_pos (P : ℝ) (hP : 0 ≤ P) : 0 < GG P := by unfold GG; positivity

theorem qq_bounds (t : ℝ) (h0 : -2.15 ≤ t) (h1 : t ≤ 100) : 500 ≤ qq t ∧ qq t ≤ 4200 := by
  unfold qq
  have a : 0 ≤ t + 2.15 := by linarith
  have b : 0 ≤ 100 - t := by linarith
  constructor
  · nlinarith [mul_nonneg a a]
  · nlinarith [mul_nonneg a b]

theorem qq_diff (t1 t2 : ℝ) :
    qq t2 = qq t1 + (t2 - t1) * (0.15700386464 * (t1 + t2 + 2 * 64.99262005)) := by
  unfold qq; ring

theorem FF_diff (t1 t2 s : ℝ) : FF t2 s = FF t1 s + (t2 - t1) * DD (t1 + t2) s := by
  unfold FF AA BB DD; ring

theorem FF_ge_one (t s : ℝ) (h0 : -2.15 ≤ t) (h1 : t ≤ 100) (hs : 0 ≤ s) : 1 ≤ FF t s := by
  unfold FF
  have hA : 0 ≤ AA t := by
    unfold AA
    nlinarith [mul_nonneg (by linarith : (0:ℝ) ≤ t + 2.15) (by linarith : (0:ℝ) ≤ 100 - t)]
  have hB : 0 ≤ BB t := by
    unfold BB
    nlinarith [sq_nonneg (t - 80)]
  have := mul_nonneg hA hs
  have := mul_nonneg hB (sq_nonneg s)
  linarith

theorem DD_ub (σ s : ℝ) (h0 : -4.3 ≤ σ) (h1 : σ ≤ 200) (hs0 : 0 ≤ s) (hs1 : s ≤ 0.042) : DD σ s ≤ 0.001 := by
  unfold DD
  have c1 : 0.019981117208 - 0.000095203865864 * σ ≤ 0.0204 := by linarith
  have c0 : 0 ≤ 0.019981117208 - 0.000095203865864 * σ := by linarith
  have e1 : s * (0.019981117208 - 0.000095203865864 * σ) ≤ 0.042 * 0.0204 :=
    mul_le_mul hs1 c1 c0 (by norm_num)
  have hss : s ^ 2 ≤ 0.001764 := by nlinarith
  have e2 : s ^ 2 * (-0.075614568881 + 0.00047237011074 * σ) ≤ s ^ 2 * 0.019 :=
    mul_le_mul_of_nonneg_left (by linarith) (sq_nonneg s)
  nlinarith

theorem mu_frac (a3 q1 q2 F1 F2 : ℝ) (hq1 : 0 < q1) (hq2 : 0 < q2)
    (h : F2 * q1 * (1 + a3 * q2) < F1 * q2 * (1 + a3 * q1)) :
    (a3 + 1.0 / q2) * F2 < (a3 + 1.0 / q1) * F1 := by
  have h10 : (1.0:ℝ) = 1 := by norm_num
  rw [h10]
  have e1 : (a3 + 1 / q2) * F2 = F2 * (1 + a3 * q2) / q2 := by field_simp; ring
  have e2 : (a3 + 1 / q1) * F1 = F1 * (1 + a3 * q1) / q1 := by field_simp; ring
  rw [e1, e2, div_lt_div_iff₀ hq2 hq1]
  linarith

/-- the relative decrease of the pure-water viscosity dominates the relative increase of the salinity factor -/
theorem muwF_decreasing (t1 t2 s : ℝ) (h0 : -2.15 ≤ t1) (h12 : t1 < t2) (h1 : t2 ≤ 100) (hs0 : 0 ≤ s)
    (hs1 : s ≤ 0.042) : muw t2 * FF t2 s < muw t1 * FF t1 s := by
  obtain ⟨hq1a, hq1b⟩ := qq_bounds t1 h0 (by linarith)
  obtain ⟨hq2a, hq2b⟩ := qq_bounds t2 (by linarith) h1
  have hF1 := FF_ge_one t1 s h0 (by linarith) hs0
  have hD := DD_ub (t1 + t2) s (by linarith) (by linarith) hs0 hs1
  unfold muw
  apply mu_frac _ _ _ _ _ (by linarith) (by linarith)
  rw [FF_diff t1 t2 s, qq_diff t1 t2]
  set q1 := qq t1
  set F1 := FF t1 s
  set D := DD (t1 + t2) s
  set Q := 0.15700386464 * (t1 + t2 + 2 * 64.99262005) with hQ
  set q2 := q1 + (t2 - t1) * Q with hq2
  have hq2a' : 500 ≤ q2 := by rw [hq2, hQ, ← qq_diff]; exact hq2a
  have hq2b' : q2 ≤ 4200 := by rw [hq2, hQ, ← qq_diff]; exact hq2b
  have hδ : 0 < t2 - t1 := by linarith
  have hQlb : 19.7 ≤ Q := by rw [hQ]; nlinarith
  -- X = q1 (1 + a3 q2) ≤ 5000
  have hX0 : 0 ≤ q1 * (1 + 0.000042844324477 * q2) := by
    apply mul_nonneg (by linarith); nlinarith
  have hX1 : q1 * (1 + 0.000042844324477 * q2) ≤ 4200 * 1.18 := by
    apply mul_le_mul hq1b (by nlinarith) (by nlinarith) (by norm_num)
  have hDX : D * (q1 * (1 + 0.000042844324477 * q2)) ≤ 0.001 * (q1 * (1 + 0.000042844324477 * q2)) :=
    mul_le_mul_of_nonneg_right hD hX0
  have hFQ : 19.7 ≤ F1 * Q := by nlinarith
  have key : 0 < (t2 - t1) * (F1 * Q - D * (q1 * (1 + 0.000042844324477 * q2))) := by
    apply mul_pos hδ; linarith
  have hid : F1 * q2 * (1 + 0.000042844324477 * q1) - (F1 + (t2 - t1) * D) * q1 * (1 + 0.000042844324477 * q2)
      = (t2 - t1) * (F1 * Q - D * (q1 * (1 + 0.000042844324477 * q2))) := by
    rw [hq2]; ring
  linarith

/-! ### hot-water branch (T ≥ 40 °C): ρ = c0 + c1 p + c2 p² + c3 p³ + S·r(t,p), p in MPa -/

noncomputable def c0h (t : ℝ) : ℝ :=
  999.20571 + 0.095390097 * t - 0.0076186636 * t^2 + 0.000031305828 * t^3 - 0.000000061737704 * t^4
noncomputable def c1h (t : ℝ) : ℝ :=
  0.43368858 + 0.000025495667 * t^2 - 0.00000028988021 * t^3 + 0.00000000095784313 * t^4
noncomputable def c2h (t : ℝ) : ℝ :=
  0.0017627497 - 0.00012312703 * t + 0.0000013659381 * t^2 + 0.0000000040454583 * t^3
noncomputable def c3h (t : ℝ) : ℝ :=
  -0.000014673241 + 0.00000088391585 * t - 0.0000000011021321 * t^2 + 0.000000000042472611 * t^3
    - 0.000000000000039591772 * t^4
noncomputable def rth (t : ℝ) : ℝ :=
  0.79999223 - 0.002409365 * t + 0.0000258052775 * t^2 - 0.0000000685608405 * t^3
noncomputable def rh (t p : ℝ) : ℝ := rth t - 0.000629761106 * p + 0.000000936263713 * p^2
noncomputable def rhoh (t S p : ℝ) : ℝ := c0h t + c1h t * p + c2h t * p^2 + c3h t * p^3 + S * rh t p

theorem density_hot_grouped (T S P : ℝ) (hT : 273.15 + 40 ≤ T) :
    SeawaterPy.density T S P = rhoh (T - 273.15) S (P / 1000000.0) := by
  have h : ¬ (T < (273.15 : ℝ) + 40) := not_lt.mpr hT
  simp only [SeawaterPy.density, Num.real_ofSci, Num.real_ofNat, Num.real_one, Num.real_zero, Num.real_npow,
    Num.real_rpow, if_neg h, rhoh, c0h, c1h, c2h, c3h, rh, rth]
  generalize P / 1000000.0 = p
  ring

theorem c0h_lb (t : ℝ) (h1 : 40 ≤ t) (h2 : t ≤ 100) : 950 ≤ c0h t := by
  unfold c0h
  have a : 0 ≤ t - 40 := by linarith
  have b : 0 ≤ 100 - t := by linarith
  nlinarith [mul_nonneg a b, mul_nonneg (mul_nonneg a b) a, mul_nonneg (mul_nonneg a b) b,
    mul_nonneg (mul_nonneg a b) (sq_nonneg t), sq_nonneg t, sq_nonneg (t - 70),
    mul_nonneg (mul_nonneg a a) (mul_nonneg b b)]

theorem c1h_lb (t : ℝ) : 0.43 ≤ c1h t := by
  unfold c1h
  have : 0 ≤ t^2 * (0.000025495667 - 0.00000028988021 * t + 0.00000000095784313 * t^2) := by
    apply mul_nonneg (sq_nonneg t)
    nlinarith [sq_nonneg (t - 151)]
  nlinarith

theorem c2h_lb (t : ℝ) (h1 : 40 ≤ t) (h2 : t ≤ 100) : -0.001 ≤ c2h t := by
  unfold c2h
  have a : 0 ≤ t - 40 := by linarith
  have b : 0 ≤ 100 - t := by linarith
  nlinarith [mul_nonneg a b, mul_nonneg (mul_nonneg a b) a, mul_nonneg (mul_nonneg a b) b, sq_nonneg t,
    sq_nonneg (t - 40)]

theorem c3h_lb (t : ℝ) (h1 : 40 ≤ t) (h2 : t ≤ 100) : 0 ≤ c3h t := by
  unfold c3h
  have a : 0 ≤ t - 40 := by linarith
  have b : 0 ≤ 100 - t := by linarith
  nlinarith [mul_nonneg a b, mul_nonneg (mul_nonneg a b) a, mul_nonneg (mul_nonneg a b) b,
    mul_nonneg (mul_nonneg a b) (sq_nonneg t), sq_nonneg t, sq_nonneg (t - 70),
    mul_nonneg (mul_nonneg a a) (mul_nonneg b b)]

theorem rth_lb (t : ℝ) (h1 : 40 ≤ t) (h2 : t ≤ 100) : 0.72 ≤ rth t := by
  unfold rth
  have a : 0 ≤ t - 40 := by linarith
  have b : 0 ≤ 100 - t := by linarith
  nlinarith [mul_nonneg a b, mul_nonneg (mul_nonneg a b) a, mul_nonneg (mul_nonneg a b) b, sq_nonneg t,
    sq_nonneg (t - 62), mul_nonneg a (sq_nonneg (t - 62)), mul_nonneg b (sq_nonneg (t - 62))]

theorem rh_lb (t p : ℝ) (h1 : 40 ≤ t) (h2 : t ≤ 100) (hp0 : 0 ≤ p) (hp1 : p ≤ 110) : 0.65 ≤ rh t p := by
  unfold rh
  have := rth_lb t h1 h2
  have : 0 ≤ 0.000000936263713 * p^2 := by positivity
  nlinarith

theorem rhoh_diff_p (t S p1 p2 : ℝ) :
    rhoh t S p2 - rhoh t S p1 = (p2 - p1) * (c1h t + c2h t * (p1 + p2) + c3h t * (p1^2 + p1 * p2 + p2^2)
      + S * (-0.000629761106 + 0.000000936263713 * (p1 + p2))) := by
  unfold rhoh rh; ring

theorem rhoh_mono_p (t S p1 p2 : ℝ) (h1 : 40 ≤ t) (h2 : t ≤ 100) (hS0 : 0 ≤ S) (hS1 : S ≤ 42)
    (hp0 : 0 ≤ p1) (h12 : p1 < p2) (hp1 : p2 ≤ 110) : rhoh t S p1 < rhoh t S p2 := by
  have hc1 := c1h_lb t
  have hc2 := c2h_lb t h1 h2
  have hc3 := c3h_lb t h1 h2
  have hp2 : 0 ≤ p2 := by linarith
  have e2 : -0.22 ≤ c2h t * (p1 + p2) := by nlinarith
  have e3 : 0 ≤ c3h t * (p1^2 + p1 * p2 + p2^2) := by
    apply mul_nonneg hc3; positivity
  have e4 : -0.0265 ≤ S * (-0.000629761106 + 0.000000936263713 * (p1 + p2)) := by
    have : -0.000629761106 ≤ -0.000629761106 + 0.000000936263713 * (p1 + p2) := by nlinarith
    nlinarith
  have key : 0 < (p2 - p1) * (c1h t + c2h t * (p1 + p2) + c3h t * (p1^2 + p1 * p2 + p2^2)
      + S * (-0.000629761106 + 0.000000936263713 * (p1 + p2))) := by
    apply mul_pos (by linarith); linarith
  have := rhoh_diff_p t S p1 p2
  linarith

theorem rhoh_mono_S (t S1 S2 p : ℝ) (h1 : 40 ≤ t) (h2 : t ≤ 100) (h12 : S1 < S2)
    (hp0 : 0 ≤ p) (hp1 : p ≤ 110) : rhoh t S1 p < rhoh t S2 p := by
  have hr := rh_lb t p h1 h2 hp0 hp1
  unfold rhoh
  have : S1 * rh t p < S2 * rh t p := mul_lt_mul_of_pos_right h12 (by linarith)
  linarith

theorem rhoh_lb (t S p : ℝ) (h1 : 40 ≤ t) (h2 : t ≤ 100) (hS0 : 0 ≤ S)
    (hp0 : 0 ≤ p) (hp1 : p ≤ 110) : 950 ≤ rhoh t S p := by
  have hr := rh_lb t p h1 h2 hp0 hp1
  have hc0 := c0h_lb t h1 h2
  have hc1 := c1h_lb t
  have hc2 := c2h_lb t h1 h2
  have hc3 := c3h_lb t h1 h2
  have e0 : 0 ≤ S * rh t p := mul_nonneg hS0 (by linarith)
  have e3 : 0 ≤ c3h t * p^3 := mul_nonneg hc3 (by positivity)
  have e2 : -0.11 * p ≤ c2h t * p^2 := by nlinarith [mul_nonneg hp0 hp0]
  have e1 : 0.43 * p ≤ c1h t * p := by nlinarith
  unfold rhoh
  nlinarith

end TamocV.Lemmas.C13Mono
