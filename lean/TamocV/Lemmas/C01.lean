/-
  Helper lemmas for C01 (root selection folds, cubic facts).  Property theorems live in
  TamocV/Props/C01.lean.
-/
import TamocV.Lemmas.Eos
import Mathlib.Tactic.Ring
import Mathlib.Tactic.FieldSimp
import Mathlib.Tactic.Linarith
import Mathlib.Tactic.Positivity
import Mathlib.Topology.Algebra.Polynomial
import Mathlib.Topology.Order.IntermediateValue
import Mathlib.Analysis.SpecialFunctions.Pow.Real
import Mathlib.Analysis.SpecialFunctions.Sqrt

namespace TamocV.Lemmas.C01
open TamocV.Model.Eos TamocV.Lemmas.Eos Finset

theorem cubic_real (A B Z : ℝ) : cubic A B Z =
    Z^3 + (B - 1) * Z^2 + (A - 2*B - 3*B^2) * Z + (B^3 + B^2 - A*B) := by
  simp only [cubic, Num.real_npow, Num.real_ofNat, Num.real_one]

theorem cubic_continuous (A B : ℝ) : Continuous (fun Z => cubic A B Z) := by
  simp only [cubic_real]; fun_prop

theorem cubic_factored (A B Z : ℝ) :
    cubic A B Z = (Z^2 + 2*B*Z - B^2) * (Z - B - 1) + A * (Z - B) := by
  rw [cubic_real]; ring

noncomputable def stepMax (acc : ℝ) (z : ℝ × ℝ) : ℝ :=
  if (z.2 ≤ 0 ∧ 0 ≤ z.2) then (if acc < z.1 then z.1 else acc) else acc

noncomputable def stepMin (thr : ℝ) (acc : ℝ) (z : ℝ × ℝ) : ℝ :=
  if (z.2 ≤ 0 ∧ 0 ≤ z.2) then (if (z.1 < acc ∧ thr < z.1) then z.1 else acc) else acc

theorem selectZ_eq (thr : ℝ) (roots : List (ℝ × ℝ)) :
    selectZ thr roots = (roots.foldl stepMax 0, roots.foldl (stepMin thr) (roots.foldl stepMax 0)) := by
  simp only [selectZ, Num.real_zero]
  rfl

theorem stepMax_ge (acc : ℝ) (z : ℝ × ℝ) : acc ≤ stepMax acc z := by
  unfold stepMax; split_ifs <;> linarith

theorem foldMax_ge (roots : List (ℝ × ℝ)) (acc : ℝ) : acc ≤ roots.foldl stepMax acc := by
  induction roots generalizing acc with
  | nil => simp
  | cons z zs ih => simp only [List.foldl]; exact le_trans (stepMax_ge acc z) (ih _)

theorem foldMax_upper (roots : List (ℝ × ℝ)) (acc : ℝ) :
    ∀ z ∈ roots, z.2 = 0 → z.1 ≤ roots.foldl stepMax acc := by
  induction roots generalizing acc with
  | nil => simp
  | cons w ws ih =>
    intro z hz h0
    simp only [List.foldl]
    rcases List.mem_cons.mp hz with h | h
    · subst h
      have : z.1 ≤ stepMax acc z := by
        unfold stepMax
        have hr : (z.2 ≤ 0 ∧ 0 ≤ z.2) := ⟨le_of_eq h0, le_of_eq h0.symm⟩
        rw [if_pos hr]; split_ifs <;> linarith
      exact le_trans this (foldMax_ge _ _)
    · exact ih _ z h h0

theorem foldMax_mem (roots : List (ℝ × ℝ)) (acc : ℝ) :
    roots.foldl stepMax acc = acc ∨ ∃ z ∈ roots, z.2 = 0 ∧ z.1 = roots.foldl stepMax acc := by
  induction roots generalizing acc with
  | nil => simp
  | cons w ws ih =>
    simp only [List.foldl]
    rcases ih (stepMax acc w) with h | ⟨z, hz, h0, hh⟩
    · rw [h]
      unfold stepMax
      by_cases hr : (w.2 ≤ 0 ∧ 0 ≤ w.2)
      · rw [if_pos hr]
        by_cases hlt : acc < w.1
        · rw [if_pos hlt]; right; exact ⟨w, List.mem_cons_self, le_antisymm hr.1 hr.2, rfl⟩
        · rw [if_neg hlt]; left; rfl
      · rw [if_neg hr]; left; rfl
    · right; exact ⟨z, List.mem_cons_of_mem _ hz, h0, hh⟩

theorem stepMin_le (thr acc : ℝ) (z : ℝ × ℝ) : stepMin thr acc z ≤ acc := by
  unfold stepMin; split_ifs with h1 h2 <;> first | linarith [h2.1] | linarith

theorem foldMin_le (thr : ℝ) (roots : List (ℝ × ℝ)) (acc : ℝ) : roots.foldl (stepMin thr) acc ≤ acc := by
  induction roots generalizing acc with
  | nil => simp
  | cons z zs ih => simp only [List.foldl]; exact le_trans (ih _) (stepMin_le thr acc z)

theorem foldMin_lower (thr : ℝ) (roots : List (ℝ × ℝ)) (acc : ℝ) :
    ∀ z ∈ roots, z.2 = 0 → thr < z.1 → roots.foldl (stepMin thr) acc ≤ z.1 := by
  induction roots generalizing acc with
  | nil => simp
  | cons w ws ih =>
    intro z hz h0 ht
    simp only [List.foldl]
    rcases List.mem_cons.mp hz with h | h
    · subst h
      have : stepMin thr acc z ≤ z.1 := by
        unfold stepMin
        have hr : (z.2 ≤ 0 ∧ 0 ≤ z.2) := ⟨le_of_eq h0, le_of_eq h0.symm⟩
        rw [if_pos hr]
        by_cases hlt : z.1 < acc
        · rw [if_pos ⟨hlt, ht⟩]
        · rw [if_neg (fun h => hlt h.1)]; linarith
      exact le_trans (foldMin_le _ _ _) this
    · exact ih _ z h h0 ht

theorem foldMin_mem (thr : ℝ) (roots : List (ℝ × ℝ)) (acc : ℝ) :
    roots.foldl (stepMin thr) acc = acc ∨
      ∃ z ∈ roots, z.2 = 0 ∧ thr < z.1 ∧ z.1 = roots.foldl (stepMin thr) acc := by
  induction roots generalizing acc with
  | nil => simp
  | cons w ws ih =>
    simp only [List.foldl]
    rcases ih (stepMin thr acc w) with h | ⟨z, hz, h0, ht, hh⟩
    · rw [h]
      unfold stepMin
      by_cases hr : (w.2 ≤ 0 ∧ 0 ≤ w.2)
      · rw [if_pos hr]
        by_cases hlt : (w.1 < acc ∧ thr < w.1)
        · rw [if_pos hlt]; right; exact ⟨w, List.mem_cons_self, le_antisymm hr.1 hr.2, hlt.2, rfl⟩
        · rw [if_neg hlt]; left; rfl
      · rw [if_neg hr]; left; rfl
    · right; exact ⟨z, List.mem_cons_of_mem _ hz, h0, ht, hh⟩

theorem rpow_half_mul (x y : ℝ) (hx : 0 ≤ x) (hy : 0 ≤ y) :
    (x * y) ^ ((1:ℝ)/2) = x ^ ((1:ℝ)/2) * y ^ ((1:ℝ)/2) := Real.mul_rpow hx hy

end TamocV.Lemmas.C01
