/-
  C10 — helper definitions and lemmas for the permutation theorem about the regenerated `coefs`:
  relabelled lists / matrices and their index-function views.
-/
import TamocV.Props.C10
import TamocV.Props.C01

set_option linter.unusedSimpArgs false

namespace TamocV.Lemmas.C10Gen
open TamocV.Gen TamocV.Lemmas.EosRefine TamocV.Model.Eos TamocV.Lemmas.C10 TamocV.Lemmas.Eos

/-- the list `l` relabelled by σ (entry i of the result is entry σ i of `l`) -/
def permL (σ : Equiv.Perm ℕ) (n : ℕ) (l : List ℝ) : List ℝ := (List.range n).map fun i => l.getD (σ i) 0
/-- the square matrix `d` relabelled by σ in rows and columns -/
def permM (σ : Equiv.Perm ℕ) (n : ℕ) (d : List (List ℝ)) : List (List ℝ) :=
  (List.range n).map fun i => (List.range n).map fun j => (d.getD (σ i) []).getD (σ j) 0

theorem permL_length (σ : Equiv.Perm ℕ) (n : ℕ) (l : List ℝ) : (permL σ n l).length = n := by simp [permL]
theorem permM_length (σ : Equiv.Perm ℕ) (n : ℕ) (d : List (List ℝ)) : (permM σ n d).length = n := by simp [permM]

theorem ofL_permL (σ : Equiv.Perm ℕ) (n : ℕ) (h : PermOn n σ) (l : List ℝ) (hl : l.length = n) :
    ofL (permL σ n l) = (ofL l) ∘ σ := by
  funext i
  simp only [ofL, permL, Function.comp]
  by_cases hi : i < n
  · simp [List.getD_eq_getElem?_getD, List.getElem?_map, List.getElem?_range hi]
  · have h1 : ¬ σ i < n := fun hh => hi ((h i).mp hh)
    have h2 : l.length ≤ σ i := by omega
    simp [List.getD_eq_getElem?_getD, List.getElem?_eq_none (by simpa using not_lt.mp hi : ((List.range n).map _).length ≤ i),
      List.getElem?_eq_none h2]

theorem ofM_permM (σ : Equiv.Perm ℕ) (n : ℕ) (h : PermOn n σ) (d : List (List ℝ)) (hd : d.length = n)
    (hr : ∀ r ∈ d, r.length = n) : ofM (permM σ n d) = fun i j => ofM d (σ i) (σ j) := by
  funext i j
  simp only [ofM, permM]
  by_cases hi : i < n
  · by_cases hj : j < n
    · simp [List.getD_eq_getElem?_getD, List.getElem?_map, List.getElem?_range hi, List.getElem?_range hj]
    · have h1 : ¬ σ j < n := fun hh => hj ((h j).mp hh)
      have hrow : (d.getD (σ i) []).length ≤ σ j := by
        have hsi : σ i < d.length := by rw [hd]; exact (h i).mpr hi
        have : d.getD (σ i) [] = d[σ i] := by simp [List.getD_eq_getElem?_getD, List.getElem?_eq_getElem hsi]
        rw [this, hr _ (List.getElem_mem hsi)]; omega
      have hsi : σ i < d.length := by rw [hd]; exact (h i).mpr hi
      have hrow' : d[σ i].length ≤ σ j := by rw [hr _ (List.getElem_mem hsi)]; omega
      simp [List.getD_eq_getElem?_getD, List.getElem?_map, List.getElem?_range hi,
        List.getElem?_eq_none (by simpa using not_lt.mp hj : ((List.range n).map _).length ≤ j),
        List.getElem?_eq_getElem hsi, List.getElem?_eq_none hrow']
  · have h1 : ¬ σ i < n := fun hh => hi ((h i).mp hh)
    have h2 : d.length ≤ σ i := by omega
    simp [List.getD_eq_getElem?_getD, List.getElem?_eq_none (by simpa using not_lt.mp hi : ((List.range n).map _).length ≤ i),
      List.getElem?_eq_none h2]

theorem coefs_false_groups_irrel (n : ℕ) (T P : ℝ) (m M Pc Tc w : ℕ → ℝ) (g g' A B δ : ℕ → ℕ → ℝ) :
    TamocV.Model.Eos.coefs n T P m M Pc Tc w false g A B δ = TamocV.Model.Eos.coefs n T P m M Pc Tc w false g' A B δ := by
  have : deltaUsed false T (fun i => aTk T (Tc i) (Pc i) (w i)) (fun i => bk (Tc i) (Pc i)) g A B δ
      = deltaUsed false T (fun i => aTk T (Tc i) (Pc i) (w i)) (fun i => bk (Tc i) (Pc i)) g' A B δ := by
    funext i j; simp [deltaUsed]
  simp only [TamocV.Model.Eos.coefs, this]


end TamocV.Lemmas.C10Gen
