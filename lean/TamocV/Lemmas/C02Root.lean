/-
  C02 — helper lemmas for the existence of the Rachford–Rice root: continuity of g on [0,1] and its end values.
-/
import TamocV.Props.C02
import Mathlib.Topology.Order.IntermediateValue
import Mathlib.Topology.Algebra.Order.Field
import Mathlib.Topology.Algebra.Field
import Mathlib.Topology.Instances.Real.Lemmas

namespace TamocV.Lemmas.C02Root
open TamocV.Model.Flash TamocV.Lemmas.C02 TamocV.Props.C02

theorem gGas_continuousOn (z K : List ℝ) (hK : AllPos K) :
    ContinuousOn (fun β => gGas z K β) (Set.Icc (0:ℝ) 1) := by
  simp only [gGas_real]
  induction z generalizing K with
  | nil => simp [continuousOn_const]
  | cons a as ih =>
    cases K with
    | nil => simp [continuousOn_const]
    | cons k ks =>
      simp only [List.zipWith_cons_cons, List.sum_cons]
      have hk : 0 < k := hK k (by simp)
      have hks : AllPos ks := fun x hx => hK x (by simp [hx])
      apply ContinuousOn.add
      · apply ContinuousOn.div continuousOn_const
        · exact (continuousOn_const.add (continuousOn_id.mul continuousOn_const))
        · intro β hβ
          exact ne_of_gt (den_pos β k hβ.1 hβ.2 hk)
      · exact ih ks hks

theorem gGas_at_zero : ∀ (z K : List ℝ), z.length = K.length →
    gGas z K 0 = (List.zipWith (fun a b => a * b) z K).sum - z.sum := by
  intro z
  induction z with
  | nil => intro K _; simp [gGas_real]
  | cons a as ih =>
    intro K h
    cases K with
    | nil => simp at h
    | cons k ks =>
      have := ih ks (by simpa using h)
      simp only [gGas_real, List.zipWith_cons_cons, List.sum_cons] at this ⊢
      rw [this]; ring

theorem gGas_at_one : ∀ (z K : List ℝ), z.length = K.length → AllPos K →
    gGas z K 1 = z.sum - (List.zipWith (fun a b => a / b) z K).sum := by
  intro z
  induction z with
  | nil => intro K _ _; simp [gGas_real]
  | cons a as ih =>
    intro K h hK
    cases K with
    | nil => simp at h
    | cons k ks =>
      have hk : 0 < k := hK k (by simp)
      have := ih ks (by simpa using h) (fun x hx => hK x (by simp [hx]))
      simp only [gGas_real, List.zipWith_cons_cons, List.sum_cons] at this ⊢
      rw [this]
      have hk' : k ≠ 0 := ne_of_gt hk
      have e : a * (k - 1) / (1 + 1 * (k - 1)) = a - a / k := by
        have : 1 + 1 * (k - 1) = k := by ring
        rw [this]; field_simp
      rw [e]; ring

end TamocV.Lemmas.C02Root
