/-
  Helper lemmas for C07 (and reused by C14): scipy's linear interpolant on a table with strictly
  increasing depths, the name → column mapping of `get_values`, and the cache invariant.
-/
import TamocV.Real
import TamocV.Lemmas.Basic
import TamocV.Model.Profile
import Mathlib.Tactic.Ring
import Mathlib.Tactic.Linarith
import Mathlib.Tactic.FieldSimp
import Mathlib.Tactic.NormNum

namespace TamocV.Lemmas.C07
open TamocV TamocV.Model.Profile

/-- depths strictly increasing down the table -/
def StrictInc (rows : List (List ℝ)) : Prop := rows.Pairwise (fun a b => depth a < depth b)

/-- every row has one depth and `k` values -/
def Width (k : Nat) (rows : List (List ℝ)) : Prop := ∀ r ∈ rows, r.length = k + 1

/-! ### searchsorted -/

theorem searchsorted_append_of_lt (l1 l2 : List ℝ) (z : ℝ) (h : ∀ x ∈ l1, x < z) :
    searchsorted (l1 ++ l2) z = l1.length + searchsorted l2 z := by
  induction l1 with
  | nil => simp
  | cons x xs ih =>
    have hx : x < z := h x (by simp)
    have := ih (fun y hy => h y (by simp [hy]))
    simp only [List.cons_append, searchsorted, if_pos hx, this, List.length_cons]
    omega

theorem searchsorted_cons_not_lt (x : ℝ) (xs : List ℝ) (z : ℝ) (h : ¬ x < z) :
    searchsorted (x :: xs) z = 0 := by
  simp only [searchsorted, if_neg h]

theorem searchsorted_all_lt (l : List ℝ) (z : ℝ) (h : ∀ x ∈ l, x < z) : searchsorted l z = l.length := by
  have := searchsorted_append_of_lt l [] z h
  simpa [searchsorted] using this

/-! ### the interpolation formula on a located segment -/

/-- scipy's expression for one segment -/
noncomputable def segVal (lo hi : List ℝ) (z : ℝ) : List ℝ :=
  List.zipWith (fun yh yl => ((z - depth lo) / (depth hi - depth lo)) * yh
    + ((depth hi - z) / (depth hi - depth lo)) * yl) (vals hi) (vals lo)

theorem interpRow_eq_segVal_of_idx (rows : List (List ℝ)) (z : ℝ) (i : Nat) (lo hi : List ℝ)
    (hidx : clip (searchsorted (rows.map depth) z) 1 (rows.length - 1) = i + 1)
    (hlo : rows.getD i [] = lo) (hhi : rows.getD (i + 1) [] = hi) :
    interpRow rows z = segVal lo hi z := by
  unfold interpRow segVal
  simp only [hidx, Nat.add_sub_cancel, hlo, hhi]

theorem clip_mid (i n : Nat) (h1 : 1 ≤ i) (h2 : i ≤ n) : clip i 1 n = i := by
  show min (max i 1) n = i
  omega

theorem clip_low (n : Nat) (h : 1 ≤ n) : clip 0 1 n = 1 := by
  show min (max 0 1) n = 1
  omega

theorem clip_high (i n : Nat) (h1 : 1 ≤ n) (h2 : n ≤ i) : clip i 1 n = n := by
  show min (max i 1) n = n
  omega

theorem strictInc_append_cons {pre : List (List ℝ)} {r : List ℝ} {post : List (List ℝ)}
    (h : StrictInc (pre ++ r :: post)) :
    (∀ a ∈ pre, depth a < depth r) ∧ (∀ b ∈ post, depth r < depth b) := by
  unfold StrictInc at h
  rw [List.pairwise_append] at h
  obtain ⟨_, h2, h3⟩ := h
  rw [List.pairwise_cons] at h2
  exact ⟨fun a ha => h3 a ha r (by simp), h2.1⟩

/-- `depth lo < z ≤ depth hi` on consecutive rows: scipy picks exactly that segment -/
theorem interpRow_segment (pre : List (List ℝ)) (lo hi : List ℝ) (post : List (List ℝ)) (z : ℝ)
    (hs : StrictInc (pre ++ lo :: hi :: post)) (h1 : depth lo < z) (h2 : z ≤ depth hi) :
    interpRow (pre ++ lo :: hi :: post) z = segVal lo hi z := by
  apply interpRow_eq_segVal_of_idx _ _ pre.length
  · have hpre := (strictInc_append_cons hs).1
    have hss : searchsorted ((pre ++ lo :: hi :: post).map depth) z = pre.length + 1 := by
      have e : (pre ++ lo :: hi :: post).map depth
          = (pre.map depth ++ [depth lo]) ++ (depth hi :: post.map depth) := by simp
      rw [e, searchsorted_append_of_lt, searchsorted_cons_not_lt _ _ _ (not_lt.mpr h2)]
      · simp
      · intro x hx
        simp only [List.mem_append, List.mem_map, List.mem_singleton] at hx
        rcases hx with ⟨a, ha, rfl⟩ | rfl
        · exact lt_trans (hpre a ha) h1
        · exact h1
    rw [hss]
    apply clip_mid
    · omega
    · simp only [List.length_append, List.length_cons]; omega
  · simp [List.getD_eq_getElem?_getD]
  · simp [List.getD_eq_getElem?_getD]

/-- `z ≤` the first depth: the first segment -/
theorem interpRow_first (lo hi : List ℝ) (post : List (List ℝ)) (z : ℝ) (h : z ≤ depth lo) :
    interpRow (lo :: hi :: post) z = segVal lo hi z := by
  apply interpRow_eq_segVal_of_idx _ _ 0
  · have : searchsorted ((lo :: hi :: post).map depth) z = 0 := by
      simp only [List.map_cons]
      exact searchsorted_cons_not_lt _ _ _ (not_lt.mpr h)
    rw [this]
    apply clip_low
    simp
  · simp
  · simp

/-- `z >` the last depth: the last segment -/
theorem interpRow_last (pre : List (List ℝ)) (lo hi : List ℝ) (z : ℝ)
    (hs : StrictInc (pre ++ [lo, hi])) (h : depth hi < z) :
    interpRow (pre ++ [lo, hi]) z = segVal lo hi z := by
  apply interpRow_eq_segVal_of_idx _ _ pre.length
  · have hall : ∀ x ∈ (pre ++ [lo, hi]).map depth, x < z := by
      intro x hx
      simp only [List.map_append, List.map_cons, List.map_nil, List.mem_append, List.mem_map,
        List.mem_cons, List.not_mem_nil, or_false] at hx
      have h1 := (strictInc_append_cons (pre := pre ++ [lo]) (r := hi) (post := [])
        (by simpa using hs)).1
      rcases hx with ⟨a, ha, rfl⟩ | rfl | rfl
      · exact lt_trans (h1 a (by simp [ha])) h
      · exact lt_trans (h1 lo (by simp)) h
      · exact h
    rw [searchsorted_all_lt _ _ hall]
    have : ((pre ++ [lo, hi]).map depth).length = pre.length + 2 := by simp
    rw [this]
    have : (pre ++ [lo, hi]).length - 1 = pre.length + 1 := by simp
    rw [this]
    apply clip_high <;> omega
  · simp [List.getD_eq_getElem?_getD]
  · simp [List.getD_eq_getElem?_getD]

/-- every depth of a strictly increasing table lies between the first and the last -/
theorem strictInc_bounds (first last : List ℝ) (mid : List (List ℝ))
    (hs : StrictInc (first :: (mid ++ [last]))) (r : List ℝ) (hr : r ∈ first :: (mid ++ [last])) :
    depth first ≤ depth r ∧ depth r ≤ depth last := by
  constructor
  · simp only [List.mem_cons] at hr
    rcases hr with rfl | hr
    · exact le_rfl
    · have := (strictInc_append_cons (pre := []) (r := first) (post := mid ++ [last]) (by simpa using hs)).2
      exact le_of_lt (this r hr)
  · have e : first :: (mid ++ [last]) = (first :: mid) ++ last :: [] := by simp
    rw [e] at hs hr
    simp only [List.mem_append, List.mem_singleton] at hr
    rcases hr with hr | rfl
    · exact le_of_lt ((strictInc_append_cons hs).1 r hr)
    · exact le_rfl

/-! ### values of the segment expression -/

theorem segVal_at_hi (lo hi : List ℝ) (hne : depth lo ≠ depth hi)
    (hw : (vals hi).length = (vals lo).length) : segVal lo hi (depth hi) = vals hi := by
  unfold segVal
  have hd : depth hi - depth lo ≠ 0 := sub_ne_zero.mpr (Ne.symm hne)
  have e : ∀ yh yl : ℝ, (depth hi - depth lo) / (depth hi - depth lo) * yh
      + (depth hi - depth hi) / (depth hi - depth lo) * yl = yh := by
    intro yh yl
    rw [div_self hd]; simp
  simp only [e]
  generalize vals hi = a at hw
  generalize vals lo = b at hw
  induction a generalizing b with
  | nil => simp
  | cons x xs ih =>
    cases b with
    | nil => simp at hw
    | cons y ys => simp at hw; simp [ih ys hw]

theorem segVal_at_lo (lo hi : List ℝ) (hne : depth lo ≠ depth hi)
    (hw : (vals hi).length = (vals lo).length) : segVal lo hi (depth lo) = vals lo := by
  unfold segVal
  have hd : depth hi - depth lo ≠ 0 := sub_ne_zero.mpr (Ne.symm hne)
  have e : ∀ yh yl : ℝ, (depth lo - depth lo) / (depth hi - depth lo) * yh
      + (depth hi - depth lo) / (depth hi - depth lo) * yl = yl := by
    intro yh yl
    rw [div_self hd]; simp
  simp only [e]
  generalize vals hi = a at hw
  generalize vals lo = b at hw
  induction a generalizing b with
  | nil => cases b with
    | nil => simp
    | cons y ys => simp at hw
  | cons x xs ih =>
    cases b with
    | nil => simp at hw
    | cons y ys => simp at hw; simp [ih ys hw]

/-- the same value written as a convex combination with weight `w = (z - x_lo)/(x_hi - x_lo)` -/
theorem segVal_convex (lo hi : List ℝ) (z : ℝ) (hne : depth lo ≠ depth hi) :
    segVal lo hi z = List.zipWith (fun yl yh =>
      (1 - (z - depth lo) / (depth hi - depth lo)) * yl + ((z - depth lo) / (depth hi - depth lo)) * yh)
      (vals lo) (vals hi) := by
  unfold segVal
  have hd : depth hi - depth lo ≠ 0 := sub_ne_zero.mpr (Ne.symm hne)
  rw [List.zipWith_comm]
  congr 1
  funext yl yh
  field_simp
  ring

theorem vals_length {k : Nat} {r : List ℝ} (h : r.length = k + 1) : (vals r).length = k := by
  unfold vals; simp [h]

/-! ### sorting a sorted table -/

theorem sortRows_of_strictInc (rows : List (List ℝ)) (h : StrictInc rows) : sortRows rows = rows := by
  unfold sortRows
  apply List.mergeSort_of_pairwise
  exact h.imp (fun {a b} hab => by simpa using le_of_lt hab)

/-! ### name → column mapping of get_values -/

/-- the answer `get_values` should give from an interpolated row `f`: requested order, 0 for
    names the table does not have -/
noncomputable def pick (fnames : List String) (f : List ℝ) (names : List String) : List ℝ :=
  names.map (fun nm => if fnames.contains nm then f.getD (fnames.idxOf nm) 0 else 0)

theorem assign_length (ans : List ℝ) (cols : List Nat) (vs : List ℝ) :
    (assign ans cols vs).length = ans.length := by
  induction cols generalizing ans vs with
  | nil => simp [assign]
  | cons c cs ih =>
    cases vs with
    | nil => simp [assign]
    | cons v vs => simp [assign, ih]

theorem zipWith_left_id (ans : List ℝ) (names : List String) (h : ans.length = names.length) :
    List.zipWith (fun a (_ : String) => a) ans names = ans := by
  induction ans generalizing names with
  | nil => simp
  | cons a as ih =>
    cases names with
    | nil => simp at h
    | cons n ns => simp at h; simp [ih ns h]

/-- sequential assignment at the positions of the names `ks` -/
theorem assign_names (names : List String) (hnd : names.Nodup) (g : String → ℝ) (ks : List String)
    (hks : ∀ k ∈ ks, k ∈ names) (ans : List ℝ) (hlen : ans.length = names.length) :
    assign ans (ks.map (fun nm => names.idxOf nm)) (ks.map g)
      = List.zipWith (fun a nm => if nm ∈ ks then g nm else a) ans names := by
  induction ks generalizing ans with
  | nil => simp [assign, zipWith_left_id ans names hlen]
  | cons k ks ih =>
    simp only [List.map_cons, assign]
    have hk : k ∈ names := hks k (by simp)
    have hi : names.idxOf k < names.length := List.idxOf_lt_length_of_mem hk
    rw [ih (fun x hx => hks x (by simp [hx])) _ (by simp [hlen])]
    apply List.ext_getElem
    · simp
    · intro j h1 h2
      simp only [List.length_zipWith, List.length_set] at h1 h2
      have hj : j < names.length := by omega
      have hja : j < ans.length := by omega
      simp only [List.getElem_zipWith, List.mem_cons]
      by_cases hmem : names[j] ∈ ks
      · simp [hmem]
      · simp only [hmem, if_false, or_false]
        by_cases hjk : names[j] = k
        · have : names.idxOf k = j := by
            rw [← hjk]; exact hnd.idxOf_getElem j hj
          simp [hjk, this]
        · have : names.idxOf k ≠ j := by
            intro hc
            apply hjk
            have := List.getElem_idxOf hi
            simpa [hc] using this
          simp [hjk, List.getElem_set_ne this]

theorem getD_idxOf_of_mem (names : List String) (k : String) (h : k ∈ names) :
    names.getD (names.idxOf k) "" = k := by
  have hi : names.idxOf k < names.length := List.idxOf_lt_length_of_mem h
  rw [List.getD_eq_getElem?_getD, List.getElem?_eq_getElem hi]
  simp [List.getElem_idxOf hi]

theorem assign_pick (fnames names : List String) (hnd : names.Nodup) (f : List ℝ) :
    assign (List.replicate names.length (0 : ℝ))
      ((names.filter (fun nm => fnames.contains nm)).map (fun nm => names.idxOf nm))
      (((((names.filter (fun nm => fnames.contains nm)).map (fun nm => names.idxOf nm)).map
        (fun k => names.getD k "")).map (fun nm => fnames.idxOf nm)).map (fun k => f.getD k 0))
      = pick fnames f names := by
  have hmem : ∀ k ∈ names.filter (fun nm => fnames.contains nm), k ∈ names :=
    fun k hk => (List.mem_filter.mp hk).1
  have e1 : ((names.filter (fun nm => fnames.contains nm)).map (fun nm => names.idxOf nm)).map
      (fun k => names.getD k "") = names.filter (fun nm => fnames.contains nm) := by
    rw [List.map_map]
    conv_rhs => rw [← List.map_id (names.filter (fun nm => fnames.contains nm))]
    apply List.map_congr_left
    intro k hk
    exact getD_idxOf_of_mem names k (hmem k hk)
  rw [e1, List.map_map]
  have := assign_names names hnd (fun nm => f.getD (fnames.idxOf nm) 0)
    (names.filter (fun nm => fnames.contains nm)) hmem
    (List.replicate names.length (0 : ℝ)) (by simp)
  simp only [Function.comp_def] at this ⊢
  rw [this]
  unfold pick
  apply List.ext_getElem
  · simp
  · intro j h1 h2
    simp only [List.length_zipWith, List.length_replicate, List.length_map] at h1 h2
    have hj : j < names.length := by omega
    simp only [List.getElem_zipWith, List.getElem_replicate, List.getElem_map, List.mem_filter,
      List.getElem_mem, true_and]

/-- `get_values` for one depth answers `pick` of the interpolated row at the clamped depth,
    whenever the requested names are distinct -/
theorem getValues1_eq_pick (c : Cache ℝ) (zmin zmax z : ℝ) (names : List String) (hnd : names.Nodup) :
    getValues1 c zmin zmax z names = pick c.names (interpRow c.rows (clampZ zmin zmax z)) names := by
  unfold getValues1
  simp only [Num.real_zero]
  exact assign_pick c.names names hnd (interpRow c.rows (clampZ zmin zmax z))

/-! ### clamping -/

theorem clampZ_inside (zmin zmax z : ℝ) (h1 : zmin ≤ z) (h2 : z ≤ zmax) : clampZ zmin zmax z = z := by
  unfold clampZ
  simp only [if_neg (not_lt.mpr h1), if_neg (not_lt.mpr h2)]

theorem clampZ_below (zmin zmax z : ℝ) (h1 : z < zmin) (h2 : zmin ≤ zmax) : clampZ zmin zmax z = zmin := by
  unfold clampZ
  simp only [if_pos h1, if_neg (not_lt.mpr h2)]

theorem clampZ_above (zmin zmax z : ℝ) (h1 : zmax < z) (h2 : zmin ≤ zmax) : clampZ zmin zmax z = zmax := by
  unfold clampZ
  have : ¬ z < zmin := not_lt.mpr (le_trans h2 (le_of_lt h1))
  simp only [if_neg this, if_pos h1]

/-! ### the cache invariant -/

/-- the cached interpolant is the one built from the data the profile holds -/
def Fresh (p : Profile ℝ) : Prop := p.cache = build p.rows p.names

theorem rebuild_fresh (p : Profile ℝ) : Fresh p.rebuild := by
  unfold Fresh Profile.rebuild; rfl

theorem step_fresh (ρ : ℝ → ℝ → ℝ → ℝ) (zt : Ztsp) (p : Profile ℝ) (op : Op ℝ) (h : Fresh p) :
    Fresh (step ρ zt p op) := by
  cases op with
  | append data zcol vars => exact rebuild_fresh _
  | extendDeeper znew S1 => exact rebuild_fresh _
  | insertDensity P0 =>
    cases P0 with
    | none => exact rebuild_fresh _
    | some q =>
      by_cases hq : q ≤ 0 ∧ 0 ≤ q
      · have e : step ρ zt p (Op.insertDensity (some q))
            = ((p.setCol "density" (densityColumn ρ p none))).rebuild := by
          simp only [step, Num.real_zero, hq, and_self, if_true]
        rw [e]; exact rebuild_fresh _
      · have e : step ρ zt p (Op.insertDensity (some q)) = p := by
          simp only [step, Num.real_zero, hq, if_false]
        rw [e]; exact h
  | insertPotentialDensity => exact rebuild_fresh _
  | insertBuoyancyFrequency => exact rebuild_fresh _

theorem run_fresh (ρ : ℝ → ℝ → ℝ → ℝ) (zt : Ztsp) (ops : List (Op ℝ)) (p : Profile ℝ) (h : Fresh p) :
    Fresh (run ρ zt p ops) := by
  unfold run
  induction ops generalizing p with
  | nil => exact h
  | cons op ops ih => exact ih _ (step_fresh ρ zt p op h)

end TamocV.Lemmas.C07
