/-
  Helper lemmas for C16 (size distributions): linspace/logspace, bin centres, telescoping sums, rpow/exp/log monotonicity.
-/
import TamocV.Real
import TamocV.Lemmas.Basic
import TamocV.Model.Psf
import Mathlib.Tactic.Ring
import Mathlib.Tactic.FieldSimp
import Mathlib.Tactic.Linarith
import Mathlib.Tactic.Positivity
import Mathlib.Tactic.NormNum
import Mathlib.Analysis.SpecialFunctions.Pow.Real
import Mathlib.Analysis.SpecialFunctions.Log.Basic
import Mathlib.Algebra.BigOperators.Group.List.Basic

namespace TamocV.Lemmas.C16
open TamocV TamocV.Model.Psf

@[simp] theorem real_ofNat' (n : ℕ) : (Num.ofNat n : ℝ) = (n : ℝ) := rfl

@[simp] theorem isZero_iff (x : ℝ) : isZero x = true ↔ x = 0 := by
  simp only [isZero, Num.real_zero, Bool.and_eq_true, decide_eq_true_eq]
  exact ⟨fun h => le_antisymm h.1 h.2, fun h => by simp [h]⟩

theorem isZero_false_of_ne {x : ℝ} (h : x ≠ 0) : isZero x = false := by
  cases hz : isZero x with
  | false => rfl
  | true => exact absurd ((isZero_iff x).mp hz) h

/-! ### linspace / logspace -/

theorem linspaceAt_lt {a b : ℝ} (hab : a < b) {n i j : ℕ} (hij : i < j) (hj : j ≤ n) :
    linspaceAt a b n i < linspaceAt a b n j := by
  have hn : 0 < n := by omega
  have hnR : (0 : ℝ) < n := by exact_mod_cast hn
  have hi : i ≠ n := by omega
  have hstep : 0 < (b - a) / (n : ℝ) := div_pos (sub_pos.mpr hab) hnR
  simp only [linspaceAt, hi, if_false, real_ofNat']
  by_cases hjn : j = n
  · simp only [hjn, if_true]
    have hin : (i : ℝ) < n := by exact_mod_cast (by omega : i < n)
    have : (i : ℝ) * ((b - a) / n) < (n : ℝ) * ((b - a) / n) := mul_lt_mul_of_pos_right hin hstep
    have h2 : (n : ℝ) * ((b - a) / n) = b - a := by field_simp
    linarith
  · simp only [hjn, if_false]
    have hijR : (i : ℝ) < j := by exact_mod_cast hij
    have : (i : ℝ) * ((b - a) / n) < (j : ℝ) * ((b - a) / n) := mul_lt_mul_of_pos_right hijR hstep
    linarith

theorem logspaceAt_pos (a b : ℝ) (n i : ℕ) : 0 < logspaceAt a b n i := by
  simp only [logspaceAt, Num.real_rpow, Num.real_ofNat]
  exact Real.rpow_pos_of_pos (by norm_num) _

theorem logspaceAt_lt {a b : ℝ} (hab : a < b) {n i j : ℕ} (hij : i < j) (hj : j ≤ n) :
    logspaceAt a b n i < logspaceAt a b n j := by
  simp only [logspaceAt, Num.real_rpow, Num.real_ofNat]
  exact Real.rpow_lt_rpow_of_exponent_lt (by norm_num) (linspaceAt_lt hab hij hj)

theorem log10_lt {x y : ℝ} (hx : 0 < x) (hxy : x < y) : Num.log10 x < Num.log10 y := by
  rw [Num.real_log10, Num.real_log10]
  have h10 : 0 < Real.log 10 := Real.log_pos (by norm_num)
  exact div_lt_div_of_pos_right (Real.log_lt_log hx hxy) h10

/-! ### bin centres -/

theorem center_eq (e0 e1 : ℝ) : center e0 e1 = Real.exp ((Real.log e0 + Real.log e1) / 2) := by
  simp only [center, Num.real_exp, Num.real_log, Num.real_ofNat]
  congr 1; ring

theorem center_pos (e0 e1 : ℝ) : 0 < center e0 e1 := by
  rw [center_eq]; exact Real.exp_pos _

theorem center_gt_left {e0 e1 : ℝ} (h0 : 0 < e0) (h : e0 < e1) : e0 < center e0 e1 := by
  rw [center_eq]
  have hl := Real.log_lt_log h0 h
  calc e0 = Real.exp (Real.log e0) := (Real.exp_log h0).symm
    _ < _ := Real.exp_lt_exp.mpr (by linarith)

theorem center_lt_right {e0 e1 : ℝ} (h0 : 0 < e0) (h : e0 < e1) : center e0 e1 < e1 := by
  rw [center_eq]
  have hl := Real.log_lt_log h0 h
  calc _ < Real.exp (Real.log e1) := Real.exp_lt_exp.mpr (by linarith)
    _ = e1 := Real.exp_log (h0.trans h)

/-! ### sums over `List.range` -/

theorem sum_range_telescope (v : ℕ → ℝ) (n : ℕ) : ((List.range n).map (fun i => v (i + 1) - v i)).sum = v n - v 0 := by
  induction n with
  | zero => simp
  | succ n ih => rw [List.range_succ, List.map_append, List.sum_append, ih]; simp

theorem sum_map_div (l : List ℝ) (c : ℝ) : (l.map (fun x => x / c)).sum = l.sum / c := by
  induction l with
  | nil => simp
  | cons a l ih => simp [ih, add_div]

theorem sum_range_pos (f : ℕ → ℝ) {n : ℕ} (hn : 0 < n) (hf : ∀ i, i < n → 0 < f i) : 0 < ((List.range n).map f).sum := by
  induction n with
  | zero => omega
  | succ n ih =>
    rw [List.range_succ, List.map_append, List.sum_append]
    have hlast : 0 < f n := hf n (by omega)
    by_cases h0 : n = 0
    · subst h0; simpa using hlast
    · have := ih (by omega) (fun i hi => hf i (by omega))
      simp only [List.map_cons, List.map_nil, List.sum_cons, List.sum_nil, add_zero]
      linarith

/-- a list produced by a strictly increasing index function is strictly increasing -/
theorem pairwise_range_map (f : ℕ → ℝ) (n : ℕ) (hf : ∀ i j, i < j → j < n → f i < f j) :
    ((List.range n).map f).Pairwise (· < ·) := by
  rw [List.pairwise_map]
  have h := List.pairwise_lt_range (n := n)
  refine List.Pairwise.imp_of_mem ?_ h
  intro a b ha hb hab
  exact hf a b hab (List.mem_range.mp hb)

/-! ### Rosin-Rammler -/

theorem log_005_lt_log_099 : Real.log (1 - 0.995) < Real.log (1 - 0.01) :=
  Real.log_lt_log (by norm_num) (by norm_num)

theorem log_099_neg : Real.log (1 - 0.01) < 0 := Real.log_neg (by norm_num) (by norm_num)

theorem rrA01_pos {k alpha : ℝ} (hk : k < 0) : 0 < rrA01 k alpha := by
  simp only [rrA01, Num.real_rpow, Num.real_log, Num.real_ofSci, Num.real_one]
  exact Real.rpow_pos_of_pos (div_pos_of_neg_of_neg log_099_neg hk) _

theorem rrA01_lt_rrA99 {k alpha : ℝ} (hk : k < 0) (ha : 0 < alpha) : rrA01 k alpha < rrA99 k alpha := by
  simp only [rrA01, rrA99, Num.real_rpow, Num.real_log, Num.real_ofSci, Num.real_one]
  have h1 : 0 < Real.log (1 - 0.01) / k := div_pos_of_neg_of_neg log_099_neg hk
  have h2 : Real.log (1 - 0.01) / k < Real.log (1 - 0.995) / k := div_lt_div_of_neg_of_lt hk log_005_lt_log_099
  exact Real.rpow_lt_rpow h1.le h2 (by positivity)

theorem rrEdge_pos (n : ℕ) (k alpha : ℝ) (i : ℕ) : 0 < rrEdge n k alpha i := logspaceAt_pos _ _ _ _

theorem rrEdge_lt {k alpha : ℝ} (hk : k < 0) (ha : 0 < alpha) {n i j : ℕ} (hij : i < j) (hj : j ≤ n) :
    rrEdge n k alpha i < rrEdge n k alpha j :=
  logspaceAt_lt (log10_lt (rrA01_pos hk) (rrA01_lt_rrA99 hk ha)) hij hj

theorem rrCenter_lt {k alpha : ℝ} (hk : k < 0) (ha : 0 < alpha) {n i j : ℕ} (hij : i < j) (hj : j < n) :
    rrCenter n k alpha i < rrCenter n k alpha j := by
  have h1 : rrCenter n k alpha i < rrEdge n k alpha (i + 1) :=
    center_lt_right (rrEdge_pos _ _ _ _) (rrEdge_lt hk ha (Nat.lt_succ_self i) (by omega))
  have h2 : rrEdge n k alpha j < rrCenter n k alpha j :=
    center_gt_left (rrEdge_pos _ _ _ _) (rrEdge_lt hk ha (Nat.lt_succ_self j) (by omega))
  have h3 : rrEdge n k alpha (i + 1) ≤ rrEdge n k alpha j := by
    rcases Nat.lt_or_ge (i + 1) j with h | h
    · exact (rrEdge_lt hk ha h (by omega)).le
    · have : i + 1 = j := by omega
      rw [this]
  linarith

theorem rrVf0_pos {k alpha : ℝ} (hk : k < 0) (ha : 0 < alpha) {n i : ℕ} (hi : i < n) : 0 < rrVf0 n k alpha i := by
  simp only [rrVf0, rrVn, Num.real_exp, Num.real_rpow, Num.real_one]
  have he := rrEdge_lt hk ha (Nat.lt_succ_self i) (by omega : i + 1 ≤ n)
  have hp : rrEdge n k alpha i ^ alpha < rrEdge n k alpha (i + 1) ^ alpha :=
    Real.rpow_lt_rpow (rrEdge_pos _ _ _ _).le he ha
  have hm : k * rrEdge n k alpha (i + 1) ^ alpha < k * rrEdge n k alpha i ^ alpha := mul_lt_mul_of_neg_left hp hk
  have := Real.exp_lt_exp.mpr hm
  linarith

theorem rrVf0_sum_pos {k alpha : ℝ} (hk : k < 0) (ha : 0 < alpha) {n : ℕ} (hn : 0 < n) :
    0 < ((List.range n).map (rrVf0 n k alpha)).sum :=
  sum_range_pos _ hn (fun _ hi => rrVf0_pos hk ha hi)

/-! ### log-normal -/

theorem lnA0_eq {d50 : ℝ} (hd : 0 < d50) (sigma : ℝ) : lnA0 d50 sigma = Real.exp (-(2.8 * sigma)) := by
  simp only [lnA0, Num.real_exp, Num.real_log, Num.real_ofSci]
  rw [Real.exp_sub, Real.exp_log hd, Real.exp_neg]
  field_simp

theorem lnA1_eq {d50 : ℝ} (hd : 0 < d50) (sigma : ℝ) : lnA1 d50 sigma = Real.exp (2.3 * sigma) := by
  simp only [lnA1, Num.real_exp, Num.real_log, Num.real_ofSci]
  rw [Real.exp_add, Real.exp_log hd]
  field_simp

theorem lnEdge_indep {d50 d50' : ℝ} (hd : 0 < d50) (hd' : 0 < d50') (n : ℕ) (sigma : ℝ) (i : ℕ) :
    lnEdge n d50 sigma i = lnEdge n d50' sigma i := by
  simp only [lnEdge, lnA0_eq hd, lnA0_eq hd', lnA1_eq hd, lnA1_eq hd']

theorem lnEdge_pos (n : ℕ) (d50 sigma : ℝ) (i : ℕ) : 0 < lnEdge n d50 sigma i := logspaceAt_pos _ _ _ _

theorem lnEdge_lt {d50 sigma : ℝ} (hd : 0 < d50) (hs : 0 < sigma) {n i j : ℕ} (hij : i < j) (hj : j ≤ n) :
    lnEdge n d50 sigma i < lnEdge n d50 sigma j := by
  apply logspaceAt_lt (log10_lt _ _) hij hj
  · rw [lnA0_eq hd]; exact Real.exp_pos _
  · rw [lnA0_eq hd, lnA1_eq hd]
    apply Real.exp_lt_exp.mpr
    have : (0:ℝ) < 2.8 := by norm_num
    have : (0:ℝ) < 2.3 := by norm_num
    nlinarith

theorem lnVf0_pos {d50 sigma : ℝ} (hd : 0 < d50) (hs : 0 < sigma) {n i : ℕ} (hi : i < n) : 0 < lnVf0 n d50 sigma i := by
  have he := lnEdge_lt hd hs (Nat.lt_succ_self i) (by omega : i + 1 ≤ n)
  have hc : 0 < lnCenter n d50 sigma i := center_pos _ _
  have hpi : (0 : ℝ) < Model.Psf.pi := by simp only [Model.Psf.pi, Num.real_ofSci]; norm_num
  simp only [lnVf0, Num.real_exp, Num.real_sqrt, Num.real_ofNat, Num.real_one]
  have hsq : 0 < Real.sqrt (2 * Model.Psf.pi) := Real.sqrt_pos.mpr (by positivity)
  have hdiff : 0 < lnEdge n d50 sigma (i + 1) - lnEdge n d50 sigma i := sub_pos.mpr he
  have hexp := Real.exp_pos (-Num.npow (Num.log (lnCenter n d50 sigma i) - Num.log 1) 2 / (2 * Num.npow sigma 2))
  positivity

theorem lnVf0_indep {d50 d50' : ℝ} (hd : 0 < d50) (hd' : 0 < d50') (n : ℕ) (sigma : ℝ) (i : ℕ) :
    lnVf0 n d50 sigma i = lnVf0 n d50' sigma i := by
  simp only [lnVf0, lnCenter, lnEdge_indep hd hd']


/-! ### legacy truncation: fold invariant -/

theorem sum_set_getD : ∀ (l : List ℝ) (i : ℕ) (a : ℝ), i < l.length → (l.set i a).sum = l.sum - l.getD i 0 + a
  | [], _, _, h => by simp at h
  | x :: l, 0, a, _ => by simp; ring
  | x :: l, i + 1, a, h => by
      have ih := sum_set_getD l i a (by simpa using h)
      simp only [List.set_cons_succ, List.sum_cons, ih, List.getD_cons_succ]
      ring

theorem getD_set_ne (l : List ℝ) {i j : ℕ} (a : ℝ) (h : j ≠ i) : (l.set j a).getD i 0 = l.getD i 0 := by
  simp [List.getD_eq_getElem?_getD, List.getElem?_set_ne h]

theorem sum_move (md : List ℝ) {i j : ℕ} (hj : j < md.length) (hi : i < md.length) (hne : j ≠ i) :
    ((md.set j (md.getD j 0 + md.getD i 0)).set i 0).sum = md.sum := by
  rw [sum_set_getD _ i 0 (by simpa using hi), getD_set_ne _ _ hne, sum_set_getD _ j _ hj]
  ring

/-- invariant of the truncation loop after the indices `< i` -/
structure TruncInv (n i : ℕ) (s0 : ℝ) (st : Option ℕ × List ℝ × List ℝ) : Prop where
  lenDe : st.2.1.length = n
  lenMd : st.2.2.length = n
  sum : st.2.2.sum = s0
  imax : ∀ j, st.1 = some j → j < i

theorem truncStep_inv {n i : ℕ} {s0 dmax : ℝ} {st : Option ℕ × List ℝ × List ℝ} (hi : i < n) (h : TruncInv n i s0 st) :
    TruncInv n (i + 1) s0 (truncStep dmax st i) := by
  unfold truncStep
  simp only [Num.real_zero]
  split
  · cases hst : st.1 with
    | none =>
      simp only
      exact ⟨by simpa using h.lenDe, h.lenMd, h.sum, fun j hj => by cases hj; omega⟩
    | some j =>
      have hj : j < i := h.imax j hst
      simp only
      refine ⟨h.lenDe, by simpa using h.lenMd, ?_, fun j' hj' => by cases hj'; omega⟩
      show ((st.2.2.set j (st.2.2.getD j 0 + st.2.2.getD i 0)).set i 0).sum = s0
      rw [sum_move _ (by rw [h.lenMd]; omega) (by rw [h.lenMd]; omega) (by omega)]
      exact h.sum
  · exact ⟨h.lenDe, h.lenMd, h.sum, fun j hj => by have := h.imax j hj; omega⟩

theorem foldl_truncStep_inv {n : ℕ} {s0 dmax : ℝ} (m : ℕ) (hm : m ≤ n) {st : Option ℕ × List ℝ × List ℝ}
    (h : TruncInv n 0 s0 st) : TruncInv n m s0 ((List.range m).foldl (truncStep dmax) st) := by
  induction m with
  | zero => simpa using h
  | succ m ih =>
    rw [List.range_succ, List.foldl_append]
    simp only [List.foldl_cons, List.foldl_nil]
    exact truncStep_inv (by omega) (ih (by omega))


end TamocV.Lemmas.C16
