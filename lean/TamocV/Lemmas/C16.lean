/-
  Helper lemmas for C16 (size distributions): linspace/logspace, bin centres, telescoping sums, rpow/exp/log monotonicity.
-/
import TamocV.Real
import TamocV.Lemmas.Basic
import TamocV.Model.Psf
import Mathlib.Tactic.Ring
import Mathlib.Tactic.FieldSimp
import Mathlib.Tactic.Linarith
import Mathlib.Tactic.Positivity
import Mathlib.Tactic.NormNum
import Mathlib.Analysis.SpecialFunctions.Pow.Real
import Mathlib.Analysis.SpecialFunctions.Log.Basic
import Mathlib.Algebra.BigOperators.Group.List.Basic

set_option linter.unusedSimpArgs false
set_option linter.unusedVariables false

namespace TamocV.Lemmas.C16
open TamocV TamocV.Model.Psf

@[simp] theorem real_ofNat' (n : ℕ) : (Num.ofNat n : ℝ) = (n : ℝ) := rfl

@[simp] theorem isZero_iff (x : ℝ) : isZero x = true ↔ x = 0 := by
  simp only [isZero, Num.real_zero, Bool.and_eq_true, decide_eq_true_eq]
  exact ⟨fun h => le_antisymm h.1 h.2, fun h => by simp [h]⟩

theorem isZero_false_of_ne {x : ℝ} (h : x ≠ 0) : isZero x = false := by
  cases hz : isZero x with
  | false => rfl
  | true => exact absurd ((isZero_iff x).mp hz) h

/-! ### linspace / logspace -/

theorem linspaceAt_lt {a b : ℝ} (hab : a < b) {n i j : ℕ} (hij : i < j) (hj : j ≤ n) :
    linspaceAt a b n i < linspaceAt a b n j := by
  have hn : 0 < n := by omega
  have hnR : (0 : ℝ) < n := by exact_mod_cast hn
  have hi : i ≠ n := by omega
  have hstep : 0 < (b - a) / (n : ℝ) := div_pos (sub_pos.mpr hab) hnR
  simp only [linspaceAt, hi, if_false, real_ofNat']
  by_cases hjn : j = n
  · simp only [hjn, if_true]
    have hin : (i : ℝ) < n := by exact_mod_cast (by omega : i < n)
    have : (i : ℝ) * ((b - a) / n) < (n : ℝ) * ((b - a) / n) := mul_lt_mul_of_pos_right hin hstep
    have h2 : (n : ℝ) * ((b - a) / n) = b - a := by field_simp
    linarith
  · simp only [hjn, if_false]
    have hijR : (i : ℝ) < j := by exact_mod_cast hij
    have : (i : ℝ) * ((b - a) / n) < (j : ℝ) * ((b - a) / n) := mul_lt_mul_of_pos_right hijR hstep
    linarith

theorem logspaceAt_pos (a b : ℝ) (n i : ℕ) : 0 < logspaceAt a b n i := by
  simp only [logspaceAt, Num.real_rpow, Num.real_ofNat]
  exact Real.rpow_pos_of_pos (by norm_num) _

theorem logspaceAt_lt {a b : ℝ} (hab : a < b) {n i j : ℕ} (hij : i < j) (hj : j ≤ n) :
    logspaceAt a b n i < logspaceAt a b n j := by
  simp only [logspaceAt, Num.real_rpow, Num.real_ofNat]
  exact Real.rpow_lt_rpow_of_exponent_lt (by norm_num) (linspaceAt_lt hab hij hj)

theorem log10_lt {x y : ℝ} (hx : 0 < x) (hxy : x < y) : Num.log10 x < Num.log10 y := by
  rw [Num.real_log10, Num.real_log10]
  have h10 : 0 < Real.log 10 := Real.log_pos (by norm_num)
  exact div_lt_div_of_pos_right (Real.log_lt_log hx hxy) h10

/-! ### bin centres -/

theorem center_eq (e0 e1 : ℝ) : center e0 e1 = Real.exp ((Real.log e0 + Real.log e1) / 2) := by
  simp only [center, Num.real_exp, Num.real_log, Num.real_ofNat]
  congr 1; ring

theorem center_pos (e0 e1 : ℝ) : 0 < center e0 e1 := by
  rw [center_eq]; exact Real.exp_pos _

theorem center_gt_left {e0 e1 : ℝ} (h0 : 0 < e0) (h : e0 < e1) : e0 < center e0 e1 := by
  rw [center_eq]
  have hl := Real.log_lt_log h0 h
  calc e0 = Real.exp (Real.log e0) := (Real.exp_log h0).symm
    _ < _ := Real.exp_lt_exp.mpr (by linarith)

theorem center_lt_right {e0 e1 : ℝ} (h0 : 0 < e0) (h : e0 < e1) : center e0 e1 < e1 := by
  rw [center_eq]
  have hl := Real.log_lt_log h0 h
  calc _ < Real.exp (Real.log e1) := Real.exp_lt_exp.mpr (by linarith)
    _ = e1 := Real.exp_log (h0.trans h)

/-! ### sums over `List.range` -/

theorem sum_range_telescope (v : ℕ → ℝ) (n : ℕ) : ((List.range n).map (fun i => v (i + 1) - v i)).sum = v n - v 0 := by
  induction n with
  | zero => simp
  | succ n ih => rw [List.range_succ, List.map_append, List.sum_append, ih]; simp

theorem sum_map_div (l : List ℝ) (c : ℝ) : (l.map (fun x => x / c)).sum = l.sum / c := by
  induction l with
  | nil => simp
  | cons a l ih => simp [ih, add_div]

theorem sum_range_pos (f : ℕ → ℝ) {n : ℕ} (hn : 0 < n) (hf : ∀ i, i < n → 0 < f i) : 0 < ((List.range n).map f).sum := by
  induction n with
  | zero => omega
  | succ n ih =>
    rw [List.range_succ, List.map_append, List.sum_append]
    have hlast : 0 < f n := hf n (by omega)
    by_cases h0 : n = 0
    · subst h0; simpa using hlast
    · have := ih (by omega) (fun i hi => hf i (by omega))
      simp only [List.map_cons, List.map_nil, List.sum_cons, List.sum_nil, add_zero]
      linarith

/-- a list produced by a strictly increasing index function is strictly increasing -/
theorem pairwise_range_map (f : ℕ → ℝ) (n : ℕ) (hf : ∀ i j, i < j → j < n → f i < f j) :
    ((List.range n).map f).Pairwise (· < ·) := by
  rw [List.pairwise_map]
  have h := List.pairwise_lt_range (n := n)
  refine List.Pairwise.imp_of_mem ?_ h
  intro a b ha hb hab
  exact hf a b hab (List.mem_range.mp hb)

/-! ### Rosin-Rammler -/

theorem log_005_lt_log_099 : Real.log (1 - 0.995) < Real.log (1 - 0.01) :=
  Real.log_lt_log (by norm_num) (by norm_num)

theorem log_099_neg : Real.log (1 - 0.01) < 0 := Real.log_neg (by norm_num) (by norm_num)

theorem rrA01_pos {k alpha : ℝ} (hk : k < 0) : 0 < rrA01 k alpha := by
  simp only [rrA01, Num.real_rpow, Num.real_log, Num.real_ofSci, Num.real_one]
  exact Real.rpow_pos_of_pos (div_pos_of_neg_of_neg log_099_neg hk) _

theorem rrA01_lt_rrA99 {k alpha : ℝ} (hk : k < 0) (ha : 0 < alpha) : rrA01 k alpha < rrA99 k alpha := by
  simp only [rrA01, rrA99, Num.real_rpow, Num.real_log, Num.real_ofSci, Num.real_one]
  have h1 : 0 < Real.log (1 - 0.01) / k := div_pos_of_neg_of_neg log_099_neg hk
  have h2 : Real.log (1 - 0.01) / k < Real.log (1 - 0.995) / k := div_lt_div_of_neg_of_lt hk log_005_lt_log_099
  exact Real.rpow_lt_rpow h1.le h2 (by positivity)

theorem rrEdge_pos (n : ℕ) (k alpha : ℝ) (i : ℕ) : 0 < rrEdge n k alpha i := logspaceAt_pos _ _ _ _

theorem rrEdge_lt {k alpha : ℝ} (hk : k < 0) (ha : 0 < alpha) {n i j : ℕ} (hij : i < j) (hj : j ≤ n) :
    rrEdge n k alpha i < rrEdge n k alpha j :=
  logspaceAt_lt (log10_lt (rrA01_pos hk) (rrA01_lt_rrA99 hk ha)) hij hj

theorem rrCenter_lt {k alpha : ℝ} (hk : k < 0) (ha : 0 < alpha) {n i j : ℕ} (hij : i < j) (hj : j < n) :
    rrCenter n k alpha i < rrCenter n k alpha j := by
  have h1 : rrCenter n k alpha i < rrEdge n k alpha (i + 1) :=
    center_lt_right (rrEdge_pos _ _ _ _) (rrEdge_lt hk ha (Nat.lt_succ_self i) (by omega))
  have h2 : rrEdge n k alpha j < rrCenter n k alpha j :=
    center_gt_left (rrEdge_pos _ _ _ _) (rrEdge_lt hk ha (Nat.lt_succ_self j) (by omega))
  have h3 : rrEdge n k alpha (i + 1) ≤ rrEdge n k alpha j := by
    rcases Nat.lt_or_ge (i + 1) j with h | h
    · exact (rrEdge_lt hk ha h (by omega)).le
    · have : i + 1 = j := by omega
      rw [this]
  linarith

theorem rrVf0_pos {k alpha : ℝ} (hk : k < 0) (ha : 0 < alpha) {n i : ℕ} (hi : i < n) : 0 < rrVf0 n k alpha i := by
  simp only [rrVf0, rrVn, Num.real_exp, Num.real_rpow, Num.real_one]
  have he := rrEdge_lt hk ha (Nat.lt_succ_self i) (by omega : i + 1 ≤ n)
  have hp : rrEdge n k alpha i ^ alpha < rrEdge n k alpha (i + 1) ^ alpha :=
    Real.rpow_lt_rpow (rrEdge_pos _ _ _ _).le he ha
  have hm : k * rrEdge n k alpha (i + 1) ^ alpha < k * rrEdge n k alpha i ^ alpha := mul_lt_mul_of_neg_left hp hk
  have := Real.exp_lt_exp.mpr hm
  linarith

theorem rrVf0_sum_pos {k alpha : ℝ} (hk : k < 0) (ha : 0 < alpha) {n : ℕ} (hn : 0 < n) :
    0 < ((List.range n).map (rrVf0 n k alpha)).sum :=
  sum_range_pos _ hn (fun _ hi => rrVf0_pos hk ha hi)

/-! ### log-normal -/

theorem lnA0_eq {d50 : ℝ} (hd : 0 < d50) (sigma : ℝ) : lnA0 d50 sigma = Real.exp (-(2.8 * sigma)) := by
  simp only [lnA0, Num.real_exp, Num.real_log, Num.real_ofSci]
  rw [Real.exp_sub, Real.exp_log hd, Real.exp_neg]
  field_simp

theorem lnA1_eq {d50 : ℝ} (hd : 0 < d50) (sigma : ℝ) : lnA1 d50 sigma = Real.exp (2.3 * sigma) := by
  simp only [lnA1, Num.real_exp, Num.real_log, Num.real_ofSci]
  rw [Real.exp_add, Real.exp_log hd]
  field_simp

theorem lnEdge_indep {d50 d50' : ℝ} (hd : 0 < d50) (hd' : 0 < d50') (n : ℕ) (sigma : ℝ) (i : ℕ) :
    lnEdge n d50 sigma i = lnEdge n d50' sigma i := by
  simp only [lnEdge, lnA0_eq hd, lnA0_eq hd', lnA1_eq hd, lnA1_eq hd']

theorem lnEdge_pos (n : ℕ) (d50 sigma : ℝ) (i : ℕ) : 0 < lnEdge n d50 sigma i := logspaceAt_pos _ _ _ _

theorem lnEdge_lt {d50 sigma : ℝ} (hd : 0 < d50) (hs : 0 < sigma) {n i j : ℕ} (hij : i < j) (hj : j ≤ n) :
    lnEdge n d50 sigma i < lnEdge n d50 sigma j := by
  apply logspaceAt_lt (log10_lt _ _) hij hj
  · rw [lnA0_eq hd]; exact Real.exp_pos _
  · rw [lnA0_eq hd, lnA1_eq hd]
    apply Real.exp_lt_exp.mpr
    have : (0:ℝ) < 2.8 := by norm_num
    have : (0:ℝ) < 2.3 := by norm_num
    nlinarith

theorem lnVf0_pos {d50 sigma : ℝ} (hd : 0 < d50) (hs : 0 < sigma) {n i : ℕ} (hi : i < n) : 0 < lnVf0 n d50 sigma i := by
  have he := lnEdge_lt hd hs (Nat.lt_succ_self i) (by omega : i + 1 ≤ n)
  have hc : 0 < lnCenter n d50 sigma i := center_pos _ _
  have hpi : (0 : ℝ) < Model.Psf.pi := by simp only [Model.Psf.pi, Num.real_ofSci]; norm_num
  simp only [lnVf0, Num.real_exp, Num.real_sqrt, Num.real_ofNat, Num.real_one]
  have hsq : 0 < Real.sqrt (2 * Model.Psf.pi) := Real.sqrt_pos.mpr (by positivity)
  have hdiff : 0 < lnEdge n d50 sigma (i + 1) - lnEdge n d50 sigma i := sub_pos.mpr he
  have hexp := Real.exp_pos (-Num.npow (Num.log (lnCenter n d50 sigma i) - Num.log 1) 2 / (2 * Num.npow sigma 2))
  positivity

theorem lnVf0_indep {d50 d50' : ℝ} (hd : 0 < d50) (hd' : 0 < d50') (n : ℕ) (sigma : ℝ) (i : ℕ) :
    lnVf0 n d50 sigma i = lnVf0 n d50' sigma i := by
  simp only [lnVf0, lnCenter, lnEdge_indep hd hd']


/-! ### legacy truncation: fold invariant -/

theorem sum_set_getD : ∀ (l : List ℝ) (i : ℕ) (a : ℝ), i < l.length → (l.set i a).sum = l.sum - l.getD i 0 + a
  | [], _, _, h => by simp at h
  | x :: l, 0, a, _ => by simp; ring
  | x :: l, i + 1, a, h => by
      have ih := sum_set_getD l i a (by simpa using h)
      simp only [List.set_cons_succ, List.sum_cons, ih, List.getD_cons_succ]
      ring

theorem getD_set_ne (l : List ℝ) {i j : ℕ} (a : ℝ) (h : j ≠ i) : (l.set j a).getD i 0 = l.getD i 0 := by
  simp [List.getD_eq_getElem?_getD, List.getElem?_set_ne h]

theorem sum_move (md : List ℝ) {i j : ℕ} (hj : j < md.length) (hi : i < md.length) (hne : j ≠ i) :
    ((md.set j (md.getD j 0 + md.getD i 0)).set i 0).sum = md.sum := by
  rw [sum_set_getD _ i 0 (by simpa using hi), getD_set_ne _ _ hne, sum_set_getD _ j _ hj]
  ring

/-- invariant of the truncation loop after the indices `< i` -/
structure TruncInv (n i : ℕ) (s0 : ℝ) (st : Option ℕ × List ℝ × List ℝ) : Prop where
  lenDe : st.2.1.length = n
  lenMd : st.2.2.length = n
  sum : st.2.2.sum = s0
  imax : ∀ j, st.1 = some j → j < i

theorem truncStep_inv {n i : ℕ} {s0 dmax : ℝ} {st : Option ℕ × List ℝ × List ℝ} (hi : i < n) (h : TruncInv n i s0 st) :
    TruncInv n (i + 1) s0 (truncStep dmax st i) := by
  unfold truncStep
  simp only [Num.real_zero]
  split
  · cases hst : st.1 with
    | none =>
      simp only
      exact ⟨by simpa using h.lenDe, h.lenMd, h.sum, fun j hj => by cases hj; omega⟩
    | some j =>
      have hj : j < i := h.imax j hst
      simp only
      refine ⟨h.lenDe, by simpa using h.lenMd, ?_, fun j' hj' => by cases hj'; omega⟩
      show ((st.2.2.set j (st.2.2.getD j 0 + st.2.2.getD i 0)).set i 0).sum = s0
      rw [sum_move _ (by rw [h.lenMd]; omega) (by rw [h.lenMd]; omega) (by omega)]
      exact h.sum
  · exact ⟨h.lenDe, h.lenMd, h.sum, fun j hj => by have := h.imax j hj; omega⟩

theorem foldl_truncStep_inv {n : ℕ} {s0 dmax : ℝ} (m : ℕ) (hm : m ≤ n) {st : Option ℕ × List ℝ × List ℝ}
    (h : TruncInv n 0 s0 st) : TruncInv n m s0 ((List.range m).foldl (truncStep dmax) st) := by
  induction m with
  | zero => simpa using h
  | succ m ih =>
    rw [List.range_succ, List.foldl_append]
    simp only [List.foldl_cons, List.foldl_nil]
    exact truncStep_inv (by omega) (ih (by omega))


/-! ### definedness tracking: the model functions evaluated on `Chk`

  `Chk` is a `Num` instance like `Float` and `ℝ`: the SAME generic model definitions elaborate at it.  `val` is the real
  value, `ok` the conjunction of the domain conditions of every operation that produced it: divisor ≠ 0, `log` argument > 0,
  `sqrt` argument ≥ 0, `rpow` base > 0 (or base = 0 with exponent ≥ 0) — what NumPy needs not to signal divide / invalid. -/

/-- a real value together with the proposition "every operation evaluated to produce it was in its domain" -/
structure Chk where
  val : ℝ
  ok : Prop

open Classical in
noncomputable instance : Num Chk where
  add a b := ⟨a.val + b.val, a.ok ∧ b.ok⟩
  sub a b := ⟨a.val - b.val, a.ok ∧ b.ok⟩
  mul a b := ⟨a.val * b.val, a.ok ∧ b.ok⟩
  div a b := ⟨a.val / b.val, a.ok ∧ b.ok ∧ b.val ≠ 0⟩
  neg a := ⟨-a.val, a.ok⟩
  lt a b := a.val < b.val
  le a b := a.val ≤ b.val
  ofNat n := ⟨(n : ℝ), True⟩
  ofSci m s e := ⟨(OfScientific.ofScientific m s e : ℝ), True⟩
  exp a := ⟨Real.exp a.val, a.ok⟩
  log a := ⟨Real.log a.val, a.ok ∧ 0 < a.val⟩
  sqrt a := ⟨Real.sqrt a.val, a.ok ∧ 0 ≤ a.val⟩
  rpow a b := ⟨a.val ^ b.val, a.ok ∧ b.ok ∧ (0 < a.val ∨ (a.val = 0 ∧ 0 ≤ b.val))⟩
  sin a := ⟨Real.sin a.val, a.ok⟩
  cos a := ⟨Real.cos a.val, a.ok⟩
  atan2 a b := ⟨Complex.arg ⟨b.val, a.val⟩, a.ok ∧ b.ok⟩
  decLt := fun _ _ => Classical.propDecidable _
  decLe := fun _ _ => Classical.propDecidable _

/-- an input: a real that is simply given -/
def inp (x : ℝ) : Chk := ⟨x, True⟩

@[simp] theorem chk_add (a b : Chk) : a + b = ⟨a.val + b.val, a.ok ∧ b.ok⟩ := rfl
@[simp] theorem chk_sub (a b : Chk) : a - b = ⟨a.val - b.val, a.ok ∧ b.ok⟩ := rfl
@[simp] theorem chk_mul (a b : Chk) : a * b = ⟨a.val * b.val, a.ok ∧ b.ok⟩ := rfl
@[simp] theorem chk_div (a b : Chk) : a / b = ⟨a.val / b.val, a.ok ∧ b.ok ∧ b.val ≠ 0⟩ := rfl
@[simp] theorem chk_neg (a : Chk) : -a = ⟨-a.val, a.ok⟩ := rfl
@[simp] theorem chk_lt (a b : Chk) : (a < b) = (a.val < b.val) := rfl
@[simp] theorem chk_le (a b : Chk) : (a ≤ b) = (a.val ≤ b.val) := rfl
@[simp] theorem chk_ofNat (n : Nat) [n.AtLeastTwo] : (@OfNat.ofNat Chk n (Num.instOfNat n)) = ⟨(OfNat.ofNat n : ℝ), True⟩ := by
  show (⟨((n : ℕ) : ℝ), True⟩ : Chk) = _
  congr 1
@[simp] theorem chk_zero : (@OfNat.ofNat Chk 0 (Num.instOfNat 0)) = ⟨0, True⟩ := by
  show (⟨((0 : ℕ) : ℝ), True⟩ : Chk) = _; simp
@[simp] theorem chk_one : (@OfNat.ofNat Chk 1 (Num.instOfNat 1)) = ⟨1, True⟩ := by
  show (⟨((1 : ℕ) : ℝ), True⟩ : Chk) = _; simp
@[simp] theorem chk_ofSci (m : Nat) (s : Bool) (e : Nat) :
    (@OfScientific.ofScientific Chk Num.instOfScientific m s e) = ⟨(OfScientific.ofScientific m s e : ℝ), True⟩ := rfl
@[simp] theorem chk_exp (a : Chk) : Num.exp a = ⟨Real.exp a.val, a.ok⟩ := rfl
@[simp] theorem chk_log (a : Chk) : Num.log a = ⟨Real.log a.val, a.ok ∧ 0 < a.val⟩ := rfl
@[simp] theorem chk_sqrt (a : Chk) : Num.sqrt a = ⟨Real.sqrt a.val, a.ok ∧ 0 ≤ a.val⟩ := rfl
@[simp] theorem chk_rpow (a b : Chk) :
    Num.rpow a b = ⟨a.val ^ b.val, a.ok ∧ b.ok ∧ (0 < a.val ∨ (a.val = 0 ∧ 0 ≤ b.val))⟩ := rfl
@[simp] theorem chk_npow (a : Chk) (n : Nat) : Num.npow a (n + 1) = ⟨a.val ^ (n + 1), a.ok⟩ := by
  induction n with
  | zero => simp [Num.npow]
  | succ n ih => rw [Num.npow, ih]; simp [pow_succ]


def okOpt : Option Chk → Prop
  | none => True
  | some x => x.ok
def ok4 (r : Chk × Option Chk × Chk × Chk) : Prop := r.1.ok ∧ okOpt r.2.1 ∧ r.2.2.1.ok ∧ r.2.2.2.ok
def ok5 (r : Chk × Chk × Chk × Option Chk × Chk) : Prop := r.1.ok ∧ r.2.1.ok ∧ r.2.2.1.ok ∧ okOpt r.2.2.2.1 ∧ r.2.2.2.2.ok
def allOk (l : List Chk) : Prop := ∀ x ∈ l, x.ok

@[simp] theorem allOk_nil : allOk [] := by simp [allOk]
@[simp] theorem allOk_cons (a : Chk) (l : List Chk) : allOk (a :: l) ↔ a.ok ∧ allOk l := by simp [allOk]
@[simp] theorem allOk_append (l m : List Chk) : allOk (l ++ m) ↔ allOk l ∧ allOk m := by
  simp only [allOk, List.mem_append]
  exact ⟨fun h => ⟨fun x hx => h x (Or.inl hx), fun x hx => h x (Or.inr hx)⟩, fun h x hx => hx.elim (h.1 x) (h.2 x)⟩

@[simp] theorem inp_val (x : ℝ) : (inp x).val = x := rfl
@[simp] theorem inp_ok (x : ℝ) : (inp x).ok = True := rfl
@[simp] theorem chk_isZero (a : Chk) : isZero a = isZero a.val := by simp [isZero]
@[simp] theorem chk_sum_nil : Num.sum ([] : List Chk) = ⟨0, True⟩ := by simp [Num.sum]
@[simp] theorem chk_sum_one (a : Chk) : Num.sum [a] = ⟨0 + a.val, True ∧ a.ok⟩ := by simp [Num.sum]

theorem pi_pos' : (0 : ℝ) < Model.Psf.pi := by simp only [Model.Psf.pi, Num.real_ofSci]; norm_num
theorem log_half_neg' : Real.log 0.5 < 0 := Real.log_neg (by norm_num) (by norm_num)
theorem log_005_neg' : Real.log 0.05 < 0 := Real.log_neg (by norm_num) (by norm_num)

/-- the constant `(log(1 - 0.95) / log 0.5) ** (1/1.8)` of the d95 rule is defined -/
theorem rrFit_some_ok (d50 dm : Chk) (h1 : d50.ok) (h2 : dm.ok) :
    (rrFit d50 (some dm) 1.8).1.ok ∧ (rrFit d50 (some dm) 1.8).2.1.ok ∧ (rrFit d50 (some dm) 1.8).2.2.ok ∧
      allOk (rrFitAux d50 (some dm) 1.8) := by
  have e1 : (1 - 0.95 : ℝ) = 0.05 := by norm_num
  have e2 : (1 - 0.5 : ℝ) = 0.5 := by norm_num
  have ha := log_half_neg'
  have hb := log_005_neg'
  have hr1 : 0 < Real.log 0.05 / Real.log 0.5 := div_pos_of_neg_of_neg hb ha
  have hr2 : 0 < Real.log 0.5 / Real.log 0.05 := div_pos_of_neg_of_neg ha hb
  simp only [rrFit, rrFitAux, rrD95, chk_log, chk_ofSci, chk_one, chk_sub, chk_div, chk_rpow, chk_mul, chk_lt, e1, e2]
  split <;> simp [h1, h2, ha.ne, hb.ne, hr1, hr2] <;> norm_num

theorem rrFit_none_ok (d50 : Chk) (h1 : d50.ok) :
    (rrFit d50 none 1.8).1.ok ∧ (rrFit d50 none 1.8).2.1.ok ∧ (rrFit d50 none 1.8).2.2.ok := by
  simp [rrFit, h1]; norm_num

theorem deMaxOil_ok (a b c : Chk) (ha : a.ok) (hb : b.ok) (hc : c.ok) (hlt : a.val < c.val) (hs : 0 ≤ b.val) :
    (deMaxOil a b c).ok := by
  have hG : (0:ℝ) < 9.81 := by norm_num
  have : 0 < 9.81 * (c.val - a.val) := mul_pos hG (sub_pos.mpr hlt)
  simp [deMaxOil, Model.Psf.G, ha, hb, hc, this.ne', div_nonneg hs this.le]

/-! sintef -/

theorem sintefD50_ok (dpRoot u0 d0 rho_p mu_p sigma rho : Chk) (h1 : dpRoot.ok) (h2 : d0.ok) :
    (sintefD50 dpRoot u0 d0 rho_p mu_p sigma rho).ok := by
  simp only [sintefD50]
  split <;> simp [h1, h2]

theorem sintefWeVi_ok (u0 d0 rho_p mu_p sigma : Chk) (h1 : u0.ok) (h2 : d0.ok) (h3 : rho_p.ok) (h4 : mu_p.ok) (h5 : sigma.ok)
    (hs : sigma.val ≠ 0) : (sintefWe u0 d0 rho_p sigma).ok ∧ (sintefVi u0 mu_p sigma).ok := by
  simp [sintefWe, sintefVi, h1, h2, h3, h4, h5, hs]

/-- `sintef_model` for a flowing liquid phase: results and everything else it evaluates are defined -/
theorem sintefModel_liquid_ok (dmaxGas dpRoot Uc d0 q rho_p mu_p sigma rho mu : Chk) (useD95 : Bool)
    (hq : 0 < q.val) (h1 : dpRoot.ok) (h2 : Uc.ok) (h3 : d0.ok) (h4 : rho_p.ok) (h5 : mu_p.ok) (h6 : sigma.ok) (h7 : rho.ok)
    (hs : 0 < sigma.val) (hlt : rho_p.val < rho.val) :
    ok4 (sintefModel dmaxGas dpRoot Uc d0 q rho_p mu_p sigma rho mu false useD95) ∧
      allOk (sintefModelAux dmaxGas dpRoot Uc d0 q rho_p mu_p sigma rho false) := by
  have hd := sintefD50_ok dpRoot Uc d0 rho_p mu_p sigma rho h1 h3
  have hm := deMaxOil_ok rho_p sigma rho h4 h6 h7 hlt hs.le
  have hf := rrFit_some_ok _ _ hd hm
  have hw := sintefWeVi_ok Uc d0 rho_p mu_p sigma h2 h3 h4 h5 h6 hs.ne'
  simp only [sintefModel, sintefModelAux, chk_lt, chk_zero, hq, if_true, Bool.false_eq_true, if_false, ok4, okOpt,
    allOk_append, allOk_cons, allOk_nil, and_true]
  refine ⟨⟨?_, hm, hf.2.1, hf.2.2.1⟩, ?_⟩
  rotate_left
  · simp only [hw.1, hw.2, true_and]; exact hf.2.2.2
  cases useD95
  · simp only [Bool.false_eq_true, if_false]; split <;> assumption
  · simp only [if_true]; exact hf.1

/-- `sintef_model` for a flowing gas phase (maximum stable size = the Grace et al. oracle) -/
theorem sintefModel_gas_ok (dmaxGas dpRoot Uc d0 q rho_p mu_p sigma rho mu : Chk) (useD95 : Bool)
    (hq : 0 < q.val) (h0 : dmaxGas.ok) (h1 : dpRoot.ok) (h2 : Uc.ok) (h3 : d0.ok) (h4 : rho_p.ok) (h5 : mu_p.ok) (h6 : sigma.ok)
    (hs : 0 < sigma.val) :
    ok4 (sintefModel dmaxGas dpRoot Uc d0 q rho_p mu_p sigma rho mu true useD95) ∧
      allOk (sintefModelAux dmaxGas dpRoot Uc d0 q rho_p mu_p sigma rho true) := by
  have hd := sintefD50_ok dpRoot Uc d0 rho_p mu_p sigma rho h1 h3
  have hf := rrFit_some_ok _ _ hd h0
  have hw := sintefWeVi_ok Uc d0 rho_p mu_p sigma h2 h3 h4 h5 h6 hs.ne'
  simp only [sintefModel, sintefModelAux, chk_lt, chk_zero, hq, if_true, ok4, okOpt,
    allOk_append, allOk_cons, allOk_nil, and_true]
  refine ⟨⟨?_, h0, hf.2.1, hf.2.2.1⟩, ?_⟩
  rotate_left
  · simp only [hw.1, hw.2, true_and]; exact hf.2.2.2
  cases useD95
  · simp only [Bool.false_eq_true, if_false]; split <;> assumption
  · simp only [if_true]; exact hf.1

/-- `sintef_model` for a phase that does not flow: nothing is evaluated but the constants of the empty fit -/
theorem sintefModel_noflow_ok (dmaxGas dpRoot Uc d0 q rho_p mu_p sigma rho mu : Chk) (isGas useD95 : Bool)
    (hq : ¬ 0 < q.val) :
    ok4 (sintefModel dmaxGas dpRoot Uc d0 q rho_p mu_p sigma rho mu isGas useD95) ∧
      allOk (sintefModelAux dmaxGas dpRoot Uc d0 q rho_p mu_p sigma rho isGas) := by
  have hf := rrFit_none_ok (⟨0, True⟩ : Chk) trivial
  simp only [sintefModel, sintefModelAux, chk_lt, chk_zero, hq, if_false, ok4, okOpt, allOk_nil, and_true, true_and]
  exact hf

/-- exit velocity, mixture density, Froude number and corrected velocity with the OIL phase only -/
theorem sintefUc_oil_only_ok (d0 rhoGas q rhoOil rho : Chk) (h1 : d0.ok) (h2 : q.ok) (h3 : rhoOil.ok) (h4 : rho.ok)
    (hd : 0 < d0.val) (hq : 0 < q.val) (hr : 0 < rho.val) (hlt : rhoOil.val < rho.val) :
    (sintefN ⟨0, True⟩ q).ok ∧ (sintefUn d0 ⟨0, True⟩ rhoGas q rhoOil).1.ok ∧ (sintefUn d0 ⟨0, True⟩ rhoGas q rhoOil).2.ok ∧
      (sintefFr d0 ⟨0, True⟩ rhoGas q rhoOil rho).ok ∧ (sintefUc d0 ⟨0, True⟩ rhoGas q rhoOil rho).ok := by
  have hpi := pi_pos'
  have hz : isZero (0 : ℝ) = true := (isZero_iff 0).mpr rfl
  have hq0 : isZero q.val = false := isZero_false_of_ne hq.ne'
  have hG : (0:ℝ) < 9.81 := by norm_num
  have hbase : 0 < 9.81 * (rho.val - rhoOil.val) / rho.val * d0.val := by
    have := sub_pos.mpr hlt; positivity
  have hroot : 0 < (9.81 * (rho.val - rhoOil.val) / rho.val * d0.val) ^ ((1:ℝ) / 2) := Real.rpow_pos_of_pos hbase _
  have hUn : 0 < 4 * q.val / (Model.Psf.pi * d0.val ^ 2) := by positivity
  have hden : Model.Psf.pi * d0.val ^ 2 ≠ 0 := by positivity
  simp only [sintefN, sintefUn, sintefFr, sintefUc, chk_isZero, hz, hq0, Bool.false_eq_true, if_false, if_true,
    Model.Psf.G, Model.Psf.pi, chk_div, chk_add, chk_mul, chk_sub, chk_ofNat, chk_one, chk_ofSci, chk_npow, chk_rpow,
    zero_add, true_and, and_true, h1, h2, h3, h4]
  simp only [Model.Psf.pi, Num.real_ofSci] at hden hUn
  have hFr := (div_pos hUn hroot).ne'
  have h2ne : (2 : ℝ) ≠ 0 := by norm_num
  have hroot2 : (9.81 * (rho.val - rhoOil.val) / rho.val * d0.val) ^ ((2:ℝ)⁻¹) ≠ 0 := (Real.rpow_pos_of_pos hbase _).ne'
  have hFr2 : 4 * q.val / (3.141592653589793 * d0.val ^ 2) / (9.81 * (rho.val - rhoOil.val) / rho.val * d0.val) ^ ((2:ℝ)⁻¹) ≠ 0 :=
    (div_pos hUn (Real.rpow_pos_of_pos hbase _)).ne'
  simp [hq.ne', hden, hr.ne', hbase, hroot.ne', hFr, h2ne, hroot2, hFr2]

/-- … and with the GAS phase only -/
theorem sintefUc_gas_only_ok (d0 q rhoGas rhoOil rho : Chk) (h1 : d0.ok) (h2 : q.ok) (h3 : rhoGas.ok) (h4 : rho.ok)
    (hd : 0 < d0.val) (hq : 0 < q.val) (hr : 0 < rho.val) (hlt : rhoGas.val < rho.val) :
    (sintefN q ⟨0, True⟩).ok ∧ (sintefUn d0 q rhoGas ⟨0, True⟩ rhoOil).1.ok ∧ (sintefUn d0 q rhoGas ⟨0, True⟩ rhoOil).2.ok ∧
      (sintefFr d0 q rhoGas ⟨0, True⟩ rhoOil rho).ok ∧ (sintefUc d0 q rhoGas ⟨0, True⟩ rhoOil rho).ok := by
  have hpi := pi_pos'
  have hz : isZero (0 : ℝ) = true := (isZero_iff 0).mpr rfl
  have hbase : 0 < 9.81 * (rho.val - rhoGas.val) / rho.val * d0.val := by
    have := sub_pos.mpr hlt; positivity
  have hroot : 0 < (9.81 * (rho.val - rhoGas.val) / rho.val * d0.val) ^ ((1:ℝ) / 2) := Real.rpow_pos_of_pos hbase _
  have hUn : 0 < 4 * q.val / (Model.Psf.pi * d0.val ^ 2) := by positivity
  have hden : Model.Psf.pi * d0.val ^ 2 ≠ 0 := by positivity
  simp only [sintefN, sintefUn, sintefFr, sintefUc, chk_isZero, hz, if_true,
    Model.Psf.G, Model.Psf.pi, chk_div, chk_add, chk_mul, chk_sub, chk_ofNat, chk_one, chk_ofSci, chk_npow, chk_rpow,
    add_zero, true_and, and_true, h1, h2, h3, h4]
  simp only [Model.Psf.pi, Num.real_ofSci] at hden hUn
  have hFr := (div_pos hUn hroot).ne'
  have h2ne : (2 : ℝ) ≠ 0 := by norm_num
  have hroot2 : (9.81 * (rho.val - rhoGas.val) / rho.val * d0.val) ^ ((2:ℝ)⁻¹) ≠ 0 := (Real.rpow_pos_of_pos hbase _).ne'
  have hFr2 : 4 * q.val / (3.141592653589793 * d0.val ^ 2) / (9.81 * (rho.val - rhoGas.val) / rho.val * d0.val) ^ ((2:ℝ)⁻¹) ≠ 0 :=
    (div_pos hUn (Real.rpow_pos_of_pos hbase _)).ne'
  simp [hq.ne', hden, hr.ne', hbase, hroot.ne', hFr, h2ne, hroot2, hFr2]

theorem sintefQ_zero (rho : Chk) : sintefQ [inp 0] rho = ⟨0, True⟩ := by
  simp [sintefQ, inp]

theorem sintefQ_pos (m r : ℝ) (hm : 0 < m) (hr : 0 < r) :
    (sintefQ [inp m] (inp r)).ok ∧ 0 < (sintefQ [inp m] (inp r)).val := by
  simp [sintefQ, mass2vol, inp, hm, hr.ne', div_pos hm hr]

theorem mass2vol_zero' (rho : Chk) : mass2vol [inp 0] rho = ⟨0, True⟩ := by
  simp [mass2vol, inp]

theorem mass2vol_pos (m r : ℝ) (hm : 0 < m) (hr : 0 < r) :
    (mass2vol [inp m] (inp r)).ok ∧ 0 < (mass2vol [inp m] (inp r)).val := by
  simp [mass2vol, inp, hm, hr.ne', div_pos hm hr]

theorem deMaxOil_val_pos (a b c : Chk) (hlt : a.val < c.val) (hs : 0 < b.val) : 0 < (deMaxOil a b c).val := by
  have hG : (0:ℝ) < 9.81 := by norm_num
  have : 0 < 9.81 * (c.val - a.val) := mul_pos hG (sub_pos.mpr hlt)
  simp only [deMaxOil, Model.Psf.G, chk_mul, chk_sqrt, chk_div, chk_sub, chk_ofNat, chk_ofSci]
  have := Real.sqrt_pos.mpr (div_pos hs this)
  positivity

/-- `li_etal_d50` for a phase that flows (Uc > 0): the correlation and the (argument-swapped) `de_max_oil(sigma, rho_p, rho)`
    it compares with the orifice are defined -/
theorem liEtalD50_ok (Uc d0 rho_p mu_p sigma rho : Chk) (isGas : Bool)
    (h1 : Uc.ok) (h2 : d0.ok) (h3 : rho_p.ok) (h4 : mu_p.ok) (h5 : sigma.ok) (h6 : rho.ok)
    (hU : 0 < Uc.val) (hd : 0 < d0.val) (hp : 0 < rho_p.val) (hmu : 0 ≤ mu_p.val) (hs : 0 < sigma.val) (hr : 0 < rho.val)
    (hsr : sigma.val < rho.val) :
    (liEtalD50 Uc d0 rho_p mu_p sigma rho isGas).ok ∧ (deMaxOil sigma rho_p rho).ok := by
  have hm := deMaxOil_ok sigma rho_p rho h5 h3 h6 hsr hp.le
  have hmv := deMaxOil_val_pos sigma rho_p rho hsr hp
  refine ⟨?_, hm⟩
  -- the characteristic length dc = min(de_max, d0) is defined and positive
  set dc : Chk := if (deMaxOil sigma rho_p rho).val < d0.val then deMaxOil sigma rho_p rho else d0 with hdc
  have hdcok : dc.ok := by rw [hdc]; split <;> assumption
  have hdcpos : 0 < dc.val := by rw [hdc]; split <;> assumption
  have hWe : 0 < rho.val * Uc.val ^ 2 * dc.val / sigma.val := by positivity
  have hsq : 0 < Real.sqrt (rho_p.val * sigma.val * dc.val) := Real.sqrt_pos.mpr (by positivity)
  have hOh : 0 ≤ mu_p.val / Real.sqrt (rho_p.val * sigma.val * dc.val) := div_nonneg hmu hsq.le
  have hbase : 0 < 1 + 10 * (mu_p.val / Real.sqrt (rho_p.val * sigma.val * dc.val)) := by linarith
  have harg : 0 ≤ rho_p.val * sigma.val * dc.val := by positivity
  simp only [liEtalD50, chk_lt, ← hdc, chk_mul, chk_div, chk_add, chk_sqrt, chk_rpow, chk_npow, chk_ofSci, chk_ofNat, chk_one,
    chk_neg]
  cases isGas <;> simp [h1, h3, h4, h5, h6, hdcok, hs.ne', hsq.ne', hbase, hWe, harg]

theorem liEtalUc_ok (d0 qg qo : Chk) (fp : ℕ) (h1 : d0.ok) (h2 : qg.ok) (h3 : qo.ok) (hd : 0 < d0.val) :
    (liEtalUc d0 qg qo fp).ok := by
  have hpi := pi_pos'
  have hden : Model.Psf.pi * d0.val ^ 2 ≠ 0 := by positivity
  simp only [Model.Psf.pi, Num.real_ofSci] at hden
  simp [liEtalUc, Model.Psf.pi, h1, h2, h3, hden]

theorem liEtalUc_val_pos (d0 qg qo : Chk) (fp : ℕ) (hd : 0 < d0.val) (hq : 0 < qg.val + qo.val) :
    0 < (liEtalUc d0 qg qo fp).val := by
  have hpi := pi_pos'
  simp only [Model.Psf.pi, Num.real_ofSci] at hpi
  simp only [liEtalUc, Model.Psf.pi, chk_mul, chk_div, chk_add, chk_npow, chk_ofNat, chk_ofSci]
  positivity

/-- `li_etal_model` for a flowing phase -/
theorem liEtalModel_flow_ok (dmaxGas Uc d0 q rho_p mu_p sigma rho mu : Chk) (isGas : Bool)
    (hq : 0 < q.val) (h0 : dmaxGas.ok) (h1 : Uc.ok) (h2 : d0.ok) (h3 : rho_p.ok) (h4 : mu_p.ok) (h5 : sigma.ok) (h6 : rho.ok)
    (hU : 0 < Uc.val) (hd : 0 < d0.val) (hp : 0 < rho_p.val) (hmu : 0 ≤ mu_p.val) (hs : 0 < sigma.val) (hr : 0 < rho.val)
    (hsr : sigma.val < rho.val) (hpr : isGas = false → rho_p.val < rho.val) :
    ok4 (liEtalModel dmaxGas Uc d0 q rho_p mu_p sigma rho mu isGas) := by
  have hd50 := (liEtalD50_ok Uc d0 rho_p mu_p sigma rho isGas h1 h2 h3 h4 h5 h6 hU hd hp hmu hs hr hsr).1
  have hf := rrFit_none_ok _ hd50
  simp only [liEtalModel, chk_lt, chk_zero, hq, if_true, ok4, okOpt]
  refine ⟨hf.1, ?_, hf.2.1, hf.2.2⟩
  cases isGas
  · simp only [Bool.false_eq_true, if_false]
    exact deMaxOil_ok rho_p sigma rho h3 h5 h6 (hpr rfl) hs.le
  · simpa using h0

theorem liEtalModel_noflow_ok (dmaxGas Uc d0 q rho_p mu_p sigma rho mu : Chk) (isGas : Bool) (hq : ¬ 0 < q.val) :
    ok4 (liEtalModel dmaxGas Uc d0 q rho_p mu_p sigma rho mu isGas) := by
  have hf := rrFit_none_ok (⟨0, True⟩ : Chk) trivial
  simp only [liEtalModel, chk_lt, chk_zero, hq, if_false, ok4, okOpt, true_and]
  exact hf


theorem wangKappa_val : (wangKappa (α := Chk)).val = 35.69 / (35.69 - 8.31451) ∧ (wangKappa (α := Chk)).ok := by
  simp [wangKappa]; norm_num

theorem wangKappa_gt_one : 1 < (wangKappa (α := Chk)).val := by
  rw [wangKappa_val.1]; norm_num

/-- the exit velocity with the choked-flow correction is defined and positive for a positive volume flux and a positive
    speed of sound, on all three branches -/
theorem wangUE_ok (Ug a : Chk) (h1 : Ug.ok) (h2 : a.ok) (hU : 0 < Ug.val) (ha : 0 < a.val) :
    (wangUE Ug a).ok ∧ 0 < (wangUE Ug a).val ∧ allOk (wangUEAux Ug a) := by
  have hkok := wangKappa_val.2
  have hk1 := wangKappa_gt_one
  simp only [wangUE, wangUEAux]
  generalize (wangKappa (α := Chk)) = κ at *
  have hMa : 0 < Ug.val / a.val := div_pos hU ha
  have hk0 : 0 < κ.val - 1 := by linarith
  have hkp : 0 < κ.val + 1 := by linarith
  have hpw : 0 < (Ug.val / a.val) ^ (2:ℝ) := Real.rpow_pos_of_pos hMa 2
  have harg : 0 ≤ 1 + 2 * (κ.val - 1) * (Ug.val / a.val) ^ (2:ℝ) := by positivity
  have hsq1 : 1 < Real.sqrt (1 + 2 * (κ.val - 1) * (Ug.val / a.val) ^ (2:ℝ)) :=
    (Real.lt_sqrt (by norm_num)).mpr (by nlinarith)
  have hden : (κ.val - 1) * (Ug.val / a.val) ≠ 0 := (mul_pos hk0 hMa).ne'
  have h2ne : (2:ℝ) ≠ 0 := by norm_num
  have hhalf : 0 ≤ (κ.val + 1) / 2 := by positivity
  have hinv : 0 ≤ 2 / (κ.val + 1) := by positivity
  simp only [chk_lt, chk_mul, chk_ofNat, chk_div, chk_add, chk_sub, chk_one, chk_neg, chk_sqrt, chk_rpow]
  split
  · exact ⟨h1, hU, by simp⟩
  · split
    · refine ⟨?_, ?_, ?_⟩
      · have harg' : 0 ≤ 1 + 2 * (κ.val - 1) * (Ug.val / a.val) ^ 2 := by positivity
        simp [h1, h2, ha.ne', hkok, hden, hMa, harg, harg', hk0.ne', hU.ne']
      · have : 0 < -1 + Real.sqrt (1 + 2 * (κ.val - 1) * (Ug.val / a.val) ^ (2:ℝ)) := by linarith
        have hd : 0 < (κ.val - 1) * (Ug.val / a.val) := mul_pos hk0 hMa
        show 0 < a.val * (-1 + Real.sqrt (1 + 2 * (κ.val - 1) * (Ug.val / a.val) ^ (2:ℝ))) / ((κ.val - 1) * (Ug.val / a.val))
        positivity
      · simp [h1, h2, ha.ne', hkok, hhalf]
    · refine ⟨?_, ?_, ?_⟩
      · simp [h2, hkok, hkp.ne', hinv]
      · have : 0 < Real.sqrt (2 / (κ.val + 1)) := Real.sqrt_pos.mpr (by positivity)
        show 0 < a.val * Real.sqrt (2 / (κ.val + 1))
        positivity
      · simp [h1, h2, ha.ne', hkok, hhalf]

theorem lnFit_some_ok (d dm sigma : Chk) (h1 : d.ok) (h2 : dm.ok) (h3 : sigma.ok) (hd : 0 < d.val) (hm : 0 < dm.val) :
    (lnFit d (some dm) sigma).1.ok ∧ (lnFit d (some dm) sigma).2.ok ∧ allOk (lnFitAux d (some dm) sigma) := by
  simp only [lnFit, lnFitAux, lnD95, chk_log, chk_ofSci, chk_add, chk_mul, chk_exp, chk_lt, chk_sub]
  split <;> simp [h1, h2, h3, hd, hm]

theorem lnFit_none_ok (d sigma : Chk) (h1 : d.ok) (h3 : sigma.ok) :
    (lnFit d none sigma).1.ok ∧ (lnFit d none sigma).2.ok := by
  simp [lnFit, h1, h3]

/-- `wang_etal_d50` for gas only (n = 1): defined, with a positive diameter -/
theorem wangD50_gas_only_ok (A n Ug rho_g mu_g sigma_g Ul rho_l rho mu : Chk)
    (h1 : A.ok) (h2 : n.ok) (h3 : Ug.ok) (h4 : rho_g.ok) (h5 : sigma_g.ok) (h6 : Ul.ok) (h7 : rho_l.ok) (h8 : rho.ok)
    (hn : n.val = 1) (hA : 0 < A.val) (hU : 0 < Ug.val) (hg : 0 < rho_g.val) (hlt : rho_g.val < rho.val) (hs : 0 < sigma_g.val) :
    (wangD50 A n Ug rho_g mu_g sigma_g Ul rho_l rho mu).1.ok ∧ 0 < (wangD50 A n Ug rho_g mu_g sigma_g Ul rho_l rho mu).1.val ∧
    (wangD50 A n Ug rho_g mu_g sigma_g Ul rho_l rho mu).2.1.ok ∧ (wangD50 A n Ug rho_g mu_g sigma_g Ul rho_l rho mu).2.2.ok := by
  have hr : 0 < rho.val := hg.trans hlt
  have hone : isZero (n.val - 1) = true := by rw [hn, sub_self]; exact (isZero_iff 0).mpr rfl
  have hdr : 0 < rho.val - rho_g.val := sub_pos.mpr hlt
  have hG : (0:ℝ) < 9.81 := by norm_num
  have hz : isZero (0 : ℝ) = true := (isZero_iff 0).mpr rfl
  have hmo : 0 < rho_g.val * A.val * Ug.val ^ 2 := by positivity
  have hM : 0 < rho_g.val * A.val * Ug.val ^ 2 / rho.val := by positivity
  have hB : 0 < (rho.val - rho_g.val) * 9.81 * A.val * Ug.val / rho.val := by positivity
  have hBr : 0 < ((rho.val - rho_g.val) * 9.81 * A.val * Ug.val / rho.val) ^ ((1:ℝ) / 2) := Real.rpow_pos_of_pos hB _
  have hBr2 : 0 < ((rho.val - rho_g.val) * 9.81 * A.val * Ug.val / rho.val) ^ ((2:ℝ)⁻¹) := Real.rpow_pos_of_pos hB _
  have hMr : 0 < (rho_g.val * A.val * Ug.val ^ 2 / rho.val) ^ ((3:ℝ) / 4) := Real.rpow_pos_of_pos hM _
  have hden2 : rho.val * A.val ≠ 0 := (mul_pos hr hA).ne'
  have hUa2 : 0 ≤ rho_g.val * A.val * Ug.val ^ 2 / (rho.val * A.val) := by positivity
  have hUa : 0 < Real.sqrt (rho_g.val * A.val * Ug.val ^ 2 / (rho.val * A.val)) := Real.sqrt_pos.mpr (by positivity)
  have hWe : 0 < rho_g.val * Real.sqrt (rho_g.val * A.val * Ug.val ^ 2 / (rho.val * A.val)) ^ 2 *
      ((rho_g.val * A.val * Ug.val ^ 2 / rho.val) ^ ((3:ℝ) / 4) /
        ((rho.val - rho_g.val) * 9.81 * A.val * Ug.val / rho.val) ^ ((1:ℝ) / 2)) / sigma_g.val := by positivity
  have hWe2 : 0 < rho_g.val * Real.sqrt (rho_g.val * A.val * Ug.val ^ 2 / (rho.val * A.val)) ^ 2 *
      ((rho_g.val * A.val * Ug.val ^ 2 / rho.val) ^ ((3:ℝ) / 4) /
        ((rho.val - rho_g.val) * 9.81 * A.val * Ug.val / rho.val) ^ ((2:ℝ)⁻¹)) / sigma_g.val := by positivity
  simp only [wangD50, chk_isZero, chk_sub, chk_one, hone, if_true, Model.Psf.G, chk_mul, chk_add, chk_div, chk_npow, chk_rpow,
    chk_sqrt, chk_ofNat, chk_ofSci, chk_zero, chk_neg, hn, hz, mul_one, add_zero, one_mul, sub_self, zero_mul, Nat.reduceAdd]
  refine ⟨?_, ?_, ?_, ?_⟩
  · simp [h1, h2, h3, h4, h5, h8, hr.ne', hs.ne', hM, hB, hBr.ne', hBr2.ne', hUa2, hWe, hWe2, hden2]
    left
    have hx : 0 < rho_g.val * A.val * Ug.val ^ 2 / (rho.val * A.val) := by positivity
    positivity
  · have := Real.rpow_pos_of_pos hWe ((-3:ℝ) / 5)
    positivity
  · simp [h1, h2, h3, h4]
  · simp [h1, h2, h6]

theorem wangA_ok (d0 : Chk) (h : d0.ok) (hd : 0 < d0.val) : (wangA d0).ok ∧ 0 < (wangA d0).val := by
  have hpi := pi_pos'
  simp only [Model.Psf.pi, Num.real_ofSci] at hpi
  simp only [wangA, Model.Psf.pi, chk_mul, chk_div, chk_npow, chk_ofNat, chk_ofSci]
  refine ⟨by simp [h], by positivity⟩

/-- speed of sound from the two methane densities: defined and positive when the density increases with pressure -/
theorem wangSound_ok (rhoA rhoB P : ℝ) (hP : 0 < P) (hAB : rhoA < rhoB) :
    (wangSound (inp rhoA) (inp rhoB) (inp P)).ok ∧ 0 < (wangSound (inp rhoA) (inp rhoB) (inp P)).val := by
  have hden : rhoA - rhoB < 0 := by linarith
  have hnum : P - 1.01 * P < 0 := by nlinarith
  have hq : 0 < (P - 1.01 * P) / (rhoA - rhoB) := div_pos_of_neg_of_neg hnum hden
  simp only [wangSound, inp, chk_sub, chk_mul, chk_div, chk_sqrt, chk_ofSci]
  exact ⟨by simp [hden.ne, hq.le], Real.sqrt_pos.mpr hq⟩

theorem wangQl_zero (rho : Chk) : wangQl [inp 0] rho = ⟨0, True⟩ := by
  have hz : isZero (0 + 0 : ℝ) = true := by rw [add_zero]; exact (isZero_iff 0).mpr rfl
  simp [wangQl, inp, hz]

theorem wangQl_pos (m r : ℝ) (hm : 0 < m) (hr : 0 < r) :
    (wangQl [inp m] (inp r)).ok ∧ 0 < (wangQl [inp m] (inp r)).val := by
  have hz : isZero (0 + m : ℝ) = false := isZero_false_of_ne (by linarith)
  have := mass2vol_pos m r hm hr
  simp only [wangQl, chk_isZero, chk_sum_one, inp_val, hz, Bool.false_eq_true, if_false]
  exact this


/-! ### constants and bounds used by Props/C16.lean -/

theorem log_half_neg : Real.log 0.5 < 0 := Real.log_neg (by norm_num) (by norm_num)

theorem log_005_neg : Real.log 0.05 < 0 := Real.log_neg (by norm_num) (by norm_num)

theorem pi_pos : (0 : ℝ) < Model.Psf.pi := by simp only [Model.Psf.pi, Num.real_ofSci]; norm_num

theorem G_pos : (0 : ℝ) < Model.Psf.G := by simp only [Model.Psf.G, Num.real_ofSci]; norm_num

theorem mass2vol_zero (rho : ℝ) : mass2vol [(0 : ℝ)] rho = 0 := by
  simp [mass2vol, Num.real_sum]

/-- lower bound of the Li et al. correlation for liquids at Weber number ≤ 1: d50 ≥ 14.05·dc -/
theorem liEtalD50_ge (Uc d0 rho_p mu_p sigma rho : ℝ) (hd0 : 0 < d0) (hmu : 0 ≤ mu_p) (hsig : 0 < sigma) (hrho : 0 < rho)
    (hUc : 0 < Uc) (hdc : ¬ deMaxOil sigma rho_p rho < d0) (hWe : rho * Uc ^ 2 * d0 / sigma ≤ 1) :
    14.05 * d0 ≤ liEtalD50 Uc d0 rho_p mu_p sigma rho false := by
  simp only [liEtalD50, hdc, if_false, Bool.false_eq_true, Num.real_rpow, Num.real_npow, Num.real_sqrt, Num.real_ofSci,
    Num.real_ofNat, Num.real_one]
  have hWepos : 0 < rho * Uc ^ 2 * d0 / sigma := by positivity
  have h1 : (1 : ℝ) ≤ (1 + 10 * (mu_p / Real.sqrt (rho_p * sigma * d0))) ^ (0.460 : ℝ) :=
    Real.one_le_rpow (by have := Real.sqrt_nonneg (rho_p * sigma * d0); have : 0 ≤ mu_p / Real.sqrt (rho_p * sigma * d0) := div_nonneg hmu this; linarith) (by norm_num)
  have h2 : (1 : ℝ) ≤ (rho * Uc ^ 2 * d0 / sigma) ^ (-0.518 : ℝ) :=
    Real.one_le_rpow_of_pos_of_le_one_of_nonpos hWepos hWe (by norm_num)
  have h3 : (14.05 : ℝ) ≤ 14.05 * (1 + 10 * (mu_p / Real.sqrt (rho_p * sigma * d0))) ^ (0.460 : ℝ) *
      (rho * Uc ^ 2 * d0 / sigma) ^ (-0.518 : ℝ) := by
    have : (14.05 : ℝ) * 1 * 1 ≤ 14.05 * (1 + 10 * (mu_p / Real.sqrt (rho_p * sigma * d0))) ^ (0.460 : ℝ) *
        (rho * Uc ^ 2 * d0 / sigma) ^ (-0.518 : ℝ) := by
      apply mul_le_mul _ h2 (by norm_num) (by positivity)
      exact mul_le_mul_of_nonneg_left h1 (by norm_num)
    linarith
  exact mul_le_mul_of_nonneg_right h3 hd0.le

end TamocV.Lemmas.C16
