/-
  Helper lemmas for C13: grouped form of the EOS-80 expressions as the code expands them, bounds on the
  oceanic box, monotone-fraction lemma, bracket of 35^(3/2).
-/
import TamocV.Real
import TamocV.Lemmas.Basic
import TamocV.Lemmas.C20
import TamocV.Gen.SeawaterPy
import Mathlib.Tactic.Ring
import Mathlib.Tactic.NormNum
import Mathlib.Tactic.Linarith
import Mathlib.Tactic.Positivity
import Mathlib.Tactic.FieldSimp
import Mathlib.Analysis.SpecialFunctions.Pow.Real
import Mathlib.Analysis.SpecialFunctions.Log.Basic

set_option linter.unusedSimpArgs false
set_option linter.unusedVariables false

namespace TamocV.Lemmas.C13
open TamocV.Gen TamocV.Lemmas.C20

noncomputable def Kw (t : ℝ) : ℝ := 19652.21 + 148.4206 * t - 2.327105 * t^2 + 0.01360477 * t^3 - 0.00005155288 * t^4

noncomputable def k1 (t : ℝ) : ℝ := 54.6746 - 0.603459 * t + 0.0109987 * t^2 - 0.00006167 * t^3

noncomputable def k2 (t : ℝ) : ℝ := 0.07944 + 0.016483 * t - 0.00053009 * t^2

noncomputable def Aw (t : ℝ) : ℝ := 3.239908 + 0.00143713 * t + 0.000116092 * t^2 - 0.000000577905 * t^3

noncomputable def a1 (t : ℝ) : ℝ := 0.0022838 - 0.000010981 * t - 0.0000016078 * t^2

noncomputable def Bw (t : ℝ) : ℝ := 0.0000850935 - 0.00000612293 * t + 0.000000052787 * t^2

noncomputable def b1 (t : ℝ) : ℝ := -0.00000099348 + 0.000000020816 * t + 0.00000000091697 * t^2

noncomputable def K0 (t S s : ℝ) : ℝ := Kw t + S * k1 t + s * k2 t

noncomputable def KA (t S s : ℝ) : ℝ := Aw t + S * a1 t + 0.000191075 * s

noncomputable def KB (t S : ℝ) : ℝ := Bw t + S * b1 t

/-- one-atmosphere density as the code expands it -/
noncomputable def N0 (t S s : ℝ) : ℝ :=
  999.842594 + 0.06793952 * t - 0.00909529 * t^2 + 0.0001001685 * t^3 - 0.000001120083 * t^4 + 0.000000006536332 * t^5
  + 0.824493 * S - 0.00572466 * s + 0.00048314 * S^2 - 0.0040899 * t * S + 0.000076438 * t^2 * S
  - 0.00000082467 * t^3 * S + 0.0000000053875 * t^4 * S + 0.00010227 * t * s - 0.0000016546 * t^2 * s

/-- the cold branch of `seawater.density` in grouped form:  ρ = N₀ / (1 − p / (K₀ + A·p + B·p²)) -/
theorem density_grouped (T S P : ℝ) (hT : T < 273.15 + 40) :
    SeawaterPy.density T S P =
      N0 (T - 273.15) S (S ^ ((3.0:ℝ)/2.0)) /
        (1 - (P * 0.00001) / (K0 (T - 273.15) S (S ^ ((3.0:ℝ)/2.0)) + KA (T - 273.15) S (S ^ ((3.0:ℝ)/2.0)) * (P * 0.00001)
          + KB (T - 273.15) S * ((P * 0.00001) * (P * 0.00001)))) := by
  have h : (T < (273.15 : ℝ) + 40) := hT
  simp only [SeawaterPy.density, Num.real_ofSci, Num.real_ofNat, Num.real_one, Num.real_zero, Num.real_npow,
    Num.real_rpow, if_pos h, N0, K0, KA, KB, Kw, k1, k2, Aw, a1, Bw, b1]
  -- `ring` normalises inside the inverses, so this also closes after an algebraically equivalent rewrite of
  -- seawater.density (Horner form, regrouped polynomials); it does not depend on the shape of the generated term
  ring

theorem frac_mono (N K0 A B p1 p2 : ℝ) (hN : 0 < N) (h12 : p1 < p2) (hp1 : 0 ≤ p1)
    (hK1 : p1 < K0 + A * p1 + B * (p1 * p1)) (hK2 : p2 < K0 + A * p2 + B * (p2 * p2))
    (hB : 0 < K0 - B * (p1 * p2)) :
    N / (1 - p1 / (K0 + A * p1 + B * (p1 * p1))) < N / (1 - p2 / (K0 + A * p2 + B * (p2 * p2))) := by
  set K1 := K0 + A * p1 + B * (p1 * p1) with hK1d
  set K2 := K0 + A * p2 + B * (p2 * p2) with hK2d
  have hK1p : 0 < K1 := lt_of_le_of_lt hp1 hK1
  have hK2p : 0 < K2 := by linarith
  have hd1 : 0 < K1 - p1 := by linarith
  have hd2 : 0 < K2 - p2 := by linarith
  have e1 : N / (1 - p1 / K1) = N * (K1 / (K1 - p1)) := by field_simp
  have e2 : N / (1 - p2 / K2) = N * (K2 / (K2 - p2)) := by field_simp
  rw [e1, e2]
  apply mul_lt_mul_of_pos_left _ hN
  rw [div_lt_div_iff₀ hd1 hd2]
  have key : K2 * p1 < K1 * p2 := by
    have : K1 * p2 - K2 * p1 = (p2 - p1) * (K0 - B * (p1 * p2)) := by rw [hK1d, hK2d]; ring
    have hpos : 0 < (p2 - p1) * (K0 - B * (p1 * p2)) := mul_pos (by linarith) hB
    linarith
  nlinarith

theorem Bw_ub (t : ℝ) (h1 : -2.15 ≤ t) (h2 : t ≤ 40) : Bw t ≤ 0.0001 := by
  unfold Bw
  have a : 0 ≤ t + 2.15 := by linarith
  have b : 0 ≤ 40 - t := by linarith
  nlinarith [mul_nonneg a b]

theorem b1_ub (t : ℝ) (h1 : -2.15 ≤ t) (h2 : t ≤ 40) : b1 t ≤ 0.0000014 := by
  unfold b1
  have a : 0 ≤ t + 2.15 := by linarith
  have b : 0 ≤ 40 - t := by linarith
  nlinarith [mul_nonneg a b]

theorem N0_pos (t S s : ℝ) (h1 : -2.15 ≤ t) (h2 : t ≤ 40) (hS0 : 0 ≤ S) (hS1 : S ≤ 42) (hs0 : 0 ≤ s) (hs1 : s ≤ 273) :
    989 ≤ N0 t S s := by
  have a : 0 ≤ t + 2.15 := by linarith
  have b : 0 ≤ 40 - t := by linarith
  -- pure water part
  have hw : 991 ≤ 999.842594 + 0.06793952 * t - 0.00909529 * t^2 + 0.0001001685 * t^3 - 0.000001120083 * t^4
      + 0.000000006536332 * t^5 := by
    nlinarith [mul_nonneg a b, mul_nonneg (mul_nonneg a b) a, mul_nonneg (mul_nonneg a b) b,
      mul_nonneg (mul_nonneg a b) (sq_nonneg t), mul_nonneg (mul_nonneg (mul_nonneg a b) (sq_nonneg t)) a,
      mul_nonneg (mul_nonneg (mul_nonneg a b) (sq_nonneg t)) b, sq_nonneg t, sq_nonneg (t - 20)]
  -- coefficient of S
  have hS : 0 ≤ 0.824493 - 0.0040899 * t + 0.000076438 * t^2 - 0.00000082467 * t^3 + 0.0000000053875 * t^4 := by
    nlinarith [mul_nonneg a b, mul_nonneg (mul_nonneg a b) a, mul_nonneg (mul_nonneg a b) b,
      mul_nonneg (mul_nonneg a b) (sq_nonneg t), sq_nonneg t, sq_nonneg (t - 20)]
  -- coefficient of s
  have hs : -0.006 ≤ -0.00572466 + 0.00010227 * t - 0.0000016546 * t^2 := by
    nlinarith [mul_nonneg a b, sq_nonneg (t - 30)]
  have e1 := mul_nonneg hS0 hS
  have e2 : -1.64 ≤ s * (-0.00572466 + 0.00010227 * t - 0.0000016546 * t^2) := by nlinarith
  have e3 : 0 ≤ 0.00048314 * S^2 := by positivity
  have hexp : N0 t S s = (999.842594 + 0.06793952 * t - 0.00909529 * t^2 + 0.0001001685 * t^3 - 0.000001120083 * t^4
      + 0.000000006536332 * t^5)
      + S * (0.824493 - 0.0040899 * t + 0.000076438 * t^2 - 0.00000082467 * t^3 + 0.0000000053875 * t^4)
      + s * (-0.00572466 + 0.00010227 * t - 0.0000016546 * t^2) + 0.00048314 * S^2 := by
    unfold N0; ring
  rw [hexp]
  linarith

theorem frac_abs (N K p c e : ℝ) (hK : p < K) (hp : 0 ≤ p) (h1 : (c - e) * (K - p) ≤ N * K)
    (h2 : N * K ≤ (c + e) * (K - p)) : |N / (1 - p / K) - c| ≤ e := by
  have hK0 : 0 < K := lt_of_le_of_lt hp hK
  have hd : 0 < K - p := by linarith
  have : N / (1 - p / K) = N * K / (K - p) := by
    field_simp
  rw [this, abs_le]
  constructor
  · rw [le_sub_iff_add_le, le_div_iff₀ hd]; linarith
  · rw [sub_le_iff_le_add, div_le_iff₀ hd]; linarith

/-- 35^(3/2) = 35·√35 ∈ [207.06279, 207.06281] -/
theorem s35_bracket : 207.06279 ≤ (35:ℝ) ^ ((3.0:ℝ) / 2.0) ∧ (35:ℝ) ^ ((3.0:ℝ) / 2.0) ≤ 207.06281 := by
  have hsq : ((35:ℝ) ^ ((3.0:ℝ) / 2.0)) ^ 2 = 35 ^ 3 := by
    rw [← Real.rpow_natCast, ← Real.rpow_mul (by norm_num)]
    norm_num
  have hpos : 0 ≤ (35:ℝ) ^ ((3.0:ℝ) / 2.0) := Real.rpow_nonneg (by norm_num) _
  constructor
  · by_contra hc
    have hc := not_le.mp hc
    have : ((35:ℝ) ^ ((3.0:ℝ) / 2.0))^2 < (207.06279:ℝ)^2 := by nlinarith
    rw [hsq] at this
    norm_num at this
  · by_contra hc
    have hc := not_le.mp hc
    have : (207.06281:ℝ)^2 < ((35:ℝ) ^ ((3.0:ℝ) / 2.0))^2 := by nlinarith
    rw [hsq] at this
    norm_num at this

end TamocV.Lemmas.C13
