/-
  Helper lemmas for C03 (and re-used by C04): list bookkeeping for the slot layout of
  `Model.Lmp.derivs`, well-formedness predicates, and the two accumulator inductions
  (dissolved-mass accumulator `dm`, running element-heat slot `qp[2]`).
-/
import TamocV.Real
import TamocV.Lemmas.Basic
import TamocV.Model.Lmp
import Mathlib.Tactic.Ring
import Mathlib.Tactic.Linarith
import Mathlib.Algebra.BigOperators.Group.List.Basic

namespace TamocV.Lemmas.C03
open TamocV.Model.Lmp

/-! ### generic list facts -/

theorem getD_zipWith (f : ℝ → ℝ → ℝ) : ∀ (a b : List ℝ) (i : Nat), i < a.length → i < b.length →
    (List.zipWith f a b).getD i 0 = f (a.getD i 0) (b.getD i 0)
  | [], _, _, ha, _ => by simp at ha
  | _ :: _, [], _, _, hb => by simp at hb
  | x :: xs, y :: ys, 0, _, _ => by simp
  | x :: xs, y :: ys, i+1, ha, hb => by
      simp only [List.zipWith_cons_cons, List.getD_cons_succ]
      exact getD_zipWith f xs ys i (by simpa using ha) (by simpa using hb)

theorem getD_map (f : ℝ → ℝ) : ∀ (a : List ℝ) (i : Nat), i < a.length →
    (a.map f).getD i 0 = f (a.getD i 0)
  | [], _, ha => by simp at ha
  | x :: xs, 0, _ => by simp
  | x :: xs, i+1, ha => by
      simp only [List.map_cons, List.getD_cons_succ]
      exact getD_map f xs i (by simpa using ha)

theorem getD_replicate_zero (n i : Nat) : (List.replicate n (0 : ℝ)).getD i 0 = 0 := by
  induction n generalizing i with
  | zero => simp
  | succ n ih =>
    cases i with
    | zero => simp [List.replicate_succ]
    | succ i => simp only [List.replicate_succ, List.getD_cons_succ]; exact ih i

theorem getD_append_left : ∀ (a b : List ℝ) (i : Nat), i < a.length → (a ++ b).getD i 0 = a.getD i 0
  | [], _, _, h => by simp at h
  | x :: xs, b, 0, _ => by simp
  | x :: xs, b, i+1, h => by
      simp only [List.cons_append, List.getD_cons_succ]
      exact getD_append_left xs b i (by simpa using h)

theorem getD_append_right (a b : List ℝ) : (a ++ b).getD a.length 0 = b.getD 0 0 := by
  induction a with
  | nil => simp
  | cons x xs ih => simpa using ih

theorem drop_append_eq (a b : List ℝ) (n : Nat) (h : a.length = n) : (a ++ b).drop n = b := by
  subst h; simp

/-! ### well-formedness: the shapes under which NumPy evaluates `lmp.derivs` without raising -/

/-- shapes of the element arrays -/
structure WfE (e : Env ℝ) : Prop where
  c_chems : e.c_chems.length = e.nchems
  ca_chems : e.ca_chems.length = e.nchems
  cpe : e.cpe.length = e.nchems
  k_bio : e.k_bio.length = e.nchems

/-- shapes of one particle: `nc` is `nchems` for a soluble particle (shared composition) and 1 for
    an `InsolubleParticle`; the arrays only matter while the particle is integrated -/
structure WfP (e : Env ℝ) (p : Particle ℝ) : Prop where
  nc : p.nc = if p.issoluble then e.nchems else 1
  beta : p.integrate = true → p.issoluble = true → p.beta.length = e.nchems
  Cs : p.integrate = true → p.issoluble = true → p.Cs.length = e.nchems
  k_bio : p.integrate = true → p.issoluble = true → p.k_bio.length = e.nchems
  m : p.integrate = true → p.issoluble = true → p.m.length = e.nchems
  negdH : p.integrate = true → p.issoluble = true → p.negdH.length = e.nchems
  Mw : p.integrate = true → p.issoluble = true → p.Mw.length = e.nchems

def Wf (e : Env ℝ) (ps : List (Particle ℝ)) : Prop := ∀ p ∈ ps, WfP e p

theorem Wf.head {e : Env ℝ} {p : Particle ℝ} {ps : List (Particle ℝ)} (h : Wf e (p :: ps)) : WfP e p :=
  h p (by simp)

theorem Wf.tail {e : Env ℝ} {p : Particle ℝ} {ps : List (Particle ℝ)} (h : Wf e (p :: ps)) : Wf e ps :=
  fun q hq => h q (by simp [hq])

/-! ### per-particle facts -/

theorem dmPc_length (e : Env ℝ) (hE : WfE e) (p : Particle ℝ) (hp : WfP e p) (hi : p.integrate = true) :
    (dmPc e p).length = e.nchems := by
  unfold dmPc
  by_cases hs : p.issoluble = true
  · simp [hs, hp.beta hi hs, hp.Cs hi hs, hE.c_chems]
  · simp [hs]

theorem dmPb_length (e : Env ℝ) (p : Particle ℝ) (hp : WfP e p) (hi : p.integrate = true)
    (hs : p.issoluble = true) : (dmPb p).length = e.nchems := by
  unfold dmPb
  simp [hp.k_bio hi hs, hp.m hi hs]

theorem massSlots_length (e : Env ℝ) (hE : WfE e) (p : Particle ℝ) (hp : WfP e p) (hi : p.integrate = true) :
    (massSlots e p).length = p.nc := by
  unfold massSlots
  by_cases hs : p.issoluble = true
  · simp [hs, Num.vadd, dmPc_length e hE p hp hi, dmPb_length e p hp hi hs, hp.nc]
  · simp [hs, hp.nc]

theorem block_length (e : Env ℝ) (hE : WfE e) (p : Particle ℝ) (hp : WfP e p) :
    (block e p).length = p.nc + 5 := by
  unfold block
  by_cases hi : p.integrate = true
  · simp [hi, massSlots_length e hE p hp hi]
  · simp [hi]

theorem blocks_length (e : Env ℝ) (hE : WfE e) : ∀ (ps : List (Particle ℝ)), Wf e ps →
    (ps.flatMap (block e)).length = slotsLen ps
  | [], _ => by simp [slotsLen]
  | p :: ps, h => by
      simp only [List.flatMap_cons, List.length_append, slotsLen]
      rw [block_length e hE p h.head, blocks_length e hE ps h.tail]

theorem dmStep_length (e : Env ℝ) (hE : WfE e) (p : Particle ℝ) (hp : WfP e p) (dm : List ℝ)
    (hdm : dm.length = e.nchems) : (dmStep e dm p).length = e.nchems := by
  unfold dmStep
  by_cases hi : p.integrate = true
  · simp [hi, Num.vadd, hdm, dmPc_length e hE p hp hi]
  · simp [hi, hdm]

theorem dmFold_length (e : Env ℝ) (hE : WfE e) : ∀ (ps : List (Particle ℝ)), Wf e ps → ∀ (dm : List ℝ),
    dm.length = e.nchems → (ps.foldl (dmStep e) dm).length = e.nchems
  | [], _, dm, hdm => by simpa using hdm
  | p :: ps, h, dm, hdm => by
      simp only [List.foldl_cons]
      exact dmFold_length e hE ps h.tail _ (dmStep_length e hE p h.head dm hdm)

/-- value of compound `c` in `dm_pc` of a soluble particle inside the plume -/
theorem dmPc_getD (e : Env ℝ) (hE : WfE e) (p : Particle ℝ) (hp : WfP e p) (hi : p.integrate = true)
    (hs : p.issoluble = true) (c : Nat) (hc : c < e.nchems) :
    (dmPc e p).getD c 0
      = -(p.A * p.nbe * p.beta.getD c 0 * (p.Cs.getD c 0 - e.c_chems.getD c 0) * p.dtp) := by
  unfold dmPc
  simp only [hs, if_true]
  rw [getD_zipWith _ _ _ _ (by rw [hp.beta hi hs]; exact hc)
        (by simp [hp.Cs hi hs, hE.c_chems]; exact hc),
      getD_zipWith _ _ _ _ (by rw [hp.Cs hi hs]; exact hc) (by rw [hE.c_chems]; exact hc)]
  ring

theorem dmPb_getD (e : Env ℝ) (p : Particle ℝ) (hp : WfP e p) (hi : p.integrate = true)
    (hs : p.issoluble = true) (c : Nat) (hc : c < e.nchems) :
    (dmPb p).getD c 0 = -(p.k_bio.getD c 0 * p.m.getD c 0 * p.nbe * p.dtp) := by
  unfold dmPb
  rw [getD_zipWith _ _ _ _ (by rw [hp.k_bio hi hs]; exact hc) (by rw [hp.m hi hs]; exact hc)]
  ring

/-- first-order biodegradation of compound `c` held in particle `p` (zero unless the particle is a
    soluble one inside the plume) -/
noncomputable def bioTerm (c : Nat) (p : Particle ℝ) : ℝ :=
  if p.integrate = true ∧ p.issoluble = true then p.k_bio.getD c 0 * p.m.getD c 0 * p.nbe * p.dtp else 0

/-- heat of solution released by particle `p` (zero unless soluble and inside the plume) -/
noncomputable def solTerm (e : Env ℝ) (p : Particle ℝ) : ℝ :=
  if p.integrate = true ∧ p.issoluble = true then heatSol e p else 0

/-- the mass slot `c` of a soluble particle, read at the front of `block ++ rest` -/
theorem block_mass_getD (e : Env ℝ) (hE : WfE e) (p : Particle ℝ) (hp : WfP e p) (hs : p.issoluble = true)
    (c : Nat) (hc : c < e.nchems) (rest : List ℝ) :
    (block e p ++ rest).getD c 0
      = if p.integrate = true then (dmPc e p).getD c 0 + (dmPb p).getD c 0 else 0 := by
  have hnc : p.nc = e.nchems := by rw [hp.nc]; simp [hs]
  rw [getD_append_left _ _ _ (by rw [block_length e hE p hp, hnc]; omega)]
  unfold block
  by_cases hi : p.integrate = true
  · simp only [hi, if_true]
    rw [getD_append_left _ _ _ (by rw [massSlots_length e hE p hp hi, hnc]; exact hc)]
    unfold massSlots
    simp only [hs, if_true, Num.vadd]
    rw [getD_zipWith _ _ _ _ (by rw [dmPc_length e hE p hp hi]; exact hc)
        (by rw [dmPb_length e p hp hi hs]; exact hc)]
  · simp only [hi]
    simp only [Bool.false_eq_true, if_false, Num.real_zero]
    exact getD_replicate_zero _ _

/-- the heat slot of a particle, read at offset `nc` of `block ++ rest` -/
theorem block_heat_getD (e : Env ℝ) (hE : WfE e) (p : Particle ℝ) (hp : WfP e p) (rest : List ℝ) :
    (block e p ++ rest).getD p.nc 0 = if p.integrate = true then heatSlot e p else 0 := by
  rw [getD_append_left _ _ _ (by rw [block_length e hE p hp]; omega)]
  unfold block
  by_cases hi : p.integrate = true
  · simp only [hi, if_true, Num.real_zero]
    have := getD_append_right (massSlots e p)
      [heatSlot e p, p.dtp, 0, (p.up1 - e.fe * p.qn) * p.dtp, (p.up2 - e.fe * p.qm) * p.dtp]
    rw [massSlots_length e hE p hp hi] at this
    rw [this]; simp
  · simp only [hi]
    simp only [Bool.false_eq_true, if_false, Num.real_zero]
    exact getD_replicate_zero _ _

/-- `dm[c]` after one more particle -/
theorem dmStep_getD (e : Env ℝ) (hE : WfE e) (p : Particle ℝ) (hp : WfP e p) (dm : List ℝ)
    (hdm : dm.length = e.nchems) (c : Nat) (hc : c < e.nchems) :
    (dmStep e dm p).getD c 0
      = dm.getD c 0 + (if p.integrate = true ∧ p.issoluble = true then (dmPc e p).getD c 0 else 0) := by
  unfold dmStep
  by_cases hi : p.integrate = true
  · simp only [hi, if_true, true_and, Num.vadd]
    rw [getD_zipWith _ _ _ _ (by rw [hdm]; exact hc) (by rw [dmPc_length e hE p hp hi]; exact hc)]
    by_cases hs : p.issoluble = true
    · simp [hs]
    · simp only [hs]
      unfold dmPc
      simp only [hs]
      simp only [Bool.false_eq_true, if_false, Num.real_zero]
      rw [getD_replicate_zero]
  · simp [hi]

/-! ### the two accumulator inductions -/

theorem dissolved_getD (e : Env ℝ) (hE : WfE e) (dm : List ℝ) (hdm : dm.length = e.nchems)
    (c : Nat) (hc : c < e.nchems) (rest : List ℝ) :
    (dissolved e dm ++ rest).getD c 0
      = e.md / e.rho_a * e.ca_chems.getD c 0 - dm.getD c 0 - e.k_bio.getD c 0 * e.cpe.getD c 0 := by
  have hl : (dissolved e dm).length = e.nchems := by
    unfold dissolved; simp [hE.ca_chems, hE.k_bio, hE.cpe, hdm]
  rw [getD_append_left _ _ _ (by rw [hl]; exact hc)]
  unfold dissolved
  rw [getD_zipWith _ _ _ _ (by simp [hE.ca_chems, hdm]; exact hc) (by simp [hE.k_bio, hE.cpe]; exact hc),
      getD_zipWith _ _ _ _ (by simp [hE.ca_chems]; exact hc) (by rw [hdm]; exact hc),
      getD_zipWith _ _ _ _ (by rw [hE.k_bio]; exact hc) (by rw [hE.cpe]; exact hc),
      getD_map _ _ _ (by rw [hE.ca_chems]; exact hc)]

theorem compound_aux (e : Env ℝ) (hE : WfE e) (c : Nat) (hc : c < e.nchems) (tr : List ℝ) :
    ∀ (ps : List (Particle ℝ)), Wf e ps → ∀ (dm0 : List ℝ), dm0.length = e.nchems →
    compoundTotal c ps (ps.flatMap (block e) ++ (dissolved e (ps.foldl (dmStep e) dm0) ++ tr))
      = e.md / e.rho_a * e.ca_chems.getD c 0 - dm0.getD c 0 - e.k_bio.getD c 0 * e.cpe.getD c 0
        - (ps.map (bioTerm c)).sum
  | [], _, dm0, hdm => by
      simp only [List.flatMap_nil, List.nil_append, List.foldl_nil, compoundTotal, List.map_nil, List.sum_nil,
        Num.real_zero]
      rw [dissolved_getD e hE dm0 hdm c hc]; ring
  | p :: ps, hW, dm0, hdm => by
      have hp := hW.head
      have ih := compound_aux e hE c hc tr ps hW.tail (dmStep e dm0 p) (dmStep_length e hE p hp dm0 hdm)
      simp only [List.flatMap_cons, List.foldl_cons, compoundTotal, List.append_assoc, List.map_cons,
        List.sum_cons, Num.real_zero]
      rw [drop_append_eq _ _ _ (block_length e hE p hp), ih, dmStep_getD e hE p hp dm0 hdm c hc]
      by_cases hs : p.issoluble = true
      · rw [if_pos hs, block_mass_getD e hE p hp hs c hc]
        by_cases hi : p.integrate = true
        · simp only [hi, hs, and_self, if_true, bioTerm]
          rw [dmPb_getD e p hp hi hs c hc]; ring
        · simp [hi, bioTerm]
      · simp [hs, bioTerm]

theorem heat_aux (e : Env ℝ) (hE : WfE e) (rest : List ℝ) :
    ∀ (ps : List (Particle ℝ)), Wf e ps → ∀ (he0 : ℝ),
    ps.foldl (heStep e) he0 + particleHeat ps (ps.flatMap (block e) ++ rest)
      = he0 + (ps.map (solTerm e)).sum
  | [], _, he0 => by simp [particleHeat]
  | p :: ps, hW, he0 => by
      have hp := hW.head
      have ih := heat_aux e hE rest ps hW.tail (heStep e he0 p)
      simp only [List.flatMap_cons, List.foldl_cons, particleHeat, List.append_assoc, List.map_cons,
        List.sum_cons, Num.real_zero]
      rw [drop_append_eq _ _ _ (block_length e hE p hp), block_heat_getD e hE p hp]
      have key : heStep e he0 p + (if p.integrate = true then heatSlot e p else 0) = he0 + solTerm e p := by
        unfold heStep solTerm
        by_cases hi : p.integrate = true <;> by_cases hs : p.issoluble = true <;> simp [hi, hs]
      linarith

/-! ### the accumulators do not see a particle outside the plume -/

theorem heStep_outside (e : Env ℝ) (he : ℝ) (p : Particle ℝ) (h : p.integrate = false) :
    heStep e he p = he := by simp [heStep, h]

theorem dmStep_outside (e : Env ℝ) (dm : List ℝ) (p : Particle ℝ) (h : p.integrate = false) :
    dmStep e dm p = dm := by simp [dmStep, h]

/-- the vector behind the 11 element slots: particle blocks, dissolved slots, tracer slots -/
theorem derivs_drop11 (e : Env ℝ) (ps : List (Particle ℝ)) :
    (derivs e ps).drop 11 = ps.flatMap (block e) ++ (dissolvedSlots e ps ++ tracerSlots e) := by
  simp [derivs, headSlots]

/-! ### definitional read-back of the kinematic slots (not a property theorem) -/

/-- the remaining element slots: vertical momentum (buoyancy + entrained wa), constant h/V, advection -/
theorem kinematic_slots (e : Env ℝ) (ps : List (Particle ℝ)) :
    (derivs e ps).getD 5 0 = -e.g / (e.gamma * e.rho_r) * (e.Fb + e.M * (e.rho_a - e.rho)) + e.md * e.wa ∧
    (derivs e ps).getD 6 0 = 0 ∧ (derivs e ps).getD 7 0 = e.u ∧ (derivs e ps).getD 8 0 = e.v ∧
    (derivs e ps).getD 9 0 = e.w ∧ (derivs e ps).getD 10 0 = e.V := by
  simp [derivs, headSlots, jzSlot]

/-! ### a concrete state used for the non-vacuity examples of Props/C03, Props/C04 -/

noncomputable def exEnv : Env ℝ :=
  { md := 3, Sa := 35, Ta := 280, ua := 0.1, va := -0.05, wa := 0, cpw := 4000, g := 9.81, gamma := 1,
    rho_r := 1031, Ru := 8.314, Fb := 0.2, M := 5, rho := 1028, rho_a := 1030, u := 0.1, v := 0, w := -1, V := 1,
    T := 281, fe := 0.02, nchems := 2, c_chems := [0.001, 0], ca_chems := [0.0001, 0.0002], cpe := [0.01, 0.02],
    k_bio := [0.00001, 0], ca_tracers := [1] }

noncomputable def exSol (integ : Bool) : Particle ℝ :=
  { integrate := integ, issoluble := true, nc := 2, A := 0.0001, nbe := 1000, rho_p := 100, cp := 2000, beta_T := 0.001,
    T := 285, dtp := 0.8, up1 := 0.1, up2 := 0, qn := 0.05, qm := 0, beta := [0.0001, 0.0002], Cs := [0.5, 0.3],
    k_bio := [0.00001, 0], m := [0.00001, 0.000002], negdH := [1600, 2300], Mw := [0.016, 0.03] }

noncomputable def exInert : Particle ℝ :=
  { integrate := true, issoluble := false, nc := 1, A := 0.0001, nbe := 500, rho_p := 870, cp := 2000, beta_T := 0.001,
    T := 281, dtp := 0.9, up1 := 0.05, up2 := 0, qn := 0, qm := 0.01, beta := [], Cs := [],
    k_bio := [0.000001], m := [0.00002], negdH := [], Mw := [] }

noncomputable def exPs : List (Particle ℝ) := [exSol true, exInert, exSol false]

end TamocV.Lemmas.C03
