/-
  Helper lemmas for C17: the list primitives of `TamocV.Model.Particle17` at ℝ.
-/
import TamocV.Real
import TamocV.Lemmas.Basic
import TamocV.Model.Particle17
import Mathlib.Tactic.Ring
import Mathlib.Tactic.NormNum
import Mathlib.Tactic.Linarith

namespace TamocV.Lemmas.C17
open TamocV TamocV.Model.Particle17

theorem isZero_real (x : ℝ) : isZero x ↔ x = 0 := by
  simp only [isZero, Num.real_zero]
  constructor
  · rintro ⟨a, b⟩; linarith
  · rintro rfl; exact ⟨le_refl _, le_refl _⟩

theorem switchKT_real (KT Ta T : ℝ) :
    switchKT KT Ta T = if 0 < KT ∧ |Ta - T| < 0.5 then 0 else KT := by
  simp only [switchKT, Num.real_zero, Num.real_abs, Num.real_ofSci]

theorem switchKT_zero (Ta T : ℝ) : switchKT (0 : ℝ) Ta T = 0 := by
  rw [switchKT_real]; split <;> rfl

theorem switchKT_eq_or (KT Ta T : ℝ) : switchKT KT Ta T = 0 ∨ switchKT KT Ta T = KT := by
  rw [switchKT_real]; split
  · exact Or.inl rfl
  · exact Or.inr rfl

theorem useT_real (KT T Ta : ℝ) : useT KT T Ta = if KT = 0 then Ta else T := by
  unfold useT
  by_cases h : KT = 0
  · rw [if_pos ((isZero_real KT).mpr h), if_pos h]
  · rw [if_neg (fun hz => h ((isZero_real KT).mp hz)), if_neg h]

-- ---------------------------------------------------------------- lengths

theorem clip_length (m : List ℝ) : (clip m).length = m.length := by
  simp [clip]

theorem fracDiss_length (m m0 : List ℝ) : (fracDiss m m0).length = min m.length m0.length := by
  induction m generalizing m0 with
  | nil => simp [fracDiss]
  | cons a as ih =>
    cases m0 with
    | nil => simp [fracDiss]
    | cons b bs => simp [fracDiss, ih, Nat.succ_min_succ]

theorem cutoff_length (fdis : ℝ) (f b : List ℝ) :
    (cutoff fdis f b).length = min f.length b.length := by
  induction f generalizing b with
  | nil => simp [cutoff]
  | cons a as ih =>
    cases b with
    | nil => simp [cutoff]
    | cons c cs => simp [cutoff, ih, Nat.succ_min_succ]

-- ---------------------------------------------------------------- element access

theorem clip_getD (m : List ℝ) (i : Nat) (hi : i < m.length) :
    (clip m).getD i 0 = if m.getD i 0 < 0 then 0 else m.getD i 0 := by
  induction m generalizing i with
  | nil => simp at hi
  | cons a as ih =>
    cases i with
    | zero => simp [clip, Num.real_zero]
    | succ j =>
      have hj : j < as.length := by simpa using hi
      have := ih j hj
      simpa [clip] using this

theorem clip_nonneg (m : List ℝ) : ∀ x ∈ clip m, 0 ≤ x := by
  intro x hx
  simp only [clip, List.mem_map, Num.real_zero] at hx
  obtain ⟨a, _, rfl⟩ := hx
  split
  · exact le_refl _
  · rename_i h; exact not_lt.mp h

theorem clip_of_nonneg (m : List ℝ) (h : ∀ x ∈ m, 0 ≤ x) : clip m = m := by
  induction m with
  | nil => rfl
  | cons a as ih =>
    have ha : ¬ a < 0 := not_lt.mpr (h a (by simp))
    have hr : ∀ x ∈ as, 0 ≤ x := fun x hx => h x (by simp [hx])
    have := ih hr
    simp only [clip, List.map_cons, Num.real_zero, if_neg ha] at this ⊢
    rw [this]

theorem fracDiss_getD (m m0 : List ℝ) (i : Nat) (hm : i < m.length) (h0 : i < m0.length) :
    (fracDiss m m0).getD i 1 = if 0 < m0.getD i 0 then m.getD i 0 / m0.getD i 0 else 1 := by
  induction m generalizing m0 i with
  | nil => simp at hm
  | cons a as ih =>
    cases m0 with
    | nil => simp at h0
    | cons b bs =>
      cases i with
      | zero => simp [fracDiss, Num.real_zero, Num.real_one]
      | succ j =>
        have h1 : j < as.length := by simpa using hm
        have h2 : j < bs.length := by simpa using h0
        simpa [fracDiss] using ih bs j h1 h2

theorem cutoff_getD (fdis : ℝ) (f b : List ℝ) (i : Nat) (hf : i < f.length) (hb : i < b.length) :
    (cutoff fdis f b).getD i 0 = if f.getD i 1 < fdis then 0 else b.getD i 0 := by
  induction f generalizing b i with
  | nil => simp at hf
  | cons a as ih =>
    cases b with
    | nil => simp at hb
    | cons c cs =>
      cases i with
      | zero => simp [cutoff, Num.real_zero]
      | succ j =>
        have h1 : j < as.length := by simpa using hf
        have h2 : j < cs.length := by simpa using hb
        simpa [cutoff] using ih cs j h1 h2

/-- if every released component is below the threshold, the released β sum to zero -/
theorem pick_cutoff_sum_zero (fdis : ℝ) (m m0 b : List ℝ)
    (h : ∀ i, i < m.length → i < m0.length → 0 < m0.getD i 0 → m.getD i 0 / m0.getD i 0 < fdis) :
    (pick true m0 (cutoff fdis (fracDiss m m0) b)).sum = 0 := by
  induction m0 generalizing m b with
  | nil => simp [pick]
  | cons a as ih =>
    cases m with
    | nil => simp [fracDiss, cutoff, pick]
    | cons x xs =>
      cases b with
      | nil => simp [fracDiss, cutoff, pick]
      | cons c cs =>
        have hrest : ∀ i, i < xs.length → i < as.length → 0 < as.getD i 0 →
            xs.getD i 0 / as.getD i 0 < fdis := by
          intro i h1 h2 h3
          have := h (i + 1) (by simpa using h1) (by simpa using h2) (by simpa using h3)
          simpa using this
        have ihr := ih xs cs hrest
        by_cases ha : 0 < a
        · have h0 := h 0 (by simp) (by simp) (by simpa using ha)
          have h0' : x / a < fdis := by simpa using h0
          simp [fracDiss, cutoff, pick, Num.real_zero, ha, h0', ihr]
        · simp [fracDiss, cutoff, pick, Num.real_zero, ha, ihr]

/-- a boolean-mask selection only contains elements of the vector it selects from -/
theorem pick_mem (keep : Bool) (m0 v : List ℝ) : ∀ x ∈ pick keep m0 v, x ∈ v := by
  induction m0 generalizing v with
  | nil => intro x hx; simp [pick] at hx
  | cons a as ih =>
    cases v with
    | nil => intro x hx; simp [pick] at hx
    | cons b bs =>
      intro x hx
      simp only [pick] at hx
      split at hx
      · rcases List.mem_cons.mp hx with e | e
        · simp [e]
        · exact List.mem_cons_of_mem _ (ih bs x e)
      · exact List.mem_cons_of_mem _ (ih bs x hx)

theorem sum_zero_of_all_zero (l : List ℝ) (h : ∀ x ∈ l, x = 0) : l.sum = 0 := by
  induction l with
  | nil => rfl
  | cons a as ih =>
    rw [List.sum_cons, h a (by simp), ih (fun x hx => h x (by simp [hx]))]; simp

-- ---------------------------------------------------------------- biodegradation lag

theorem bioRate_length (lag : Bool) (kbio tbio : List ℝ) (t : ℝ) :
    (bioRate lag kbio tbio t).length = min kbio.length tbio.length := by
  simp [bioRate]

theorem bioRate_getD (lag : Bool) (kbio tbio : List ℝ) (t : ℝ) (i : Nat)
    (hk : i < kbio.length) (ht : i < tbio.length) :
    (bioRate lag kbio tbio t).getD i 0 =
      if lag = true ∧ t < tbio.getD i 0 then 0 else kbio.getD i 0 := by
  induction kbio generalizing tbio i with
  | nil => simp at hk
  | cons a as ih =>
    cases tbio with
    | nil => simp at ht
    | cons c cs =>
      cases i with
      | zero => simp [bioRate, Num.real_zero]
      | succ j =>
        have h1 : j < as.length := by simpa using hk
        have h2 : j < cs.length := by simpa using ht
        have := ih cs j h1 h2
        simpa [bioRate] using this

end TamocV.Lemmas.C17
