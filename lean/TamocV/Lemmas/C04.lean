/-
  Helper lemmas for C04: linear functionals on packed state vectors, the abstract integrator
  step, the read-out functionals of Model/Lmp.lean are linear and depend on the particle list
  only through its shape (issoluble, nc), the two post-step corrections leave them unchanged,
  the loop of `lmp.calculate` terminates within `cap + 1` iterations.
-/
import TamocV.Real
import TamocV.Lemmas.Basic
import TamocV.Lemmas.C03
import TamocV.Model.Lmp
import Mathlib.Tactic.Ring
import Mathlib.Tactic.Linarith
import Mathlib.Algebra.BigOperators.Group.List.Basic

namespace TamocV.Lemmas.C04
open TamocV.Model.Lmp TamocV.Lemmas.C03

/-! ### vectors -/

theorem getD_vadd : ∀ (v w : List ℝ) (i : Nat), v.length = w.length →
    (Num.vadd v w).getD i 0 = v.getD i 0 + w.getD i 0
  | [], [], _, _ => by simp [Num.vadd]
  | [], _ :: _, _, h => by simp at h
  | _ :: _, [], _, h => by simp at h
  | x :: xs, y :: ys, 0, _ => by simp [Num.vadd]
  | x :: xs, y :: ys, i+1, h => by
      have := getD_vadd xs ys i (by simpa using h)
      simpa [Num.vadd] using this

theorem getD_smul (a : ℝ) : ∀ (v : List ℝ) (i : Nat), (Num.smul a v).getD i 0 = a * v.getD i 0
  | [], _ => by simp [Num.smul]
  | x :: xs, 0 => by simp [Num.smul]
  | x :: xs, i+1 => by
      have := getD_smul a xs i
      simpa [Num.smul] using this

theorem drop_vadd (v w : List ℝ) (k : Nat) : (Num.vadd v w).drop k = Num.vadd (v.drop k) (w.drop k) := by
  simp [Num.vadd, List.drop_zipWith]

theorem drop_smul (a : ℝ) (v : List ℝ) (k : Nat) : (Num.smul a v).drop k = Num.smul a (v.drop k) := by
  simp [Num.smul, List.map_drop]

theorem take_vadd (v w : List ℝ) (k : Nat) : (Num.vadd v w).take k = Num.vadd (v.take k) (w.take k) := by
  simp [Num.vadd, List.take_zipWith]

theorem take_smul (a : ℝ) (v : List ℝ) (k : Nat) : (Num.smul a v).take k = Num.smul a (v.take k) := by
  simp [Num.smul, List.map_take]

theorem length_vadd (v w : List ℝ) : (Num.vadd v w).length = min v.length w.length := by
  simp [Num.vadd]

theorem length_smul (a : ℝ) (v : List ℝ) : (Num.smul a v).length = v.length := by
  simp [Num.smul]

theorem getD_take : ∀ (v : List ℝ) (n i : Nat), i < n → (v.take n).getD i 0 = v.getD i 0
  | [], _, _, _ => by simp
  | x :: xs, 0, _, h => by omega
  | x :: xs, n+1, 0, _ => by simp
  | x :: xs, n+1, i+1, h => by
      simp only [List.take_succ_cons, List.getD_cons_succ]
      exact getD_take xs n i (by omega)

/-! ### linear functionals and the abstract integrator step -/

/-- `L` is linear on vectors of length `n` -/
structure LinearOn (n : Nat) (L : List ℝ → ℝ) : Prop where
  add : ∀ v w : List ℝ, v.length = n → w.length = n → L (Num.vadd v w) = L v + L w
  smul : ∀ (a : ℝ) (v : List ℝ), v.length = n → L (Num.smul a v) = a * L v
  zero : L (List.replicate n 0) = 0

theorem linComb_length (n : Nat) : ∀ (terms : List (ℝ × List ℝ)), (∀ t ∈ terms, t.2.length = n) →
    (linComb n terms).length = n
  | [], _ => by simp [linComb]
  | (a, v) :: rest, h => by
      have h1 : v.length = n := h (a, v) (by simp)
      have h2 := linComb_length n rest (fun t ht => h t (by simp [ht]))
      simp [linComb, length_vadd, length_smul, h1, h2]

theorem L_linComb {n : Nat} {L : List ℝ → ℝ} (hL : LinearOn n L) :
    ∀ (terms : List (ℝ × List ℝ)), (∀ t ∈ terms, t.2.length = n) →
    L (linComb n terms) = (terms.map (fun t => t.1 * L t.2)).sum
  | [], _ => by
      simp only [linComb, Num.real_zero, List.map_nil, List.sum_nil]
      exact hL.zero
  | (a, v) :: rest, h => by
      have h1 : v.length = n := h (a, v) (by simp)
      have hr : ∀ t ∈ rest, t.2.length = n := fun t ht => h t (by simp [ht])
      simp only [linComb, List.map_cons, List.sum_cons]
      rw [hL.add _ _ (by rw [length_smul]; exact h1) (linComb_length n rest hr), hL.smul a v h1,
        L_linComb hL rest hr]

theorem integratorStep_length (n : Nat) (states rhs : List (ℝ × List ℝ))
    (hs : ∀ t ∈ states, t.2.length = n) (hr : ∀ t ∈ rhs, t.2.length = n) :
    (integratorStep n states rhs).length = n := by
  unfold integratorStep
  rw [length_vadd, linComb_length n states hs, linComb_length n rhs hr]; simp

/-- the solver's own sequence of states `y_0, y_1, …` (it never sees the corrected copies that are stored): every
    new state is an affine step over EARLIER solver states and right-hand sides satisfying `Ann` -/
inductive SolverRun (n : Nat) (Ann : List ℝ → Prop) (y0 : List ℝ) : List (List ℝ) → Prop
  | init : y0.length = n → SolverRun n Ann y0 [y0]
  | step (ys : List (List ℝ)) (states rhs : List (ℝ × List ℝ)) :
      SolverRun n Ann y0 ys → (∀ t ∈ states, t.2 ∈ ys) → (∀ t ∈ rhs, t.2.length = n ∧ Ann t.2) →
      (states.map (fun t => t.1)).sum = 1 → SolverRun n Ann y0 (ys ++ [integratorStep n states rhs])

/-! ### the read-out functionals are linear and depend on the shape of the particle list only -/

/-- what the index arithmetic of `LagElement.update` uses of a particle -/
def shape (ps : List (Particle ℝ)) : List (Bool × Nat) := ps.map (fun p => (p.issoluble, p.nc))

theorem compoundTotal_shape (c : Nat) : ∀ (ps ps' : List (Particle ℝ)) (v : List ℝ), shape ps = shape ps' →
    compoundTotal c ps v = compoundTotal c ps' v
  | [], [], _, _ => rfl
  | [], _ :: _, _, h => by simp [shape] at h
  | _ :: _, [], _, h => by simp [shape] at h
  | p :: ps, p' :: ps', v, h => by
      simp only [shape, List.map_cons, List.cons.injEq, Prod.mk.injEq] at h
      obtain ⟨⟨h1, h2⟩, h3⟩ := h
      simp only [compoundTotal, h1, h2]
      rw [compoundTotal_shape c ps ps' _ h3]

theorem slotsLen_shape : ∀ (a b : List (Particle ℝ)), shape a = shape b → slotsLen a = slotsLen b
  | [], [], _ => rfl
  | [], _ :: _, h => by simp [shape] at h
  | _ :: _, [], h => by simp [shape] at h
  | p :: ps, q :: qs, h => by
      simp only [shape, List.map_cons, List.cons.injEq, Prod.mk.injEq] at h
      simp only [slotsLen, h.1.2]
      rw [slotsLen_shape ps qs h.2]

theorem soluble_lt_shape (c : Nat) : ∀ (a b : List (Particle ℝ)), shape a = shape b →
    (∀ p ∈ b, p.issoluble = true → c < p.nc) → ∀ p ∈ a, p.issoluble = true → c < p.nc
  | [], _, _, _ => by intro p hp; simp at hp
  | _ :: _, [], h, _ => by simp [shape] at h
  | p :: ps, q :: qs, h, hc => by
      simp only [shape, List.map_cons, List.cons.injEq, Prod.mk.injEq] at h
      intro x hx
      rcases List.mem_cons.mp hx with rfl | hx'
      · intro hsol; rw [h.1.2]; exact hc q (by simp) (by rw [← h.1.1]; exact hsol)
      · exact soluble_lt_shape c ps qs h.2 (fun y hy => hc y (by simp [hy])) x hx'

theorem compoundTotal_add (c : Nat) : ∀ (ps : List (Particle ℝ)) (v w : List ℝ), v.length = w.length →
    compoundTotal c ps (Num.vadd v w) = compoundTotal c ps v + compoundTotal c ps w
  | [], v, w, h => by simp only [compoundTotal, Num.real_zero]; exact getD_vadd v w c h
  | p :: ps, v, w, h => by
      simp only [compoundTotal, Num.real_zero]
      rw [drop_vadd, compoundTotal_add c ps _ _ (by simp [h]), getD_vadd v w c h]
      split <;> ring

theorem compoundTotal_smul (c : Nat) (a : ℝ) : ∀ (ps : List (Particle ℝ)) (v : List ℝ),
    compoundTotal c ps (Num.smul a v) = a * compoundTotal c ps v
  | [], v => by simp only [compoundTotal, Num.real_zero]; exact getD_smul a v c
  | p :: ps, v => by
      simp only [compoundTotal, Num.real_zero]
      rw [drop_smul, compoundTotal_smul c a ps, getD_smul]
      split <;> ring

theorem compoundTotal_zero (c : Nat) : ∀ (ps : List (Particle ℝ)) (n : Nat),
    compoundTotal c ps (List.replicate n (0 : ℝ)) = 0
  | [], n => by simp only [compoundTotal, Num.real_zero]; exact getD_replicate_zero n c
  | p :: ps, n => by
      simp only [compoundTotal, Num.real_zero, List.drop_replicate]
      rw [compoundTotal_zero c ps, getD_replicate_zero]
      split <;> ring

/-- the compound total as a functional of the FULL state vector -/
noncomputable def totalOf (c : Nat) (ps : List (Particle ℝ)) (v : List ℝ) : ℝ := compoundTotal c ps (v.drop 11)

theorem totalOf_linear (c : Nat) (ps : List (Particle ℝ)) (n : Nat) : LinearOn n (totalOf c ps) where
  add := by
    intro v w hv hw
    unfold totalOf
    rw [drop_vadd, compoundTotal_add c ps _ _ (by simp [hv, hw])]
  smul := by
    intro a v _
    unfold totalOf
    rw [drop_smul, compoundTotal_smul]
  zero := by
    unfold totalOf
    rw [List.drop_replicate, compoundTotal_zero]

/-! ### particle blocks -/

theorem particleBlock_shape : ∀ (ps ps' : List (Particle ℝ)) (i : Nat) (v : List ℝ), shape ps = shape ps' →
    particleBlock ps i v = particleBlock ps' i v
  | [], [], _, _, _ => rfl
  | [], _ :: _, _, _, h => by simp [shape] at h
  | _ :: _, [], _, _, h => by simp [shape] at h
  | p :: ps, p' :: ps', 0, v, h => by
      simp only [shape, List.map_cons, List.cons.injEq, Prod.mk.injEq] at h
      simp only [particleBlock, h.1.2]
  | p :: ps, p' :: ps', i+1, v, h => by
      simp only [shape, List.map_cons, List.cons.injEq, Prod.mk.injEq] at h
      simp only [particleBlock, h.1.2]
      exact particleBlock_shape ps ps' i _ h.2

theorem particleBlock_add : ∀ (ps : List (Particle ℝ)) (i : Nat) (v w : List ℝ),
    particleBlock ps i (Num.vadd v w) = Num.vadd (particleBlock ps i v) (particleBlock ps i w)
  | [], _, _, _ => by simp [particleBlock, Num.vadd]
  | p :: ps, 0, v, w => by simp only [particleBlock]; exact take_vadd v w _
  | p :: ps, i+1, v, w => by
      simp only [particleBlock]
      rw [drop_vadd]; exact particleBlock_add ps i _ _

theorem particleBlock_smul (a : ℝ) : ∀ (ps : List (Particle ℝ)) (i : Nat) (v : List ℝ),
    particleBlock ps i (Num.smul a v) = Num.smul a (particleBlock ps i v)
  | [], _, _ => by simp [particleBlock, Num.smul]
  | p :: ps, 0, v => by simp only [particleBlock]; exact take_smul a v _
  | p :: ps, i+1, v => by
      simp only [particleBlock]
      rw [drop_smul]; exact particleBlock_smul a ps i _

theorem particleBlock_length : ∀ (ps : List (Particle ℝ)) (i : Nat) (v w : List ℝ), v.length = w.length →
    (particleBlock ps i v).length = (particleBlock ps i w).length
  | [], _, _, _, _ => by simp [particleBlock]
  | p :: ps, 0, v, w, h => by simp [particleBlock, h]
  | p :: ps, i+1, v, w, h => by
      simp only [particleBlock]
      exact particleBlock_length ps i _ _ (by simp [h])

theorem particleBlock_full_length : ∀ (ps : List (Particle ℝ)) (w : List ℝ) (i : Nat) (p : Particle ℝ),
    slotsLen ps ≤ w.length → ps[i]? = some p → (particleBlock ps i w).length = p.nc + 5
  | [], _, _, _, _, h => by simp at h
  | q :: ps, w, 0, p, hw, hi => by
      simp only [List.getElem?_cons_zero, Option.some.injEq] at hi
      subst hi
      simp only [slotsLen] at hw
      simp [particleBlock]; omega
  | q :: ps, w, i+1, p, hw, hi => by
      simp only [List.getElem?_cons_succ] at hi
      simp only [slotsLen] at hw
      simp only [particleBlock]
      exact particleBlock_full_length ps _ i p (by simp; omega) hi

/-- slot `k` of particle `i`, as a functional of the FULL state vector -/
noncomputable def slotOf (ps : List (Particle ℝ)) (i k : Nat) (v : List ℝ) : ℝ :=
  (particleBlock ps i (v.drop 11)).getD k 0

theorem slotOf_linear (ps : List (Particle ℝ)) (i k n : Nat) : LinearOn n (slotOf ps i k) where
  add := by
    intro v w hv hw
    unfold slotOf
    rw [drop_vadd, particleBlock_add,
      getD_vadd _ _ k (particleBlock_length ps i _ _ (by simp [hv, hw]))]
  smul := by
    intro a v _
    unfold slotOf
    rw [drop_smul, particleBlock_smul, getD_smul]
  zero := by
    unfold slotOf
    rw [List.drop_replicate]
    have : ∀ (ps : List (Particle ℝ)) (i m : Nat),
        (particleBlock ps i (List.replicate m (0 : ℝ))).getD k 0 = 0 := by
      intro ps
      induction ps with
      | nil => intro i m; simp [particleBlock]
      | cons p ps ih =>
        intro i m
        cases i with
        | zero => simp only [particleBlock, List.take_replicate]; exact getD_replicate_zero _ _
        | succ i => simp only [particleBlock, List.drop_replicate]; exact ih i _
    exact this ps i _

/-- the block of particle `i` inside the assembled derivative vector is `block e p_i` -/
theorem particleBlock_blocks (e : Env ℝ) (hE : WfE e) (rest : List ℝ) :
    ∀ (ps : List (Particle ℝ)), Wf e ps → ∀ (i : Nat) (p : Particle ℝ), ps[i]? = some p →
    particleBlock ps i (ps.flatMap (block e) ++ rest) = block e p
  | [], _, _, _, h => by simp at h
  | q :: ps, hW, 0, p, h => by
      simp only [List.getElem?_cons_zero, Option.some.injEq] at h
      subst h
      simp only [particleBlock, List.flatMap_cons, List.append_assoc]
      exact List.take_left' (block_length e hE q hW.head)
  | q :: ps, hW, i+1, p, h => by
      simp only [List.getElem?_cons_succ] at h
      simp only [particleBlock, List.flatMap_cons, List.append_assoc]
      rw [drop_append_eq _ _ _ (block_length e hE q hW.head)]
      exact particleBlock_blocks e hE rest ps hW.tail i p h

/-! ### the two corrections touch heat and position slots only -/

theorem compoundTotal_correctTemperature (c : Nat) :
    ∀ (ps : List (Particle ℝ)) (hs v : List ℝ), slotsLen ps ≤ v.length →
    (∀ p ∈ ps, p.issoluble = true → c < p.nc) →
    compoundTotal c ps (correctTemperature ps hs v) = compoundTotal c ps v
  | [], _, _, _, _ => by simp [correctTemperature]
  | _ :: _, [], _, _, _ => by simp [correctTemperature]
  | p :: ps, h :: hs, v, hlen, hc => by
      simp only [slotsLen] at hlen
      have hX : (v.take p.nc ++ [h] ++ (v.drop (p.nc + 1)).take 4).length = p.nc + 5 := by
        simp; omega
      simp only [correctTemperature, compoundTotal, Num.real_zero]
      rw [drop_append_eq _ _ _ hX,
        compoundTotal_correctTemperature c ps hs _ (by simp; omega) (fun q hq => hc q (by simp [hq]))]
      congr 1
      by_cases hsol : p.issoluble = true
      · have hcp := hc p (by simp) hsol
        simp only [hsol, if_true]
        rw [getD_append_left _ _ _ (by rw [hX]; omega), List.append_assoc,
          getD_append_left _ _ _ (by simp; omega), getD_take _ _ _ hcp]
      · simp [hsol]

theorem compoundTotal_correctParticleTracking (c : Nat) (mark : ℝ) :
    ∀ (ps : List (Particle ℝ)) (v : List ℝ), slotsLen ps ≤ v.length →
    (∀ p ∈ ps, p.issoluble = true → c < p.nc) →
    compoundTotal c ps (correctParticleTracking mark ps v) = compoundTotal c ps v
  | [], _, _, _ => by simp [correctParticleTracking]
  | p :: ps, v, hlen, hc => by
      simp only [slotsLen] at hlen
      have hX : (if p.integrate = true then v.take (p.nc + 5)
          else v.take (p.nc + 2) ++ [mark, mark, mark]).length = p.nc + 5 := by
        split <;> simp <;> omega
      simp only [correctParticleTracking, compoundTotal, Num.real_zero]
      rw [drop_append_eq _ _ _ hX,
        compoundTotal_correctParticleTracking c mark ps _ (by simp; omega) (fun q hq => hc q (by simp [hq]))]
      congr 1
      by_cases hsol : p.issoluble = true
      · have hcp := hc p (by simp) hsol
        simp only [hsol, if_true]
        rw [getD_append_left _ _ _ (by rw [hX]; omega)]
        split
        · exact getD_take _ _ _ (by omega)
        · rw [getD_append_left _ _ _ (by simp; omega)]
          exact getD_take _ _ _ (by omega)
      · simp [hsol]

/-- the mass slots (k < nc) of ANY particle are untouched by `correctTemperature` -/
theorem massSlot_correctTemperature :
    ∀ (ps : List (Particle ℝ)) (hs v : List ℝ) (i : Nat) (p : Particle ℝ) (k : Nat), slotsLen ps ≤ v.length →
    ps[i]? = some p → k < p.nc →
    (particleBlock ps i (correctTemperature ps hs v)).getD k 0 = (particleBlock ps i v).getD k 0
  | [], _, _, _, _, _, _, h, _ => by simp at h
  | _ :: _, [], _, _, _, _, _, _, _ => by simp [correctTemperature]
  | q :: ps, h :: hs, v, 0, p, k, hlen, hi, hk => by
      simp only [List.getElem?_cons_zero, Option.some.injEq] at hi
      subst hi
      simp only [slotsLen] at hlen
      have hX : (v.take q.nc ++ [h] ++ (v.drop (q.nc + 1)).take 4).length = q.nc + 5 := by
        simp; omega
      simp only [correctTemperature, particleBlock]
      rw [List.take_left' hX, List.append_assoc, getD_append_left _ _ _ (by simp; omega),
        getD_take _ _ _ hk, getD_take _ _ _ (by omega)]
  | q :: ps, h :: hs, v, i+1, p, k, hlen, hi, hk => by
      simp only [List.getElem?_cons_succ] at hi
      simp only [slotsLen] at hlen
      have hX : (v.take q.nc ++ [h] ++ (v.drop (q.nc + 1)).take 4).length = q.nc + 5 := by
        simp; omega
      simp only [correctTemperature, particleBlock]
      rw [drop_append_eq _ _ _ hX]
      exact massSlot_correctTemperature ps hs _ i p k (by simp; omega) hi hk

/-- block of particle `i` after `correctParticleTracking`: untouched when it is integrated,
    positions replaced by `mark` when it is not -/
theorem particleBlock_correctParticleTracking (mark : ℝ) :
    ∀ (ps : List (Particle ℝ)) (v : List ℝ) (i : Nat) (p : Particle ℝ), slotsLen ps ≤ v.length →
    ps[i]? = some p →
    particleBlock ps i (correctParticleTracking mark ps v)
      = if p.integrate = true then particleBlock ps i v
        else (particleBlock ps i v).take (p.nc + 2) ++ [mark, mark, mark]
  | [], _, _, _, _, h => by simp at h
  | q :: ps, v, 0, p, hlen, hi => by
      simp only [List.getElem?_cons_zero, Option.some.injEq] at hi
      subst hi
      simp only [slotsLen] at hlen
      have hX : (if q.integrate = true then v.take (q.nc + 5)
          else v.take (q.nc + 2) ++ [mark, mark, mark]).length = q.nc + 5 := by
        split <;> simp <;> omega
      simp only [correctParticleTracking, particleBlock]
      rw [List.take_left' hX]
      split
      · rfl
      · rw [List.take_take]; congr 2; omega
  | q :: ps, v, i+1, p, hlen, hi => by
      simp only [List.getElem?_cons_succ] at hi
      simp only [slotsLen] at hlen
      have hX : (if q.integrate = true then v.take (q.nc + 5)
          else v.take (q.nc + 2) ++ [mark, mark, mark]).length = q.nc + 5 := by
        split <;> simp <;> omega
      simp only [correctParticleTracking, particleBlock]
      rw [drop_append_eq _ _ _ hX]
      exact particleBlock_correctParticleTracking mark ps _ i p (by simp; omega) hi

theorem correctTemperature_length : ∀ (ps : List (Particle ℝ)) (hs v : List ℝ), slotsLen ps ≤ v.length →
    (correctTemperature ps hs v).length = v.length
  | [], _, _, _ => by simp [correctTemperature]
  | _ :: _, [], _, _ => by simp [correctTemperature]
  | p :: ps, h :: hs, v, hlen => by
      simp only [slotsLen] at hlen
      simp only [correctTemperature, List.length_append]
      rw [correctTemperature_length ps hs _ (by simp; omega)]
      simp; omega

theorem correctParticleTracking_length (mark : ℝ) : ∀ (ps : List (Particle ℝ)) (v : List ℝ),
    slotsLen ps ≤ v.length → (correctParticleTracking mark ps v).length = v.length
  | [], _, _ => by simp [correctParticleTracking]
  | p :: ps, v, hlen => by
      simp only [slotsLen] at hlen
      simp only [correctParticleTracking, List.length_append]
      rw [correctParticleTracking_length mark ps _ (by simp; omega)]
      split <;> simp <;> omega

/-- an inert particle whose rate constants are all zero has a zero mass-slot derivative -/
theorem inert_block_mass_zero (e : Env ℝ) (p : Particle ℝ) (hs : p.issoluble = false)
    (hk : ∀ k ∈ p.k_bio, k = 0) : (block e p).getD 0 0 = 0 := by
  unfold block
  by_cases hi : p.integrate = true
  · simp only [hi, if_true, massSlots, hs]
    simp only [Bool.false_eq_true, if_false, List.cons_append, List.nil_append, List.getD_cons_zero,
      Num.real_sum]
    apply List.sum_eq_zero
    intro x hx
    unfold dmPb at hx
    obtain ⟨i, hi', rfl⟩ := List.getElem_of_mem hx
    simp only [List.getElem_zipWith]
    rw [hk _ (List.getElem_mem _)]
    ring
  · simp only [hi]
    simp only [Bool.false_eq_true, if_false, Num.real_zero]
    exact getD_replicate_zero _ _

/-! ### the loop of `lmp.calculate` -/

variable {α : Type} [Num α]

theorem stepControl_k (cap : Nat) (c : Ctl) (o : Obs α) : (stepControl cap c o).1.k = c.k + 1 := rfl

theorem stepControl_cap (cap : Nat) (c : Ctl) (o : Obs α) (h : cap ≤ c.k) :
    (stepControl cap c o).2.any = true := by
  simp [stepControl, Reasons.any, h]

/-- what a run of the loop can return when started with `c.k + fuel = cap + 1`, `1 ≤ fuel` -/
def GoodOutcome (cap : Nat) (succ : Nat → Bool) : Outcome → Prop
  | .stopped c r => r.any = true ∧ c.k ≤ cap + 1 ∧ 1 ≤ c.k
  | .failed c => succ c.k = false ∧ c.k ≤ cap
  | .outOfFuel _ => False

theorem loop_good (cap : Nat) (succ : Nat → Bool) (obs : Nat → Obs α) :
    ∀ (fuel : Nat) (c : Ctl), c.k + fuel = cap + 1 → 1 ≤ fuel →
    GoodOutcome cap succ (loop cap succ obs fuel c)
  | 0, _, _, h => by omega
  | fuel+1, c, hk, _ => by
      unfold loop
      by_cases hs : succ c.k = true
      · simp only [hs, if_true]
        by_cases hr : (stepControl cap c (obs c.k)).2.any = true
        · simp only [hr, if_true]
          refine ⟨hr, ?_, ?_⟩
          · rw [stepControl_k]; omega
          · rw [stepControl_k]; omega
        · simp only [hr]
          have hfuel : 1 ≤ fuel := by
            by_contra hlt
            have : cap ≤ c.k := by omega
            exact hr (stepControl_cap cap c (obs c.k) this)
          exact loop_good cap succ obs fuel _ (by rw [stepControl_k]; omega) hfuel
      · simp only [hs]
        exact ⟨by simpa using hs, by omega⟩


theorem ctlAt_k (cap : Nat) (obs : Nat → Obs α) : ∀ k, (ctlAt cap obs k).k = k
  | 0 => rfl
  | k+1 => by simp only [ctlAt, stepControl_k, ctlAt_k cap obs k]

/-- what the loop returns when started in pass `j0` with the counters of pass `j0` -/
def LoopSpec (cap : Nat) (succ : Nat → Bool) (obs : Nat → Obs α) (j0 : Nat) : Outcome → Prop
  | .stopped c r => ∃ j, j0 ≤ j ∧ c = ctlAt cap obs (j + 1) ∧ r = testsAt cap obs j ∧ r.any = true ∧ succ j = true ∧
      ∀ i, j0 ≤ i → i < j → succ i = true ∧ (testsAt cap obs i).any = false
  | .failed c => ∃ j, j0 ≤ j ∧ c = ctlAt cap obs j ∧ succ j = false ∧
      ∀ i, j0 ≤ i → i < j → succ i = true ∧ (testsAt cap obs i).any = false
  | .outOfFuel _ => True

theorem loop_spec (cap : Nat) (succ : Nat → Bool) (obs : Nat → Obs α) :
    ∀ (fuel j0 : Nat), LoopSpec cap succ obs j0 (loop cap succ obs fuel (ctlAt cap obs j0))
  | 0, _ => by simp [loop, LoopSpec]
  | fuel+1, j0 => by
      unfold loop
      rw [ctlAt_k]
      by_cases hs : succ j0 = true
      · simp only [hs, if_true]
        by_cases hr : (stepControl cap (ctlAt cap obs j0) (obs j0)).2.any = true
        · simp only [hr, if_true]
          exact ⟨j0, le_refl _, rfl, rfl, hr, hs, fun i h1 h2 => by omega⟩
        · simp only [hr]
          have ih := loop_spec cap succ obs fuel (j0 + 1)
          have hc : (stepControl cap (ctlAt cap obs j0) (obs j0)).1 = ctlAt cap obs (j0 + 1) := rfl
          rw [hc]
          generalize loop cap succ obs fuel (ctlAt cap obs (j0 + 1)) = out at ih
          have hfalse : (testsAt cap obs j0).any = false := by
            unfold testsAt; simpa using hr
          cases out with
          | stopped c r =>
            obtain ⟨j, hj, h1, h2, h3, h4, h5⟩ := ih
            refine ⟨j, by omega, h1, h2, h3, h4, ?_⟩
            intro i hi1 hi2
            by_cases hij : i = j0
            · subst hij; exact ⟨hs, hfalse⟩
            · exact h5 i (by omega) hi2
          | failed c =>
            obtain ⟨j, hj, h1, h2, h5⟩ := ih
            refine ⟨j, by omega, h1, h2, ?_⟩
            intro i hi1 hi2
            by_cases hij : i = j0
            · subst hij; exact ⟨hs, hfalse⟩
            · exact h5 i (by omega) hi2
          | outOfFuel c => trivial
      · simp only [hs]
        exact ⟨j0, le_refl _, rfl, by simpa using hs, fun i h1 h2 => by omega⟩

/-- right-hand sides of a compound-free, biodegradation-free configuration with the particle shape `ps` -/
def CleanRhs (c : Nat) (ps : List (Particle ℝ)) (f : List ℝ) : Prop :=
  ∃ (e : Env ℝ) (ps' : List (Particle ℝ)), f = derivs e ps' ∧ shape ps' = shape ps ∧ WfE e ∧ Wf e ps' ∧ c < e.nchems ∧
    e.ca_chems.getD c 0 = 0 ∧ e.k_bio.getD c 0 = 0 ∧ ∀ p ∈ ps', p.k_bio.getD c 0 = 0

/-- DEFINITIONAL read-back of `stepControl`: what each reported reason means (the five tests of l.300-315, and the two counters) -/
theorem stop_tests {α : Type} [Num α] (cap : Nat) (c : Ctl) (o : Obs α) :
    let r := (stepControl cap c o).2
    let c' := (stepControl cap c o).1
    (r.distance = true ↔ o.sdMax < o.s / o.D) ∧ (r.cap = true ↔ cap ≤ c.k) ∧ (r.surface = true ↔ o.z ≤ 0) ∧
    (r.stall = true ↔ (o.s ≤ o.sPrev ∧ o.sPrev ≤ o.s)) ∧ (r.neutral = true ↔ 1 ≤ c'.neutral) ∧
    c'.k = c.k + 1 ∧
    c'.top = (if signDiffers o.Jz0 o.Jz1 then c.top + 1 else c.top) ∧
    c'.neutral = (if 0 < c'.top then (if signDiffers o.dr0 o.dr1 then c.neutral + 1 else c.neutral) else c.neutral) := by
  simp [stepControl]

/-! ### example state for the non-vacuity examples of Props/C04 -/

/-- the example state of C03 with the background concentrations and the rate constants removed -/
noncomputable def exEnv0 : Env ℝ := { exEnv with ca_chems := [0, 0], k_bio := [0, 0] }
noncomputable def exPs0 : List (Particle ℝ) :=
  [{ exSol true with k_bio := [0, 0] }, { exInert with k_bio := [0] }, { exSol false with k_bio := [0, 0] }]

end TamocV.Lemmas.C04
