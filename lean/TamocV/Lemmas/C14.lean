/-
  Helper lemmas for C14: row thinning (coarsen), stabilisation, hydrostatic pressure.
-/
import TamocV.Real
import TamocV.Lemmas.Basic
import TamocV.Lemmas.C07
import TamocV.Model.Profile
import Mathlib.Tactic.Ring
import Mathlib.Tactic.Linarith
import Mathlib.Tactic.NormNum

namespace TamocV.Lemmas.C14
open TamocV TamocV.Model.Profile TamocV.Lemmas.C07

/-! ### coarsen -/

/-- row `r` is within relative error `err` of the baseline row `b` in every dependent variable;
    entries of `r` that are exactly zero are exempt — the code's rule (l.2498-2501) -/
def Within (err : ℝ) (b r : List ℝ) : Prop :=
  ∀ p ∈ List.zip (vals r) (vals b), p.1 = 0 ∨ |(p.1 - p.2) / p.1| ≤ err

theorem exceeds_aux (err : ℝ) (a b : List ℝ) :
    (List.zipWith (fun x bk => if x ≤ (0 : ℝ) ∧ (0 : ℝ) ≤ x then false
        else decide (err < |(x - bk) / x|)) a b).any id = false
      ↔ ∀ p ∈ List.zip a b, p.1 = 0 ∨ |(p.1 - p.2) / p.1| ≤ err := by
  induction a generalizing b with
  | nil => simp
  | cons x xs ih =>
    cases b with
    | nil => simp
    | cons y ys =>
      simp only [List.zipWith_cons_cons, List.any_cons, Bool.or_eq_false_iff, List.zip_cons_cons,
        List.mem_cons, forall_eq_or_imp, ih ys]
      apply and_congr_left'
      by_cases hx : x = 0
      · simp [hx]
      · have : ¬ (x ≤ 0 ∧ 0 ≤ x) := fun h => hx (le_antisymm h.1 h.2)
        simp [this, hx]

theorem exceeds_eq_false_iff (err : ℝ) (b r : List ℝ) : exceeds err b r = false ↔ Within err b r := by
  unfold exceeds Within
  simp only [Num.real_zero, Num.real_abs]
  exact exceeds_aux err (vals r) (vals b)

/-- the rows of a list of (kept row, run of dropped rows after it) -/
def unseg (segs : List (List ℝ × List (List ℝ))) : List (List ℝ) :=
  segs.flatMap (fun s => s.1 :: s.2)

theorem coarsenGo_segments (err : ℝ) (rest : List (List ℝ)) (hne : rest ≠ []) (b : List ℝ) :
    ∃ (d0 : List (List ℝ)) (segs : List (List ℝ × List (List ℝ))),
      rest = d0 ++ unseg segs ∧ coarsenGo err b rest = segs.map (·.1) ∧
      (∀ r ∈ d0, Within err b r) ∧ (∀ s ∈ segs, ∀ r ∈ s.2, Within err s.1 r) := by
  induction rest generalizing b with
  | nil => exact absurd rfl hne
  | cons r tl ih =>
    cases tl with
    | nil => exact ⟨[], [(r, [])], by simp [unseg], by simp [coarsenGo], by simp, by simp⟩
    | cons r' rest' =>
      by_cases hex : exceeds err b r = true
      · obtain ⟨d0, segs, h1, h2, h3, h4⟩ := ih (by simp) r
        refine ⟨[], (r, d0) :: segs, ?_, ?_, by simp, ?_⟩
        · simp only [unseg, List.flatMap_cons, List.nil_append, List.cons_append, List.cons.injEq, true_and]
          exact h1
        · simp only [coarsenGo, hex, if_true, List.map_cons, h2]
        · intro s hs
          simp only [List.mem_cons] at hs
          rcases hs with rfl | hs
          · exact h3
          · exact h4 s hs
      · have hf : exceeds err b r = false := by simpa using hex
        obtain ⟨d0, segs, h1, h2, h3, h4⟩ := ih (by simp) b
        refine ⟨r :: d0, segs, ?_, ?_, ?_, h4⟩
        · simp only [List.cons_append, List.cons.injEq, true_and]; exact h1
        · simp only [coarsenGo, hf, Bool.false_eq_true, if_false, h2]
        · intro x hx
          simp only [List.mem_cons] at hx
          rcases hx with rfl | hx
          · exact (exceeds_eq_false_iff err b x).mp hf
          · exact h3 x hx

theorem coarsenGo_sublist (err : ℝ) (rest : List (List ℝ)) (b : List ℝ) :
    (coarsenGo err b rest).Sublist rest := by
  induction rest generalizing b with
  | nil => simp [coarsenGo]
  | cons r tl ih =>
    cases tl with
    | nil => simp [coarsenGo]
    | cons r' rest' =>
      unfold coarsenGo
      split
      · exact (ih r).cons_cons r
      · exact (ih b).cons r

theorem coarsenGo_last (err : ℝ) (mid : List (List ℝ)) (last b : List ℝ) :
    ∃ mid', coarsenGo err b (mid ++ [last]) = mid' ++ [last] := by
  induction mid generalizing b with
  | nil => exact ⟨[], by simp [coarsenGo]⟩
  | cons r tl ih =>
    have hcons : ∃ r' rest', tl ++ [last] = r' :: rest' := by
      cases tl with
      | nil => exact ⟨last, [], rfl⟩
      | cons a as => exact ⟨a, as ++ [last], rfl⟩
    obtain ⟨r', rest', hr⟩ := hcons
    simp only [List.cons_append, hr]
    unfold coarsenGo
    split
    · obtain ⟨m, hm⟩ := ih r
      rw [hr] at hm
      exact ⟨r :: m, by simp [hm]⟩
    · obtain ⟨m, hm⟩ := ih b
      rw [hr] at hm
      exact ⟨m, hm⟩

/-! ### stabilize -/

/-- the kept rows after the first, when no depth is negative (the in-domain case of the code) -/
noncomputable def keepGo (ρ : ℝ → ℝ → ℝ → ℝ) : ℝ → List (List ℝ) → List (List ℝ)
  | _, [] => []
  | _, [last] => [last]
  | rhoOld, r :: r' :: rest =>
    if sigma ρ r < rhoOld then keepGo ρ rhoOld (r' :: rest) else r :: keepGo ρ (sigma ρ r) (r' :: rest)

theorem selectRows_cons (r : List ℝ) (rows : List (List ℝ)) (m : Bool) (mask : List Bool) :
    selectRows (r :: rows) (m :: mask) = (if m then [r] else []) ++ selectRows rows mask := by
  simp [selectRows]

theorem selectRows_nil (mask : List Bool) : selectRows ([] : List (List ℝ)) mask = [] := by
  simp [selectRows]

theorem select_stabMaskGo (ρ : ℝ → ℝ → ℝ → ℝ) (rest : List (List ℝ)) (hz : ∀ r ∈ rest, 0 ≤ depth r)
    (rhoOld : ℝ) : selectRows rest (stabMaskGo ρ rhoOld rest) = keepGo ρ rhoOld rest := by
  induction rest generalizing rhoOld with
  | nil => simp [stabMaskGo, keepGo, selectRows]
  | cons r tl ih =>
    cases tl with
    | nil =>
      have : (0 : ℝ) ≤ depth r := hz r (by simp)
      simp [stabMaskGo, keepGo, selectRows, Num.real_zero, this]
    | cons r' rest' =>
      have hr : (0 : ℝ) ≤ depth r := hz r (by simp)
      have htl : ∀ x ∈ r' :: rest', 0 ≤ depth x := fun x hx => hz x (by simp [hx])
      unfold stabMaskGo keepGo
      by_cases h : sigma ρ r < rhoOld
      · simp only [h, if_true, selectRows_cons, Bool.false_eq_true, if_false, List.nil_append]
        exact ih htl rhoOld
      · simp only [h, if_false, selectRows_cons, Num.real_zero, hr, decide_true, if_true,
          List.singleton_append, List.cons.injEq, true_and]
        exact ih htl (sigma ρ r)

/-- with no negative depth the mask selects the first row and `keepGo` of the rest -/
theorem stab_kept (ρ : ℝ → ℝ → ℝ → ℝ) (first : List ℝ) (rest : List (List ℝ))
    (hz : ∀ r ∈ first :: rest, 0 ≤ depth r) :
    selectRows (first :: rest) (stabMask ρ (first :: rest)) = first :: keepGo ρ (sigma ρ first) rest := by
  have h0 : (0 : ℝ) ≤ depth first := hz first (by simp)
  unfold stabMask
  rw [selectRows_cons, select_stabMaskGo ρ rest (fun r hr => hz r (by simp [hr]))]
  simp [Num.real_zero, h0]

theorem keepGo_ne_nil (ρ : ℝ → ℝ → ℝ → ℝ) (rest : List (List ℝ)) (hne : rest ≠ []) (rhoOld : ℝ) :
    keepGo ρ rhoOld rest ≠ [] := by
  induction rest generalizing rhoOld with
  | nil => exact absurd rfl hne
  | cons r tl ih =>
    cases tl with
    | nil => simp [keepGo]
    | cons r' rest' =>
      unfold keepGo
      split
      · exact ih (by simp) rhoOld
      · simp

theorem keepGo_sublist (ρ : ℝ → ℝ → ℝ → ℝ) (rest : List (List ℝ)) (rhoOld : ℝ) :
    (keepGo ρ rhoOld rest).Sublist rest := by
  induction rest generalizing rhoOld with
  | nil => simp [keepGo]
  | cons r tl ih =>
    cases tl with
    | nil => simp [keepGo]
    | cons r' rest' =>
      unfold keepGo
      split
      · exact (ih rhoOld).cons r
      · exact (ih (sigma ρ r)).cons_cons r

theorem keepGo_last (ρ : ℝ → ℝ → ℝ → ℝ) (mid : List (List ℝ)) (last : List ℝ) (rhoOld : ℝ) :
    ∃ mid', keepGo ρ rhoOld (mid ++ [last]) = mid' ++ [last] := by
  induction mid generalizing rhoOld with
  | nil => exact ⟨[], by simp [keepGo]⟩
  | cons r tl ih =>
    have hcons : ∃ r' rest', tl ++ [last] = r' :: rest' := by
      cases tl with
      | nil => exact ⟨last, [], rfl⟩
      | cons a as => exact ⟨a, as ++ [last], rfl⟩
    obtain ⟨r', rest', hr⟩ := hcons
    simp only [List.cons_append, hr]
    unfold keepGo
    split
    · obtain ⟨m, hm⟩ := ih rhoOld
      rw [hr] at hm
      exact ⟨m, hm⟩
    · obtain ⟨m, hm⟩ := ih (sigma ρ r)
      rw [hr] at hm
      exact ⟨r :: m, by simp [hm]⟩

/-- all kept rows except the last are at least as dense as the running maximum and are in
    non-decreasing order of potential density -/
theorem keepGo_sorted (ρ : ℝ → ℝ → ℝ → ℝ) (rest : List (List ℝ)) (rhoOld : ℝ) :
    ((keepGo ρ rhoOld rest).dropLast.map (sigma ρ)).Pairwise (· ≤ ·) ∧
    ∀ x ∈ (keepGo ρ rhoOld rest).dropLast, rhoOld ≤ sigma ρ x := by
  induction rest generalizing rhoOld with
  | nil => simp [keepGo]
  | cons r tl ih =>
    cases tl with
    | nil => simp [keepGo]
    | cons r' rest' =>
      unfold keepGo
      split
      · exact ih rhoOld
      · rename_i hlt
        have hge : rhoOld ≤ sigma ρ r := not_lt.mp hlt
        have hne := keepGo_ne_nil ρ (r' :: rest') (by simp) (sigma ρ r)
        obtain ⟨ih1, ih2⟩ := ih (sigma ρ r)
        rw [List.dropLast_cons_of_ne_nil hne]
        constructor
        · simp only [List.map_cons, List.pairwise_cons]
          refine ⟨?_, ih1⟩
          intro y hy
          obtain ⟨x, hx, rfl⟩ := List.mem_map.mp hy
          exact ih2 x hx
        · intro x hx
          simp only [List.mem_cons] at hx
          rcases hx with rfl | hx
          · exact hge
          · exact le_trans hge (ih2 x hx)

theorem selectRows_map_congr (f : List ℝ → List ℝ) (rows : List (List ℝ)) (mask : List Bool)
    (h : ∀ r ∈ selectRows rows mask, f r = r) :
    selectRows (rows.map f) mask = selectRows rows mask := by
  induction rows generalizing mask with
  | nil => simp [selectRows]
  | cons r tl ih =>
    cases mask with
    | nil => simp [selectRows]
    | cons m ms =>
      rw [List.map_cons, selectRows_cons, selectRows_cons]
      rw [selectRows_cons] at h
      cases m with
      | false =>
        simp only [Bool.false_eq_true, if_false, List.nil_append] at h ⊢
        exact ih ms h
      | true =>
        simp only [if_true, List.singleton_append] at h ⊢
        rw [h r (by simp), ih ms (fun x hx => h x (by simp [hx]))]

/-! ### compute_pressure -/

theorem getD_set (l : List ℝ) (i j : Nat) (a d : ℝ) :
    (l.set i a).getD j d = if i = j ∧ i < l.length then a else l.getD j d := by
  simp only [List.getD_eq_getElem?_getD, List.getElem?_set]
  by_cases h : i = j
  · subst h
    by_cases h2 : i < l.length
    · simp [h2]
    · simp [h2]
  · simp [h]

theorem pyIdx_nat (n k : Nat) (h : k < n) : pyIdx n (k : Int) = some k := by
  unfold pyIdx
  simp [h]

/-- forward recurrence: positive depths, free surface first -/
theorem cp_forward (ρ : ℝ → ℝ → ℝ → ℝ) (z T S : List ℝ) (n : Nat) (k : Nat) (hk : k + 1 ≤ n)
    (P : List ℝ) (hP : P.length = n) :
    ∃ P', (List.range' 1 k).foldl (cpStep ρ z T S 1) (some P) = some P' ∧ P'.length = n ∧
      P'.getD 0 0 = P.getD 0 0 ∧
      ∀ i < k, P'.getD (i + 1) 0 = P'.getD i 0
        + ρ (T.getD i 0) (S.getD i 0) (P'.getD i 0) * 9.81 * (z.getD (i + 1) 0 - z.getD i 0) := by
  induction k with
  | zero => exact ⟨P, by simp, hP, rfl, by intro i hi; omega⟩
  | succ k ih =>
    obtain ⟨Pk, h1, h2, h3, h4⟩ := ih (by omega)
    have hidx : pyIdx Pk.length (((1 + 1 * k : Nat) : Int) - 1) = some k := by
      have : (((1 + 1 * k : Nat) : Int) - 1) = (k : Int) := by push_cast; ring
      rw [this]
      exact pyIdx_nat _ _ (by omega)
    refine ⟨Pk.set (k + 1) (Pk.getD k 0 + ρ (T.getD k 0) (S.getD k 0) (Pk.getD k 0) * 9.81
      * (z.getD (k + 1) 0 - z.getD k 0)), ?_, by simp [h2], ?_, ?_⟩
    · rw [List.range'_concat, List.foldl_append, h1]
      simp only [List.foldl_cons, List.foldl_nil, cpStep, hidx]
      have e : (1 + 1 * k) = k + 1 := by ring
      simp only [e, ofSgn, Num.real_ofSci, Num.real_zero, Num.real_one, if_true, mul_one]
    · rw [getD_set, if_neg (by omega), h3]
    · intro i hi
      rw [getD_set, getD_set]
      by_cases hik : i = k
      · subst hik
        simp [h2]
        omega
      · have hlt : i < k := by omega
        have h1' : ¬ (k + 1 = i + 1 ∧ k + 1 < Pk.length) := by omega
        have h2' : ¬ (k + 1 = i ∧ k + 1 < Pk.length) := by omega
        simp only [h1', h2', if_false]
        exact h4 i hlt

/-- backward recurrence: negative depths, free surface last -/
theorem cp_backward (ρ : ℝ → ℝ → ℝ → ℝ) (z T S : List ℝ) (n : Nat) (m : Nat) (hm : m + 1 ≤ n)
    (P : List ℝ) (hP : P.length = n) :
    ∃ P', (List.range m).reverse.foldl (cpStep ρ z T S (-1)) (some P) = some P' ∧ P'.length = n ∧
      (∀ j, m ≤ j → P'.getD j 0 = P.getD j 0) ∧
      ∀ i < m, P'.getD i 0 = P'.getD (i + 1) 0
        + ρ (T.getD (i + 1) 0) (S.getD (i + 1) 0) (P'.getD (i + 1) 0) * 9.81
          * (z.getD (i + 1) 0 - z.getD i 0) := by
  induction m generalizing P with
  | zero => exact ⟨P, by simp, hP, fun j _ => rfl, by intro i hi; omega⟩
  | succ m ih =>
    have hidx : pyIdx P.length (((m : Nat) : Int) - (-1)) = some (m + 1) := by
      have : (((m : Nat) : Int) - (-1)) = ((m + 1 : Nat) : Int) := by push_cast; ring
      rw [this]
      exact pyIdx_nat _ _ (by omega)
    set P1 := P.set m (P.getD (m + 1) 0 + ρ (T.getD (m + 1) 0) (S.getD (m + 1) 0) (P.getD (m + 1) 0) * 9.81
      * (z.getD m 0 - z.getD (m + 1) 0) * (-1)) with hP1
    obtain ⟨P', h1, h2, h3, h4⟩ := ih (by omega) P1 (by simp [hP1, hP])
    refine ⟨P', ?_, h2, ?_, ?_⟩
    · rw [List.range_succ, List.reverse_append]
      simp only [List.reverse_cons, List.reverse_nil, List.nil_append, List.singleton_append,
        List.foldl_cons, cpStep, hidx]
      have e : (ofSgn (-1) : ℝ) = -1 := by
        unfold ofSgn
        simp only [Num.real_one, Num.real_zero]
        norm_num
      simp only [e, Num.real_ofSci, Num.real_zero]
      rw [← hP1]
      exact h1
    · intro j hj
      rw [h3 j (by omega), hP1, getD_set]
      have : ¬ (m = j ∧ m < P.length) := by omega
      simp [this]
    · intro i hi
      by_cases him : i = m
      · subst him
        rw [h3 i le_rfl, h3 (i + 1) (by omega), hP1, getD_set, getD_set]
        have h1' : (i = i ∧ i < P.length) := ⟨rfl, by omega⟩
        have h2' : ¬ (i = i + 1 ∧ i < P.length) := by omega
        rw [if_pos h1', if_neg h2']
        ring
      · exact h4 i (by omega)

theorem sgnOf_pos (x : ℝ) (h : 0 < x) : sgnOf x = 1 := by
  unfold sgnOf
  simp [Num.real_zero, h]

theorem sgnOf_neg (x : ℝ) (h : x < 0) : sgnOf x = -1 := by
  unfold sgnOf
  have : ¬ (0 : ℝ) < x := not_lt.mpr (le_of_lt h)
  simp [Num.real_zero, h, this]

end TamocV.Lemmas.C14
