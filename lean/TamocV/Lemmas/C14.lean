/-
  Helper lemmas for C14: row thinning (coarsen), stabilisation, hydrostatic pressure.
-/
import TamocV.Real
import TamocV.Lemmas.Basic
import TamocV.Lemmas.C07
import TamocV.Model.Profile
import Mathlib.Tactic.Ring
import Mathlib.Tactic.Linarith
import Mathlib.Tactic.NormNum
import Mathlib.Tactic.FieldSimp
import Mathlib.Tactic.Positivity

namespace TamocV.Lemmas.C14
open TamocV TamocV.Model.Profile TamocV.Lemmas.C07

/-! ### coarsen -/

/-- row `r` is within relative error `err` of the baseline row `b` in every dependent variable;
    entries of `r` that are exactly zero are exempt — the code's rule (l.2498-2501) -/
def Within (err : ℝ) (b r : List ℝ) : Prop :=
  ∀ p ∈ List.zip (vals r) (vals b), p.1 = 0 ∨ |(p.1 - p.2) / p.1| ≤ err

theorem exceeds_aux (err : ℝ) (a b : List ℝ) :
    (List.zipWith (fun x bk => if x ≤ (0 : ℝ) ∧ (0 : ℝ) ≤ x then false
        else decide (err < |(x - bk) / x|)) a b).any id = false
      ↔ ∀ p ∈ List.zip a b, p.1 = 0 ∨ |(p.1 - p.2) / p.1| ≤ err := by
  induction a generalizing b with
  | nil => simp
  | cons x xs ih =>
    cases b with
    | nil => simp
    | cons y ys =>
      simp only [List.zipWith_cons_cons, List.any_cons, Bool.or_eq_false_iff, List.zip_cons_cons,
        List.mem_cons, forall_eq_or_imp, ih ys]
      apply and_congr_left'
      by_cases hx : x = 0
      · simp [hx]
      · have : ¬ (x ≤ 0 ∧ 0 ≤ x) := fun h => hx (le_antisymm h.1 h.2)
        simp [this, hx]

theorem exceeds_eq_false_iff (err : ℝ) (b r : List ℝ) : exceeds err b r = false ↔ Within err b r := by
  unfold exceeds Within
  simp only [Num.real_zero, Num.real_abs]
  exact exceeds_aux err (vals r) (vals b)

/-- the rows of a list of (kept row, run of dropped rows after it) -/
def unseg (segs : List (List ℝ × List (List ℝ))) : List (List ℝ) :=
  segs.flatMap (fun s => s.1 :: s.2)

theorem coarsenGo_segments (err : ℝ) (rest : List (List ℝ)) (hne : rest ≠ []) (b : List ℝ) :
    ∃ (d0 : List (List ℝ)) (segs : List (List ℝ × List (List ℝ))),
      rest = d0 ++ unseg segs ∧ coarsenGo err b rest = segs.map (·.1) ∧
      (∀ r ∈ d0, Within err b r) ∧ (∀ s ∈ segs, ∀ r ∈ s.2, Within err s.1 r) := by
  induction rest generalizing b with
  | nil => exact absurd rfl hne
  | cons r tl ih =>
    cases tl with
    | nil => exact ⟨[], [(r, [])], by simp [unseg], by simp [coarsenGo], by simp, by simp⟩
    | cons r' rest' =>
      by_cases hex : exceeds err b r = true
      · obtain ⟨d0, segs, h1, h2, h3, h4⟩ := ih (by simp) r
        refine ⟨[], (r, d0) :: segs, ?_, ?_, by simp, ?_⟩
        · simp only [unseg, List.flatMap_cons, List.nil_append, List.cons_append, List.cons.injEq, true_and]
          exact h1
        · simp only [coarsenGo, hex, if_true, List.map_cons, h2]
        · intro s hs
          simp only [List.mem_cons] at hs
          rcases hs with rfl | hs
          · exact h3
          · exact h4 s hs
      · have hf : exceeds err b r = false := by simpa using hex
        obtain ⟨d0, segs, h1, h2, h3, h4⟩ := ih (by simp) b
        refine ⟨r :: d0, segs, ?_, ?_, ?_, h4⟩
        · simp only [List.cons_append, List.cons.injEq, true_and]; exact h1
        · simp only [coarsenGo, hf, Bool.false_eq_true, if_false, h2]
        · intro x hx
          simp only [List.mem_cons] at hx
          rcases hx with rfl | hx
          · exact (exceeds_eq_false_iff err b x).mp hf
          · exact h3 x hx

theorem coarsenGo_sublist (err : ℝ) (rest : List (List ℝ)) (b : List ℝ) :
    (coarsenGo err b rest).Sublist rest := by
  induction rest generalizing b with
  | nil => simp [coarsenGo]
  | cons r tl ih =>
    cases tl with
    | nil => simp [coarsenGo]
    | cons r' rest' =>
      unfold coarsenGo
      split
      · exact (ih r).cons_cons r
      · exact (ih b).cons r

theorem coarsenGo_last (err : ℝ) (mid : List (List ℝ)) (last b : List ℝ) :
    ∃ mid', coarsenGo err b (mid ++ [last]) = mid' ++ [last] := by
  induction mid generalizing b with
  | nil => exact ⟨[], by simp [coarsenGo]⟩
  | cons r tl ih =>
    have hcons : ∃ r' rest', tl ++ [last] = r' :: rest' := by
      cases tl with
      | nil => exact ⟨last, [], rfl⟩
      | cons a as => exact ⟨a, as ++ [last], rfl⟩
    obtain ⟨r', rest', hr⟩ := hcons
    simp only [List.cons_append, hr]
    unfold coarsenGo
    split
    · obtain ⟨m, hm⟩ := ih r
      rw [hr] at hm
      exact ⟨r :: m, by simp [hm]⟩
    · obtain ⟨m, hm⟩ := ih b
      rw [hr] at hm
      exact ⟨m, hm⟩

/-! ### stabilize -/

/-- the kept rows after the first, when no depth is negative (the in-domain case of the code) -/
noncomputable def keepGo (ρ : ℝ → ℝ → ℝ → ℝ) : ℝ → List (List ℝ) → List (List ℝ)
  | _, [] => []
  | _, [last] => [last]
  | rhoOld, r :: r' :: rest =>
    if sigma ρ r < rhoOld then keepGo ρ rhoOld (r' :: rest) else r :: keepGo ρ (sigma ρ r) (r' :: rest)

theorem selectRows_cons (r : List ℝ) (rows : List (List ℝ)) (m : Bool) (mask : List Bool) :
    selectRows (r :: rows) (m :: mask) = (if m then [r] else []) ++ selectRows rows mask := by
  simp [selectRows]

theorem selectRows_nil (mask : List Bool) : selectRows ([] : List (List ℝ)) mask = [] := by
  simp [selectRows]

theorem select_stabMaskGo (ρ : ℝ → ℝ → ℝ → ℝ) (rest : List (List ℝ)) (hz : ∀ r ∈ rest, 0 ≤ depth r)
    (rhoOld : ℝ) : selectRows rest (stabMaskGo ρ rhoOld rest) = keepGo ρ rhoOld rest := by
  induction rest generalizing rhoOld with
  | nil => simp [stabMaskGo, keepGo, selectRows]
  | cons r tl ih =>
    cases tl with
    | nil =>
      have : (0 : ℝ) ≤ depth r := hz r (by simp)
      simp [stabMaskGo, keepGo, selectRows, Num.real_zero, this]
    | cons r' rest' =>
      have hr : (0 : ℝ) ≤ depth r := hz r (by simp)
      have htl : ∀ x ∈ r' :: rest', 0 ≤ depth x := fun x hx => hz x (by simp [hx])
      unfold stabMaskGo keepGo
      by_cases h : sigma ρ r < rhoOld
      · simp only [h, if_true, selectRows_cons, Bool.false_eq_true, if_false, List.nil_append]
        exact ih htl rhoOld
      · simp only [h, if_false, selectRows_cons, Num.real_zero, hr, decide_true, if_true,
          List.singleton_append, List.cons.injEq, true_and]
        exact ih htl (sigma ρ r)

/-- with no negative depth the mask selects the first row and `keepGo` of the rest -/
theorem stab_kept (ρ : ℝ → ℝ → ℝ → ℝ) (first : List ℝ) (rest : List (List ℝ))
    (hz : ∀ r ∈ first :: rest, 0 ≤ depth r) :
    selectRows (first :: rest) (stabMask ρ (first :: rest)) = first :: keepGo ρ (sigma ρ first) rest := by
  have h0 : (0 : ℝ) ≤ depth first := hz first (by simp)
  unfold stabMask
  rw [selectRows_cons, select_stabMaskGo ρ rest (fun r hr => hz r (by simp [hr]))]
  simp [Num.real_zero, h0]

theorem keepGo_ne_nil (ρ : ℝ → ℝ → ℝ → ℝ) (rest : List (List ℝ)) (hne : rest ≠ []) (rhoOld : ℝ) :
    keepGo ρ rhoOld rest ≠ [] := by
  induction rest generalizing rhoOld with
  | nil => exact absurd rfl hne
  | cons r tl ih =>
    cases tl with
    | nil => simp [keepGo]
    | cons r' rest' =>
      unfold keepGo
      split
      · exact ih (by simp) rhoOld
      · simp

theorem keepGo_sublist (ρ : ℝ → ℝ → ℝ → ℝ) (rest : List (List ℝ)) (rhoOld : ℝ) :
    (keepGo ρ rhoOld rest).Sublist rest := by
  induction rest generalizing rhoOld with
  | nil => simp [keepGo]
  | cons r tl ih =>
    cases tl with
    | nil => simp [keepGo]
    | cons r' rest' =>
      unfold keepGo
      split
      · exact (ih rhoOld).cons r
      · exact (ih (sigma ρ r)).cons_cons r

theorem keepGo_last (ρ : ℝ → ℝ → ℝ → ℝ) (mid : List (List ℝ)) (last : List ℝ) (rhoOld : ℝ) :
    ∃ mid', keepGo ρ rhoOld (mid ++ [last]) = mid' ++ [last] := by
  induction mid generalizing rhoOld with
  | nil => exact ⟨[], by simp [keepGo]⟩
  | cons r tl ih =>
    have hcons : ∃ r' rest', tl ++ [last] = r' :: rest' := by
      cases tl with
      | nil => exact ⟨last, [], rfl⟩
      | cons a as => exact ⟨a, as ++ [last], rfl⟩
    obtain ⟨r', rest', hr⟩ := hcons
    simp only [List.cons_append, hr]
    unfold keepGo
    split
    · obtain ⟨m, hm⟩ := ih rhoOld
      rw [hr] at hm
      exact ⟨m, hm⟩
    · obtain ⟨m, hm⟩ := ih (sigma ρ r)
      rw [hr] at hm
      exact ⟨r :: m, by simp [hm]⟩

/-- all kept rows except the last are at least as dense as the running maximum and are in
    non-decreasing order of potential density -/
theorem keepGo_sorted (ρ : ℝ → ℝ → ℝ → ℝ) (rest : List (List ℝ)) (rhoOld : ℝ) :
    ((keepGo ρ rhoOld rest).dropLast.map (sigma ρ)).Pairwise (· ≤ ·) ∧
    ∀ x ∈ (keepGo ρ rhoOld rest).dropLast, rhoOld ≤ sigma ρ x := by
  induction rest generalizing rhoOld with
  | nil => simp [keepGo]
  | cons r tl ih =>
    cases tl with
    | nil => simp [keepGo]
    | cons r' rest' =>
      unfold keepGo
      split
      · exact ih rhoOld
      · rename_i hlt
        have hge : rhoOld ≤ sigma ρ r := not_lt.mp hlt
        have hne := keepGo_ne_nil ρ (r' :: rest') (by simp) (sigma ρ r)
        obtain ⟨ih1, ih2⟩ := ih (sigma ρ r)
        rw [List.dropLast_cons_of_ne_nil hne]
        constructor
        · simp only [List.map_cons, List.pairwise_cons]
          refine ⟨?_, ih1⟩
          intro y hy
          obtain ⟨x, hx, rfl⟩ := List.mem_map.mp hy
          exact ih2 x hx
        · intro x hx
          simp only [List.mem_cons] at hx
          rcases hx with rfl | hx
          · exact hge
          · exact le_trans hge (ih2 x hx)

theorem selectRows_map_congr (f : List ℝ → List ℝ) (rows : List (List ℝ)) (mask : List Bool)
    (h : ∀ r ∈ selectRows rows mask, f r = r) :
    selectRows (rows.map f) mask = selectRows rows mask := by
  induction rows generalizing mask with
  | nil => simp [selectRows]
  | cons r tl ih =>
    cases mask with
    | nil => simp [selectRows]
    | cons m ms =>
      rw [List.map_cons, selectRows_cons, selectRows_cons]
      rw [selectRows_cons] at h
      cases m with
      | false =>
        simp only [Bool.false_eq_true, if_false, List.nil_append] at h ⊢
        exact ih ms h
      | true =>
        simp only [if_true, List.singleton_append] at h ⊢
        rw [h r (by simp), ih ms (fun x hx => h x (by simp [hx]))]

/-! ### compute_pressure -/

theorem getD_set (l : List ℝ) (i j : Nat) (a d : ℝ) :
    (l.set i a).getD j d = if i = j ∧ i < l.length then a else l.getD j d := by
  simp only [List.getD_eq_getElem?_getD, List.getElem?_set]
  by_cases h : i = j
  · subst h
    by_cases h2 : i < l.length
    · simp [h2]
    · simp [h2]
  · simp [h]

theorem pyIdx_nat (n k : Nat) (h : k < n) : pyIdx n (k : Int) = some k := by
  unfold pyIdx
  simp [h]

/-- forward recurrence: positive depths, free surface first -/
theorem cp_forward (ρ : ℝ → ℝ → ℝ → ℝ) (z T S : List ℝ) (n : Nat) (k : Nat) (hk : k + 1 ≤ n)
    (P : List ℝ) (hP : P.length = n) :
    ∃ P', (List.range' 1 k).foldl (cpStep ρ z T S 1) (some P) = some P' ∧ P'.length = n ∧
      P'.getD 0 0 = P.getD 0 0 ∧
      ∀ i < k, P'.getD (i + 1) 0 = P'.getD i 0
        + ρ (T.getD i 0) (S.getD i 0) (P'.getD i 0) * 9.81 * (z.getD (i + 1) 0 - z.getD i 0) := by
  induction k with
  | zero => exact ⟨P, by simp, hP, rfl, by intro i hi; omega⟩
  | succ k ih =>
    obtain ⟨Pk, h1, h2, h3, h4⟩ := ih (by omega)
    have hidx : pyIdx Pk.length (((1 + 1 * k : Nat) : Int) - 1) = some k := by
      have : (((1 + 1 * k : Nat) : Int) - 1) = (k : Int) := by push_cast; ring
      rw [this]
      exact pyIdx_nat _ _ (by omega)
    refine ⟨Pk.set (k + 1) (Pk.getD k 0 + ρ (T.getD k 0) (S.getD k 0) (Pk.getD k 0) * 9.81
      * (z.getD (k + 1) 0 - z.getD k 0)), ?_, by simp [h2], ?_, ?_⟩
    · rw [List.range'_concat, List.foldl_append, h1]
      simp only [List.foldl_cons, List.foldl_nil, cpStep, hidx]
      have e : (1 + 1 * k) = k + 1 := by ring
      simp only [e, ofSgn, Num.real_ofSci, Num.real_zero, Num.real_one, if_true, mul_one]
    · rw [getD_set, if_neg (by omega), h3]
    · intro i hi
      rw [getD_set, getD_set]
      by_cases hik : i = k
      · subst hik
        simp [h2]
        omega
      · have hlt : i < k := by omega
        have h1' : ¬ (k + 1 = i + 1 ∧ k + 1 < Pk.length) := by omega
        have h2' : ¬ (k + 1 = i ∧ k + 1 < Pk.length) := by omega
        simp only [h1', h2', if_false]
        exact h4 i hlt

/-- backward recurrence: negative depths, free surface last -/
theorem cp_backward (ρ : ℝ → ℝ → ℝ → ℝ) (z T S : List ℝ) (n : Nat) (m : Nat) (hm : m + 1 ≤ n)
    (P : List ℝ) (hP : P.length = n) :
    ∃ P', (List.range m).reverse.foldl (cpStep ρ z T S (-1)) (some P) = some P' ∧ P'.length = n ∧
      (∀ j, m ≤ j → P'.getD j 0 = P.getD j 0) ∧
      ∀ i < m, P'.getD i 0 = P'.getD (i + 1) 0
        + ρ (T.getD (i + 1) 0) (S.getD (i + 1) 0) (P'.getD (i + 1) 0) * 9.81
          * (z.getD (i + 1) 0 - z.getD i 0) := by
  induction m generalizing P with
  | zero => exact ⟨P, by simp, hP, fun j _ => rfl, by intro i hi; omega⟩
  | succ m ih =>
    have hidx : pyIdx P.length (((m : Nat) : Int) - (-1)) = some (m + 1) := by
      have : (((m : Nat) : Int) - (-1)) = ((m + 1 : Nat) : Int) := by push_cast; ring
      rw [this]
      exact pyIdx_nat _ _ (by omega)
    set P1 := P.set m (P.getD (m + 1) 0 + ρ (T.getD (m + 1) 0) (S.getD (m + 1) 0) (P.getD (m + 1) 0) * 9.81
      * (z.getD m 0 - z.getD (m + 1) 0) * (-1)) with hP1
    obtain ⟨P', h1, h2, h3, h4⟩ := ih (by omega) P1 (by simp [hP1, hP])
    refine ⟨P', ?_, h2, ?_, ?_⟩
    · rw [List.range_succ, List.reverse_append]
      simp only [List.reverse_cons, List.reverse_nil, List.nil_append, List.singleton_append,
        List.foldl_cons, cpStep, hidx]
      have e : (ofSgn (-1) : ℝ) = -1 := by
        unfold ofSgn
        simp only [Num.real_one, Num.real_zero]
        norm_num
      simp only [e, Num.real_ofSci, Num.real_zero]
      rw [← hP1]
      exact h1
    · intro j hj
      rw [h3 j (by omega), hP1, getD_set]
      have : ¬ (m = j ∧ m < P.length) := by omega
      simp [this]
    · intro i hi
      by_cases him : i = m
      · subst him
        rw [h3 i le_rfl, h3 (i + 1) (by omega), hP1, getD_set, getD_set]
        have h1' : (i = i ∧ i < P.length) := ⟨rfl, by omega⟩
        have h2' : ¬ (i = i + 1 ∧ i < P.length) := by omega
        rw [if_pos h1', if_neg h2']
        ring
      · exact h4 i (by omega)

theorem sgnOf_pos (x : ℝ) (h : 0 < x) : sgnOf x = 1 := by
  unfold sgnOf
  simp [Num.real_zero, h]

theorem sgnOf_neg (x : ℝ) (h : x < 0) : sgnOf x = -1 := by
  unfold sgnOf
  have : ¬ (0 : ℝ) < x := not_lt.mpr (le_of_lt h)
  simp [Num.real_zero, h, this]

theorem computePressure_forward_length (ρ : ℝ → ℝ → ℝ → ℝ) (z T S : List ℝ) (hn : 1 ≤ z.length)
    (hpos : 0 < z.getD (z.length / 2) 0) :
    ∃ P, computePressure ρ z T S false = some P ∧ P.length = z.length := by
  unfold computePressure
  simp only [Num.real_zero, Bool.false_eq_true, if_false]
  rw [sgnOf_pos _ hpos]
  obtain ⟨P', h1, h2, _, _⟩ := cp_forward ρ z T S z.length (z.length - 1) (by omega)
    ((List.replicate z.length (0 : ℝ)).set 0
      (101325 + ρ (T.getD 0 0) (S.getD 0 0) 101325 * 9.81 * 1 * z.getD 0 0)) (by simp)
  refine ⟨P', ?_, h2⟩
  have e : (ofSgn 1 : ℝ) = 1 := by unfold ofSgn; simp [Num.real_one]
  simp only [e, Num.real_ofSci]
  norm_num at h1 ⊢
  exact h1

/-! ### the invariant of a profile under the mutating operations (C07) -/

/-- the data a profile holds are a well-formed interpolation table and its bookkeeping agrees with
    them: fresh cache, uniform width matching the names, strictly increasing depths, at least two
    rows, z_min / z_max = first / last stored depth -/
structure Inv (p : Profile ℝ) : Prop where
  fresh : Fresh p
  width : ∃ k, Width k p.rows ∧ p.names.length = k
  inc : StrictInc p.rows
  two : 2 ≤ p.rows.length
  zmin : p.zmin = (p.rows.map depth).headD 0
  zmax : p.zmax = (p.rows.map depth).getLastD 0

/-- `q` holds a table with the same depths and the same z-range as `p`, of uniform width -/
structure SameGrid (p q : Profile ℝ) : Prop where
  depths : q.rows.map depth = p.rows.map depth
  zmin : q.zmin = p.zmin
  zmax : q.zmax = p.zmax
  width : ∃ k, Width k q.rows ∧ q.names.length = k

theorem strictInc_iff (rows : List (List ℝ)) : StrictInc rows ↔ (rows.map depth).Pairwise (· < ·) := by
  unfold StrictInc; rw [List.pairwise_map]

theorem SameGrid.refl (p : Profile ℝ) (h : ∃ k, Width k p.rows ∧ p.names.length = k) : SameGrid p p :=
  ⟨rfl, rfl, rfl, h⟩

theorem SameGrid.trans {p q r : Profile ℝ} (h1 : SameGrid p q) (h2 : SameGrid q r) : SameGrid p r :=
  ⟨h2.depths.trans h1.depths, h2.zmin.trans h1.zmin, h2.zmax.trans h1.zmax, h2.width⟩

theorem inv_of_sameGrid {p q : Profile ℝ} (hp : Inv p) (h : SameGrid p q) (hf : Fresh q) : Inv q := by
  have hlen : q.rows.length = p.rows.length := by
    have := congrArg List.length h.depths
    simpa using this
  refine ⟨hf, h.width, ?_, by rw [hlen]; exact hp.two, ?_, ?_⟩
  · rw [strictInc_iff, h.depths, ← strictInc_iff]; exact hp.inc
  · rw [h.zmin, h.depths]; exact hp.zmin
  · rw [h.zmax, h.depths]; exact hp.zmax

theorem depth_set_succ (r : List ℝ) (i : Nat) (v : ℝ) : depth (r.set (i + 1) v) = depth r := by
  cases r <;> simp [depth]

theorem depth_append_of_ne_nil (r : List ℝ) (v : ℝ) (h : r ≠ []) : depth (r ++ [v]) = depth r := by
  cases r with
  | nil => exact absurd rfl h
  | cons a t => simp [depth]

theorem zipWith_map_eq (f : List ℝ → ℝ → List ℝ) (g : List ℝ → ℝ) (rows : List (List ℝ)) (col : List ℝ)
    (hlen : col.length = rows.length) (hg : ∀ r ∈ rows, ∀ v, g (f r v) = g r) :
    (List.zipWith f rows col).map g = rows.map g := by
  induction rows generalizing col with
  | nil => simp
  | cons r tl ih =>
    cases col with
    | nil => simp at hlen
    | cons v vs =>
      simp only [List.zipWith_cons_cons, List.map_cons, List.length_cons, Nat.add_right_cancel_iff] at hlen ⊢
      rw [hg r (by simp) v, ih vs hlen (fun x hx w => hg x (by simp [hx]) w)]

theorem zipWith_forall (f : List ℝ → ℝ → List ℝ) (Q : List ℝ → Prop) (rows : List (List ℝ)) (col : List ℝ)
    (h : ∀ r ∈ rows, ∀ v, Q (f r v)) : ∀ x ∈ List.zipWith f rows col, Q x := by
  induction rows generalizing col with
  | nil => simp
  | cons r tl ih =>
    cases col with
    | nil => simp
    | cons v vs =>
      intro x hx
      simp only [List.zipWith_cons_cons, List.mem_cons] at hx
      rcases hx with rfl | hx
      · exact h r (by simp) v
      · exact ih vs (fun y hy w => h y (by simp [hy]) w) x hx

/-- `interp_ds[name] = column` keeps the grid -/
theorem setCol_sameGrid (p : Profile ℝ) (name : String) (col : List ℝ) (k : Nat) (hw : Width k p.rows)
    (hn : p.names.length = k) (hlen : col.length = p.rows.length) : SameGrid p (p.setCol name col) := by
  unfold Profile.setCol
  split
  · refine ⟨?_, rfl, rfl, k, ?_, hn⟩
    · exact zipWith_map_eq _ depth _ _ hlen (fun r _ v => depth_set_succ r _ v)
    · exact zipWith_forall _ (fun x => x.length = k + 1) _ _ (fun r hr v => by simp [hw r hr])
  · refine ⟨?_, rfl, rfl, k + 1, ?_, by simp [hn]⟩
    · apply zipWith_map_eq _ depth _ _ hlen
      intro r hr v
      apply depth_append_of_ne_nil
      intro h0
      have := hw r hr
      simp [h0] at this
    · exact zipWith_forall _ (fun x => x.length = k + 1 + 1) _ _ (fun r hr v => by simp [hw r hr])

/-- unit conversion of one column keeps the grid -/
theorem mapCol_sameGrid (p : Profile ℝ) (name : String) (f : ℝ → ℝ) (k : Nat) (hw : Width k p.rows)
    (hn : p.names.length = k) : SameGrid p (p.mapCol name f) := by
  unfold Profile.mapCol
  split
  · refine ⟨?_, rfl, rfl, k, ?_, hn⟩
    · simp only [List.map_map]
      apply List.map_congr_left
      intro r _
      exact depth_set_succ r _ _
    · intro x hx
      obtain ⟨r, hr, rfl⟩ := List.mem_map.mp hx
      simp [hw r hr]
  · exact SameGrid.refl p ⟨k, hw, hn⟩

theorem sameGrid_length {p q : Profile ℝ} (h : SameGrid p q) : q.rows.length = p.rows.length := by
  have := congrArg List.length h.depths
  simpa using this

theorem rebuild_sameGrid (p q : Profile ℝ) (h : SameGrid p q) : SameGrid p q.rebuild :=
  ⟨h.depths, h.zmin, h.zmax, h.width⟩

theorem foldl_sameGrid {β : Type} (p : Profile ℝ) (F : Profile ℝ → β → Profile ℝ)
    (hF : ∀ q b, SameGrid p q → SameGrid p (F q b)) (l : List β) (q0 : Profile ℝ) (h0 : SameGrid p q0) :
    SameGrid p (l.foldl F q0) := by
  induction l generalizing q0 with
  | nil => exact h0
  | cons b bs ih => exact ih _ (hF q0 b h0)

/-- the operations that only add / replace / convert columns keep the grid -/
theorem step_sameGrid (ρ : ℝ → ℝ → ℝ → ℝ) (zt : Ztsp) (p : Profile ℝ) (hp : Inv p) (op : Op ℝ)
    (hop : ∀ znew S1, op ≠ .extendDeeper znew S1) : SameGrid p (step ρ zt p op) := by
  have hself : SameGrid p p := SameGrid.refl p hp.width
  have hset : ∀ (q : Profile ℝ) (name : String) (col : List ℝ), SameGrid p q → col.length = p.rows.length →
      SameGrid p (q.setCol name col) := by
    intro q name col hq hlen
    obtain ⟨k, hw, hn⟩ := hq.width
    exact hq.trans (setCol_sameGrid q name col k hw hn (by rw [hlen, sameGrid_length hq]))
  cases op with
  | append data zcol vars =>
    unfold step
    simp only []
    apply rebuild_sameGrid
    apply foldl_sameGrid
    · intro q v hq
      split
      · exact hq
      · obtain ⟨k, hw, hn⟩ := hq.width
        exact hq.trans (mapCol_sameGrid q _ _ k hw hn)
    · apply foldl_sameGrid
      · intro q v hq
        split
        · exact hq
        · exact hset q _ _ hq (by simp)
      · exact hself
  | extendDeeper znew S1 => exact absurd rfl (hop znew S1)
  | insertDensity P0 =>
    cases P0 with
    | none =>
      unfold step
      exact rebuild_sameGrid _ _ (hset p _ _ hself (by simp [densityColumn]))
    | some q =>
      by_cases hq : q ≤ 0 ∧ 0 ≤ q
      · have e : step ρ zt p (Op.insertDensity (some q))
            = ((p.setCol "density" (densityColumn ρ p none))).rebuild := by
          simp only [step, Num.real_zero, hq, and_self, if_true]
        rw [e]
        exact rebuild_sameGrid _ _ (hset p _ _ hself (by simp [densityColumn]))
      · have e : step ρ zt p (Op.insertDensity (some q)) = p := by
          simp only [step, Num.real_zero, hq, if_false]
        rw [e]; exact hself
  | insertPotentialDensity =>
    unfold step
    exact rebuild_sameGrid _ _ (hset p _ _ hself (by simp [densityColumn]))
  | insertBuoyancyFrequency =>
    unfold step
    exact rebuild_sameGrid _ _ (hset p _ _ hself (by simp))

/-! #### extend_profile_deeper -/

theorem linspace_eq (a b : ℝ) (m : Nat) :
    linspace a b (m + 2) = (List.range (m + 2)).map (fun k : ℕ => (k : ℝ) * ((b - a) / ((m : ℝ) + 1)) + a) := by
  unfold linspace
  simp only []
  apply List.map_congr_left
  intro k _
  have hc : (Num.ofNat (m + 2 - 1) : ℝ) = (m : ℝ) + 1 := by
    show (((m + 2 - 1 : ℕ)) : ℝ) = _
    have : m + 2 - 1 = m + 1 := by omega
    rw [this]; push_cast; ring
  have hk : (Num.ofNat k : ℝ) = (k : ℝ) := rfl
  rw [hc, hk]
  split
  · rename_i h
    have : k = m + 1 := by omega
    subst this
    have hne : (m : ℝ) + 1 ≠ 0 := by positivity
    push_cast
    field_simp
    ring
  · rfl

theorem linspace_length (a b : ℝ) (m : Nat) : (linspace a b (m + 2)).length = m + 2 := by
  unfold linspace; simp

theorem linspace_pairwise (a b : ℝ) (m : Nat) (h : a < b) : (linspace a b (m + 2)).Pairwise (· < ·) := by
  rw [linspace_eq, List.pairwise_map]
  have hstep : 0 < (b - a) / ((m : ℝ) + 1) := div_pos (sub_pos.mpr h) (by positivity)
  refine List.Pairwise.imp ?_ List.pairwise_lt_range
  intro i j hij
  have : (i : ℝ) < (j : ℝ) := by exact_mod_cast hij
  nlinarith

theorem linspace_ge (a b : ℝ) (m : Nat) (h : a < b) : ∀ y ∈ linspace a b (m + 2), a ≤ y := by
  rw [linspace_eq]
  intro y hy
  obtain ⟨k, _, rfl⟩ := List.mem_map.mp hy
  have hstep : 0 < (b - a) / ((m : ℝ) + 1) := div_pos (sub_pos.mpr h) (by positivity)
  have : (0 : ℝ) ≤ (k : ℝ) := Nat.cast_nonneg k
  nlinarith

theorem linspace_getLastD (a b : ℝ) (m : Nat) : (linspace a b (m + 2)).getLastD 0 = b := by
  unfold linspace
  rw [List.range_succ, List.map_append]
  simp

theorem linspace_mid_pos (a b : ℝ) (h0 : 0 ≤ a) (h : a < b) :
    0 < (linspace a b 50).getD ((linspace a b 50).length / 2) 0 := by
  rw [linspace_length a b 48]
  have hmem : (linspace a b 50).getD 25 0 ∈ linspace a b 50 := by
    rw [List.getD_eq_getElem?_getD, List.getElem?_eq_getElem (by rw [linspace_length a b 48]; norm_num)]
    simp
  have hpw := linspace_pairwise a b 48 h
  have h0mem : (linspace a b 50).getD 0 0 ∈ linspace a b 50 := by
    rw [List.getD_eq_getElem?_getD, List.getElem?_eq_getElem (by rw [linspace_length a b 48]; norm_num)]
    simp
  -- entry 25 is strictly above entry 0, which is ≥ a ≥ 0
  have hlt : (linspace a b 50).getD 0 0 < (linspace a b 50).getD 25 0 := by
    have hl : 25 < (linspace a b 50).length := by rw [linspace_length a b 48]; norm_num
    have hl0 : 0 < (linspace a b 50).length := by rw [linspace_length a b 48]; norm_num
    rw [List.getD_eq_getElem?_getD, List.getD_eq_getElem?_getD, List.getElem?_eq_getElem hl,
      List.getElem?_eq_getElem hl0]
    simp only [Option.getD_some]
    exact List.pairwise_iff_getElem.mp hpw 0 25 hl0 hl (by norm_num)
  have := linspace_ge a b 48 h _ h0mem
  have e : (50 : ℕ) / 2 = 25 := by norm_num
  rw [e]
  linarith

theorem getValues1_length (c : Cache ℝ) (zmin zmax z : ℝ) (names : List String) :
    (getValues1 c zmin zmax z names).length = names.length := by
  unfold getValues1
  simp [assign_length]

theorem zipWith_cons_depth {β : Type} (g : β → List ℝ) (zs : List ℝ) (l : List β) (h : l.length = zs.length) :
    (List.zipWith (fun z sp => z :: g sp) zs l).map depth = zs := by
  induction zs generalizing l with
  | nil => simp
  | cons z tl ih =>
    cases l with
    | nil => simp at h
    | cons b bs =>
      simp only [List.length_cons, Nat.add_right_cancel_iff] at h
      simp [depth, ih bs h]

theorem zipWith_cons_forall {β : Type} (g : β → List ℝ) (Q : List ℝ → Prop) (zs : List ℝ) (l : List β)
    (h : ∀ z sp, Q (z :: g sp)) : ∀ x ∈ List.zipWith (fun z sp => z :: g sp) zs l, Q x := by
  induction zs generalizing l with
  | nil => simp
  | cons z tl ih =>
    cases l with
    | nil => simp
    | cons b bs =>
      intro x hx
      simp only [List.zipWith_cons_cons, List.mem_cons] at hx
      rcases hx with rfl | hx
      · exact h z b
      · exact ih bs x hx

/-- the 50 appended rows: their depths are `linspace(z_max, z_new, 50)` and they have the table's width -/
theorem extendRows_props (ρ : ℝ → ℝ → ℝ → ℝ) (zt : Ztsp) (p : Profile ℝ) (znew S1 : ℝ)
    (h0 : 0 ≤ p.zmax) (h1 : p.zmax < znew) :
    (extendRows ρ zt p znew S1).map depth = linspace p.zmax znew 50 ∧
    ∀ r ∈ extendRows ρ zt p znew S1, r.length = p.names.length + 1 := by
  unfold extendRows
  simp only []
  obtain ⟨P, hP, hPl⟩ := computePressure_forward_length ρ (linspace p.zmax znew 50)
    ((linspace p.zmax znew 50).map (fun _ => (p.get1 p.zmax p.names).getD (p.names.idxOf zt.t) 0))
    ((linspace p.zmax znew 50).map (fun z => (S1 - (p.get1 p.zmax p.names).getD (p.names.idxOf zt.s) 0)
      / (znew - p.zmax) * (z - p.zmax) + (p.get1 p.zmax p.names).getD (p.names.idxOf zt.s) 0))
    (by rw [linspace_length p.zmax znew 48]; norm_num) (linspace_mid_pos _ _ h0 h1)
  simp only [Num.real_zero] at hP ⊢
  rw [hP]
  constructor
  · apply zipWith_cons_depth
    simp [hPl]
  · apply zipWith_cons_forall
    intro z sp
    simp [Profile.get1, getValues1_length]

theorem pairwise_dropLast_lt_last (D : List ℝ) (h : D.Pairwise (· < ·)) (hne : D ≠ []) :
    ∀ x ∈ D.dropLast, x < D.getLast hne := by
  have e := List.dropLast_concat_getLast hne
  rw [← e, List.pairwise_append] at h
  intro x hx
  exact h.2.2 x hx _ (by simp)

/-- `extend_profile_deeper(z_new)` with `0 ≤ z_max < z_new` keeps the invariant -/
theorem extend_inv (ρ : ℝ → ℝ → ℝ → ℝ) (zt : Ztsp) (p : Profile ℝ) (hp : Inv p) (znew S1 : ℝ)
    (h0 : 0 ≤ p.zmax) (h1 : p.zmax < znew) : Inv (step ρ zt p (.extendDeeper znew S1)) := by
  obtain ⟨hd, hwid⟩ := extendRows_props ρ zt p znew S1 h0 h1
  obtain ⟨k, hw, hn⟩ := hp.width
  have hDne : p.rows.map depth ≠ [] := by
    intro h
    have := hp.two
    simp [List.map_eq_nil_iff.mp h] at this
  have hpw : (p.rows.map depth).Pairwise (· < ·) := (strictInc_iff _).mp hp.inc
  have hlast : (p.rows.map depth).getLast hDne = p.zmax := by
    rw [hp.zmax, List.getLastD_eq_getLast?, List.getLast?_eq_some_getLast hDne]; rfl
  have hlen50 : (linspace p.zmax znew 50).length = 50 := linspace_length p.zmax znew 48
  have hDrop2 : 1 ≤ (p.rows.map depth).dropLast.length := by
    have := hp.two
    simp only [List.length_dropLast, List.length_map]; omega
  unfold step
  refine ⟨rebuild_fresh _, ⟨k, ?_, hn⟩, ?_, ?_, ?_, ?_⟩
  · -- width
    intro r hr
    show r.length = k + 1
    have hr' : r ∈ p.rows.dropLast ++ extendRows ρ zt p znew S1 := hr
    rcases List.mem_append.mp hr' with h | h
    · exact hw r ((List.dropLast_sublist _).subset h)
    · rw [hwid r h, hn]
  · -- strictly increasing
    rw [strictInc_iff]
    show ((p.rows.dropLast ++ extendRows ρ zt p znew S1).map depth).Pairwise (· < ·)
    rw [List.map_append, List.map_dropLast, hd, List.pairwise_append]
    refine ⟨List.Pairwise.sublist (List.dropLast_sublist _) hpw, linspace_pairwise _ _ 48 h1, ?_⟩
    intro x hx y hy
    have hxl := pairwise_dropLast_lt_last _ hpw hDne x hx
    rw [hlast] at hxl
    exact lt_of_lt_of_le hxl (linspace_ge _ _ 48 h1 y hy)
  · -- at least two rows
    show 2 ≤ (p.rows.dropLast ++ extendRows ρ zt p znew S1).length
    have : (extendRows ρ zt p znew S1).length = 50 := by
      have := congrArg List.length hd
      simpa [hlen50] using this
    simp only [List.length_append, this]; omega
  · -- z_min is still the first depth
    show p.zmin = ((p.rows.dropLast ++ extendRows ρ zt p znew S1).map depth).headD 0
    rw [hp.zmin, List.map_append, List.map_dropLast]
    have hne2 : (p.rows.map depth).dropLast ≠ [] := by
      intro h; rw [h] at hDrop2; simp at hDrop2
    rw [List.headD_eq_head?_getD, List.headD_eq_head?_getD, List.head?_append]
    have : (p.rows.map depth).dropLast.head? = (p.rows.map depth).head? := by
      rw [List.head?_dropLast]
      have := hp.two
      simp only [List.length_map]
      rw [if_pos (by omega)]
    rw [this]
    cases hh : (p.rows.map depth).head? with
    | none =>
      rw [List.head?_eq_none_iff] at hh
      exact absurd hh hDne
    | some v => simp
  · -- z_max is the new last depth
    show znew = ((p.rows.dropLast ++ extendRows ρ zt p znew S1).map depth).getLastD 0
    rw [List.map_append, hd, List.getLastD_eq_getLast?, List.getLast?_append]
    have hl := linspace_getLastD p.zmax znew 48
    rw [List.getLastD_eq_getLast?] at hl
    cases hh : (linspace p.zmax znew 50).getLast? with
    | none =>
      rw [List.getLast?_eq_none_iff] at hh
      rw [hh] at hlen50; simp at hlen50
    | some v =>
      rw [hh] at hl
      simp at hl
      simp [hl]

/-- the operation is applicable to the state: `extend_profile_deeper` needs `0 ≤ z_max < z_new` -/
def OpOk (p : Profile ℝ) : Op ℝ → Prop
  | .extendDeeper znew _ => 0 ≤ p.zmax ∧ p.zmax < znew
  | _ => True

/-- every operation of the history is applicable when it is performed -/
def RunOk (ρ : ℝ → ℝ → ℝ → ℝ) (zt : Ztsp) : Profile ℝ → List (Op ℝ) → Prop
  | _, [] => True
  | p, op :: ops => OpOk p op ∧ RunOk ρ zt (step ρ zt p op) ops

theorem step_inv (ρ : ℝ → ℝ → ℝ → ℝ) (zt : Ztsp) (p : Profile ℝ) (hp : Inv p) (op : Op ℝ) (hok : OpOk p op) :
    Inv (step ρ zt p op) := by
  by_cases hex : ∃ znew S1, op = .extendDeeper znew S1
  · obtain ⟨znew, S1, rfl⟩ := hex
    exact extend_inv ρ zt p hp znew S1 hok.1 hok.2
  · exact inv_of_sameGrid hp (step_sameGrid ρ zt p hp op (fun znew S1 h => hex ⟨znew, S1, h⟩))
      (step_fresh ρ zt p op hp.fresh)

theorem inv_shape (p : Profile ℝ) (hp : Inv p) :
    ∃ k first last mid, p.rows = first :: (mid ++ [last]) ∧ Width k (first :: (mid ++ [last])) ∧
      StrictInc (first :: (mid ++ [last])) ∧ p.zmin = depth first ∧ p.zmax = depth last ∧ p.names.length = k := by
  obtain ⟨k, hw, hn⟩ := hp.width
  have h2 := hp.two
  match hr : p.rows with
  | [] => rw [hr] at h2; simp at h2
  | [_] => rw [hr] at h2; simp at h2
  | first :: b :: tl =>
    obtain ⟨mid, last, hml⟩ : ∃ mid last, b :: tl = mid ++ [last] :=
      ⟨(b :: tl).dropLast, (b :: tl).getLast (by simp), (List.dropLast_concat_getLast (by simp)).symm⟩
    have hrows : p.rows = first :: (mid ++ [last]) := by rw [hr, hml]
    refine ⟨k, first, last, mid, by rw [← hml], ?_, ?_, ?_, ?_, hn⟩
    · rw [← hrows]; exact hw
    · rw [← hrows]; exact hp.inc
    · rw [hp.zmin, hrows]; simp
    · rw [hp.zmax, hrows]
      have e : (first :: (mid ++ [last])).map depth = (depth first :: mid.map depth) ++ [depth last] := by simp
      rw [e, List.getLastD_concat]

end TamocV.Lemmas.C14
