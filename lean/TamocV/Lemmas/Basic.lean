/-
  Bridge lemmas: the list helpers of `TamocV.Num` at ℝ in Mathlib's vocabulary.
-/
import TamocV.Real
import Mathlib.Algebra.BigOperators.Group.List.Basic
import Mathlib.Tactic.Ring
import Mathlib.Tactic.Linarith

namespace Num

theorem foldl_add_real (l : List ℝ) (a : ℝ) : l.foldl (· + ·) a = a + l.sum := by
  induction l generalizing a with
  | nil => simp
  | cons x xs ih => simp [List.foldl, ih, add_assoc]

@[simp] theorem real_sum (l : List ℝ) : Num.sum l = l.sum := by
  unfold Num.sum
  rw [foldl_add_real]
  simp

@[simp] theorem real_abs (x : ℝ) : Num.abs x = |x| := by
  unfold Num.abs
  simp only [Num.real_zero]
  split
  · rename_i h; exact (abs_of_neg h).symm
  · rename_i h; exact (abs_of_nonneg (not_lt.mp h)).symm

@[simp] theorem real_max (a b : ℝ) : Num.max a b = Max.max a b := by
  unfold Num.max
  split
  · rename_i h; exact (max_eq_right (le_of_lt h)).symm
  · rename_i h; exact (max_eq_left (not_lt.mp h)).symm

@[simp] theorem real_min (a b : ℝ) : Num.min a b = Min.min a b := by
  unfold Num.min
  split
  · rename_i h; exact (min_eq_right (le_of_lt h)).symm
  · rename_i h; exact (min_eq_left (not_lt.mp h)).symm

theorem real_log10 (x : ℝ) : Num.log10 x = Real.log x / Real.log 10 := by
  unfold Num.log10; simp

@[simp] theorem real_dot (a b : List ℝ) : Num.dot a b = (List.zipWith (· * ·) a b).sum := by
  unfold Num.dot; simp

end Num
