/-
  Helper lemmas for C10 (sums over a relabelled index range, symmetry of the group-contribution δ).
-/
import TamocV.Lemmas.Eos
import Mathlib.Tactic.Ring
import Mathlib.Tactic.FieldSimp
import Mathlib.Tactic.Linarith
import Mathlib.Analysis.SpecialFunctions.Pow.Real

namespace TamocV.Lemmas.C10
open TamocV.Model.Eos TamocV.Lemmas.Eos Finset

/-- a permutation of ℕ that maps {0..n-1} onto itself -/
def PermOn (n : ℕ) (σ : Equiv.Perm ℕ) : Prop := ∀ i, σ i < n ↔ i < n

theorem sum_perm (n : ℕ) (σ : Equiv.Perm ℕ) (h : PermOn n σ) (f : ℕ → ℝ) :
    ∑ i ∈ range n, f (σ i) = ∑ i ∈ range n, f i := by
  apply Finset.sum_equiv σ
  · intro i; simp only [mem_range]; exact (h i).symm
  · intro i _; rfl

theorem gcTerm_symm (T : ℝ) (gi gj : ℕ → ℝ) (A B : ℕ → ℕ → ℝ) (k l : ℕ) :
    gcTerm T gi gj A B k l = gcTerm T gj gi A B k l := by
  unfold gcTerm
  split_ifs
  · ring
  · rfl

theorem deltaGC_symm (T ai aj bi bj : ℝ) (gi gj : ℕ → ℝ) (A B : ℕ → ℕ → ℝ) :
    deltaGC T ai aj bi bj gi gj A B = deltaGC T aj ai bj bi gj gi A B := by
  simp only [deltaGC, sumN_eq, Num.real_npow, Num.real_sqrt, Num.real_ofNat, Num.real_ofSci]
  have h1 : ∀ l k, gcTerm T gi gj A B k l = gcTerm T gj gi A B k l := fun l k => gcTerm_symm T gi gj A B k l
  simp only [h1]
  rw [mul_comm ai aj, mul_comm bi bj]
  have : (Real.sqrt ai / bi - Real.sqrt aj / bj)^2 = (Real.sqrt aj / bj - Real.sqrt ai / bi)^2 := by ring
  rw [this]

end TamocV.Lemmas.C10
