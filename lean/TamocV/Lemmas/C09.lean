/-
  Helper lemmas for Props/C09 and Props/C19: the VALUE of every individual `FluidParticle` method
  does not depend on the warm-start cache `K` it is called with, provided the flash result does
  not (`FlashStable`).  Generic in the number type: nothing here uses arithmetic laws, only the
  call structure of `TamocV.Model.Particle09` at the pure library monad `Id`.
-/
import TamocV.Real
import TamocV.Lemmas.Basic
import TamocV.Model.Particle09
import Mathlib.Tactic.NormNum

namespace TamocV.Lemmas.C09
open TamocV.Model.Particle09

variable {α : Type} [Num α]

/-- the hypothesis hEq of DESIGN §4-C09: for the masses / state at hand the phase split the flash
    returns does not depend on the warm-start partition coefficients it is given -/
def FlashStable (lib : Lib Id α) (m : List α) (T P : α) : Prop :=
  ∀ K K' : KSt α, (lib.flash m T P K).1 = (lib.flash m T P K').1 ∧
    (lib.flash m T P K).2.1 = (lib.flash m T P K').2.1

/-- what the cache-independence lemmas need: the particle is single-phase (the flash is never
    called) or the flash is stable -/
def Stable (lib : Lib Id α) (par : FluidPar α) (m : List α) (T P : α) : Prop :=
  par.fpType < 2 ∨ FlashStable lib m T P

/-- gas row of the flash from a fresh cache -/
def mi0 (lib : Lib Id α) (m : List α) (T P : α) : List α := (lib.flash m T P none).1
/-- liquid row of the flash from a fresh cache -/
def mi1 (lib : Lib Id α) (m : List α) (T P : α) : List α := (lib.flash m T P none).2.1

-- values of the methods from a fresh cache
def densityV (lib : Lib Id α) (par : FluidPar α) (m : List α) (T P : α) : α :=
  (density lib par none m T P).1
def fugacityV (lib : Lib Id α) (par : FluidPar α) (m : List α) (T P : α) : List α :=
  (fugacity lib par none m T P).1
def viscosityV (lib : Lib Id α) (par : FluidPar α) (m : List α) (T P : α) : α :=
  (viscosity lib par none m T P).1
def sigmaV (lib : Lib Id α) (par : FluidPar α) (m : List α) (T S P : α) : α :=
  (interfaceTension lib par none m T S P).1
def solubilityV (lib : Lib Id α) (par : FluidPar α) (m : List α) (T P Sa : α) : List α :=
  (solubility lib par none m T P Sa).1
def diameterV (lib : Lib Id α) (par : FluidPar α) (m : List α) (T P : α) : α :=
  (diameter lib par none m T P).1
def shapeV (lib : Lib Id α) (par : FluidPar α) (m : List α) (T P Sa Ta : α) : Shape α :=
  (particleShape lib par none m T P Sa Ta).1
def slipV (lib : Lib Id α) (par : FluidPar α) (m : List α) (T P Sa Ta : α) (clean : Bool) : α :=
  (slipVelocity lib par none m T P Sa Ta clean).1
def areaV (lib : Lib Id α) (par : FluidPar α) (m : List α) (T P Sa Ta : α) : α :=
  (surfaceArea lib par none m T P Sa Ta).1
def massTransferV (lib : Lib Id α) (par : FluidPar α) (m : List α) (T P Sa Ta : α) (clean : Bool) :
    List α := (massTransfer lib par none m T P Sa Ta clean).1
def heatTransferV (lib : Lib Id α) (par : FluidPar α) (m : List α) (T P Sa Ta : α) (clean : Bool) :
    List α := (heatTransfer lib par none m T P Sa Ta clean).1

section
variable {lib : Lib Id α} {par : FluidPar α} {m : List α} {T P : α}

theorem density_fst (h : Stable lib par m T P) (K : KSt α) :
    (density lib par K m T P).1 = densityV lib par m T P := by
  unfold densityV density
  simp only [bind, pure]
  split
  · rfl
  · rename_i hfp
    have h := h.resolve_left hfp
    show densityOfFlash lib par.code (lib.flash m T P K).1 (lib.flash m T P K).2.1 T P =
      densityOfFlash lib par.code (lib.flash m T P none).1 (lib.flash m T P none).2.1 T P
    rw [(h K none).1, (h K none).2]

theorem fugacity_fst (h : Stable lib par m T P) (K : KSt α) :
    (fugacity lib par K m T P).1 = fugacityV lib par m T P := by
  unfold fugacityV fugacity
  simp only [bind, pure]
  split
  · rfl
  · rename_i hfp
    have h := h.resolve_left hfp
    show fugacityOfFlash lib par.code (lib.flash m T P K).1 (lib.flash m T P K).2.1 T P =
      fugacityOfFlash lib par.code (lib.flash m T P none).1 (lib.flash m T P none).2.1 T P
    rw [(h K none).1, (h K none).2]

theorem viscosity_fst (h : Stable lib par m T P) (K : KSt α) :
    (viscosity lib par K m T P).1 = viscosityV lib par m T P := by
  unfold viscosityV viscosity
  simp only [bind, pure]
  split
  · rfl
  · rename_i hfp
    have h := h.resolve_left hfp
    show viscosityOfFlash lib par.code (lib.flash m T P K).1 (lib.flash m T P K).2.1 T P =
      viscosityOfFlash lib par.code (lib.flash m T P none).1 (lib.flash m T P none).2.1 T P
    rw [(h K none).1, (h K none).2]

theorem sigma_fst (h : Stable lib par m T P) (K : KSt α) (S : α) :
    (interfaceTension lib par K m T S P).1 = sigmaV lib par m T S P := by
  unfold sigmaV interfaceTension
  simp only [bind, pure]
  split
  · rfl
  · rename_i hfp
    have h := h.resolve_left hfp
    show sigmaOfFlash lib par (lib.flash m T P K).1 (lib.flash m T P K).2.1 T S P =
      sigmaOfFlash lib par (lib.flash m T P none).1 (lib.flash m T P none).2.1 T S P
    rw [(h K none).1, (h K none).2]

theorem solubility_fst (h : Stable lib par m T P) (K : KSt α) (Sa : α) :
    (solubility lib par K m T P Sa).1 = solubilityV lib par m T P Sa := by
  unfold solubilityV solubility
  simp only [bind, pure]
  split
  · rfl
  · rename_i hfp
    have h := h.resolve_left hfp
    show solubilityOfFlash lib par.code (lib.flash m T P K).1 (lib.flash m T P K).2.1 T P Sa =
      solubilityOfFlash lib par.code (lib.flash m T P none).1 (lib.flash m T P none).2.1 T P Sa
    rw [(h K none).1, (h K none).2]

theorem diameter_fst (h : Stable lib par m T P) (K : KSt α) :
    (diameter lib par K m T P).1 = diameterV lib par m T P := by
  unfold diameterV diameter
  simp only [bind, pure, density_fst h]

theorem shape_fst (h : Stable lib par m T P) (K : KSt α) (Sa Ta : α) :
    (particleShape lib par K m T P Sa Ta).1 = shapeV lib par m T P Sa Ta := by
  unfold shapeV particleShape
  simp only [bind, pure, density_fst h, diameter_fst h, viscosity_fst h, sigma_fst h]

theorem slip_fst (h : Stable lib par m T P) (K : KSt α) (Sa Ta : α) (clean : Bool) :
    (slipVelocity lib par K m T P Sa Ta clean).1 = slipV lib par m T P Sa Ta clean := by
  unfold slipV slipVelocity
  simp only [bind, pure, apply_ite Prod.fst, shape_fst h]

theorem area_fst (h : Stable lib par m T P) (K : KSt α) (Sa Ta : α) :
    (surfaceArea lib par K m T P Sa Ta).1 = areaV lib par m T P Sa Ta := by
  unfold areaV surfaceArea
  simp only [bind, pure, apply_ite Prod.fst, shape_fst h, slip_fst h]

theorem massTransfer_fst (h : Stable lib par m T P) (K : KSt α) (Sa Ta : α)
    (clean : Bool) :
    (massTransfer lib par K m T P Sa Ta clean).1 = massTransferV lib par m T P Sa Ta clean := by
  unfold massTransferV massTransfer
  simp only [bind, pure, apply_ite Prod.fst, shape_fst h, slip_fst h]

theorem heatTransfer_fst (h : Stable lib par m T P) (K : KSt α) (Sa Ta : α)
    (clean : Bool) :
    (heatTransfer lib par K m T P Sa Ta clean).1 = heatTransferV lib par m T P Sa Ta clean := by
  unfold heatTransferV heatTransfer
  simp only [bind, pure, apply_ite Prod.fst, shape_fst h, slip_fst h]

/-- the tuple assembled from the individual methods, whatever cache each of them starts from -/
theorem individual_fst (h : Stable lib par m T P) (K : KSt α) (Sa Ta : α)
    (clean : Bool) :
    (individual lib par K { m := m, T := T, P := P, Sa := Sa, Ta := Ta, clean := clean }).1 =
      { shape := (shapeV lib par m T P Sa Ta).shape, de := diameterV lib par m T P,
        rhoP := densityV lib par m T P, us := slipV lib par m T P Sa Ta clean,
        A := areaV lib par m T P Sa Ta, Cs := solubilityV lib par m T P Sa,
        beta := massTransferV lib par m T P Sa Ta clean,
        betaT := (heatTransferV lib par m T P Sa Ta clean).headD 0 } := by
  unfold individual
  simp only [bind, pure, shape_fst h, diameter_fst h, density_fst h, slip_fst h, area_fst h,
    solubility_fst h, massTransfer_fst h, heatTransfer_fst h]

end

-- ================================================================== hypotheses of the C09 theorems

/-- the library's `particle_shape` answers 1 (sphere), 2 (ellipsoid) or 3 (spherical cap) -/
def ShapeContract (lib : Lib Id α) : Prop :=
  ∀ de rp r mu s, lib.particleShape de rp r mu s = 1 ∨ lib.particleShape de rp r mu s = 2 ∨
    lib.particleShape de rp r mu s = 3

/-- defect (a) excluded: whenever the gas row is not empty, "some liquid entry is zero"
    (individual methods) and "the liquid total is zero" (`return_all`) are the same condition -/
def BranchAgree (lib : Lib Id α) (par : FluidPar α) (m : List α) (T P : α) : Prop :=
  ¬ isZero (Num.sum (mi0 lib m T P)) →
    (indivGasBranch par.code (mi1 lib m T P) ↔ bundleGasBranch (mi1 lib m T P))

/-- defect (b) excluded, version 1: in the single-phase-gas branch the gas-row and liquid-row
    viscosities of the gas phase coincide (true when the cubic has one real root) -/
def ViscRowsAgree (lib : Lib Id α) (par : FluidPar α) (m : List α) (T P : α) : Prop :=
  par.code.gasViscLiquidRow = true →
  ¬ isZero (Num.sum (mi0 lib m T P)) → bundleGasBranch (mi1 lib m T P) →
    (lib.eosViscosity T P (mi0 lib m T P)).1 = (lib.eosViscosity T P (mi0 lib m T P)).2

/-- on the repaired code the two branch conditions are literally the same -/
theorem branchAgree_of_repaired (lib : Lib Id α) (par : FluidPar α) (m : List α) (T P : α)
    (h : par.code.zeroEntryTest = false) : BranchAgree lib par m T P := by
  intro _
  unfold indivGasBranch bundleGasBranch
  simp [h]

/-- on the repaired code the gas row is read: nothing to assume about the rows -/
theorem viscRowsAgree_of_repaired (lib : Lib Id α) (par : FluidPar α) (m : List α) (T P : α)
    (h : par.code.gasViscLiquidRow = false) : ViscRowsAgree lib par m T P := by
  intro h'
  rw [h] at h'
  exact absurd h' (by simp)

/-- defect (b) made unobservable, version 2: for DIRTY particles (status = -1, forced for
    fp_type = 2) the library correlations do not look at the particle viscosity
    (dbm_p.us_ellipsoid l.393-403, xfer_sphere l.655-681, xfer_ellipsoid l.725-752) -/
def DirtyIgnoresMuP (lib : Lib Id α) : Prop :=
  (∀ de rp r mup mup' mu s, lib.usEllipsoid de rp r mup mu s false = lib.usEllipsoid de rp r mup' mu s false) ∧
  (∀ de us r mu D s mup mup' fp, lib.xferSphere de us r mu D s mup fp false = lib.xferSphere de us r mu D s mup' fp false) ∧
  (∀ de us r mu D s mup mup' fp, lib.xferEllipsoid de us r mu D s mup fp false = lib.xferEllipsoid de us r mu D s mup' fp false)

-- ------------------------------------------------------------------ the phase section of return_all

/-- (rho_p, mu_p, sigma, f) of `return_all` from a fresh cache -/
def phaseV (lib : Lib Id α) (par : FluidPar α) (m : List α) (T Sa P : α) : Phase α :=
  (phaseProps lib par none m T Sa P).1

section
variable {lib : Lib Id α} {par : FluidPar α} {m : List α} {T P : α}

theorem phase_fst (h : Stable lib par m T P) (K : KSt α) (Sa : α) :
    (phaseProps lib par K m T Sa P).1 = phaseV lib par m T Sa P := by
  unfold phaseV phaseProps
  simp only [bind, pure]
  split
  · rfl
  · rename_i hfp
    have h := h.resolve_left hfp
    show phaseOfFlash lib par (lib.flash m T P K).1 (lib.flash m T P K).2.1 T Sa P =
      phaseOfFlash lib par (lib.flash m T P none).1 (lib.flash m T P none).2.1 T Sa P
    rw [(h K none).1, (h K none).2]

/-- `return_all`'s particle density is `FluidParticle.density` -/
theorem phase_rhoP (Sa : α) (hb : par.fpType < 2 ∨ BranchAgree lib par m T P) :
    (phaseV lib par m T Sa P).rhoP = densityV lib par m T P := by
  unfold phaseV phaseProps densityV density
  simp only [bind, pure]
  split
  · rfl
  · rename_i hfp
    have hb' := hb.resolve_left hfp
    unfold BranchAgree mi0 mi1 at hb'
    unfold phaseOfFlash densityOfFlash
    simp only [bind, pure]
    split
    · rfl
    · rename_i hg
      have := hb' hg
      by_cases hl : bundleGasBranch (lib.flash m T P none).2.1
      · simp only [hl, this.mpr hl, if_true]
      · have hl' : ¬ indivGasBranch par.code (lib.flash m T P none).2.1 := fun c => hl (this.mp c)
        simp only [hl, hl', if_false]

/-- `return_all`'s interfacial tension is `FluidParticle.interface_tension` -/
theorem phase_sigma (Sa : α) (hb : par.fpType < 2 ∨ BranchAgree lib par m T P) :
    (phaseV lib par m T Sa P).sigma = sigmaV lib par m T Sa P := by
  unfold phaseV phaseProps sigmaV interfaceTension
  simp only [bind, pure]
  split
  · rfl
  · rename_i hfp
    have hb' := hb.resolve_left hfp
    unfold BranchAgree mi0 mi1 at hb'
    unfold phaseOfFlash sigmaOfFlash
    simp only [bind, pure]
    split
    · rfl
    · rename_i hg
      have := hb' hg
      by_cases hl : bundleGasBranch (lib.flash m T P none).2.1
      · simp only [hl, this.mpr hl, if_true]
      · have hl' : ¬ indivGasBranch par.code (lib.flash m T P none).2.1 := fun c => hl (this.mp c)
        simp only [hl, hl', if_false]

/-- `return_all`'s solubilities are `FluidParticle.solubility` -/
theorem phase_Cs (Sa : α) (hb : par.fpType < 2 ∨ BranchAgree lib par m T P) :
    lib.swSolubility (phaseV lib par m T Sa P).f (lib.khInsitu T P Sa) =
      solubilityV lib par m T P Sa := by
  unfold phaseV phaseProps solubilityV solubility
  simp only [bind, pure]
  split
  · unfold mixSolubility row
    simp only [bind, pure]
    split <;> rfl
  · rename_i hfp
    have hb' := hb.resolve_left hfp
    unfold BranchAgree mi0 mi1 at hb'
    unfold phaseOfFlash solubilityOfFlash mixSolubility
    simp only [bind, pure]
    split
    · rfl
    · rename_i hg
      have := hb' hg
      by_cases hl : bundleGasBranch (lib.flash m T P none).2.1
      · simp only [hl, this.mpr hl, if_true]
      · have hl' : ¬ indivGasBranch par.code (lib.flash m T P none).2.1 := fun c => hl (this.mp c)
        simp only [hl, hl', if_false]

/-- `return_all`'s particle viscosity is `FluidParticle.viscosity` — needs BOTH exclusions -/
theorem phase_muP (Sa : α)
    (hb : par.fpType < 2 ∨ (BranchAgree lib par m T P ∧ ViscRowsAgree lib par m T P)) :
    (phaseV lib par m T Sa P).muP = viscosityV lib par m T P := by
  unfold phaseV phaseProps viscosityV viscosity
  simp only [bind, pure]
  split
  · rfl
  · rename_i hfp
    have hb' := (hb.resolve_left hfp).1
    have hv' := (hb.resolve_left hfp).2
    unfold BranchAgree mi0 mi1 at hb'
    unfold ViscRowsAgree mi0 mi1 at hv'
    unfold phaseOfFlash viscosityOfFlash
    simp only [bind, pure]
    split
    · rfl
    · rename_i hg
      have := hb' hg
      by_cases hl : bundleGasBranch (lib.flash m T P none).2.1
      · simp only [hl, this.mpr hl, if_true]
        cases hrow : par.code.gasViscLiquidRow
        · simp
        · simp only [if_true]
          exact hv' hrow hg hl
      · have hl' : ¬ indivGasBranch par.code (lib.flash m T P none).2.1 := fun c => hl (this.mp c)
        simp only [hl, hl', if_false]

-- ------------------------------------------------------------------ the individual methods, unfolded once

theorem diameterV_eq :
    diameterV lib par m T P = deOf (Num.sum m) (densityV lib par m T P) := by
  unfold diameterV diameter densityV
  simp only [bind, pure]

theorem shapeV_eq (h : Stable lib par m T P) (Sa Ta : α) :
    shapeV lib par m T P Sa Ta =
      { shape := lib.particleShape (diameterV lib par m T P) (densityV lib par m T P)
                   (lib.swDensity Ta Sa P) (lib.swMu Ta Sa P) (sigmaV lib par m T Sa P),
        de := diameterV lib par m T P, rhoP := densityV lib par m T P,
        rho := lib.swDensity Ta Sa P, muP := viscosityV lib par m T P, mu := lib.swMu Ta Sa P,
        sigma := sigmaV lib par m T Sa P } := by
  unfold shapeV particleShape
  simp only [bind, pure, density_fst h, diameter_fst h, viscosity_fst h, sigma_fst h]

omit [Num α] in
theorem effClean_idem (par : FluidPar α) (c : Bool) : effClean par (effClean par c) = effClean par c := by
  unfold effClean; split <;> rfl

theorem slipV_eq (h : Stable lib par m T P) (Sa Ta : α) (clean : Bool) :
    slipV lib par m T P Sa Ta clean =
      let s := shapeV lib par m T P Sa Ta
      if s.shape = 1 then lib.usSphere s.de s.rhoP s.rho s.mu
      else if s.shape = 2 then lib.usEllipsoid s.de s.rhoP s.rho s.muP s.mu s.sigma (effClean par clean)
      else lib.usSphericalCap s.de s.rhoP s.rho := by
  unfold slipV slipVelocity
  simp only [bind, pure, apply_ite Prod.fst, shape_fst h]

theorem areaV_eq (h : Stable lib par m T P) (Sa Ta : α) :
    areaV lib par m T P Sa Ta =
      let s := shapeV lib par m T P Sa Ta
      if s.shape = 3 then
        Id.run (lib.surfaceAreaSc s.de (lib.thetaWSc s.de (slipV lib par m T P Sa Ta false) s.rho s.mu))
      else sphereArea s.de := by
  unfold areaV surfaceArea
  simp only [bind, pure, apply_ite Prod.fst, shape_fst h, slip_fst h, Id.run]

theorem massTransferV_eq (h : Stable lib par m T P) (Sa Ta : α) (clean : Bool) :
    massTransferV lib par m T P Sa Ta clean =
      let s := shapeV lib par m T P Sa Ta
      let us := slipV lib par m T P Sa Ta (effClean par clean)
      let D := lib.diffusivity (lib.swMu Ta Sa P)
      if s.shape = 1 then lib.xferSphere s.de us s.rho s.mu D s.sigma s.muP par.fpType (effClean par clean)
      else if s.shape = 2 then lib.xferEllipsoid s.de us s.rho s.mu D s.sigma s.muP par.fpType (effClean par clean)
      else lib.xferSphericalCap s.de us s.rho s.rhoP s.mu D (effClean par clean) := by
  unfold massTransferV massTransfer mixDiffusivity
  simp only [bind, pure, apply_ite Prod.fst, shape_fst h, slip_fst h]

theorem heatTransferV_eq (h : Stable lib par m T P) (Sa Ta : α) (clean : Bool) :
    heatTransferV lib par m T P Sa Ta clean =
      let s := shapeV lib par m T P Sa Ta
      let us := slipV lib par m T P Sa Ta (effClean par clean)
      let k : List α := [Id.run (lib.swK Ta Sa P) / (Id.run (lib.swDensity Ta Sa P) * Id.run lib.swCp)]
      if s.shape = 1 then lib.xferSphere s.de us s.rho s.mu k s.sigma s.muP par.fpType (effClean par clean)
      else if s.shape = 2 then lib.xferEllipsoid s.de us s.rho s.mu k s.sigma s.muP par.fpType (effClean par clean)
      else lib.xferSphericalCap s.de us s.rho s.rhoP s.mu k (effClean par clean) := by
  unfold heatTransferV heatTransfer thermalDiff
  simp only [bind, pure, apply_ite Prod.fst, shape_fst h, slip_fst h, Id.run]

end

-- ================================================================== concrete libraries over ℝ (witnesses, examples)
section Witness

/-- a library all of whose routines answer constants; the refutations override a few fields -/
noncomputable def constLib : Lib Id ℝ where
  eosDensity _ _ _ := ((1 : ℝ), (2 : ℝ))
  eosViscosity _ _ _ := ((1 : ℝ), (2 : ℝ))
  eosFugacity _ _ _ := (([] : List ℝ), ([] : List ℝ))
  moleFraction _ := ([] : List ℝ)
  khInsitu _ _ _ := ([] : List ℝ)
  swSolubility _ _ := ([] : List ℝ)
  diffusivity _ := ([] : List ℝ)
  flash _ _ _ _ := (([1, 1] : List ℝ), ([1, 0] : List ℝ), (none : KSt ℝ))
  swDensity _ _ _ := (1 : ℝ)
  swMu _ _ _ := (1 : ℝ)
  swK _ _ _ := (1 : ℝ)
  swCp := (1 : ℝ)
  swSigma _ _ := (1 : ℝ)
  particleShape _ _ _ _ _ := (2 : Nat)
  usSphere _ _ _ _ := (0 : ℝ)
  usEllipsoid _ _ _ mup _ _ _ := mup
  usSphericalCap _ _ _ := (0 : ℝ)
  thetaWSc _ _ _ _ := (0 : ℝ)
  surfaceAreaSc _ _ := (0 : ℝ)
  xferSphere _ _ _ _ _ _ _ _ _ := ([] : List ℝ)
  xferEllipsoid _ _ _ _ _ _ _ _ _ := ([] : List ℝ)
  xferSphericalCap _ _ _ _ _ _ _ := ([] : List ℝ)

/-- the mixed-phase air-like particle used by the refutations (isair: the interfacial tension is
    `seawater.sigma`, so no density enters it) -/
noncomputable def mixedPar : FluidPar ℝ :=
  { fpType := 2, isair := true, sigmaCorr := 1, Tc := [], code := Code.asWritten }

/-- the same particle on the repaired code -/
noncomputable def mixedParRepaired : FluidPar ℝ :=
  { fpType := 2, isair := true, sigmaCorr := 1, Tc := [], code := Code.repaired }

noncomputable def someInput : Inp ℝ := { m := [2, 1], T := 300, P := 1, Sa := 35, Ta := 290, clean := false }

theorem constLib_shape : ShapeContract constLib := fun _ _ _ _ _ => Or.inr (Or.inl rfl)

theorem constLib_stable (m : List ℝ) (T P : ℝ) : FlashStable constLib m T P := fun _ _ => ⟨rfl, rfl⟩

theorem sum11 : Num.sum ([1, 1] : List ℝ) = 2 := by simp; norm_num
theorem sum10 : Num.sum ([1, 0] : List ℝ) = 1 := by simp

theorem not_isZero_two : ¬ isZero (2 : ℝ) := by unfold isZero; simp only [Num.real_zero]; norm_num
theorem not_isZero_one : ¬ isZero (1 : ℝ) := by unfold isZero; simp only [Num.real_zero]; norm_num
theorem isZero_zero : isZero (0 : ℝ) := by unfold isZero; simp only [Num.real_zero]; norm_num

theorem indiv_branch_10 : indivGasBranch Code.asWritten ([1, 0] : List ℝ) := by
  unfold indivGasBranch countZero
  simp only [Code.asWritten, if_true]
  simp [List.filter, not_isZero_one, isZero_zero]

theorem not_bundle_branch_10 : ¬ bundleGasBranch ([1, 0] : List ℝ) := by
  unfold bundleGasBranch; rw [sum10]; exact not_isZero_one

/-- gas-only flash: gas row (1), liquid row (0): both branch conditions hold, `BranchAgree` is true -/
noncomputable def gasOnlyLib : Lib Id ℝ :=
  { constLib with flash := fun _ _ _ _ => (([1] : List ℝ), ([0] : List ℝ), (none : KSt ℝ)) }

noncomputable def gasInput : Inp ℝ := { m := [1], T := 300, P := 1, Sa := 35, Ta := 290, clean := false }

theorem sum1 : Num.sum ([1] : List ℝ) = 1 := by simp
theorem sum0 : Num.sum ([0] : List ℝ) = 0 := by simp

theorem indiv_branch_0 : indivGasBranch Code.asWritten ([0] : List ℝ) := by
  unfold indivGasBranch countZero
  simp only [Code.asWritten, if_true]
  simp [List.filter, isZero_zero]

theorem bundle_branch_0 : bundleGasBranch ([0] : List ℝ) := by
  unfold bundleGasBranch; rw [sum0]; exact isZero_zero

theorem gasOnly_branchAgree : BranchAgree gasOnlyLib mixedPar gasInput.m gasInput.T gasInput.P := by
  intro _
  simp only [mi1, gasOnlyLib, mixedPar]
  exact ⟨fun _ => bundle_branch_0, fun _ => indiv_branch_0⟩

/-- a two-phase flash without zero entries: gas (1, 1), liquid (1, 1) -/
noncomputable def twoPhaseLib : Lib Id ℝ :=
  { constLib with flash := fun _ _ _ _ => (([1, 1] : List ℝ), ([1, 1] : List ℝ), (none : KSt ℝ)) }

theorem not_indiv_branch_11 : ¬ indivGasBranch Code.asWritten ([1, 1] : List ℝ) := by
  unfold indivGasBranch countZero
  simp only [Code.asWritten, if_true]
  simp [List.filter, not_isZero_one]

end Witness

end TamocV.Lemmas.C09
