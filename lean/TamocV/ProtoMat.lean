/-
  Line-protocol helpers for matrix arguments and for the root-finder oracle table used by the
  generated full EOS routines (Gen.EosFullPy / Gen.EosFullF).  No imports beyond Proto.
-/
import TamocV.Proto

namespace TamocV.ProtoMat

/-- row-major matrix from a flat vector and its number of columns -/
def toMat (flat : List Float) (ncol : Nat) : List (List Float) :=
  if ncol = 0 then [] else
  (List.range (flat.length / ncol)).map fun i => (List.range ncol).map fun j => flat.getD (i * ncol + j) 0

def flatten (m : List (List Float)) : List Float := m.foldr (· ++ ·) []

/-- oracle for the cubic root finder: `tab` is a flat list of records
    (4 polynomial coefficients, 3 real parts, 3 imaginary parts) recorded from the real solver by the
    harness; the answer for `p` is the record whose coefficients are closest to `p` (the model's
    coefficients are computed at Float and may differ from the recorded ones in the last bits) -/
def crOfTable (tab : List Float) : List Float → List Float × List Float := fun p =>
  let entries := (List.range (tab.length / 10)).map fun k => (List.range 10).map fun j => tab.getD (k * 10 + j) 0
  let dist := fun (e : List Float) =>
    ((List.range 4).map fun j => Float.abs (e.getD j 0 - p.getD j 0)).foldl (· + ·) 0
  let best := entries.foldl (fun (acc : Option (List Float)) e =>
    match acc with
    | none => some e
    | some b => if dist e < dist b then some e else some b) none
  match best with
  | some e => ((List.range 3).map fun j => e.getD (4 + j) 0, (List.range 3).map fun j => e.getD (7 + j) 0)
  | none => ([], [])

end TamocV.ProtoMat
