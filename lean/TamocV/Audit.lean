/-
  `#audit_ns NS` — prints, for every theorem whose name starts with `NS`, the axioms its
  proof depends on (one line `AXIOMS <name> : a b c`), so that the check can require
  ⊆ {propext, Classical.choice, Quot.sound} for every property theorem without having
  to list them by hand.  A second line `STMT <name> <hash of the type> <GEN|->` fingerprints the statement.
-/
import Lean
open Lean Elab Command

elab "#audit_ns " ns:ident : command => do
  let env ← getEnv
  let nsName := ns.getId
  let mut names : Array Name := #[]
  for (n, ci) in env.constants.map₁.toList do
    if nsName.isPrefixOf n && !n.isInternal then
      match ci with
      | .thmInfo _ => names := names.push n
      | _ => pure ()
  let sorted := names.qsort (fun a b => a.toString < b.toString)
  for n in sorted do
    let axs ← liftCoreM (Lean.collectAxioms n)
    let axs := axs.qsort (fun a b => a.toString < b.toString)
    logInfo m!"AXIOMS {n} : {" ".intercalate (axs.toList.map toString)}"
    -- statement fingerprint: structural hash of the theorem's TYPE (so a statement weakened to `True`, an added
    -- hypothesis or a changed conclusion changes it) and whether the statement mentions a definition regenerated from
    -- the source (`TamocV.Gen.*`) — a theorem that is supposed to be about regenerated code must keep doing so
    match env.find? n with
    | some ci =>
      let usesGen := ci.type.getUsedConstants.any (fun c => (`TamocV.Gen).isPrefixOf c)
      logInfo m!"STMT {n} {ci.type.hash} {if usesGen then "GEN" else "-"}"
    | none => pure ()
  logInfo m!"AUDIT-COUNT {nsName} {sorted.size}"
