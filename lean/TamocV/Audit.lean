/-
  `#audit_ns NS` — prints, for every theorem whose name starts with `NS`, the axioms its
  proof depends on (one line `AXIOMS <name> : a b c`), so that the check can require
  ⊆ {propext, Classical.choice, Quot.sound} for every property theorem without having
  to list them by hand.
-/
import Lean
open Lean Elab Command

elab "#audit_ns " ns:ident : command => do
  let env ← getEnv
  let nsName := ns.getId
  let mut names : Array Name := #[]
  for (n, ci) in env.constants.map₁.toList do
    if nsName.isPrefixOf n && !n.isInternal then
      match ci with
      | .thmInfo _ => names := names.push n
      | _ => pure ()
  let sorted := names.qsort (fun a b => a.toString < b.toString)
  for n in sorted do
    let axs ← liftCoreM (Lean.collectAxioms n)
    let axs := axs.qsort (fun a b => a.toString < b.toString)
    logInfo m!"AXIOMS {n} : {" ".intercalate (axs.toList.map toString)}"
  logInfo m!"AUDIT-COUNT {nsName} {sorted.size}"
