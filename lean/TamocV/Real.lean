import TamocV.Num
import Mathlib.Analysis.SpecialFunctions.Pow.Real
import Mathlib.Analysis.SpecialFunctions.Trigonometric.Basic
import Mathlib.Analysis.SpecialFunctions.Complex.Arg

/-! `Num ℝ`: the interpretation the theorems are about. -/

open Classical in
noncomputable instance instNumReal : Num ℝ where
  toAdd := inferInstance
  toSub := inferInstance
  toMul := inferInstance
  toDiv := inferInstance
  toNeg := inferInstance
  toLT := inferInstance
  toLE := inferInstance
  ofNat := fun n => (n : ℝ)
  ofSci := fun m s e => (OfScientific.ofScientific m s e : ℝ)
  exp := Real.exp
  log := Real.log
  sqrt := Real.sqrt
  rpow := fun x y => x ^ y
  sin := Real.sin
  cos := Real.cos
  atan2 := fun y x => Complex.arg ⟨x, y⟩
  decLt := fun _ _ => Classical.propDecidable _
  decLe := fun _ _ => Classical.propDecidable _

namespace Num

@[simp] theorem real_ofNat (n : Nat) [n.AtLeastTwo] :
    (@OfNat.ofNat ℝ n (Num.instOfNat n)) = (OfNat.ofNat n : ℝ) := by
  show ((n : ℕ) : ℝ) = _
  exact Nat.cast_ofNat
@[simp] theorem real_zero : (@OfNat.ofNat ℝ 0 (Num.instOfNat 0)) = (0 : ℝ) := by
  show ((0 : ℕ) : ℝ) = _; simp
@[simp] theorem real_one : (@OfNat.ofNat ℝ 1 (Num.instOfNat 1)) = (1 : ℝ) := by
  show ((1 : ℕ) : ℝ) = _; simp
@[simp] theorem real_ofSci (m : Nat) (s : Bool) (e : Nat) :
    (@OfScientific.ofScientific ℝ Num.instOfScientific m s e) = (OfScientific.ofScientific m s e : ℝ) := rfl
@[simp] theorem real_exp (x : ℝ) : Num.exp x = Real.exp x := rfl
@[simp] theorem real_log (x : ℝ) : Num.log x = Real.log x := rfl
@[simp] theorem real_sqrt (x : ℝ) : Num.sqrt x = Real.sqrt x := rfl
@[simp] theorem real_rpow (x y : ℝ) : Num.rpow x y = x ^ y := rfl
@[simp] theorem real_sin (x : ℝ) : Num.sin x = Real.sin x := rfl
@[simp] theorem real_cos (x : ℝ) : Num.cos x = Real.cos x := rfl
@[simp] theorem real_npow (x : ℝ) (n : Nat) : Num.npow x n = x ^ n := by
  induction n with
  | zero => simp [Num.npow]
  | succ n ih => simp [Num.npow, ih, pow_succ]

end Num
