/-
  TamocV.Proto — line protocol between the Python harness and the Lean models.

  request :  <name> <arg> <arg> …        response :  <arg> <arg> …   |  ERR <why>
  <arg>   :  16 hex digits               a Float, by its IEEE-754 bit pattern
          |  v:<hex>,<hex>,…             a vector (possibly empty: `v:`)
          |  n:<decimal>                 a natural number
          |  t:<text-without-spaces>     a token (names, flags)
  Bits are the only exact channel: `Float.toString` prints 6 digits.
  No imports (the driver must start fast).
-/

namespace TamocV.Proto

inductive Arg where
  | s : Float → Arg
  | v : List Float → Arg
  | n : Nat → Arg
  | t : String → Arg
  deriving Inhabited

def hexDigit? (c : Char) : Option Nat :=
  if '0' ≤ c ∧ c ≤ '9' then some (c.toNat - '0'.toNat)
  else if 'a' ≤ c ∧ c ≤ 'f' then some (c.toNat - 'a'.toNat + 10)
  else if 'A' ≤ c ∧ c ≤ 'F' then some (c.toNat - 'A'.toNat + 10)
  else none

def parseHex? (s : String) : Option Float :=
  if s.length ≠ 16 then none else
  let r := s.toList.foldl (fun acc c => match acc, hexDigit? c with
    | some a, some d => some (a * 16 + d)
    | _, _ => none) (some 0)
  r.map fun n => Float.ofBits (UInt64.ofNat n)

def hexOfNat (n : Nat) : String :=
  let digs := "0123456789abcdef".toList
  let rec go (k : Nat) (n : Nat) (acc : List Char) : List Char :=
    match k with
    | 0 => acc
    | k+1 => go k (n / 16) (digs.getD (n % 16) '0' :: acc)
  String.ofList (go 16 n [])

def toHex (x : Float) : String := hexOfNat x.toBits.toNat

def parseArg? (tok : String) : Option Arg :=
  if tok.startsWith "v:" then
    let body := (tok.drop 2).toString
    if body.isEmpty then some (.v []) else
    let parts := body.splitOn ","
    let fs := parts.map parseHex?
    if fs.all Option.isSome then some (.v (fs.filterMap id)) else none
  else if tok.startsWith "n:" then
    ((tok.drop 2).toString.toNat?).map Arg.n
  else if tok.startsWith "t:" then
    some (.t (tok.drop 2).toString)
  else (parseHex? tok).map Arg.s

def showArg : Arg → String
  | .s x => toHex x
  | .v xs => "v:" ++ ",".intercalate (xs.map toHex)
  | .n k => "n:" ++ toString k
  | .t s => "t:" ++ s

abbrev Dispatch := String → List Arg → Option (List Arg)

def handle (d : Dispatch) (line : String) : String :=
  let toks := (line.trimAscii.toString.splitOn " ").filter (· ≠ "")
  match toks with
  | [] => "ERR empty"
  | name :: rest =>
    let args := rest.map parseArg?
    if args.all Option.isSome then
      match d name (args.filterMap id) with
      | some out => " ".intercalate (out.map showArg)
      | none => "ERR no-dispatch " ++ name
    else "ERR bad-arg"

partial def loop (d : Dispatch) (h : IO.FS.Stream) (out : IO.FS.Stream) : IO Unit := do
  let line ← h.getLine
  if line.isEmpty then return ()
  out.putStrLn (handle d line)
  loop d h out

def run (d : Dispatch) : IO Unit := do
  let out ← IO.getStdout
  loop d (← IO.getStdin) out
  out.flush

/-- first dispatcher that answers -/
def orElse (a b : Dispatch) : Dispatch := fun n args =>
  match a n args with
  | some r => some r
  | none => b n args

end TamocV.Proto
