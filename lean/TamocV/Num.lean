/-
  TamocV.Num — operations-only numeric class.

  Every model function is written once, generic in `[Num α]`.  `Float` is an
  instance (the line-protocol driver executes the model on IEEE doubles, for the
  correspondence check against /repo) and `ℝ` is an instance (TamocV/Real.lean;
  the property theorems are stated and proved there).  The class carries
  notation only — no laws — so both are instances of the *same* definitions.

  This file imports nothing (the driver must start fast).
-/

class Num (α : Type) extends Add α, Sub α, Mul α, Div α, Neg α, LT α, LE α where
  ofNat : Nat → α
  ofSci : Nat → Bool → Nat → α
  exp : α → α
  log : α → α
  sqrt : α → α
  rpow : α → α → α
  sin : α → α
  cos : α → α
  atan2 : α → α → α
  decLt : (a b : α) → Decidable (a < b)
  decLe : (a b : α) → Decidable (a ≤ b)

namespace Num
variable {α : Type} [Num α]

instance (priority := 50) instOfNat (n : Nat) : OfNat α n := ⟨Num.ofNat n⟩
instance (priority := 50) instOfScientific : OfScientific α := ⟨Num.ofSci⟩
instance (priority := 50) instDecLt (a b : α) : Decidable (a < b) := Num.decLt a b
instance (priority := 50) instDecLe (a b : α) : Decidable (a ≤ b) := Num.decLe a b

/-- natural-number power by repeated multiplication (Python `x**3`, Fortran `x**3`) -/
def npow (x : α) : Nat → α
  | 0 => 1
  | n+1 => npow x n * x

def abs (x : α) : α := if x < 0 then -x else x
def max (a b : α) : α := if a < b then b else a
def min (a b : α) : α := if b < a then b else a
def log10 (x : α) : α := Num.log x / Num.log (10 : α)

/-- Σ of a list, left fold from zero (numpy `np.sum` order is pairwise for long arrays;
    correspondence is compared within tolerance, DESIGN §6) -/
def sum (l : List α) : α := l.foldl (· + ·) 0
def dot (a b : List α) : α := sum (List.zipWith (· * ·) a b)
def smul (c : α) (l : List α) : List α := l.map (c * ·)
def vadd (a b : List α) : List α := List.zipWith (· + ·) a b
def vsub (a b : List α) : List α := List.zipWith (· - ·) a b
def vmul (a b : List α) : List α := List.zipWith (· * ·) a b
def vdiv (a b : List α) : List α := List.zipWith (· / ·) a b

end Num

instance : Num Float where
  ofNat := Float.ofNat
  ofSci := OfScientific.ofScientific
  exp := Float.exp
  log := Float.log
  sqrt := Float.sqrt
  rpow := Float.pow
  sin := Float.sin
  cos := Float.cos
  atan2 := Float.atan2
  decLt := fun a b => Float.decLt a b
  decLe := fun a b => Float.decLe a b
