import TamocV.Num
