#!/bin/sh
# MANIFEST.setup_cmd — run once in /verif after a fresh restore, offline.
# Regenerates the Gen/ models from /repo and builds every Lean module the checks use
# (the cold Mathlib import is paid here once).  Never fails because one module is broken:
# each check rebuilds what it needs and reports on its own.
cd "$(dirname "$0")" || exit 2
export PATH="/usr/local/bin:$PATH"
python3 translate/gen.py --repo "${TAMOC_REPO:-/repo}" || echo "setup: translator reported failures (the affected checks will report them)"
cd lean || exit 2
lake build TamocV.Num TamocV.Proto TamocV.Audit TamocV.Real 2>&1 | tail -3
for m in $(ls TamocV/Props/*.lean 2>/dev/null | sed 's#/#.#g; s#\.lean$##'); do
  echo "setup: building $m"
  lake build "$m" 2>&1 | tail -2
done
for d in Drivers/*.lean; do
  mods=$(grep '^import ' "$d" | sed 's/^import //')
  [ -n "$mods" ] && lake build $mods 2>&1 | tail -1
done
exit 0
