"""
Build /repo/tamoc/src/*.f95 into a shared object (gfortran) in a per-run scratch directory
outside /repo and /verif (removed at exit) and call every subroutine through ctypes with
signatures parsed from the source by translate/f2ir.py (so a changed argument list is seen).
"""
import os
import sys
import atexit
import ctypes
import shutil
import tempfile
import subprocess
import numpy as np

HERE = os.path.dirname(os.path.abspath(__file__))
sys.path.insert(0, os.path.join(HERE, '..', 'translate'))
import f2ir  # noqa: E402

FILES = ['math_funcs.f95', 'dbm_phys.f95', 'dbm_eos.f95']


class FortranLib:
    def __init__(self, repo=None, flags=('-O2',)):
        repo = repo or os.environ.get('TAMOC_REPO', '/repo')
        self.dir = tempfile.mkdtemp(prefix='tamocv_f_')
        atexit.register(shutil.rmtree, self.dir, True)
        srcdir = os.path.join(repo, 'tamoc', 'src')
        so = os.path.join(self.dir, 'libdbm.so')
        cmd = ['gfortran', '-shared', '-fPIC'] + list(flags) + ['-J', self.dir, '-o', so] + \
              [os.path.join(srcdir, f) for f in FILES]
        p = subprocess.run(cmd, stdout=subprocess.PIPE, stderr=subprocess.STDOUT, text=True)
        if p.returncode != 0:
            raise RuntimeError('gfortran failed:\n' + p.stdout[-3000:])
        self.lib = ctypes.CDLL(so)
        self.subs = {}
        for f in FILES:
            _mp, subs = f2ir.parse_units(open(os.path.join(srcdir, f)).read())
            for s in subs:
                self.subs[s.name] = s

    def close(self):
        shutil.rmtree(self.dir, True)

    def signature(self, name):
        s = self.subs[name.lower()]
        return [(a, s.decl[a]['type'], s.decl[a]['intent'], s.decl[a]['dims']) for a in s.args]

    def call(self, name, **kw):
        """call subroutine `name` with intent(in) arguments by (lower-case) keyword;
        returns dict of intent(out) arguments.  Integer dimension arguments may be omitted
        when they can be inferred from a 1-D array argument declared with that dimension."""
        s = self.subs[name.lower()]
        kw = {k.lower(): v for k, v in kw.items()}
        ints = {}
        # local integer parameters (Kvsi_hydrate: NC = 8)
        for nm, d in s.decl.items():
            if d['param'] is not None and d['type'] == 'integer':
                ints[nm] = int(d['param'])
        # infer dimension arguments
        for a in s.args:
            d = s.decl[a]
            if d['type'] == 'integer' and d['intent'] != 'out':
                if a in kw:
                    ints[a] = int(kw[a])
        for a in s.args:
            d = s.decl[a]
            if d['dims'] and a in kw:
                arr = np.asarray(kw[a])
                for k, dim in enumerate(d['dims']):
                    if not dim.isdigit() and dim not in ints and arr.ndim > k:
                        ints[dim] = arr.shape[k]

        def shape(dims):
            return tuple(int(eval(x, {}, dict(ints))) for x in dims)

        cargs, keep, outs = [], [], {}
        for a in s.args:
            d = s.decl[a]
            ty, intent, dims = d['type'], d['intent'], d['dims']
            if dims is None:
                if ty == 'integer':
                    v = ctypes.c_int(int(kw[a]) if intent != 'out' and a in kw else ints.get(a, 0))
                    if intent != 'out' and a not in kw and a not in ints:
                        raise KeyError('missing integer argument %s of %s' % (a, name))
                    if intent == 'out':
                        outs[a] = v
                else:
                    v = ctypes.c_double(float(kw[a]) if intent != 'out' else 0.0)
                    if intent == 'out':
                        outs[a] = v
                keep.append(v)
                cargs.append(ctypes.byref(v))
            else:
                dt = np.complex128 if ty == 'complex' else np.float64
                if intent == 'out':
                    arr = np.zeros(shape(dims), dtype=dt, order='F')
                    outs[a] = arr
                else:
                    arr = np.asfortranarray(np.array(kw[a], dtype=dt).reshape(shape(dims), order='A'))
                keep.append(arr)
                cargs.append(arr.ctypes.data_as(ctypes.c_void_p))
        fn = getattr(self.lib, s.name + '_')
        fn.restype = None
        fn(*cargs)
        res = {}
        for k, v in outs.items():
            res[k] = v.value if not isinstance(v, np.ndarray) else v
        return res
