"""
C01 — Peng–Robinson state is a physical, thermodynamically consistent solution.

proof     : TamocV/Props/C01.lean over the hand model TamocV/Model/Eos.lean
tie       : (H) value correspondence model-at-Float vs dbm_p.coefs / z_pr root selection / fugacity /
            volume_trans / density on every case
real code : dbm.FluidMixture.density / fugacity, dbm_p.z_pr and the compiled Fortran z_pr_/fugacity_/
            density_ (ctypes): reported factors are roots of the mixture's cubic (exact rational residual),
            above B, gas >= liquid, equal when the cubic has one real root (exact discriminant), finite
            positive densities/fugacities, gas not denser; numeric tests of the derivative identities
"""
import math
import os
import common
from fractions import Fraction as Fr
import numpy as np
from common import req, close, relerr, TOL, run_driver
import mixgen

META = {
    'text': 'Theorems (Lean 4, reals, all A, B, compositions and component counts) about a hand model of coefs/z_pr/fugacity/density: cubic at the co-volume limit, equivalence with the PR pressure equation, soundness of the root selection (both reported factors are roots of this cubic, above B, gas >= liquid, equal when one physical root), the criterion for a spurious root below B and that the original threshold picked it, positivity of fugacities and log arguments, sum y*Bp = 1, sum y*Ap = 2, gas not denser than liquid. Refinement theorems tie the hand model to the code REGENERATED from dbm_p.py on every run (translate/py2ir2.py): every output of the regenerated coefs equals that of the model on BOTH interaction-coefficient branches (coefs_refines_no_gc for a user/zero matrix, coefs_refines_gc for the group-contribution double loop), and the regenerated z_pr selects exactly the roots the model selects, so the root-selection theorem and the identities sum y*Bp = 1, sum y*Ap = 2 are also stated for the regenerated routines (Props/C01Gen.lean). The regenerated fugacity and density are refined too (Props/C01Fug.lean): entry (phase, component) of the regenerated fugacity IS the model fugacity of the refined coefficients at the selected root (gen_fugacity_refines), every entry is positive for positive mole fractions and pressure (gen_fugacity_pos), the regenerated density is [[rho(Z_gas)],[rho(Z_liq)]] with rho(Z) = 1/(Z R T/P - sum y vt) sum y M on the regenerated mole_fraction / volume_trans (gen_density_rows), and its gas row is not denser than its liquid row (gen_gas_not_denser); entry i of the regenerated volume_trans is the hand model Lin-Duan translation or user Peneloux shift of component i, branch test included (gen_volume_trans_refines), and the regenerated density rows are the model density at the selected roots (gen_density_refines). The model is additionally tied to dbm_p by value correspondence on every case; the property predicates are evaluated on the real Python and Fortran outputs with an exact rational certificate that each reported factor is a root.',
    'note': 'Trusted: Lean kernel + 3 standard axioms; translator py2ir2 (validated by executing the generated routines against dbm_p in C08); hand model (refined by the regenerated code for coefs on both delta branches, for the root selection, for fugacity and for density; volume translation refined entrywise on both branches); the cubic root finders are a parameter with a contract validated per sample (exact rational residual + exact discriminant); real arithmetic for doubles. Partial: the pressure-derivative identity, Gibbs-Duhem in composition and phi -> 1 as P -> 0 are evaluated by finite differences on the real code (tests, not theorems); positivity of the translated molar volume is sampled.',
    'technique': 'Lean 4 proof over a hand-written executable model refined by a model regenerated from source + value correspondence + exact-rational root certificates on the real code',
}
GEN = ['eosfull']
MODULES = ['TamocV.Props.C01Fug', 'TamocV.Props.C01Gen', 'TamocV.Props.C01GC', 'TamocV.Props.C01', 'TamocV.Model.Eos', 'TamocV.Gen.EosFullPy']
RULE = ('all 27 database compounds singly, pairs (quick: seeded sample, thorough: all 351), random 1-6 component mixtures '
        '(Dirichlet and log-uniform compositions); 260-450 K, 1e4-1e8 Pa log-uniform + targeted states (near each pure critical '
        'point, three-real-root states, A < B+B^2); zero / constant / group-contribution delta; Lin-Duan and user Peneloux; '
        'dbm_p and gfortran backends; non-trivial = distinct (composition, delta mode, rounded T, ln P) key')
LEVEL_NOTE = META['note']


def audit_files():
    return ['TamocV/Num.lean', 'TamocV/Real.lean', 'TamocV/Model/Eos.lean', 'TamocV/Lemmas/Basic.lean',
            'TamocV/Lemmas/Eos.lean', 'TamocV/Lemmas/C01.lean', 'TamocV/Lemmas/EosRefine.lean', 'TamocV/Props/C01.lean', 'TamocV/Lemmas/EosRefineGC.lean', 'TamocV/Props/C01GC.lean', 'TamocV/Props/C01Gen.lean', 'TamocV/Props/C01Fug.lean',
            'TamocV/Gen/EosFullPy.lean']


def exact_cubic(A, B, z):
    A, B, z = Fr(A), Fr(B), Fr(z)
    c = [Fr(1), B - 1, A - 2 * B - 3 * B * B, B ** 3 + B * B - A * B]
    val = ((c[0] * z + c[1]) * z + c[2]) * z + c[3]
    scale = abs(c[0] * z ** 3) + abs(c[1] * z * z) + abs(c[2] * z) + abs(c[3])
    return val, scale


def exact_disc(A, B):
    A, B = Fr(A), Fr(B)
    a, b, c, d = Fr(1), B - 1, A - 2 * B - 3 * B * B, B ** 3 + B * B - A * B
    return 18 * a * b * c * d - 4 * b ** 3 * d + b * b * c * c - 4 * a * c ** 3 - 27 * a * a * d * d


_FEED = {}


def feed_tables():
    """the group-contribution data as the distributed files give them, parsed here and not by the package: per compound the
    FRACTION of each of the 15 Privat-Jaubert groups (counts of PJData.csv divided by the compound's total count; all zero for a
    compound without groups) and the group-interaction tables of Aij.csv / Bij.csv in Pa (the files hold MPa)"""
    if _FEED:
        return _FEED
    import csv
    d = os.path.join(common.REPO, 'tamoc', 'data')
    rows = list(csv.reader(open(os.path.join(d, 'PJData.csv'), encoding='utf-8-sig')))
    frac = {}
    for row in rows[3:]:
        if not row or not row[0].strip():
            continue
        cnt = [float(x) for x in row[1:16]]
        tot = sum(cnt)
        frac[row[0].strip()] = [c / tot if tot else 0.0 for c in cnt]
    _FEED['groups'] = frac
    # critical constants of ChemData.csv in SI, with the conversion factors written out here (g/mol, psia, deg F): what
    # C15 proves about the package's loader is not assumed
    rows = list(csv.reader(open(os.path.join(d, 'ChemData.csv'), encoding='utf-8-sig')))
    head, units = [h.strip() for h in rows[0]], [u.strip() for u in rows[1]]
    col = {h: i for i, h in enumerate(head)}
    assert (units[col['M']], units[col['Pc']], units[col['Tc']], units[col['Vc']], units[col['omega']]) == \
        ('(g/mol)', '(psia)', '(deg F)', '(m^3/mol)', '(--)'), 'ChemData.csv units changed: update the factors in feed_tables'
    crit = {}
    for row in rows[2:]:
        if not row or not row[0].strip():
            continue
        crit[row[0].strip()] = {'M': float(row[col['M']]) * 1e-3, 'Pc': float(row[col['Pc']]) * 6894.76,
                                'Tc': (float(row[col['Tc']]) - 32.) * 5. / 9. + 273.15, 'Vc': float(row[col['Vc']]),
                                'omega': float(row[col['omega']])}
    _FEED['crit'] = crit
    for nm in ('Aij', 'Bij'):
        _FEED[nm] = [[float(x) * 1e6 for x in row] for row in csv.reader(open(os.path.join(d, nm + '.csv'))) if row]
    return _FEED


def gen_cases(ctx):
    r = ctx.rng
    comps = mixgen.compounds(include_water=True)
    cases = []
    # singles
    for c in comps:
        for _ in range(ctx.n(2, 30)):
            cases.append(([c], None))
    # pairs
    pairs = [(a, b) for i, a in enumerate(comps) for b in comps[i + 1:]]
    if not ctx.thorough:
        pairs = r.sample(pairs, 60)
    for p in pairs:
        for _ in range(ctx.n(1, 4)):
            cases.append((list(p), None))
    for _ in range(ctx.n(300, 20000)):
        cases.append((mixgen.composition(r, 1, 6, exclude=()), None))
    return cases


_EDGE = [None]


def near_edge(r, dbm_p, fm, m):
    """a state (T, P) within 1e-10..1e-5 relative (in P) of a sign change of the EXACT discriminant of the mixture's cubic, or
    None if the scan along P at a random T finds no sign change"""
    e = mixgen.eos_args(fm)
    T = r.uniform(260., 0.98 * float(np.max(fm.Tc))) if float(np.max(fm.Tc)) > 270. else None
    if T is None:
        return None

    def disc(P):
        with np.errstate(all='ignore'):
            _z, A, B, _a, _b, _y = dbm_p.z_pr(T, P, m, e['Mol_wt'], e['Pc'], e['Tc'], e['omega'], e['delta'].copy(), e['Aij'], e['Bij'],
                                              e['delta_groups'], e['calc_delta'])
        return exact_disc(A, B)
    grid = np.exp(np.linspace(math.log(1e4), math.log(1e8), 40))
    sg = [disc(P) > 0 for P in grid]
    flips = [i for i in range(len(grid) - 1) if sg[i] != sg[i + 1]]
    if not flips:
        return None
    i = r.choice(flips)
    lo, hi = float(grid[i]), float(grid[i + 1])
    for _ in range(60):
        mid = math.sqrt(lo * hi)
        if (disc(mid) > 0) == sg[i]:
            lo = mid
        else:
            hi = mid
    P = lo * (1. + r.choice([-1., 1.]) * 10 ** r.uniform(-10, -5))
    _EDGE[0] = (T, P)
    return _EDGE[0]


def run(ctx, lean_ok):
    from tamoc import dbm_p
    import fortran
    r = ctx.rng
    try:
        F = fortran.FortranLib()
        ctx.oblige('gfortran build of tamoc/src/*.f95', True)
    except Exception as e:
        ctx.oblige('gfortran build of tamoc/src/*.f95', False, str(e)[-1500:])
        F = None

    lines, recs = [], []
    worst_res = 0.0
    nfeed = 0
    ncrit = 0
    nfd = {'dlnphi_dlnP': 0, 'gibbs_duhem': 0, 'phi_to_one': 0, 'skipped_discontinuous': 0}
    def items():
        # every generated case, and after a quarter of them a FOLLOW-UP on the same FluidMixture object that shares all but one
        # of (masses, T, P) with the call before: anything remembered between calls under an incomplete key answers the
        # follow-up with the previous state's values, which the correspondences and predicates below judge against the
        # inputs of the follow-up itself
        for comp, _ in gen_cases(ctx):
            first = yield_case(comp)
            yield first
            if r.random() < 0.25:
                fm, d, m, T, P, _tag = first[1:]
                w = r.choice(['m', 'T', 'P'])
                if w == 'm':
                    m = mixgen.masses(r, len(comp))
                elif w == 'T':
                    T = min(max(T + r.choice([-1, 1]) * r.uniform(5., 60.), 260.), 450.)
                else:
                    P = min(max(P * math.exp(r.choice([-1, 1]) * r.uniform(0.3, 2.)), 1e4), 1e8)
                yield (comp, fm, d, m, T, P, 'follow-up:' + w)

    def yield_case(comp):
        n = len(comp)
        fm, d = mixgen.mixture(r, comp=comp)
        m = mixgen.masses(r, n)
        u = r.random()
        if u < 0.15 and n >= 1:
            k = r.randrange(n)     # near the critical point of one component
            T = fm.Tc[k] * (1 + r.uniform(-0.02, 0.02))
            P = fm.Pc[k] * (1 + r.uniform(-0.02, 0.02))
            T = min(max(T, 260.), 450.)
            P = min(max(P, 1e4), 1e8)
            tag = 'near-critical'
        elif u < 0.3:
            T, P = r.uniform(380., 450.), math.exp(r.uniform(math.log(1e4), math.log(1e6)))   # light gases hot: A < B+B^2
            tag = 'hot-low-P'
        elif u < 0.45 and (near_edge(r, dbm_p, fm, m) is not None):
            # a hair off the EDGE of the three-real-root region (two roots merge: spinodal / near-critical states), where a root
            # finder's "treat as zero" tolerances decide what is reported
            T, P = _EDGE[0]
            tag = 'near-double-root'
        else:
            T, P = mixgen.state(r)
            tag = 'uniform'
        return (comp, fm, d, m, T, P, tag)

    for comp, fm, d, m, T, P, tag in items():
        n = len(comp)
        e = mixgen.eos_args(fm)
        # "that mixture's" cubic: the object layer must hand the library the constants of the distributed data.  With
        # group-contribution coefficients these are the group fractions of each compound and the two interaction tables
        ft = feed_tables()
        # (with a user volume shift mixgen hands over user_data that copy the database values of every other constant, so the
        # comparison with the file holds on that constructor path too)
        for att, key, rt in (('M', 'M', 1e-12), ('Pc', 'Pc', 1e-6), ('Tc', 'Tc', 1e-9), ('omega', 'omega', 1e-12), ('Vc', 'Vc', 1e-12)):
            want_c = np.array([ft['crit'][c][key] for c in comp])
            got_c = np.asarray(getattr(fm, att), dtype=float)
            if got_c.shape != want_c.shape or not np.allclose(got_c, want_c, rtol=rt, atol=0):
                ctx.violation('object-feeds-wrong-constants:' + att,
                              'FluidMixture hands the library critical constants that are not those of ChemData.csv',
                              {'composition': comp, 'attribute': att, 'peneloux': d['peneloux'], 'object': got_c.tolist(),
                               'file_SI': want_c.tolist()})
        ncrit += 1
        # user inputs: the interaction table and the volume shifts the library receives are the ones DRAWN by the generator
        if d.get('delta_drawn') is not None:
            got_d = np.asarray(fm.delta, dtype=float)
            if got_d.shape != d['delta_drawn'].shape or not np.array_equal(got_d, d['delta_drawn']):
                ctx.violation('object-feeds-wrong-constants:delta', 'FluidMixture does not hand the user interaction table to the library',
                              {'composition': comp, 'object': got_d.tolist(), 'given': d['delta_drawn'].tolist()})
        for i_, c in enumerate(comp):
            if c in d.get('pen_drawn', {}):
                want_p = d['pen_drawn'][c]
                got_p = (float(np.asarray(fm.C_pen)[i_]), float(np.asarray(fm.C_pen_T)[i_]))
                if got_p != want_p:
                    ctx.violation('object-feeds-wrong-constants:C_pen', 'FluidMixture does not hand the user volume shift to the library',
                                  {'composition': comp, 'compound': c, 'object': got_p, 'given': want_p})
            elif d['peneloux'] and float(np.asarray(fm.C_pen)[i_]) != 0.0:
                ctx.violation('object-feeds-wrong-constants:C_pen', 'a compound without a user volume shift does not carry the database value 0 '
                              '(Lin-Duan estimate selected by C_pen = 0)', {'composition': comp, 'compound': c,
                                                                            'object': float(np.asarray(fm.C_pen)[i_])})
        if d['delta_mode'] == 'groups':
            want = np.array([ft['groups'].get(c, [0.0] * 15) for c in comp])
            got = np.asarray(fm.delta_groups, dtype=float)
            ok_g = got.shape == want.shape and bool(np.allclose(got, want, rtol=1e-12, atol=0))
            ok_a = bool(np.allclose(np.asarray(fm.Aij, dtype=float), np.array(ft['Aij']), rtol=1e-12, atol=0, equal_nan=True))
            ok_b = bool(np.allclose(np.asarray(fm.Bij, dtype=float), np.array(ft['Bij']), rtol=1e-12, atol=0, equal_nan=True))
            nfeed += 1
            if not (ok_g and ok_a and ok_b):
                ctx.violation('object-feeds-wrong-group-data:' + ('groups' if not ok_g else 'Aij' if not ok_a else 'Bij'),
                              'FluidMixture hands the library group-contribution data that are not those of the distributed files: '
                              'the cubic solved is not this mixture\'s',
                              {'composition': comp, 'groups_array': d.get('groups_array'), 'delta_groups_object': got.tolist(),
                               'delta_groups_files': want.tolist(), 'Aij_ok': ok_a, 'Bij_ok': ok_b})
        args = (T, P, m, e['Mol_wt'], e['Pc'], e['Tc'], e['omega'], e['delta'].copy(), e['Aij'], e['Bij'], e['delta_groups'], e['calc_delta'])
        with np.errstate(all='ignore'):
            z, A, B, Ap, Bp, yk = dbm_p.z_pr(*args)
            pc = [1., B - 1., A - 2. * B - 3. * B ** 2, B ** 3 + B ** 2 - A * B]
            roots = np.asarray(dbm_p.cubic_roots(np.array(pc)), dtype=complex)
            fug = fm.fugacity(m.copy(), T, P)
            rho = fm.density(m.copy(), T, P)
            vt = dbm_p.volume_trans(T, P, m, e['Mol_wt'], e['Pc'], e['Tc'], e['Vc'], e['C_pen'], e['C_pen_T'])
        zg, zl = float(z[0, 0]), float(z[1, 0])
        ctx.evaluations += 1
        key = (tuple(comp), d['delta_mode'], d['peneloux'], round(T, 2), round(math.log(P), 2))
        ctx.nontrivial.add(key)
        disc = exact_disc(A, B)
        nreal = 3 if disc > 0 else 1
        spurious = A < B + B * B
        ctx.count('%s:%s:real%d%s' % (tag, d['delta_mode'], nreal, ':A<B+B2' if spurious else ''))
        case = {'composition': comp, 'mass': m.tolist(), 'T': T, 'P': P, 'delta_mode': d['delta_mode'], 'peneloux': d['peneloux'],
                'A': float(A), 'B': float(B), 'z': [zg, zl], 'roots': [str(x) for x in roots]}
        ctx.sample(case)

        def check_state(zg, zl, fug, rho, backend):
            nonlocal worst_res
            for nm, zz in (('gas', zg), ('liquid', zl)):
                if not math.isfinite(zz):
                    ctx.violation('z-not-finite:' + backend, 'reported compressibility factor is not finite', dict(case, backend=backend, phase=nm))
                    return
                val, scale = exact_cubic(A, B, zz)
                res = float(abs(val) / scale) if scale != 0 else 0.0
                worst_res = max(worst_res, res)
                if res > 1e-9:
                    ctx.violation('z-not-a-root:' + backend, 'reported %s compressibility factor is not a root of the mixture cubic (exact relative residual %.3g)' % (nm, res),
                                  dict(case, backend=backend, phase=nm, z=zz, residual=res))
                if not zz > B:
                    ctx.violation('z-below-covolume:' + backend, 'reported %s compressibility factor is not above the co-volume limit B' % nm,
                                  dict(case, backend=backend, phase=nm, z=zz))
            if zg < zl:
                ctx.violation('gas-root-smaller:' + backend, 'gas compressibility factor smaller than liquid', dict(case, backend=backend))
            if nreal == 1 and abs(zg - zl) > 1e-9 * abs(zg):
                ctx.violation('one-root-two-states:' + backend, 'cubic has one real root (exact discriminant < 0) but phases report different states',
                              dict(case, backend=backend, z_backend=[zg, zl]))
            fug = np.asarray(fug, dtype=float)
            rho = np.asarray(rho, dtype=float).ravel()
            if not (np.all(np.isfinite(fug)) and np.all(fug > 0)):
                ctx.violation('fugacity-not-positive-finite:' + backend, 'fugacity not finite and positive', dict(case, backend=backend, fugacity=fug.tolist()))
            if not (np.all(np.isfinite(rho)) and np.all(rho > 0)):
                ctx.violation('density-not-positive-finite:' + backend, 'density not finite and positive', dict(case, backend=backend, density=rho.tolist()))
            elif rho[0] > rho[1] * (1 + 1e-12):
                ctx.violation('gas-denser-than-liquid:' + backend, 'gas density exceeds liquid density', dict(case, backend=backend, density=rho.tolist()))

        check_state(zg, zl, fug, rho, 'python')
        # consistency of coefficients on the real outputs (what the theorems say about the model)
        sB, sA = float(np.sum(yk * Bp)), float(np.sum(yk * Ap))
        if not (close(sB, 1.0, 1e-10) and close(sA, 2.0, 1e-10)):
            ctx.violation('sum-y-Ap-Bp', 'sum y*Bp != 1 or sum y*Ap != 2 on the real coefficients', dict(case, sum_y_Bp=sB, sum_y_Ap=sA))

        if F is not None:
            fa = dict(T=T, P=P, mass=m, Mol_wt=e['Mol_wt'], Pc=e['Pc'], Tc=e['Tc'], omega=e['omega'], delta=e['delta'], Aij=e['Aij'],
                      Bij=e['Bij'], delta_groups=e['delta_groups'], calc_delta=e['calc_delta'])
            zf = F.call('z_pr', **fa)['z']
            ff = F.call('fugacity', **fa)['fug']
            rf = F.call('density', Vc=e['Vc'], C_pen=e['C_pen'], C_pen_T=e['C_pen_T'], **fa)['rho']
            check_state(float(zf[0, 0]), float(zf[1, 0]), ff, rf, 'fortran')

        # ---- numeric consistency tests on the real code (tests, not theorems) -------------------------
        if r.random() < (0.3 if not ctx.thorough else 0.2) and np.all(np.isfinite(fug)) and np.all(fug > 0):
            h = 1e-5
            with np.errstate(all='ignore'):
                zp = dbm_p.z_pr(T, P * (1 + h), *args[2:])[0]
                zm = dbm_p.z_pr(T, P * (1 - h), *args[2:])[0]
                fp = fm.fugacity(m.copy(), T, P * (1 + h))
                fmn = fm.fugacity(m.copy(), T, P * (1 - h))
            for row in (0, 1):
                zc = float(z[row, 0])
                if abs(zp[row, 0] - zc) > 1e-3 * abs(zc) or abs(zm[row, 0] - zc) > 1e-3 * abs(zc):
                    nfd['skipped_discontinuous'] += 1
                    continue
                lp = np.log(fp[row] / (yk * P * (1 + h)))
                lm = np.log(fmn[row] / (yk * P * (1 - h)))
                dln = (lp - lm) / (math.log(1 + h) - math.log(1 - h))
                lhs = float(np.sum(yk * dln))
                nfd['dlnphi_dlnP'] += 1
                if abs(lhs - (zc - 1.)) > 1e-5 * max(1., abs(zc - 1.)) + 1e-6:
                    ctx.violation('dlnphi-dlnP-ne-Z-1', 'mole-weighted d ln(phi)/d ln(P) differs from Z-1 (finite differences)',
                                  dict(case, row=row, lhs=lhs, Zminus1=zc - 1.))
            # Gibbs-Duhem in composition: sum_i n_i d ln(phi_i)/d n_j = 0 (perturb a non-trace component)
            nmol = m / e['Mol_wt']
            big = [k for k in range(n) if yk[k] >= 0.05]
            if n >= 2 and big:
                j = r.choice(big)
                hp = 1e-4
                mp_, mm_ = m.copy(), m.copy()
                mp_[j] *= (1 + hp)
                mm_[j] *= (1 - hp)
                with np.errstate(all='ignore'):
                    f1, f0 = fm.fugacity(mp_, T, P), fm.fugacity(mm_, T, P)
                    z1 = dbm_p.z_pr(T, P, mp_, *args[3:])[0]
                    z0 = dbm_p.z_pr(T, P, mm_, *args[3:])[0]
                y1 = (mp_ / e['Mol_wt']) / np.sum(mp_ / e['Mol_wt'])
                y0 = (mm_ / e['Mol_wt']) / np.sum(mm_ / e['Mol_wt'])
                for row in (0, 1):
                    zc = float(z[row, 0])
                    if abs(z1[row, 0] - zc) > 1e-3 * abs(zc) or abs(z0[row, 0] - zc) > 1e-3 * abs(zc):
                        nfd['skipped_discontinuous'] += 1
                        continue
                    # in mole-fraction weighted, dimensionless form: sum_i y_i * d ln(phi_i) / d ln(n_j)
                    dl = (np.log(f1[row] / (y1 * P)) - np.log(f0[row] / (y0 * P))) / (2 * hp)
                    gd = float(np.sum(yk * dl))
                    nfd['gibbs_duhem'] += 1
                    scale = float(np.sum(np.abs(yk * dl)))
                    # truncation O(hp^2) relative to the terms + rounding noise 1e-15/hp per term
                    if abs(gd) > 1e-5 * scale + 1e-9:
                        ctx.violation('gibbs-duhem', 'sum_i y_i d ln(phi_i)/d ln(n_j) is not zero (finite differences)',
                                      dict(case, row=row, j=j, value=gd, scale=scale))
            with np.errstate(all='ignore'):
                f_lo = fm.fugacity(m.copy(), T, 1e-2)
            phi = f_lo[0] / (yk * 1e-2)
            nfd['phi_to_one'] += 1
            if not np.all(np.abs(phi - 1.) < 1e-5):
                ctx.violation('phi-not-one-at-low-P', 'fugacity coefficient does not tend to one as P -> 0', dict(case, phi=phi.tolist()))

        # ---- model correspondence lines -----------------------------------------------------------------
        rflat = []
        for x in roots:
            rflat += [float(np.real(x)), float(np.imag(x))]
        lines.append(req('Eos.coefs', T, P, m, e['Mol_wt'], e['Pc'], e['Tc'], e['omega'], 1 if e['calc_delta'] > 0 else 0,
                         np.asarray(e['delta_groups']).ravel(), np.asarray(e['Aij']).ravel(), np.asarray(e['Bij']).ravel(),
                         np.asarray(e['delta']).ravel()))
        lines.append(req('Eos.selectZ', float(B), rflat))
        lines.append(req('Eos.fugacity', float(A), float(B), Ap, Bp, yk, P, zg))
        if e['C_pen'][0] == 0.:
            lines.append(req('Eos.volTransLD', T, e['Pc'], e['Tc'], e['Vc']))
        else:
            lines.append(req('Eos.volTransUser', T, e['C_pen'], e['C_pen_T']))
        lines.append(req('Eos.density', T, P, zg, yk, e['Mol_wt'], vt))
        lines.append(req('Eos.fugacity', float(A), float(B), Ap, Bp, yk, P, zl))          # liquid row
        lines.append(req('Eos.density', T, P, zl, yk, e['Mol_wt'], vt))
        recs.append((case, [float(A), float(B)] + list(Ap) + list(Bp) + list(yk), [zg, zl], list(fug[0]), list(vt), float(rho[0, 0]),
                     e['calc_delta'] > 0, list(fug[1]), float(rho[1, 0])))

    if F is not None:
        F.close()
    # floors: the run must actually have reached the regimes named in the quantifier
    def tot(sub):
        return sum(v for k, v in ctx.hist.items() if sub in k)
    floors = {'near-double-root': 15, 'near-critical': 20, 'hot-low-P': 20, ':real3': 10, 'A<B+B2': 10, ':zero:': 30, ':const:': 30, ':groups:': 30}
    for sub, need in floors.items():
        ctx.oblige('coverage floor: at least %d states of class %r (got %d)' % (need, sub, tot(sub)), tot(sub) >= need)
    ctx.oblige('coverage floor: finite-difference consistency tests actually ran (%r)' % nfd,
               nfd['dlnphi_dlnP'] >= 50 and nfd['gibbs_duhem'] >= 20 and nfd['phi_to_one'] >= 30)
    ctx.notes.append('worst exact relative residual of a reported root: %.3g' % worst_res)
    ctx.notes.append('finite-difference tests run (labelled tests, not theorems): %r' % nfd)
    ctx.oblige('coverage floor: group-contribution mixtures whose object-layer feed was compared with the distributed files (%d; critical constants of %d mixtures)' % (nfeed, ncrit), nfeed >= 40 and ncrit >= 100)

    out = run_driver(ctx, 'C01', lines) if lean_ok else None
    if out is not None:
        bad = {'coefs': 0, 'selectZ': 0, 'fugacity': 0, 'volume_trans': 0, 'density': 0, 'fugacity(liquid row)': 0, 'density(liquid row)': 0}
        for i, (case, cf, zz, fg, vt, rho0, gc, fgl, rho1) in enumerate(recs):
            o = out[7 * i:7 * i + 7]

            def fl(x):
                res = []
                for a in x:
                    res += a if isinstance(a, list) else [a]
                return res
            got = [fl(x) if isinstance(x, list) else None for x in o]
            exp = [cf, zz, fg, vt, [rho0], fgl, [rho1]]
            # the group-contribution sum is a 225-term sum with cancellation: looser tolerance there
            tols = [1e-9 if gc else TOL['gen_vs_source'], 0.0, 1e-10, TOL['gen_vs_source'], 1e-10, 1e-10, 1e-10]
            for k, nm in enumerate(bad):
                if got[k] is None or not close(got[k], exp[k], tols[k]) and not (tols[k] == 0.0 and got[k] == exp[k]):
                    bad[nm] += 1
                    if bad[nm] <= 2:
                        ctx.broken.append(('correspondence', 'Model.Eos.%s vs dbm_p' % nm, 'case=%r model=%r code=%r' % (case, got[k], exp[k])))
        for nm, b in bad.items():
            ctx.oblige('correspondence Model.Eos.%s == dbm_p on %d cases' % (nm, len(recs)), b == 0, '%d disagreements' % b)

