"""
C06 — Stratified-plume inner/outer exchange is conservative.

proof        : TamocV/Props/C06.lean over Model.Smp (hand transcription of smp.derivs_inner,
               smp.derivs_outer and OuterPlume.update): for ANY derived inner/outer records, parameters,
               any number of particles and chemicals the RETURNED vectors satisfy
                   inner + outer                         = E            (volume)
                   inner + outer                         = E*Sa         (salt)
                   inner_diss_j + sum_p inner_mass_pj + outer_j = E*ca_j (compound j)
                   inner_3 + sum_p inner_heat_p + outer_3 = rho_r*cp*E*Ta - sum_pj inner_mass_pj*neg_dH_solR_j*Ru/M_j
               with E = 2*pi*b_o*alpha_3*u_o, composed with OuterPlume.update (present branch: E in terms of the
               outer STATE, E <= 0; absent branch: the inner plume entrains ambient values), and the outer vector
               when no inner plume exists.
tie          : (H) real InnerPlume/OuterPlume/PlumeParticle objects, real smp.derivs_inner / derivs_outer
               called at the same depth with each other's state as neighbour; the derived attributes left in
               yi / yo / particles are sent to the Lean driver, which recomputes both vectors (slot by slot,
               TOL gen_vs_source).  ANY slot-wise disagreement is a broken obligation.
oracle       : the harness computes, independently of the objects, the ambient values at the depth of the call
               (own interpolation, by name, of the raw table handed to ambient.Profile; seawater.density) and the derived variables of both plumes from the
               two STATE vectors (u=J/Q, b, s=S/Q, T=H/(rho_r cp Q), c=C/Q; ambient substitution when a plume is
               absent); the attributes of the real objects are compared with them, and the identities are
               evaluated with the ORACLE values on the right-hand side, on the vectors the real code returned.
"""
import math
import traceback
import warnings

import numpy as np

from common import req, close, TOL, run_driver
import scen_spm as S

META = {
    'text': 'Theorems (Lean 4, over the reals, for all derived states, parameters, any number of particle classes and '
            'chemicals, by induction over the particle and chemical lists): the vectors returned by the model of '
            'smp.derivs_inner (sign-flipped) and smp.derivs_outer add up, slot by slot and summed over the particle '
            'mass/heat slots, to the ambient entrainment into the outer plume alone (E, E*Sa, E*ca_j, rho_r*cp*E*Ta '
            'plus the heat of solution of the dissolution gradients); composed with OuterPlume.update, E is expressed in '
            'the outer state and is <= 0 for Q<0, J>0, and for Q>=0 the inner plume entrains ambient values; without an '
            'inner plume the outer vector is the ambient entrainment alone. The model is tied to the code by running the '
            'real smp.derivs_inner/derivs_outer on real InnerPlume/OuterPlume objects (states from real short '
            'simulations, perturbed; outer states arbitrary with Q<0,J>0 or absent; inner absent; 1-5 particle classes; '
            'with and without background concentrations; model parameters varied, c1 != 0 included) and comparing every '
            'slot with the Lean model at Float. Independently of the objects, the harness looks the ambient up at the '
            'depth of the call and derives u,b,s,T,c of both plumes from the state vectors; the objects are compared with '
            'this oracle and the identities are evaluated on the real vectors with the oracle values on the right-hand side.',
    'note': 'Trusted: Lean kernel + 3 standard axioms; my transcription Model/Smp.lean (tied by slot-wise correspondence '
            'on every case; any disagreement is a broken obligation); real arithmetic as stand-in for doubles. Read back '
            'from the real objects, not verified: the closures shear_entrainment (alpha_s), cp_model (Ep), the void '
            'fraction / buoyancy (Xi, Fb) and the dbm particle properties (us, A, beta, Cs, rho_p, beta_T) — physical '
            'laws the conservation identities do not depend on. seawater.density is used by the oracle as given (C13). ALL ambient reference values (T, S, P and the concentrations) '
            'are interpolated by the harness itself, by name, from the raw table it handed to ambient.Profile (pressure = own '
            'hydrostatic integration; chemical columns stored in another order than requested, supersets, missing names); the '
            'Profile objects are built with err=0, stabilize_profile=False so that they interpolate exactly those nodes. The momentum, age and position slots are transcribed and compared but the property '
            'makes no claim about them. STATED SCOPE LIMIT: all soluble particle classes of a scenario share one composition '
            'list — a documented precondition of tamoc ("All particles have the same composition", dispersed_phases.py '
            'l.1034; derivs_inner indexes beta[j], Cs[j] of every soluble particle by the position j in the common list). '
            'Conservation per NAMED compound for differing lists is outside the property as checked; a separate labelled '
            'probe runs permuted and subset lists and records what the code does as an evidence note only.',
    'technique': 'Lean 4 proof (ring + list induction) over a hand model + slot-wise differential execution against the real code + independent oracle for ambient/derived values + identities on real outputs',
}
GEN = []
MODULES = ['TamocV.Props.C06', 'TamocV.Model.Smp']
RULE = ('scenarios: seeded specs (scen_spm.random_spec) with 0-4 soluble + 0-4 inert particle classes (1-5 classes; ALL soluble '
        'classes of a scenario share one composition list of 1-3 compounds — tamoc precondition, see note), profile depth '
        '400-2000 m, with/without background concentrations; a short REAL simulation per scenario gives inner (and outer) '
        'solutions. Case kinds per scenario: simulated-pair (simulated inner row + simulated outer state at the same depth '
        'through the real neighbour interpolators); outer-arbitrary (perturbed inner row — fluxes, s, T, c, particle '
        'masses/temperatures/ages, thin plumes — at its own or a random depth with an ARBITRARY outer state Q<0, J>0: u_o 1e-3..1 m/s, '
        's_o 0..40, T_o 272..305 K, c_o 0..1e-2); outer-absent-zeros / -above (z<min(neighbor.x) branch) / -Qge0 (Q>=0 with '
        'non-zero other slots); inner-absent-zeros / -below (z>max(neighbor.x) branch; derivs_outer only, Q_i = 0); model '
        'parameters c1, alpha_2, alpha_3, gamma_i, gamma_o, lambda_2 redrawn in half of the cases. Floors on completed state '
        'pairs per kind are obligations. A case is non-trivial when its (scenario, z, Q_i, J_i, Q_o, J_o) differ from every '
        'earlier case and all vectors are finite')
LEVEL_NOTE = ('theorems over the reals about the hand-written model Model/Smp.lean of smp.derivs_inner/derivs_outer/'
              'OuterPlume.update; the tie to /repo is slot-wise agreement at Float on every generated case; ambient and derived '
              'variables are checked against an independent oracle; the closures alpha_s, Ep, Xi, Fb and the particle '
              'properties enter as the values the real objects hold')

KINDS = ['simulated-pair', 'outer-arbitrary', 'outer-absent-zeros', 'outer-absent-above', 'outer-absent-Qge0',
         'inner-absent-zeros', 'inner-absent-below']
# minimum number of COMPLETED state pairs per kind (quick, thorough)
FLOORS = {'simulated-pair': (10, 300), 'outer-arbitrary': (200, 5000), 'outer-absent-zeros': (25, 600),
          'outer-absent-above': (20, 500), 'outer-absent-Qge0': (20, 500), 'inner-absent-zeros': (10, 200),
          'inner-absent-below': (10, 200)}


def audit_files():
    return ['TamocV/Num.lean', 'TamocV/Real.lean', 'TamocV/Model/Smp.lean', 'TamocV/Lemmas/C06.lean',
            'TamocV/Props/C06.lean']


# ---------------------------------------------------------------------------
# scenarios and cases
# ---------------------------------------------------------------------------

SINGLE = [['methane'], ['ethane'], ['oxygen'], ['nitrogen']]


def scenario_plan(ctx):
    """(n_sol, n_inert, background, strip, comp) per scenario; comp = 'single' (exactly ONE tracked compound), 'multi'
    (>= 2) or None (no soluble class / strip scenarios).  EVERY run has: a single-compound soluble class alone and one
    beside an inert class (one with, one without ambient background of the compound), an inert-only plume (no tracked
    compound at all), 1..5 classes with >= 2 compounds, and the two scenarios whose first soluble class lists a
    tracked compound it is released without (alone / mixed)."""
    base = [(2, 1, False), (3, 2, True)]
    extra = [(2, 0, True), (1, 2, True), (2, 2, True), (1, 3, True), (3, 1, False), (1, 0, True),
             (2, 3, True), (4, 1, True), (1, 4, False), (1, 1, True), (1, 0, False)]
    r = ctx.rng
    b = r.random() < 0.5
    if ctx.thorough:
        plan = [(1, 0, False, None, 'single'), (1, 0, True, None, 'single'), (1, 1, False, None, 'single'),
                (1, 2, True, None, 'single'), (2, 1, True, None, 'single'),
                (0, 1, False, None, None), (0, 2, True, None, None)]
        plan += [t + (None, 'multi') for t in base + extra]
        plan += [(1, 0, True, 'alone', None), (1, 2, True, 'alone', None), (2, 0, True, 'mixed', None), (3, 1, True, 'mixed', None),
                 (2, 1, False, 'mixed', None)]
    else:
        plan = [(1, 0, b, None, 'single'), (1, r.choice([1, 2]), not b, None, 'single'),
                (0, r.choice([1, 2]), r.random() < 0.5, None, None),
                base[1] + (None, 'multi'), r.choice([t for t in extra if t[2]]) + (None, 'multi'),
                (1, r.choice([0, 1]), True, 'alone', None), (r.choice([2, 3]), r.choice([0, 1]), True, 'mixed', None)]
    return plan


def plan_composition(rng, comp):
    if comp == 'single':
        return list(rng.choice(SINGLE))
    if comp == 'multi':
        return list(rng.choice([c for c in S.COMPOSITIONS if len(c) >= 2]))
    return None


def draw_params(rng):
    return {
        'c1': rng.choice([0., rng.uniform(0.05, 1.0), rng.uniform(0.05, 1.0)]),
        'alpha_2': rng.uniform(0.03, 0.3), 'alpha_3': rng.uniform(0.03, 0.3),
        'gamma_i': rng.uniform(1.0, 1.3), 'gamma_o': rng.uniform(1.0, 1.3),
        'lambda_2': rng.uniform(0.8, 1.2),
    }


def draw_outer(rng, sc, z, yi_state, nchems):
    """arbitrary outer state with downward flow: Q < 0, J > 0"""
    from tamoc import seawater
    Qi = max(float(yi_state[0]), 1e-6)
    Q = -Qi * 10 ** rng.uniform(-1.5, 1.2)
    u = -10 ** rng.uniform(-3, 0)
    J = Q * u
    Ta, Sa = [S.table_value(sc.table, z, nm) for nm in ('temperature', 'salinity')]
    if rng.random() < 0.6:
        s = min(max(Sa + rng.gauss(0., 0.5), 0.), 42.)
        T = min(max(Ta + rng.gauss(0., 1.5), 271.5), 310.)
    else:
        s = rng.uniform(0., 40.)
        T = rng.uniform(272., 305.)
    c = [rng.choice([0., 10 ** rng.uniform(-7, -2)]) for _ in range(nchems)]
    return np.array([Q, J, s * Q, T * sc.p.rho_r * seawater.cp() * Q] + [ck * Q for ck in c], dtype=float)


def make_cases(ctx, sc, sim, n):
    r = ctx.rng
    zi, yis, zo, yos = sim
    nchems = len(sc.chem_names)
    good = [k for k in range(len(zi)) if yis[k][0] > 0 and yis[k][1] > 0 and np.all(np.isfinite(yis[k]))]
    cases = []
    if not good:
        return cases
    strip = sc.spec.get('strip')
    alive = good
    lay, _idiss = S.inner_layout(sc.particles, nchems)
    watch = [lay[strip['class']]] if strip else [l for l, pt in zip(lay, sc.particles) if pt.particle.issoluble]
    if watch:
        # rows in which the stripping class (or, elsewhere, every soluble class) still carries mass: a fully dissolved
        # class exchanges nothing
        def mass(k, l):
            return float(np.sum(yis[k][l['m0']:l['m0'] + l['nc']]))
        alive = [k for k in good if all(mass(k, l) > 1e-3 * mass(good[0], l) for l in watch)] or good
    zmin_i, zmax_i = float(np.min(zi)), float(np.max(zi))
    have_outer = sc.nb_o is not None and len(zo) > 1 and np.any(yos[:, 0] < 0)
    H = sc.spec['profile']['H']
    for _ in range(n):
        u = r.random()
        case = {'p': draw_params(r) if r.random() < 0.5 else {}}
        if u < 0.13 and have_outer:
            # simulated pair through the real neighbour interpolators
            lo = max(zmin_i, float(np.min(zo)) - (5. if r.random() < 0.3 else 0.))
            hi = min(zmax_i, float(np.max(zo)))
            if not lo < hi:
                lo, hi = zmin_i, zmax_i
            case.update({'kind': 'simulated-pair', 'z': min(max(r.uniform(lo, hi), zmin_i), zmax_i)})
        elif u < 0.19:
            # no inner plume (the outer plume has descended below the release): derivs_outer only
            k = r.choice(good)
            z = r.uniform(0.05, 0.98) * H
            yi0 = np.zeros(len(yis[k]))
            case.update({'kind': r.choice(['inner-absent-zeros', 'inner-absent-below']), 'z': z, 'yi': yi0,
                         'yo': draw_outer(r, sc, z, yis[k], nchems)})
        else:
            k = r.choice(alive) if r.random() < 0.9 else r.choice(good)
            yi_state = S.perturb_inner(r, sc, yis[k], strength=r.choice([0., 0.3, 1., 1.]))
            if strip:
                # the plume water holds the compounds the stripping class was released without
                comp = sc.spec['particles'][strip['class']]['composition']
                for j in strip['zero']:
                    jj = len(yi_state) - nchems + [str(x) for x in sc.chem_names].index(comp[j])
                    if not yi_state[jj] > 0.:
                        yi_state[jj] = 10 ** r.uniform(-6, -3) * yi_state[0]
            z = float(zi[k]) if r.random() < 0.6 else r.uniform(0.02, 0.98) * H
            if u < 0.70:
                case.update({'kind': 'outer-arbitrary', 'z': z, 'yi': yi_state,
                             'yo': draw_outer(r, sc, z, yi_state, nchems)})
            else:
                v = r.random()
                if v < 0.4:
                    case.update({'kind': 'outer-absent-zeros', 'z': z, 'yi': yi_state, 'yo': np.zeros(4 + nchems)})
                elif v < 0.7:
                    case.update({'kind': 'outer-absent-above', 'z': z, 'yi': yi_state, 'yo': np.zeros(4 + nchems)})
                else:
                    yo = draw_outer(r, sc, z, yi_state, nchems)
                    yo[0] = r.choice([0., abs(yo[0])])        # Q >= 0: "no outer plume or the momentum is reversing"
                    case.update({'kind': 'outer-absent-Qge0', 'z': z, 'yi': yi_state, 'yo': yo})
        cases.append(case)
    return cases


# ---------------------------------------------------------------------------
# running the real code
# ---------------------------------------------------------------------------

def fl(x):
    return float(np.asarray(x, dtype=float).ravel()[0]) if np.ndim(x) else float(x)


def vec(x):
    return [float(v) for v in np.asarray(x, dtype=float).ravel()]


def params_vec(p):
    from tamoc import seawater
    return [float(p.c1), float(p.alpha_2), float(p.alpha_3), float(p.gamma_i), float(p.gamma_o), float(p.lambda_2),
            float(p.g), float(p.rho_r), float(p.Ru), float(seawater.cp())]


def snapshot(yi, yo, particles):
    """the derived attributes smp.derivs_* read, as left by the update calls"""
    rec = {
        'inner': [fl(yi.b), fl(yi.u), fl(yi.s), fl(yi.T), fl(yi.rho), fl(yi.rho_a), fl(yi.alpha_s), fl(yi.Ep),
                  fl(yi.Xi), fl(yi.Fb)],
        'inner_c': vec(yi.c),
        'inner_amb': [fl(yi.Ta), fl(yi.Sa), fl(yi.P)], 'inner_ca': vec(yi.ca),
        'outer': [fl(yo.b), fl(yo.u), fl(yo.s), fl(yo.T), fl(yo.rho), fl(yo.rho_a), fl(yo.Sa), fl(yo.Ta)],
        'outer_c': vec(yo.c), 'outer_ca': vec(yo.ca), 'outer_P': fl(yo.P),
        'particles': [],
    }
    for pt in particles:
        sol = bool(pt.particle.issoluble)
        rec['particles'].append({
            'scal': [1. if sol else 0., fl(pt.A), fl(pt.nb0), fl(pt.us), fl(pt.rho_p), fl(pt.cp), fl(pt.beta_T), fl(pt.T)],
            'beta': vec(pt.beta), 'Cs': vec(pt.Cs),
            'ndh': vec(pt.particle.neg_dH_solR) if sol else [], 'M': vec(pt.particle.M) if sol else [],
            'nc': int(pt.particle.nc), 'comp': [str(x) for x in pt.composition],
        })
    return rec


def particle_args(rec):
    out = []
    for q in rec['particles']:
        out += [q['scal'], q['beta'], q['Cs'], q['ndh'], q['M']]
    return out


def oracle(sc, z, y_i, y_o, p):
    """INDEPENDENT of the plume objects: ambient values looked up at the depth z of the call and the derived
    variables of both plumes computed from the two state vectors (definitions of the double-plume model:
    top-hat u = J/Q, b_i = Q/sqrt(pi J), b_o = sqrt(Q^2/(pi J) + b_i^2), s = S/Q, T = H/(rho_r cp Q), c = C/Q;
    a plume that does not exist (Q_i <= 0, Q_o >= 0) holds u = b = 0 and the ambient s, T, c, rho)"""
    from tamoc import seawater
    # T, S, P by name from the raw table the harness handed to ambient.Profile (own interpolation; the pressure column is
    # the harness's own hydrostatic integration) — not through profile.get_values
    Ta, Sa, P = [S.table_value(sc.table, z, nm) for nm in ('temperature', 'salinity', 'pressure')]
    # ambient concentrations BY NAME from the raw table the harness handed to ambient.Profile (own interpolation):
    # independent of the profile object's name -> column bookkeeping
    ca = [S.table_value(sc.table, z, str(X)) for X in sc.chem_names]
    rho_a = float(seawater.density(Ta, Sa, P))
    rc = float(p.rho_r) * float(seawater.cp())
    nchems = len(sc.chem_names)
    Qi, Ji = float(y_i[0]), float(y_i[1])
    if Qi > 0.:
        Ti, si = float(y_i[3]) / (rc * Qi), float(y_i[2]) / Qi
        inner = {'u': Ji / Qi, 'b': Qi / math.sqrt(math.pi * Ji) if Ji > 0 else float('nan'), 's': si, 'T': Ti,
                 'c': [float(v) / Qi for v in y_i[len(y_i) - nchems:]] if nchems else [],
                 'rho': float(seawater.density(Ti, si, P))}
    else:
        inner = {'u': 0., 'b': 0., 's': Sa, 'T': Ta, 'c': list(ca), 'rho': rho_a}
    Qo, Jo = float(y_o[0]), float(y_o[1])
    if Qo < 0.:
        To, so = float(y_o[3]) / (rc * Qo), float(y_o[2]) / Qo
        outer = {'u': Jo / Qo, 'b': math.sqrt(Qo ** 2 / (math.pi * Jo) + inner['b'] ** 2) if Jo > 0 else float('nan'),
                 's': so, 'T': To, 'c': [float(v) / Qo for v in y_o[4:]], 'rho': float(seawater.density(To, so, P))}
    else:
        outer = {'u': 0., 'b': 0., 's': Sa, 'T': Ta, 'c': list(ca), 'rho': rho_a}
    # BY NAME, independently of the plume objects: the compounds tracked are those the soluble classes are made of; the
    # ambient concentration of compound X is the profile queried for the name X; the plume's dissolved slot of X is the
    # one its own label list `chem_names` gives to X
    names = tracked_names(sc)
    labels = [str(x) for x in sc.chem_names]
    ca_named = {X: S.table_value(sc.table, z, X) for X in names}
    ci_named = {X: inner['c'][labels.index(X)] for X in names if X in labels and labels.index(X) < len(inner['c'])}
    co_named = {X: outer['c'][labels.index(X)] for X in names if X in labels and labels.index(X) < len(outer['c'])}
    return {'Ta': Ta, 'Sa': Sa, 'P': P, 'ca': ca, 'rho_a': rho_a, 'inner': inner, 'outer': outer,
            'tracked': names, 'labels': labels, 'ca_named': ca_named, 'ci_named': ci_named, 'co_named': co_named}


def tracked_names(sc):
    """the compounds of the soluble classes, by name, in order of first appearance (the harness's own list)"""
    names = []
    for pt in sc.particles:
        if pt.particle.issoluble:
            for x in pt.composition:
                if str(x) not in names:
                    names.append(str(x))
    return names


def raise_site(e):
    """innermost frame inside tamoc of a raised exception: '<ExcType>@<file>:<function>'"""
    site = '?'
    for fr in traceback.extract_tb(e.__traceback__):
        if '/tamoc/' in fr.filename:
            site = '%s:%s' % (fr.filename.split('/')[-1], fr.name)
    return '%s@%s' % (type(e).__name__, site)


def run_real(sc, objs, case):
    """call the real smp.derivs_inner and smp.derivs_outer at the same depth with each other's state
    as neighbour; returns the two vectors and the attribute snapshots after each call.  For the
    inner-absent kinds only derivs_outer is called (derivs_inner of a non-existent inner plume is 0/0)."""
    from tamoc import smp
    yi, yo = objs
    z = float(case['z'])
    p = S.copy_params(sc.p, **case['p'])
    S.reset_heat_transfer(sc)
    kind = case['kind']
    with warnings.catch_warnings(), np.errstate(all='ignore'):
        warnings.simplefilter('ignore')
        if kind == 'simulated-pair':
            nb_i, nb_o = sc.nb_i, sc.nb_o
            y_i = np.array(nb_i(z), dtype=float)
            if z < np.min(nb_o.x):
                y_o = np.zeros(yo.len)
            else:
                y_o = np.array(nb_o(z), dtype=float)
            case['yi'], case['yo'] = y_i, y_o
        else:
            y_i = np.array(case['yi'], dtype=float)
            y_o = np.array(case['yo'], dtype=float)
            nb_o = S.const_neighbor(z, y_o, above=(kind == 'outer-absent-above'))
            nb_i = S.const_neighbor(z, y_i, below=(kind == 'inner-absent-below'))
        orc = oracle(sc, z, y_i, y_o, p)
        ri, recA = None, None
        if not kind.startswith('inner-absent'):
            ri = np.array(smp.derivs_inner(z, y_i.copy(), yi, yo, sc.particles, sc.profile, p, nb_o), dtype=float)
            recA = snapshot(yi, yo, sc.particles)
        ro = np.array(smp.derivs_outer(z, y_o.copy(), yi, yo, sc.particles, sc.profile, p, nb_i), dtype=float)
        recB = snapshot(yi, yo, sc.particles)
    return {'ri': ri, 'ro': ro, 'recA': recA, 'recB': recB, 'pv': params_vec(p), 'y_o': y_o, 'y_i': y_i, 'oracle': orc}


# ---------------------------------------------------------------------------
# predicates
# ---------------------------------------------------------------------------

def holds(lhs, rhs, scale):
    return abs(lhs - rhs) <= TOL['identity'] * scale + TOL['abs_floor']


def oracle_mismatches(rec, orc, which):
    """[(key, attribute, code value, oracle value)] — attributes of the real objects vs the independent oracle"""
    out = []
    tol = TOL['gen_vs_source']

    def cmp(key, name, got, want):
        if not close(got, want, tol):
            out.append((key + ':' + name, name, got, want))
    io = rec['inner']
    cmp('ambient-not-at-depth', 'InnerPlume.Ta', rec['inner_amb'][0], orc['Ta'])
    cmp('ambient-not-at-depth', 'InnerPlume.Sa', rec['inner_amb'][1], orc['Sa'])
    cmp('ambient-not-at-depth', 'InnerPlume.P', rec['inner_amb'][2], orc['P'])
    cmp('ambient-not-at-depth', 'InnerPlume.rho_a', io[5], orc['rho_a'])
    cmp('ambient-not-at-depth', 'InnerPlume.ca', rec['inner_ca'], orc['ca'])
    oo = rec['outer']
    cmp('ambient-not-at-depth', 'OuterPlume.Ta', oo[7], orc['Ta'])
    cmp('ambient-not-at-depth', 'OuterPlume.Sa', oo[6], orc['Sa'])
    cmp('ambient-not-at-depth', 'OuterPlume.P', rec['outer_P'], orc['P'])
    cmp('ambient-not-at-depth', 'OuterPlume.rho_a', oo[5], orc['rho_a'])
    cmp('ambient-not-at-depth', 'OuterPlume.ca', rec['outer_ca'], orc['ca'])
    oi, ooo = orc['inner'], orc['outer']
    for k, name in enumerate(('b', 'u', 's', 'T', 'rho')):
        cmp('derived-not-from-state', 'InnerPlume.' + name, io[k], oi[name])
        cmp('derived-not-from-state', 'OuterPlume.' + name, oo[k], ooo[name])
    cmp('derived-not-from-state', 'InnerPlume.c', rec['inner_c'], oi['c'])
    cmp('derived-not-from-state', 'OuterPlume.c', rec['outer_c'], ooo['c'])
    return out


def particle_sums(nchems, rec, ri, Ru):
    """POSITIONAL walk of the particle block of the inner vector with the index arithmetic of InnerPlume.update
    (used only to cross-check the slot readers of the Lean theorems)"""
    idx = 4
    heat_sum = hos = sc_heat = 0.
    mass = [0.] * nchems
    sc_mass = [0.] * nchems
    for q in rec['particles']:
        nc = q['nc']
        if q['scal'][0] > 0.5:
            for j in range(nchems):
                mass[j] += ri[idx + j]
                sc_mass[j] += abs(ri[idx + j])
                t = ri[idx + j] * q['ndh'][j] * Ru / q['M'][j]
                hos += t
                sc_heat += abs(t)
        heat_sum += ri[idx + nc]
        sc_heat += abs(ri[idx + nc])
        idx += nc + 5
    return idx, mass, sc_mass, heat_sum, hos, sc_heat


def named_sums(rec, ri, Ru, names):
    """BY NAME: for every tracked compound X the sum over the soluble classes of the mass slot the class's OWN
    composition list gives to X; the particle heat slots; the heat of solution (each class's own neg_dH_solR, M,
    which are ordered like its composition).  Returns (index of dissolved slot 0, mass{X}, scale{X}, heat, hos, scale)"""
    idx = 4
    heat_sum = hos = sc_heat = 0.
    mass = {X: 0. for X in names}
    sc_mass = {X: 0. for X in names}
    for q in rec['particles']:
        nc = q['nc']
        if q['scal'][0] > 0.5:
            for k in range(nc):
                X = q['comp'][k]
                if X in mass:
                    mass[X] += ri[idx + k]
                    sc_mass[X] += abs(ri[idx + k])
                t = ri[idx + k] * q['ndh'][k] * Ru / q['M'][k]
                hos += t
                sc_heat += abs(t)
        heat_sum += ri[idx + nc]
        sc_heat += abs(ri[idx + nc])
        idx += nc + 5
    return idx, mass, sc_mass, heat_sum, hos, sc_heat


def identities(pv, rec, orc, ri, ro):
    """[(name, lhs, rhs, scale)] — the exchange identities on the vectors the real code returned, with the
    ORACLE ambient values and ORACLE b_o, u_o on the right-hand side.  Every per-compound quantity is formed BY NAME:
    particle side of X from the class's own composition.index(X) slot, dissolved side from the plumes' slot labelled X
    (chem_names.index(X)), ambient concentration from the profile queried for X.  `scale` = sum of |terms| (the
    returned slots, the right-hand side and the fluxes that make them up).  alpha_s, Ep are the closures' values."""
    c1, a2, a3, gi, go, l2, g, rho_r, Ru, cp = pv
    als, Ep = rec['inner'][6], rec['inner'][7]
    I, O = orc['inner'], orc['outer']
    bi, ui, si, Ti = I['b'], I['u'], I['s'], I['T']
    bo, uo, so, To = O['b'], O['u'], O['s'], O['T']
    Sa, Ta = orc['Sa'], orc['Ta']
    E = 2. * math.pi * bo * a3 * uo
    ent = abs(2. * math.pi * bi * als * (ui + c1 * uo))      # |entrainment from outer into inner|
    det = abs(2. * math.pi * bi * a2 * uo)                   # |detrainment from inner to outer|
    out = []
    out.append(('volume', ri[0] + ro[0], E, abs(ri[0]) + abs(ro[0]) + abs(E) + ent + det + abs(Ep)))
    out.append(('salt', ri[2] + ro[2], E * Sa,
                abs(ri[2]) + abs(ro[2]) + abs(E * Sa) + ent * abs(so) + det * abs(si) + abs(Ep * si)))
    idx, mass, sc_mass, heat_sum, hos, sc_heat = named_sums(rec, ri, Ru, orc['tracked'])
    rc = rho_r * cp
    out.append(('heat', ri[3] + heat_sum + ro[3], rc * E * Ta - hos,
                abs(ri[3]) + abs(ro[3]) + abs(rc * E * Ta) + sc_heat + rc * (ent * abs(To) + det * abs(Ti) + abs(Ep * Ti))))
    for X in orc['tracked']:
        j = orc['labels'].index(X)
        ca, ci, co = orc['ca_named'][X], orc['ci_named'][X], orc['co_named'][X]
        out.append(('compound', ri[idx + j] + mass[X] + ro[4 + j], E * ca,
                    abs(ri[idx + j]) + abs(ro[4 + j]) + sc_mass[X] + abs(E * ca) + ent * abs(co) + det * abs(ci) + abs(Ep * ci)))
    return out, idx


def absent_predicates(pv, rec, orc, ri, idiss):
    """with no outer plume the inner plume exchanges with the AMBIENT: the inner vector alone must equal
    -(2 pi b alpha_s u * ambient value at this depth + Ep * plume value) (+ particle terms, which cancel in the totals);
    per compound BY NAME"""
    c1, a2, a3, gi, go, l2, g, rho_r, Ru, cp = pv
    als, Ep = rec['inner'][6], rec['inner'][7]
    I = orc['inner']
    bi, ui, si, Ti = I['b'], I['u'], I['s'], I['T']
    Sa, Ta = orc['Sa'], orc['Ta']
    en = 2. * math.pi * bi * als * ui
    out = [('absent-volume', ri[0], -(en + Ep), abs(en) + abs(Ep) + abs(ri[0])),
           ('absent-salt', ri[2], -(en * Sa + Ep * si), abs(en * Sa) + abs(Ep * si) + abs(ri[2]))]
    idx, mass, sc_mass, heat_sum, hos, scale_h = named_sums(rec, ri, Ru, orc['tracked'])
    rc = rho_r * cp
    out.append(('absent-heat', ri[3] + heat_sum, -rc * (en * Ta + Ep * Ti) - hos,
                abs(ri[3]) + scale_h + rc * (abs(en * Ta) + abs(Ep * Ti))))
    for X in orc['tracked']:
        j = orc['labels'].index(X)
        ca, ci = orc['ca_named'][X], orc['ci_named'][X]
        out.append(('absent-compound', ri[idiss + j] + mass[X], -(en * ca + Ep * ci),
                    abs(ri[idiss + j]) + sc_mass[X] + abs(en * ca) + abs(Ep * ci)))
    return out


def inner_absent_predicates(pv, orc, ro):
    """without an inner plume the outer plume exchanges with the ambient alone: outer = E*(1, Sa, rho_r cp Ta, ca_X)"""
    c1, a2, a3, gi, go, l2, g, rho_r, Ru, cp = pv
    O = orc['outer']
    E = 2. * math.pi * O['b'] * a3 * O['u']
    rc = rho_r * cp
    out = [('inner-absent-volume', ro[0], E, abs(ro[0]) + abs(E)),
           ('inner-absent-salt', ro[2], E * orc['Sa'], abs(ro[2]) + abs(E * orc['Sa'])),
           ('inner-absent-heat', ro[3], rc * E * orc['Ta'], abs(ro[3]) + abs(rc * E * orc['Ta']))]
    for X in orc['tracked']:
        j = orc['labels'].index(X)
        out.append(('inner-absent-compound', ro[4 + j], E * orc['ca_named'][X], abs(ro[4 + j]) + abs(E * orc['ca_named'][X])))
    return out


def closures_finite(rec):
    """are the closure values the exchange equations take as input finite?  (alpha_s, Ep, Xi, Fb of the inner plume; the
    dbm properties of every particle)"""
    vals = list(rec['inner'][6:10])
    for q in rec['particles']:
        vals += list(q['scal']) + list(q['beta']) + list(q['Cs'])
    return all(math.isfinite(v) for v in vals)


def stripping_active(sc, rec, orc):
    """does some soluble class list a tracked compound X it was released without (m0 == 0) while the inner plume water
    holds X and the class exchanges it?  returns False | 'water' | 'background' (ambient holds X too).  By name."""
    out = False
    for pt, q in zip(sc.particles, rec['particles']):
        if q['scal'][0] < 0.5 or not q['scal'][1] > 0:
            continue
        m0 = np.asarray(pt.m0, dtype=float)
        for k in range(min(len(m0), len(q['beta']), len(q['comp']))):
            X = q['comp'][k]
            if m0[k] == 0. and orc['ci_named'].get(X, 0.) > 0. and q['beta'][k] > 0.:
                if orc['ca_named'].get(X, 0.) > 0.:
                    return 'background'
                out = 'water'
    return out


def relabel_sensitive(sc, rec, orc):
    """does this state tell a relabelling of the compounds apart?  some soluble class has a composition of >= 2 compounds
    that is NOT in alphabetical order, the ambient concentrations of the tracked compounds are pairwise distinct, and a
    soluble class with surface area has pairwise distinct solubilities"""
    comps = [q['comp'] for q in rec['particles'] if q['scal'][0] > 0.5]
    if not any(len(c) >= 2 and list(c) != sorted(c) for c in comps):
        return False
    ca = [orc['ca_named'][X] for X in orc['tracked']]
    if len(ca) < 2 or len(set(ca)) != len(ca):
        return False
    for q in rec['particles']:
        if q['scal'][0] > 0.5 and q['scal'][1] > 0 and len(q['Cs']) >= 2 and len(set(q['Cs'])) == len(q['Cs']):
            return True
    return False


def in_domain(nchems, rec, with_particles=True):
    """the domain in which Lean's totalised operations coincide with the code's: list lengths, u+us != 0, M_j != 0"""
    if not (len(rec['inner_c']) == nchems and len(rec['outer_c']) == nchems and len(rec['outer_ca']) == nchems):
        return False
    if not with_particles:        # derivs_outer alone does not read the particles
        return True
    u = rec['inner'][1]
    for q in rec['particles']:
        if q['scal'][0] > 0.5:
            if not (len(q['beta']) == nchems and len(q['Cs']) == nchems and len(q['ndh']) == nchems and len(q['M']) == nchems
                    and q['nc'] == nchems and all(m != 0 for m in q['M'])):
                return False
        elif q['nc'] != 1:
            return False
        if u + q['scal'][3] == 0:
            return False
    return True


def case_dump(sc, case, res, extra=None):
    rec = res['recB']
    d = {'scenario_spec': sc.spec, 'kind': case['kind'], 'z': float(case['z']), 'p_changes': case['p'],
         'inner_state_y': vec(res['y_i']), 'outer_state_y': vec(res['y_o']),
         'derivs_inner': vec(res['ri']) if res.get('ri') is not None else None,
         'derivs_outer': vec(res['ro']) if res.get('ro') is not None else None,
         'params[c1,alpha_2,alpha_3,gamma_i,gamma_o,lambda_2,g,rho_r,Ru,cp]': res.get('pv'),
         'how_to_replay': 'cd /verif && ./check C06 --replay <this file>  (rebuilds the scenario from scenario_spec with '
                          'harness/scen_spm.build, calls the real smp.derivs_inner / smp.derivs_outer on the two states at depth z '
                          'and prints every predicate with its residual)'}
    if rec is not None:
        d.update({'yi_attributes[b,u,s,T,rho,rho_a,alpha_s,Ep,Xi,Fb]': rec['inner'], 'yi.c': rec['inner_c'],
                  'yi[Ta,Sa,P]': rec['inner_amb'], 'yi.ca': rec['inner_ca'],
                  'yo_attributes[b,u,s,T,rho,rho_a,Sa,Ta]': rec['outer'], 'yo.c': rec['outer_c'], 'yo.ca': rec['outer_ca']})
    if res.get('oracle') is not None:
        d['oracle(ambient at z; derived from the states)'] = res['oracle']
    if extra:
        d.update(extra)
    return d


def evaluate_predicates(sc, case, res):
    """all property predicates of one completed state pair: [(key, what, extra-dict)] of the failing ones,
    and the list of (name, lhs, rhs, scale) evaluated (for the residual statistics and the Lean cross-check)"""
    nchems = len(sc.chem_names)
    fails = []
    evald = []
    orc = res['oracle']
    # 1. the objects against the independent oracle (ambient at the depth of the call, derived from the state)
    for label, rec in (('after derivs_inner', res['recA']), ('after derivs_outer', res['recB'])):
        if rec is None:
            continue
        for key, name, got, want in oracle_mismatches(rec, orc, label):
            what = ('%s holds %r %s but the profile at the depth z of the call / the state vector give %r'
                    % (name, got, label, want))
            fails.append((key, what, {'attribute': name, 'code': got, 'oracle': want, 'when': label}))
    kind = case['kind']
    if sorted(orc['tracked']) != sorted(orc['labels']):
        fails.append(('tracked-compounds-differ', 'the plumes track %r but the soluble classes are made of %r' % (orc['labels'], orc['tracked']),
                      {'chem_names': orc['labels'], 'compounds of the soluble classes': orc['tracked']}))
        return fails, evald, None
    if kind.startswith('inner-absent'):
        preds = inner_absent_predicates(res['pv'], orc, res['ro'])
        evald += preds
        for name, lhs, rhs, scale in preds:
            if not holds(lhs, rhs, scale):
                fails.append((name + '-not-ambient', 'without an inner plume the outer %s gradient is not the ambient entrainment alone' % name,
                              {'identity': name, 'lhs': lhs, 'rhs': rhs, 'sum_abs_terms': scale}))
        return fails, evald, None
    ids, idiss = identities(res['pv'], res['recB'], orc, res['ri'], res['ro'])
    evald += ids
    for k, (name, lhs, rhs, scale) in enumerate(ids):
        if not holds(lhs, rhs, scale):
            j = k - 3 if name == 'compound' else None
            cname = orc['tracked'][j] if j is not None else None
            fails.append(('exchange-%s-not-conservative' % name,
                          'inner + outer %s gradients differ from the ambient entrainment into the outer plume' % name
                          + (' (compound %s, by name)' % cname if j is not None else ''),
                          {'identity': name, 'lhs(inner+outer)': lhs, 'rhs(ambient entrainment)': rhs, 'sum_abs_terms': scale,
                           'relative_residual': abs(lhs - rhs) / scale if scale else 0.}))
    if res['y_o'][0] >= 0 or kind == 'outer-absent-above':
        ap = absent_predicates(res['pv'], res['recA'], orc, res['ri'], idiss)
        evald += ap
        for name, lhs, rhs, scale in ap:
            if not holds(lhs, rhs, scale):
                fails.append((name + '-not-ambient', 'without an outer plume the inner plume does not exchange with the ambient (%s)' % name,
                              {'identity': name, 'lhs': lhs, 'rhs': rhs, 'sum_abs_terms': scale}))
    return fails, evald, ids


# ---------------------------------------------------------------------------
# probe outside the stated precondition: differing composition lists (evidence note only)
# ---------------------------------------------------------------------------

def probe_heterogeneous(ctx):
    """tamoc's stratified plume model presupposes that all soluble classes share one composition list.  This probe
    runs the real derivs_inner on (a) permuted and (b) subset lists and records what happens — as an evidence
    note, never as a violation."""
    import random
    rng = random.Random(ctx.seed * 7919 + 6)
    notes = []
    for name, compA, compB in (('permuted', ['methane', 'ethane'], ['ethane', 'methane']),
                               ('subset', ['methane', 'ethane'], ['methane'])):
        try:
            spec = S.random_spec(rng, 2, 0, False, composition=compA)
            spec['particles'][1] = S.random_particle_spec(rng, True, compB)
            sc = S.build(spec)
            z0, y0 = S.initial_inner_state(sc)
            objs = S.plume_objects(sc, z0, y0)
            case = {'kind': 'outer-arbitrary', 'z': z0, 'yi': y0, 'yo': draw_outer(rng, sc, z0, y0, len(sc.chem_names)), 'p': {}}
            res = run_real(sc, objs, case)
            ri, ro = res['ri'], res['ro']
            lay, idiss = S.inner_layout(sc.particles, len(sc.chem_names))
            E = 2. * math.pi * res['oracle']['outer']['b'] * res['pv'][2] * res['oracle']['outer']['u']
            named = []
            for j, chem in enumerate(sc.chem_names):
                tot = ri[idiss + j] + ro[4 + j] - E * res['oracle']['ca'][j]
                scale = abs(ri[idiss + j]) + abs(ro[4 + j])
                for pt, l in zip(sc.particles, lay):
                    if chem in pt.composition:
                        k = list(pt.composition).index(chem)
                        tot += ri[l['m0'] + k]
                        scale += abs(ri[l['m0'] + k])
                named.append((chem, tot, tot / scale if scale else 0.))
            notes.append('%s lists %r: code runs; budget per NAMED compound (residual, relative) = %r'
                         % (name, [list(pt.composition) for pt in sc.particles], named))
            ctx.count('probe heterogeneous compositions: %s ran' % name)
        except Exception as e:
            notes.append('%s lists %r + %r: real code raises %s' % (name, compA, compB, raise_site(e)))
            ctx.count('probe heterogeneous compositions: %s raised' % name)
    ctx.notes.append('PROBE outside the stated precondition (all soluble classes share one composition list; tamoc '
                     'dispersed_phases.py l.1034) — not part of the verdict: ' + ' | '.join(notes))


# ---------------------------------------------------------------------------
# the check
# ---------------------------------------------------------------------------

def run(ctx, lean_ok):
    r = ctx.rng
    plan = scenario_plan(ctx)
    per_scen = ctx.n(200, 1000)
    records = []          # (sc, case, res)
    seen = set()
    nsim_ok = 0
    nclosure_nan = 0
    nsol_states = 0
    nbg2 = 0
    nperm = 0
    nrelabel = 0
    done = {k: 0 for k in KINDS}
    nchem_done = {'nchems==0': 0, 'nchems==1': 0, 'nchems>=2': 0}
    nstrip = {'all': 0, 'alone': 0, 'mixed': 0, 'outer present': 0, 'outer absent': 0, 'background': 0}
    for si, (n_sol, n_inert, bg, strip, comp) in enumerate(plan):
        spec = S.random_spec(r, n_sol, n_inert, bg, composition=plan_composition(r, comp), strip=strip)
        sc = S.build(spec)
        ctx.count('scenario particles=%d' % (n_sol + n_inert))
        ctx.count('scenario background=%s' % bg)
        if strip:
            ctx.count('scenario with a class released without a listed compound: %s' % strip)
        sim = None
        for attempt in range(3):
            try:
                sim = S.simulate(sc, maxit=ctx.n(1, 2), delta_z=ctx.n(6., 3.), time_limit=ctx.n(90., 400.))
                nsim_ok += 1
                break
            except S.SimulationTimeout:
                # the simulation is only a source of states: fall back to the initial state of smp.main_ic
                ctx.count('scenario-simulation-timed-out')
                break
            except Exception as e:       # a scenario the real model cannot integrate (C20's subject): draw another
                ctx.count('scenario-simulation-failed:%s' % raise_site(e))
                spec = S.random_spec(r, n_sol, n_inert, bg, composition=plan_composition(r, comp), strip=strip)
                sc = S.build(spec)
        if sim is None:
            z0, y0 = S.initial_inner_state(sc)
            sim = (np.array([z0]), np.array([y0]), np.array([z0]), np.zeros((1, 4 + len(sc.chem_names))))
        zi, yis, zo, yos = sim
        sc.nb_i = S.sim_neighbor(zi, yis) if len(zi) > 1 else None
        sc.nb_o = S.sim_neighbor(zo, yos) if len(zo) > 1 and len(np.unique(zo)) > 1 else None
        if sc.nb_i is None:
            sc.nb_o = None
        objs = S.plume_objects(sc, float(zi[0]), yis[0])
        cases = make_cases(ctx, sc, sim, int(per_scen * (0.7 if comp == 'single' else (1.0 if (comp or strip) else 0.6))))
        for case in cases:
            ctx.evaluations += 1
            try:
                res = run_real(sc, objs, case)
            except Exception as e:
                # the generated states are valid (Q_i>0,J_i>0 or absent; Q_o<0,J_o>0 or absent; masses >= 0; T,S in range):
                # code under test that raises on them is reported, not skipped
                site = raise_site(e)
                ctx.count('real-code-raised:' + site)
                ctx.violation('raises:' + site, 'smp.derivs_inner / smp.derivs_outer raises on a valid state pair: %s: %s' % (site, str(e)[:200]),
                              case_dump(sc, case, {'y_i': case.get('yi', []), 'y_o': case.get('yo', []), 'recB': None},
                                        {'exception': '%s: %s' % (type(e).__name__, str(e)[:300])}))
                continue
            kind = case['kind']
            vecs = [v for v in (res['ri'], res['ro']) if v is not None]
            finite = all(bool(np.all(np.isfinite(v))) for v in vecs)
            res['finite'] = finite
            if not finite and not closures_finite(res['recB']):
                # the NaN comes from a closure the exchange equations take as input (dbm particle properties, peeling,
                # void fraction — e.g. dbm returns us = nan for a fluid particle denser than the seawater): the state is
                # outside the domain of those closures, not a statement about the exchange terms; counted and bounded
                nclosure_nan += 1
                ctx.count('closure value non-finite (outside the domain of dbm / cp_model), state skipped')
                continue
            if not finite:
                ctx.count('non-finite vector')
                ctx.violation('non-finite-derivative', 'smp.derivs_inner / smp.derivs_outer returns inf/nan on a valid state pair',
                              case_dump(sc, case, res))
                continue
            done[kind] += 1
            ctx.count('kind ' + kind)
            ctx.count('c1!=0' if res['pv'][0] != 0 else 'c1==0')
            nch = len(sc.chem_names)
            nck = 'nchems==0' if nch == 0 else ('nchems==1' if nch == 1 else 'nchems>=2')
            nchem_done[nck] += 1
            ctx.count('%s, %s, %s' % (nck, 'outer present' if res['y_o'][0] < 0 else 'outer absent',
                                      'background' if any(c != 0 for c in res['oracle']['ca']) else 'no background'))
            rb = res['recB']
            ctx.count('outer present (Q_o<0)' if res['y_o'][0] < 0 else 'outer absent (Q_o>=0)')
            ctx.count('inner present (Q_i>0)' if res['y_i'][0] > 0 else 'inner absent (Q_i<=0)')
            ctx.count('peeling Ep!=0' if rb['inner'][7] != 0 else 'peeling Ep==0')
            if any(q['scal'][0] > 0.5 and q['scal'][1] > 0 and any(b > 0 for b in q['beta']) for q in rb['particles']):
                ctx.count('dissolution active')
            if any(q['scal'][6] != 0 for q in rb['particles']):
                ctx.count('particle heat transfer active')
            if any(c != 0 for c in rb['outer_ca']):
                ctx.count('ambient background concentration non-zero')
            if any(c != 0 for c in rb['outer_c']) and res['y_o'][0] < 0:
                ctx.count('outer plume carries dissolved compounds')
            if any(q['scal'][0] > 0.5 for q in rb['particles']):
                nsol_states += 1
                if relabel_sensitive(sc, rb, res['oracle']):
                    nrelabel += 1
                    ctx.count('relabel-sensitive state (unsorted composition >= 2, distinct ambient concentrations and solubilities)')
            stored = [x for x in sc.spec['profile'].get('background', {}) if x in res['oracle']['labels']]
            asked = [x for x in res['oracle']['labels'] if x in stored]
            if len(res['oracle']['labels']) >= 2 and sc.spec['profile'].get('background'):
                nbg2 += 1
                if stored != asked:
                    nperm += 1
                    ctx.count('profile stores the tracked compounds in another order than the plumes request them')
                if len(stored) < len(res['oracle']['labels']):
                    ctx.count('profile lacks a tracked compound')
                if len(sc.spec['profile']['background']) > len(stored):
                    ctx.count('profile holds compounds no particle contains')
            sa = stripping_active(sc, rb, res['oracle'])
            res['strip'] = sa
            if sa and not kind.startswith('inner-absent'):
                mode = sc.spec.get('strip', {}).get('mode', 'unplanned')
                nstrip['all'] += 1
                nstrip[mode] = nstrip.get(mode, 0) + 1
                nstrip['outer present' if res['y_o'][0] < 0 else 'outer absent'] += 1
                if sa == 'background':
                    nstrip['background'] += 1
                ctx.count('stripping state (class with m0_j = 0, water holds compound j): %s, %s' % (mode, 'outer present' if res['y_o'][0] < 0 else 'outer absent'))
            res['in_domain'] = in_domain(len(sc.chem_names), rb, with_particles=not kind.startswith('inner-absent'))
            if not res['in_domain']:
                ctx.count('outside the domain of the theorems (list lengths, u+us=0, M=0)')
            key = (si, round(float(case['z']), 6)) + tuple(float('%.10g' % v) for v in
                                                           (res['y_i'][0], res['y_i'][1], res['y_o'][0], res['y_o'][1]))
            if key not in seen:
                seen.add(key)
                ctx.nontrivial.add(key)
            records.append((sc, case, res))
            if len(ctx.samples) < 4 and kind in ('outer-arbitrary', 'simulated-pair'):
                ctx.sample({'kind': kind, 'z': float(case['z']), 'particles': len(sc.particles),
                            'chems': list(sc.chem_names), 'derivs_inner[0:4]': vec(res['ri'][:4]),
                            'derivs_outer[0:4]': vec(res['ro'][:4])})

    # ---- floors (a check that evaluated next to nothing must not pass) ---------------------
    col = 1 if ctx.thorough else 0
    short = {k: (done[k], FLOORS[k][col]) for k in KINDS if done[k] < FLOORS[k][col]}
    ctx.oblige('floors on completed state pairs per case kind %r' % {k: FLOORS[k][col] for k in KINDS},
               not short, 'below the floor (done, floor): %r' % short)
    ctx.oblige('at least half of the %d scenarios were integrated by the real model' % len(plan),
               2 * nsim_ok >= len(plan), '%d of %d' % (nsim_ok, len(plan)))
    ctx.oblige('floor: >= 50%% of the completed state pairs with a soluble class have a composition of >= 2 compounds that is not '
               'alphabetically sorted, pairwise distinct ambient concentrations of the tracked compounds and pairwise distinct '
               'solubilities, so that a relabelling of the compounds cannot cancel (%d of %d)' % (nrelabel, nsol_states),
               nsol_states > 0 and 2 * nrelabel >= nsol_states, '%d of %d' % (nrelabel, nsol_states))
    ctx.oblige('floor: in >= 60%% of the completed state pairs with >= 2 tracked compounds and ambient background the profile stores '
               'those compounds in another order than the plumes request them (%d of %d)' % (nperm, nbg2),
               nbg2 > 0 and nperm >= 0.6 * nbg2, '%d of %d' % (nperm, nbg2))
    ntot0 = len(records)
    needc = {'nchems==1': 0.05, 'nchems==0': 0.03, 'nchems>=2': 0.30}
    lowc = {k: (nchem_done[k], int(math.ceil(f * ntot0))) for k, f in needc.items() if nchem_done[k] < f * ntot0}
    ctx.oblige('floor: completed state pairs with exactly ONE tracked compound >= 5%%, with none (inert-only plume) >= 3%%, with two or '
               'more >= 30%% (of %d)' % ntot0, ntot0 > 0 and not lowc, 'below (have, need): %r' % lowc)
    single = [(len(sc.particles) > 1, res['y_o'][0] < 0, any(c != 0 for c in res['oracle']['ca']))
              for sc, _c, res in records if len(sc.chem_names) == 1 and res['ri'] is not None]
    combos = {'alone': sum(1 for a, _o, _b in single if not a), 'beside other classes': sum(1 for a, _o, _b in single if a),
              'outer present': sum(1 for _a, o, _b in single if o), 'outer absent': sum(1 for _a, o, _b in single if not o),
              'background': sum(1 for _a, _o, bb in single if bb), 'no background': sum(1 for _a, _o, bb in single if not bb)}
    ctx.oblige('single-compound state pairs cover: class alone / beside other classes, outer present / absent, with / without ambient '
               'background (>= 10 each): %r' % combos, all(v >= 10 for v in combos.values()), '%r' % combos)
    ctx.oblige('at most 2%% of the generated state pairs skipped because a closure input (particle properties, Ep, Xi, Fb, alpha_s) '
               'is non-finite (%d generated)' % ctx.evaluations, nclosure_nan <= 0.02 * max(ctx.evaluations, 1), '%d skipped' % nclosure_nan)
    ntot = len(records)
    need = {'all': 0.15, 'background': 0.10, 'alone': 0.04, 'mixed': 0.04, 'outer present': 0.04, 'outer absent': 0.03}
    low = {k: (nstrip[k], int(math.ceil(f * ntot))) for k, f in need.items() if nstrip[k] < f * ntot}
    ctx.oblige('floor: >= 15%% of the completed state pairs have a soluble class whose composition lists a tracked compound it was '
               'released without (m0_j = 0, diss_indices_j False) while the inner plume water holds that compound and the class '
               'exchanges it (beta_j > 0, A > 0); >= 10%% also with ambient background; alone >= 4%%, mixed >= 4%%, outer present '
               '>= 4%%, outer absent >= 3%% (of %d)' % ntot, ntot > 0 and not low, 'below (have, need): %r' % low)
    nout = sum(1 for _s, _c, res in records if not res['in_domain'])
    ctx.oblige('every completed state pair lies in the domain where the totalised model operations coincide with the code '
               '(list lengths = nchems, u+us != 0, M_j != 0)', nout == 0, '%d outside' % nout)

    # ---- property predicates on the REAL vectors, oracle on the right-hand side ------------
    nviol = 0
    worst = {}
    for sc, case, res in records:
        fails, evald, ids = evaluate_predicates(sc, case, res)
        res['ids'] = ids
        for name, lhs, rhs, scale in evald:
            e = abs(lhs - rhs) / scale if scale > 0 else 0.
            worst[name] = max(worst.get(name, 0.), float(e))
        for key, what, extra in fails:
            nviol += 1
            ctx.violation(key, what, case_dump(sc, case, res, extra))
    ctx.notes.append('worst relative residuals of the predicates on real vectors: %r' % worst)

    # ---- labelled probe outside the precondition (note only) --------------------------------
    try:
        probe_heterogeneous(ctx)
    except Exception as e:
        ctx.notes.append('PROBE heterogeneous compositions could not run: %s' % raise_site(e))

    # ---- correspondence with the Lean model --------------------------------------------------
    if not lean_ok:
        return
    lines = []
    index = []      # per record: positions of its lines
    for sc, case, res in records:
        nchems = len(sc.chem_names)
        A, B = res['recA'], res['recB']
        pos = {}
        if A is not None:
            pos['inner'] = len(lines)
            lines.append(req('Smp.derivsInner', res['pv'], nchems, A['inner'], A['inner_c'], A['outer'], A['outer_c'],
                             A['outer_ca'], *particle_args(A)))
        pos['outer'] = len(lines)
        lines.append(req('Smp.derivsOuter', res['pv'], nchems, B['inner'], B['inner_c'], B['outer'], B['outer_c'],
                         B['outer_ca']))
        if A is not None:
            pos['ids'] = len(lines)
            lines.append(req('Smp.identities', res['pv'], nchems, B['outer'], B['outer_c'], B['outer_ca'],
                             vec(res['ri']), vec(res['ro']), *particle_args(B)))
        o = B['outer']
        pos['update'] = len(lines)
        lines.append(req('Smp.outerUpdate', res['pv'], vec(res['y_o']), o[7], o[6], o[5], B['outer_ca'], o[4], B['inner'][0]))
        index.append(pos)
    out = run_driver(ctx, 'C06', lines)
    if out is None:
        return
    nbad = {'inner': 0, 'outer': 0, 'update': 0, 'layout': 0}
    ncmp = 0
    nrec_differ = 0
    for (sc, case, res), pos in zip(records, index):
        ncmp += 1
        if res['recA'] is not None and res['recA'] != res['recB']:
            nrec_differ += 1
        for which, real in (('inner', res['ri']), ('outer', res['ro'])):
            if which not in pos:
                continue
            o = out[pos[which]]
            m = o[0] if isinstance(o, list) else None
            bad = m is None or len(m) != len(real) or [s for s in range(len(m)) if not close(m[s], float(real[s]), TOL['gen_vs_source'])]
            if bad:
                nbad[which] += 1
                if nbad[which] <= 3:
                    s = bad[0] if isinstance(bad, list) else -1
                    ctx.broken.append(('correspondence', 'Model.Smp.derivs%s vs smp.derivs_%s' % (which.capitalize(), which),
                                       'slot %s: model=%r code=%r kind=%s z=%r' % (s, m[s] if m and s >= 0 else m,
                                                                                    float(real[s]) if s >= 0 else None, case['kind'], case['z'])))
        # the Lean readers (index layout of the theorems) against the Python walk, both on the real vectors with the
        # objects' own outer record (the comparison is about WHERE the slots are, not about the ambient values)
        if 'ids' in pos:
            oid = out[pos['ids']]
            nchems = len(sc.chem_names)
            B = res['recB']
            a3, rho_r, Ru, cp = res['pv'][2], res['pv'][7], res['pv'][8], res['pv'][9]
            Eo = 2. * math.pi * B['outer'][0] * a3 * B['outer'][1]
            idx, mass, sc_mass, heat_sum, hos, sc_heat = particle_sums(nchems, B, res['ri'], Ru)
            ri, ro = res['ri'], res['ro']
            want = [ri[0] + ro[0], Eo, ri[2] + ro[2], Eo * B['outer'][6], ri[3] + heat_sum + ro[3], rho_r * cp * Eo * B['outer'][7] - hos]
            for j in range(nchems):
                want += [ri[idx + j] + mass[j] + ro[4 + j], Eo * B['outer_ca'][j]]
            scales = [s for _n, _l, _r, s in res['ids']]
            ok = isinstance(oid, list) and len(oid[0]) == len(want) and all(
                abs(oid[0][q] - want[q]) <= TOL['identity'] * scales[q // 2] + TOL['abs_floor'] for q in range(len(want)))
            if not ok:
                nbad['layout'] += 1
                if nbad['layout'] <= 3:
                    ctx.broken.append(('correspondence', 'Model.Smp.identities (slot readers of the theorems) vs harness walk of the real vectors',
                                       'kind=%s z=%r lean=%r python=%r' % (case['kind'], case['z'], oid[0][:8] if isinstance(oid, list) else oid, want[:8])))
        # OuterPlume.update
        B = res['recB']
        ou = out[pos['update']]
        if isinstance(ou, list):
            ok = (close(ou[0], B['outer'], TOL['gen_vs_source']) and close(ou[1], B['outer_c'], TOL['gen_vs_source'])
                  and close(ou[2], B['outer_ca'], TOL['gen_vs_source']))
        else:
            ok = False
        if not ok:
            nbad['update'] += 1
            if nbad['update'] <= 3:
                ctx.broken.append(('correspondence', 'Model.Smp.outerUpdate vs OuterPlume.update',
                                   'y=%r model=%r code=%r' % (vec(res['y_o']), ou, (B['outer'], B['outer_c'], B['outer_ca']))))
    ctx.oblige('correspondence Model.Smp.derivsInner == smp.derivs_inner, every slot, %d state pairs (rel %g)' % (ncmp, TOL['gen_vs_source']),
               nbad['inner'] == 0, '%d state pairs disagree' % nbad['inner'])
    ctx.oblige('correspondence Model.Smp.derivsOuter == smp.derivs_outer, every slot, %d state pairs (rel %g)' % (ncmp, TOL['gen_vs_source']),
               nbad['outer'] == 0, '%d state pairs disagree' % nbad['outer'])
    ctx.oblige('correspondence Model.Smp.outerUpdate == OuterPlume.update (present and absent branch), %d states' % ncmp,
               nbad['update'] == 0, '%d disagree' % nbad['update'])
    ctx.oblige('slot readers of the theorems (Model.Smp.identities) == harness walk of the real vectors, %d state pairs' % ncmp,
               nbad['layout'] == 0, '%d disagree' % nbad['layout'])
    if nrec_differ:
        ctx.notes.append('%d cases where the derived attributes after derivs_inner and after derivs_outer differ (each model call uses its own snapshot)' % nrec_differ)


# ---------------------------------------------------------------------------
# replay of a recorded state pair on the real code
# ---------------------------------------------------------------------------

def replay(ctx, path):
    import json
    d = json.load(open(path))
    c = d.get('case')
    if not c:
        print('replay file names a broken obligation, no state pair: %r' % d.get('broken_obligations'))
        return 2
    sc = S.build(c['scenario_spec'])
    yo = np.array(c['outer_state_y'], dtype=float)
    kind = c['kind']
    if kind == 'simulated-pair':
        kind = 'outer-arbitrary'          # the recorded states are replayed through constant neighbours
    case = {'kind': kind, 'z': float(c['z']), 'p': c['p_changes'], 'yi': np.array(c['inner_state_y'], dtype=float), 'yo': yo}
    z0, y0 = S.initial_inner_state(sc)
    objs = S.plume_objects(sc, z0, y0)
    try:
        res = run_real(sc, objs, case)
    except Exception as e:
        print('REPLAY property=C06 violation reproduced: real code raises %s: %s' % (raise_site(e), e))
        return 1
    print('derivs_inner =', vec(res['ri']) if res['ri'] is not None else None)
    print('derivs_outer =', vec(res['ro']))
    vecs = [v for v in (res['ri'], res['ro']) if v is not None]
    if not all(bool(np.all(np.isfinite(v))) for v in vecs):
        print('REPLAY property=C06 violation reproduced: non-finite derivative')
        return 1
    fails, evald, _ids = evaluate_predicates(sc, case, res)
    for name, lhs, rhs, scale in evald:
        print('%-22s lhs=%.17g rhs=%.17g |lhs-rhs|/sum|terms|=%.3g %s' % (name, lhs, rhs, abs(lhs - rhs) / scale if scale else 0.,
                                                                        'ok' if holds(lhs, rhs, scale) else 'FAILS'))
    for key, what, _x in fails:
        print('FAILS %s: %s' % (key, what))
    print('REPLAY property=C06 %s' % ('violation reproduced' if fails else 'all predicates hold'))
    return 1 if fails else 0
