"""
C06 — Stratified-plume inner/outer exchange is conservative.

proof        : TamocV/Props/C06.lean over Model.Smp (hand transcription of smp.derivs_inner,
               smp.derivs_outer and OuterPlume.update): for ANY derived inner/outer records, parameters,
               any number of particles and chemicals the RETURNED vectors satisfy
                   inner + outer                         = E            (volume)
                   inner + outer                         = E*Sa         (salt)
                   inner_diss_j + sum_p inner_mass_pj + outer_j = E*ca_j (compound j)
                   inner_3 + sum_p inner_heat_p + outer_3 = rho_r*cp*E*Ta - sum_pj inner_mass_pj*neg_dH_solR_j*Ru/M_j
               with E = 2*pi*b_o*alpha_3*u_o, and the reduction to ambient values when no outer plume exists.
tie          : (H) real InnerPlume/OuterPlume/PlumeParticle objects, real smp.derivs_inner / derivs_outer
               called at the same depth with each other's state as neighbour; the derived attributes left in
               yi / yo / particles are sent to the Lean driver, which recomputes both vectors (slot by slot,
               TOL gen_vs_source) and the identity sides on the REAL vectors.
real code    : the identities themselves are evaluated in Python on the vectors the real code returns for
               every case (TOL identity, relative to the sum of |terms|).
"""
import math
import warnings

import numpy as np

from common import req, close, TOL, run_driver
import scen_spm as S

META = {
    'text': 'Theorems (Lean 4, over the reals, for all derived states, parameters, any number of particle classes and '
            'chemicals, by induction over the particle and chemical lists): the vectors returned by the model of '
            'smp.derivs_inner (sign-flipped) and smp.derivs_outer add up, slot by slot and summed over the particle '
            'mass/heat slots, to the ambient entrainment into the outer plume alone (E, E*Sa, E*ca_j, rho_r*cp*E*Ta '
            'plus the heat of solution of the dissolution gradients); with the no-outer-plume record of '
            'OuterPlume.update the inner plume entrains ambient values. The model is tied to the code by running the '
            'real smp.derivs_inner/derivs_outer on real InnerPlume/OuterPlume objects (states from real short '
            'simulations, perturbed; outer states arbitrary with Q<0,J>0 or absent; 0-5 particle classes; with and '
            'without background concentrations; model parameters varied, c1 != 0 included) and comparing every slot '
            'with the Lean model at Float; the identities are also evaluated directly on the real vectors.',
    'note': 'Trusted: Lean kernel + 3 standard axioms; my transcription Model/Smp.lean (tied by slot-wise correspondence '
            'on every case); real arithmetic as stand-in for doubles. Modelled as inputs, not verified: the closures '
            'shear_entrainment (alpha_s), cp_model (Ep), seawater.density, dbm particle properties, profile look-ups '
            '(the derived attributes are read from the updated objects). A discrepancy between model and code that is '
            'common to both copies of an exchange term (same amount added to the inner yp and the outer yp) leaves the '
            'theorems applicable (Props.C06.common_shift_*) and is reported in the evidence notes, not as a violation. '
            'The momentum, age and position slots are transcribed and compared but the property makes no claim about them. '
            'Generated scenarios give all soluble classes one shared composition list (the convention of the stratified plume '
            'model: derivs_inner indexes beta[j], Cs[j] of every soluble particle by the position j in the common chemical list).',
    'technique': 'Lean 4 proof (ring + list induction) over a hand model + slot-wise differential execution against the real code + identities on real outputs',
}
GEN = []
MODULES = ['TamocV.Props.C06', 'TamocV.Model.Smp']
RULE = ('scenarios: seeded specs (scen_spm.random_spec) with 0-3 soluble + 0-2 inert particle classes (1-5 classes, shared '
        'composition of 1-3 compounds), profile depth 400-2000 m, with/without background concentrations; a short REAL '
        'simulation per scenario gives inner (and outer) solutions. Cases per scenario: (a) simulated inner row + simulated '
        'outer state at the same depth through the real neighbour interpolators; (b) perturbed inner row (fluxes, s, T, c, '
        'particle masses/temperatures/ages) at its own or a random depth with an ARBITRARY outer state Q<0, J>0 (u_o 1e-3..1 m/s, '
        's_o 0..40, T_o 272..305 K, c_o 0..1e-2); (c) outer absent: all-zero state, the z<min(neighbor.x) branch, Q>=0 with '
        'non-zero other slots; model parameters c1, alpha_2, alpha_3, gamma_i, gamma_o, lambda_2 redrawn in half of the cases. '
        'A case is non-trivial when its (scenario, z, Q_i, J_i, Q_o, J_o) differ from every earlier case and all vectors are finite')
LEVEL_NOTE = ('theorems over the reals about the hand-written model Model/Smp.lean of smp.derivs_inner/derivs_outer/'
              'OuterPlume.update; the tie to /repo is slot-wise agreement at Float on every generated case; closures '
              '(alpha_s, Ep, densities, particle properties) enter as the values the real objects hold')



def audit_files():
    return ['TamocV/Num.lean', 'TamocV/Real.lean', 'TamocV/Model/Smp.lean', 'TamocV/Lemmas/C06.lean',
            'TamocV/Props/C06.lean']


# ---------------------------------------------------------------------------
# scenarios and cases
# ---------------------------------------------------------------------------

def scenario_plan(ctx):
    """(n_sol, n_inert, background) per scenario; covers 1..5 classes, pure-inert, mixed, background on/off"""
    base = [(1, 0, False), (1, 1, True), (2, 1, False), (0, 1, False), (3, 2, True)]
    extra = [(2, 0, True), (1, 2, False), (2, 2, True), (1, 3, True), (3, 1, False), (0, 2, True), (1, 0, True),
             (2, 3, False), (4, 1, True), (1, 4, False)]
    r = ctx.rng
    if ctx.thorough:
        plan = base + extra
    else:
        plan = [base[0], base[1], base[4], r.choice([base[2], base[3]] + extra)]
    return plan


def draw_params(rng):
    return {
        'c1': rng.choice([0., rng.uniform(0.05, 1.0), rng.uniform(0.05, 1.0)]),
        'alpha_2': rng.uniform(0.03, 0.3), 'alpha_3': rng.uniform(0.03, 0.3),
        'gamma_i': rng.uniform(1.0, 1.3), 'gamma_o': rng.uniform(1.0, 1.3),
        'lambda_2': rng.uniform(0.8, 1.2),
    }


def draw_outer(rng, sc, z, yi_state, nchems):
    """arbitrary outer state with downward flow: Q < 0, J > 0"""
    from tamoc import seawater
    Qi = max(float(yi_state[0]), 1e-6)
    Q = -Qi * 10 ** rng.uniform(-1.5, 1.2)
    u = -10 ** rng.uniform(-3, 0)
    J = Q * u
    Ta, Sa = [float(v) for v in sc.profile.get_values(z, ['temperature', 'salinity'])]
    if rng.random() < 0.6:
        s = min(max(Sa + rng.gauss(0., 0.5), 0.), 42.)
        T = min(max(Ta + rng.gauss(0., 1.5), 271.5), 310.)
    else:
        s = rng.uniform(0., 40.)
        T = rng.uniform(272., 305.)
    c = [rng.choice([0., 10 ** rng.uniform(-7, -2)]) for _ in range(nchems)]
    return np.array([Q, J, s * Q, T * sc.p.rho_r * seawater.cp() * Q] + [ck * Q for ck in c], dtype=float)


def make_cases(ctx, sc, sim, n):
    r = ctx.rng
    zi, yis, zo, yos = sim
    nchems = len(sc.chem_names)
    good = [k for k in range(len(zi)) if yis[k][0] > 0 and yis[k][1] > 0 and np.all(np.isfinite(yis[k]))]
    cases = []
    if not good:
        return cases
    zmin_i, zmax_i = float(np.min(zi)), float(np.max(zi))
    have_outer = len(zo) > 1 and np.any(yos[:, 0] < 0)
    for _ in range(n):
        u = r.random()
        case = {'p': draw_params(r) if r.random() < 0.5 else {}}
        if u < 0.15 and have_outer:
            # (a) simulated pair through the real neighbour interpolators
            lo = max(zmin_i, float(np.min(zo)) - (5. if r.random() < 0.3 else 0.))
            hi = min(zmax_i, float(np.max(zo)))
            if not lo < hi:
                lo, hi = zmin_i, zmax_i
            case.update({'kind': 'simulated-pair', 'z': min(max(r.uniform(lo, hi), zmin_i), zmax_i)})
        else:
            k = r.choice(good)
            yi_state = S.perturb_inner(r, sc, yis[k], strength=r.choice([0., 0.3, 1., 1.]))
            z = float(zi[k]) if r.random() < 0.6 else r.uniform(0.02, 0.98) * sc.spec['profile']['H']
            if u < 0.70:
                case.update({'kind': 'outer-arbitrary', 'z': z, 'yi': yi_state,
                             'yo': draw_outer(r, sc, z, yi_state, nchems)})
            else:
                v = r.random()
                if v < 0.4:
                    case.update({'kind': 'outer-absent-zeros', 'z': z, 'yi': yi_state, 'yo': np.zeros(4 + nchems)})
                elif v < 0.7:
                    case.update({'kind': 'outer-absent-above', 'z': z, 'yi': yi_state, 'yo': np.zeros(4 + nchems)})
                else:
                    yo = draw_outer(r, sc, z, yi_state, nchems)
                    yo[0] = r.choice([0., abs(yo[0])])        # Q >= 0: "no outer plume or the momentum is reversing"
                    case.update({'kind': 'outer-absent-Qge0', 'z': z, 'yi': yi_state, 'yo': yo})
        cases.append(case)
    return cases


# ---------------------------------------------------------------------------
# running the real code
# ---------------------------------------------------------------------------

def fl(x):
    return float(np.asarray(x, dtype=float).ravel()[0]) if np.ndim(x) else float(x)


def vec(x):
    return [float(v) for v in np.asarray(x, dtype=float).ravel()]


def params_vec(p):
    from tamoc import seawater
    return [float(p.c1), float(p.alpha_2), float(p.alpha_3), float(p.gamma_i), float(p.gamma_o), float(p.lambda_2),
            float(p.g), float(p.rho_r), float(p.Ru), float(seawater.cp())]


def snapshot(yi, yo, particles):
    """the derived attributes smp.derivs_* read, as left by the update calls"""
    rec = {
        'inner': [fl(yi.b), fl(yi.u), fl(yi.s), fl(yi.T), fl(yi.rho), fl(yi.rho_a), fl(yi.alpha_s), fl(yi.Ep),
                  fl(yi.Xi), fl(yi.Fb)],
        'inner_c': vec(yi.c),
        'outer': [fl(yo.b), fl(yo.u), fl(yo.s), fl(yo.T), fl(yo.rho), fl(yo.rho_a), fl(yo.Sa), fl(yo.Ta)],
        'outer_c': vec(yo.c), 'outer_ca': vec(yo.ca),
        'particles': [],
    }
    for pt in particles:
        sol = bool(pt.particle.issoluble)
        rec['particles'].append({
            'scal': [1. if sol else 0., fl(pt.A), fl(pt.nb0), fl(pt.us), fl(pt.rho_p), fl(pt.cp), fl(pt.beta_T), fl(pt.T)],
            'beta': vec(pt.beta), 'Cs': vec(pt.Cs),
            'ndh': vec(pt.particle.neg_dH_solR) if sol else [], 'M': vec(pt.particle.M) if sol else [],
            'nc': int(pt.particle.nc),
        })
    return rec


def particle_args(rec):
    out = []
    for q in rec['particles']:
        out += [q['scal'], q['beta'], q['Cs'], q['ndh'], q['M']]
    return out


def run_real(sc, objs, case):
    """call the real smp.derivs_inner and smp.derivs_outer at the same depth with each other's state
    as neighbour; returns the two vectors and the attribute snapshots after each call"""
    from tamoc import smp
    yi, yo = objs
    z = float(case['z'])
    p = S.copy_params(sc.p, **case['p'])
    S.reset_heat_transfer(sc)
    with warnings.catch_warnings(), np.errstate(all='ignore'):
        warnings.simplefilter('ignore')
        if case['kind'] == 'simulated-pair':
            nb_i, nb_o = sc.nb_i, sc.nb_o
            y_i = np.array(nb_i(z), dtype=float)
            if z < np.min(nb_o.x):
                y_o = np.zeros(yo.len)
            else:
                y_o = np.array(nb_o(z), dtype=float)
            case['yi'], case['yo'] = y_i, y_o
        else:
            y_i = np.array(case['yi'], dtype=float)
            y_o = np.array(case['yo'], dtype=float)
            nb_o = S.const_neighbor(z, y_o, above=(case['kind'] == 'outer-absent-above'))
            nb_i = S.const_neighbor(z, y_i)
        ri = np.array(smp.derivs_inner(z, y_i.copy(), yi, yo, sc.particles, sc.profile, p, nb_o), dtype=float)
        recA = snapshot(yi, yo, sc.particles)
        ro = np.array(smp.derivs_outer(z, y_o.copy(), yi, yo, sc.particles, sc.profile, p, nb_i), dtype=float)
        recB = snapshot(yi, yo, sc.particles)
    return {'ri': ri, 'ro': ro, 'recA': recA, 'recB': recB, 'pv': params_vec(p), 'y_o': y_o, 'y_i': y_i}


# ---------------------------------------------------------------------------
# the property predicate on real vectors
# ---------------------------------------------------------------------------

def identities(pv, nchems, rec, ri, ro):
    """[(name, lhs, rhs, scale)] — the exchange identities on the vectors the real code returned.
    `scale` = sum of |terms| (the returned slots, the right-hand side and the fluxes that make them up)."""
    c1, a2, a3, gi, go, l2, g, rho_r, Ru, cp = pv
    bi, ui, si, Ti, rhoi, rhoai, als, Ep, Xi, Fb = rec['inner']
    bo, uo, so, To, rhoo, rhoao, Sa, Ta = rec['outer']
    ci, co, ca = rec['inner_c'], rec['outer_c'], rec['outer_ca']
    E = 2. * math.pi * bo * a3 * uo
    ent = abs(2. * math.pi * bi * als * (ui + c1 * uo))      # |entrainment from outer into inner|
    det = abs(2. * math.pi * bi * a2 * uo)                   # |detrainment from inner to outer|
    out = []
    out.append(('volume', ri[0] + ro[0], E, abs(ri[0]) + abs(ro[0]) + abs(E) + ent + det + abs(Ep)))
    out.append(('salt', ri[2] + ro[2], E * Sa,
                abs(ri[2]) + abs(ro[2]) + abs(E * Sa) + ent * abs(so) + det * abs(si) + abs(Ep * si)))
    idx = 4
    heat_sum = 0.
    hos = 0.
    sc_heat = 0.
    mass = [0.] * nchems
    sc_mass = [0.] * nchems
    for q in rec['particles']:
        nc = q['nc']
        if q['scal'][0] > 0.5:
            for j in range(nchems):
                mass[j] += ri[idx + j]
                sc_mass[j] += abs(ri[idx + j])
                t = ri[idx + j] * q['ndh'][j] * Ru / q['M'][j]
                hos += t
                sc_heat += abs(t)
        heat_sum += ri[idx + nc]
        sc_heat += abs(ri[idx + nc])
        idx += nc + 5
    rc = rho_r * cp
    out.append(('heat', ri[3] + heat_sum + ro[3], rc * E * Ta - hos,
                abs(ri[3]) + abs(ro[3]) + abs(rc * E * Ta) + sc_heat + rc * (ent * abs(To) + det * abs(Ti) + abs(Ep * Ti))))
    for j in range(nchems):
        out.append(('compound', ri[idx + j] + mass[j] + ro[4 + j], E * ca[j],
                    abs(ri[idx + j]) + abs(ro[4 + j]) + sc_mass[j] + abs(E * ca[j]) + ent * abs(co[j]) + det * abs(ci[j]) + abs(Ep * ci[j])))
    return out, idx


def absent_predicates(pv, nchems, rec, ri, idiss):
    """with no outer plume the inner plume exchanges with the AMBIENT: the inner vector alone must equal
    -(2 pi b alpha_s u * ambient value + Ep * plume value) (+ particle terms, which cancel in the totals)"""
    c1, a2, a3, gi, go, l2, g, rho_r, Ru, cp = pv
    bi, ui, si, Ti, rhoi, rhoai, als, Ep, Xi, Fb = rec['inner']
    bo, uo, so, To, rhoo, rhoao, Sa, Ta = rec['outer']
    ci, ca = rec['inner_c'], rec['outer_ca']
    en = 2. * math.pi * bi * als * ui
    out = [('absent-volume', ri[0], -(en + Ep), abs(en) + abs(Ep) + abs(ri[0])),
           ('absent-salt', ri[2], -(en * Sa + Ep * si), abs(en * Sa) + abs(Ep * si) + abs(ri[2]))]
    idx = 4
    heat_sum = 0.
    hos = 0.
    scale_h = 0.
    mass = [0.] * nchems
    sc_mass = [0.] * nchems
    for q in rec['particles']:
        nc = q['nc']
        if q['scal'][0] > 0.5:
            for j in range(nchems):
                mass[j] += ri[idx + j]
                sc_mass[j] += abs(ri[idx + j])
                t = ri[idx + j] * q['ndh'][j] * Ru / q['M'][j]
                hos += t
                scale_h += abs(t)
        heat_sum += ri[idx + nc]
        scale_h += abs(ri[idx + nc])
        idx += nc + 5
    rc = rho_r * cp
    out.append(('absent-heat', ri[3] + heat_sum, -rc * (en * Ta + Ep * Ti) - hos,
                abs(ri[3]) + scale_h + rc * (abs(en * Ta) + abs(Ep * Ti))))
    for j in range(nchems):
        out.append(('absent-compound', ri[idiss + j] + mass[j], -(en * ca[j] + Ep * ci[j]),
                    abs(ri[idiss + j]) + sc_mass[j] + abs(en * ca[j]) + abs(Ep * ci[j])))
    return out


def holds(lhs, rhs, scale):
    return abs(lhs - rhs) <= TOL['identity'] * scale + TOL['abs_floor']


def common_discrepancy(res, nchems, bad_i, mi, mo):
    """is the model/code discrepancy of this state pair one and the same amount in the inner copy (un-negated yp)
    and in the outer copy of an exchange slot, with the particle block untouched?  (hypotheses of
    Props.C06.common_shift_slot / _compound / _heat; the momentum slot is compared weighted by gamma_i, gamma_o)"""
    if mi is None or mo is None or len(mi) != len(res['ri']) or len(mo) != len(res['ro']) or 'ids' not in res:
        return False
    if not all(holds(l, rr, s) for _n, l, rr, s in res['ids']):
        return False
    npart = len(res['ri']) - 4 - nchems
    if [s for s in (bad_i if isinstance(bad_i, list) else []) if 4 <= s < 4 + npart]:
        return False
    gi, go = res['pv'][3], res['pv'][4]
    for s in range(4 + nchems):
        s_in = s if s < 4 else 4 + npart + (s - 4)
        d_i = -(float(res['ri'][s_in]) - mi[s_in])
        d_o = float(res['ro'][s]) - mo[s]
        if s == 1:
            d_i, d_o = gi * d_i, go * d_o
        scale = abs(res['ri'][s_in]) + abs(res['ro'][s]) + abs(mi[s_in]) + abs(mo[s])
        if s < 4 and s != 1:
            scale = max(scale, res['ids'][{0: 0, 2: 1, 3: 2}[s]][3])
        elif s >= 4:
            scale = max(scale, res['ids'][3 + s - 4][3])
        if not abs(d_i - d_o) <= TOL['identity'] * scale + TOL['abs_floor']:
            return False
    return True


def case_dump(sc, case, res, extra=None):
    d = {'scenario_spec': sc.spec, 'kind': case['kind'], 'z': float(case['z']), 'p_changes': case['p'],
         'inner_state_y': vec(res['y_i']), 'outer_state_y': vec(res['y_o']),
         'derivs_inner': vec(res['ri']), 'derivs_outer': vec(res['ro']),
         'yi_attributes[b,u,s,T,rho,rho_a,alpha_s,Ep,Xi,Fb]': res['recB']['inner'], 'yi.c': res['recB']['inner_c'],
         'yo_attributes[b,u,s,T,rho,rho_a,Sa,Ta]': res['recB']['outer'], 'yo.c': res['recB']['outer_c'],
         'yo.ca': res['recB']['outer_ca'],
         'params[c1,alpha_2,alpha_3,gamma_i,gamma_o,lambda_2,g,rho_r,Ru,cp]': res['pv'],
         'how_to_replay': 'cd /verif && ./check C06 --replay <this file>  (rebuilds the scenario from scenario_spec with '
                          'harness/scen_spm.build, calls the real smp.derivs_inner / smp.derivs_outer on the two states at depth z '
                          'and prints every identity with its residual)'}
    if extra:
        d.update(extra)
    return d


# ---------------------------------------------------------------------------
# the check
# ---------------------------------------------------------------------------

def run(ctx, lean_ok):
    r = ctx.rng
    plan = scenario_plan(ctx)
    per_scen = ctx.n(160, 1500)
    records = []          # (sc, case, res)
    raised = []
    seen = set()
    for si, (n_sol, n_inert, bg) in enumerate(plan):
        spec = S.random_spec(r, n_sol, n_inert, bg)
        sc = S.build(spec)
        ctx.count('scenario particles=%d' % (n_sol + n_inert))
        ctx.count('scenario background=%s' % bg)
        sim = None
        for attempt in range(3):
            try:
                sim = S.simulate(sc, maxit=ctx.n(1, 2), delta_z=ctx.n(6., 3.))
                break
            except Exception as e:       # a scenario the real model cannot integrate: draw another
                ctx.count('scenario-simulation-failed:%s' % type(e).__name__)
                spec = S.random_spec(r, n_sol, n_inert, bg)
                sc = S.build(spec)
        if sim is None:
            z0, y0 = S.initial_inner_state(sc)
            sim = (np.array([z0]), np.array([y0]), np.array([z0]), np.zeros((1, 4 + len(sc.chem_names))))
        zi, yis, zo, yos = sim
        sc.nb_i = S.sim_neighbor(zi, yis) if len(zi) > 1 else None
        sc.nb_o = S.sim_neighbor(zo, yos) if len(zo) > 1 and len(np.unique(zo)) > 1 else None
        if sc.nb_i is None or sc.nb_o is None:
            sim = (zi, yis, np.array([0.]), np.zeros((1, 4 + len(sc.chem_names))))
        objs = S.plume_objects(sc, float(zi[0]), yis[0])
        cases = make_cases(ctx, sc, sim, per_scen)
        for case in cases:
            try:
                res = run_real(sc, objs, case)
            except Exception as e:
                # the real code refuses the state (e.g. EOS failure on an extreme perturbation): not a case,
                # but counted — see the obligation 'real code evaluates the generated state pairs' below
                ctx.count('real-code-raised:%s' % type(e).__name__)
                raised.append('%s: %s (kind=%s z=%r)' % (type(e).__name__, str(e)[:120], case['kind'], case['z']))
                continue
            ctx.evaluations += 1
            ctx.count('kind ' + case['kind'])
            ctx.count('c1!=0' if res['pv'][0] != 0 else 'c1==0')
            rb = res['recB']
            ctx.count('outer present (Q_o<0)' if res['y_o'][0] < 0 else 'outer absent (Q_o>=0)')
            ctx.count('peeling Ep!=0' if rb['inner'][7] != 0 else 'peeling Ep==0')
            if any(q['scal'][0] > 0.5 and q['scal'][1] > 0 and any(b > 0 for b in q['beta']) for q in rb['particles']):
                ctx.count('dissolution active')
            if any(q['scal'][6] != 0 for q in rb['particles']):
                ctx.count('particle heat transfer active')
            if any(c != 0 for c in rb['outer_ca']):
                ctx.count('ambient background concentration non-zero')
            if any(c != 0 for c in rb['outer_c']) and res['y_o'][0] < 0:
                ctx.count('outer plume carries dissolved compounds')
            finite = bool(np.all(np.isfinite(res['ri'])) and np.all(np.isfinite(res['ro'])))
            ctx.count('finite' if finite else 'non-finite vector (out of domain)')
            key = (si, round(float(case['z']), 6)) + tuple(float('%.10g' % v) for v in
                                                           (res['y_i'][0], res['y_i'][1], res['y_o'][0], res['y_o'][1]))
            if finite and key not in seen:
                seen.add(key)
                ctx.nontrivial.add(key)
            res['finite'] = finite
            records.append((sc, case, res))
            if len(ctx.samples) < 4 and finite and case['kind'] in ('outer-arbitrary', 'simulated-pair'):
                ctx.sample({'kind': case['kind'], 'z': float(case['z']), 'particles': len(sc.particles),
                            'chems': list(sc.chem_names), 'derivs_inner[0:4]': vec(res['ri'][:4]),
                            'derivs_outer[0:4]': vec(res['ro'][:4])})

    nfin = sum(1 for _sc, _c, res in records if res['finite'])
    ntot = len(records) + len(raised)
    ctx.oblige('real code evaluates the generated state pairs (at most 5%% rejected or non-finite; %d generated)' % ntot,
               ntot > 0 and nfin >= 0.95 * ntot,
               '%d raised, %d non-finite of %d; first: %s' % (len(raised), len(records) - nfin, ntot, raised[:2]))

    # ---- property predicates on the REAL vectors ----------------------------------------
    nviol = 0
    worst = {}
    for sc, case, res in records:
        if not res['finite']:
            continue
        nchems = len(sc.chem_names)
        rec = res['recB']
        ids, idiss = identities(res['pv'], nchems, rec, res['ri'], res['ro'])
        res['ids'] = ids
        for k, (name, lhs, rhs, scale) in enumerate(ids):
            e = abs(lhs - rhs) / scale if scale > 0 else 0.
            worst[name] = max(worst.get(name, 0.), e)
            if not holds(lhs, rhs, scale):
                nviol += 1
                j = k - 3 if name == 'compound' else None
                ctx.violation('exchange-%s-not-conservative' % name,
                              'inner + outer %s gradients differ from the ambient entrainment into the outer plume' % name
                              + (' (compound %s)' % sc.chem_names[j] if j is not None else ''),
                              case_dump(sc, case, res, {'identity': name, 'lhs(inner+outer)': lhs, 'rhs(ambient entrainment)': rhs,
                                                        'sum_abs_terms': scale, 'relative_residual': e}))
        if res['y_o'][0] >= 0 or case['kind'] == 'outer-absent-above':
            for name, lhs, rhs, scale in absent_predicates(res['pv'], nchems, res['recA'], res['ri'], idiss):
                e = abs(lhs - rhs) / scale if scale > 0 else 0.
                worst[name] = max(worst.get(name, 0.), e)
                if not holds(lhs, rhs, scale):
                    nviol += 1
                    ctx.violation(name + '-not-ambient', 'without an outer plume the inner plume does not exchange with the ambient (%s)' % name,
                                  case_dump(sc, case, res, {'identity': name, 'lhs': lhs, 'rhs': rhs, 'sum_abs_terms': scale}))
            o = res['recA']['outer']
            ok = (o[0] == 0 and o[1] == 0 and o[2] == o[6] and o[3] == o[7] and o[4] == o[5]
                  and res['recA']['outer_c'] == res['recA']['outer_ca'])
            if not ok:
                nviol += 1
                ctx.violation('absent-outer-not-ambient', 'OuterPlume.update without an outer plume does not hold the ambient values',
                              case_dump(sc, case, res))
    ctx.notes.append('worst relative identity residuals on real vectors: %r' % worst)

    # ---- correspondence with the Lean model ----------------------------------------------
    if not lean_ok:
        return
    lines = []
    for sc, case, res in records:
        nchems = len(sc.chem_names)
        A, B = res['recA'], res['recB']
        lines.append(req('Smp.derivsInner', res['pv'], nchems, A['inner'], A['inner_c'], A['outer'], A['outer_c'],
                         A['outer_ca'], *particle_args(A)))
        lines.append(req('Smp.derivsOuter', res['pv'], nchems, B['inner'], B['inner_c'], B['outer'], B['outer_c'],
                         B['outer_ca']))
        lines.append(req('Smp.identities', res['pv'], nchems, B['outer'], B['outer_c'], B['outer_ca'],
                         vec(res['ri']), vec(res['ro']), *particle_args(B)))
        o = B['outer']
        lines.append(req('Smp.outerUpdate', res['pv'], vec(res['y_o']), o[7], o[6], o[5], B['outer_ca'], o[4], B['inner'][0]))
    out = run_driver(ctx, 'C06', lines)
    if out is None:
        return
    nbad = {'inner': 0, 'outer': 0, 'update': 0, 'layout': 0}
    mism = []             # (case, res, bad_i, bad_o, mi, mo, common)
    stale_slots = set()
    ncmp = 0
    nrec_differ = 0
    for k, (sc, case, res) in enumerate(records):
        oi, oo, oid, ou = out[4 * k:4 * k + 4]
        if res['recA'] != res['recB']:
            nrec_differ += 1
        if not res['finite']:
            continue
        ncmp += 1
        nchems = len(sc.chem_names)
        mi = oi[0] if isinstance(oi, list) else None
        mo = oo[0] if isinstance(oo, list) else None
        bad_i = mi is None or len(mi) != len(res['ri']) or [s for s in range(len(mi)) if not close(mi[s], float(res['ri'][s]), TOL['gen_vs_source'])]
        bad_o = mo is None or len(mo) != len(res['ro']) or [s for s in range(len(mo)) if not close(mo[s], float(res['ro'][s]), TOL['gen_vs_source'])]
        if bad_i or bad_o:
            mism.append((case, res, bad_i, bad_o, mi, mo, common_discrepancy(res, nchems, bad_i, mi, mo)))
        # the Lean readers (index layout of the theorems) against the Python predicate
        if isinstance(oid, list) and 'ids' in res:
            lv = oid[0]
            ok = len(lv) == 2 * len(res['ids'])
            if ok:
                for q, (_n, lhs, rhs, scale) in enumerate(res['ids']):
                    if not (abs(lv[2 * q] - lhs) <= TOL['identity'] * scale + TOL['abs_floor']
                            and abs(lv[2 * q + 1] - rhs) <= TOL['identity'] * scale + TOL['abs_floor']):
                        ok = False
            if not ok:
                nbad['layout'] += 1
                if nbad['layout'] <= 3:
                    ctx.broken.append(('correspondence', 'Model.Smp.identities (slot readers of the theorems) vs harness predicate',
                                       'kind=%s z=%r lean=%r python=%r' % (case['kind'], case['z'], lv[:8], [(a, b) for _n, a, b, _s in res['ids']][:4])))
        else:
            nbad['layout'] += 1
        # OuterPlume.update
        B = res['recB']
        if isinstance(ou, list):
            ok = (close(ou[0], B['outer'], TOL['gen_vs_source']) and close(ou[1], B['outer_c'], TOL['gen_vs_source'])
                  and close(ou[2], B['outer_ca'], TOL['gen_vs_source']))
        else:
            ok = False
        if not ok:
            nbad['update'] += 1
            if nbad['update'] <= 3:
                ctx.broken.append(('correspondence', 'Model.Smp.outerUpdate vs OuterPlume.update',
                                   'y=%r model=%r code=%r' % (vec(res['y_o']), ou, (B['outer'], B['outer_c'], B['outer_ca']))))
    all_common = bool(mism) and nviol == 0 and all(m[6] for m in mism)
    ncommon = len(mism) if all_common else 0
    for case, res, bad_i, bad_o, mi, mo, _c in mism:
        if all_common:
            for s in (bad_o if isinstance(bad_o, list) else []):
                stale_slots.add('outer[%d]' % s)
            for s in (bad_i if isinstance(bad_i, list) else []):
                stale_slots.add('inner[%d]' % s)
            continue
        if bad_i:
            nbad['inner'] += 1
            if nbad['inner'] <= 3:
                s = bad_i[0] if isinstance(bad_i, list) else -1
                ctx.broken.append(('correspondence', 'Model.Smp.derivsInner vs smp.derivs_inner',
                                   'slot %s: model=%r code=%r kind=%s z=%r' % (s, mi[s] if mi and s >= 0 else mi,
                                                                                float(res['ri'][s]) if s >= 0 else None, case['kind'], case['z'])))
        if bad_o:
            nbad['outer'] += 1
            if nbad['outer'] <= 3:
                s = bad_o[0] if isinstance(bad_o, list) else -1
                ctx.broken.append(('correspondence', 'Model.Smp.derivsOuter vs smp.derivs_outer',
                                   'slot %s: model=%r code=%r kind=%s z=%r' % (s, mo[s] if mo and s >= 0 else mo,
                                                                                float(res['ro'][s]) if s >= 0 else None, case['kind'], case['z'])))
    ctx.oblige('correspondence Model.Smp.derivsInner == smp.derivs_inner, every slot, %d state pairs (rel %g)' % (ncmp, TOL['gen_vs_source']),
               nbad['inner'] == 0, '%d state pairs disagree' % nbad['inner'])
    ctx.oblige('correspondence Model.Smp.derivsOuter == smp.derivs_outer, every slot, %d state pairs (rel %g)' % (ncmp, TOL['gen_vs_source']),
               nbad['outer'] == 0, '%d state pairs disagree' % nbad['outer'])
    ctx.oblige('correspondence Model.Smp.outerUpdate == OuterPlume.update (present and absent branch), %d states' % ncmp,
               nbad['update'] == 0, '%d disagree' % nbad['update'])
    ctx.oblige('slot readers of the theorems (Model.Smp.identities) == harness predicate on the real vectors, %d state pairs' % ncmp,
               nbad['layout'] == 0, '%d disagree' % nbad['layout'])
    if ncommon:
        ctx.notes.append('MODEL STALE, NO ALARM: on %d state pairs the code differs from Model.Smp in %s, but by one and the same amount in '
                         'the inner and the outer copy of the exchange term (identities hold on the real vectors); covered by '
                         'Props.C06.common_shift_*; re-transcribe the model' % (ncommon, sorted(stale_slots)))
        ctx.obligations.append(('slot-exact transcription is current (stale in terms common to both copies)', False))
    if nrec_differ:
        ctx.notes.append('%d cases where the derived attributes after derivs_inner and after derivs_outer differ (each model call uses its own snapshot)' % nrec_differ)


# ---------------------------------------------------------------------------
# replay of a recorded state pair on the real code
# ---------------------------------------------------------------------------

def replay(ctx, path):
    import json
    d = json.load(open(path))
    c = d.get('case')
    if not c:
        print('replay file names a broken obligation, no state pair: %r' % d.get('broken_obligations'))
        return 2
    sc = S.build(c['scenario_spec'])
    yo = np.array(c['outer_state_y'], dtype=float)
    kind = c['kind']
    if kind == 'simulated-pair':
        kind = 'outer-arbitrary'          # the recorded states are replayed through constant neighbours
    case = {'kind': kind, 'z': float(c['z']), 'p': c['p_changes'], 'yi': np.array(c['inner_state_y'], dtype=float), 'yo': yo}
    objs = S.plume_objects(sc, case['z'], case['yi'])
    res = run_real(sc, objs, case)
    nchems = len(sc.chem_names)
    ids, idiss = identities(res['pv'], nchems, res['recB'], res['ri'], res['ro'])
    preds = list(ids)
    if res['y_o'][0] >= 0 or kind == 'outer-absent-above':
        preds += absent_predicates(res['pv'], nchems, res['recA'], res['ri'], idiss)
    bad = 0
    print('derivs_inner =', vec(res['ri']))
    print('derivs_outer =', vec(res['ro']))
    for name, lhs, rhs, scale in preds:
        ok = holds(lhs, rhs, scale)
        bad += not ok
        print('%-16s lhs=%.17g rhs=%.17g |lhs-rhs|/sum|terms|=%.3g %s' % (name, lhs, rhs, abs(lhs - rhs) / scale if scale else 0., 'ok' if ok else 'FAILS'))
    print('REPLAY property=C06 %s' % ('violation reproduced' if bad else 'all identities hold'))
    return 1 if bad else 0
