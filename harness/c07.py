"""
C07 — Profile look-up is exact clamped linear interpolation.

proof        : TamocV/Props/C07.lean over TamocV/Model/Profile.lean (interpRow = scipy interp1d linear,
               getValues = BaseProfile.get_values, Profile/Op/step/run = the mutating operations)
tie          : (H) real ambient.Profile objects built through every input form, driven through seeded
               random histories of append / extend_profile_deeper / insert_* ; after every operation the
               table the profile CLAIMS to hold (interp_ds) is handed to the Lean model, which answers
               the same get_values queries the real (cached) interpolant answered; and the Lean `step`
               is run on the state before the operation and compared with the state after it
real code    : the property predicates (node exactness, linear proportion / betweenness, clamping, order,
               unknown -> 0, batch == map of singles, cache == build(table)) evaluated on the real outputs
"""
import io
import os
import math
import bisect
import random
import shutil
import tempfile
import contextlib
import numpy as np
from common import req, close, TOL, run_driver
import scen_profile as sp

META = {
    'text': 'Theorems (Lean 4, over the reals, every table with strictly increasing depths, any length >= 2, any number of columns, every list of distinct requested names): at a stored depth get_values returns the stored row; between stored depths every value is the convex combination with weight (z-x_i)/(x_{i+1}-x_i) and lies between its neighbours; outside the range the boundary rows are returned; values come back in request order, unknown names give 0. An invariant Inv (fresh cache, uniform width, strictly increasing depths, z_min/z_max = first/last stored depth) is proved to be preserved by every operation as the code performs it (append: interpolation onto the grid + unit conversion; extend_profile_deeper with 0 <= z_max < z_new: linspace rows, z_max update; insert_density(P0)/insert_potential_density/insert_buoyancy_frequency), hence by every history (inv_run), and node / clamp / between are stated for (run ops p).get (…_after_valid_history). The model is tied to the real code by running real Profile objects (all input forms incl. bottom-first storage) through seeded random histories and comparing every answer of the cached get_values and every state transition with the Lean model executed on the table the profile claims to hold; the predicates are evaluated directly on the real answers, with the clamping decided by the first / last stored depth of interp_ds (not by z_min/z_max, which are checked against them separately), and with depths given as floats, ints, lists, integer arrays.',
    'note': 'Trusted: Lean kernel + 3 standard axioms; Model/Profile.lean is a hand transcription of ambient.py get_values / the five mutating operations and of scipy interp1d._call_linear (library contract, validated by the same comparison); real arithmetic as stand-in for doubles (in floating point a node next to a non-finite stored value returns NaN: counted, not judged). batch_eq_map, cache_fresh for a single rebuild and construct_fresh are DEFINITIONAL in the model (the code-side content is carried by the harness). Duplicate requested names are outside the quantifier (modelled faithfully, compared, not judged). interp1d raises outside its range where the model extrapolates: get_values clamps first, and a raise of the real get_values is a keyed violation. netCDF side effects of Profile.append/extend are I/O and not modelled; the fsolve result of extend_profile_deeper is taken from the run. Raises of the code under test are keyed violations (except the documented refusal of a netCDF-backed append with other units); coverage floors are obligations.',
    'technique': 'Lean 4 proof (invariant over operation histories) over a hand model + differential execution of real profile histories against the model',
}
GEN = ['seawater']
MODULES = ['TamocV.Props.C07', 'TamocV.Gen.SeawaterPy', 'TamocV.Model.Profile']
RULE = ('profiles of 3-500 levels, 0-6 extra variables, recognised unit systems, built as array / xarray / netCDF file / open netCDF dataset / world-ocean default / array stored bottom-first; '
        'history of 0-7 operations (the first scenarios cycle through every source form (err=0, no stabilisation: the stored table must equal, by name, the harness own unit-converted table / its own reading of the world-ocean data file; otherwise a sub-sequence of it with first and last row) and every operation) drawn from append (new or existing variable, own depth grid partly outside the range, unit conversion), extend_profile_deeper (N given or computed), '
        'insert_density (with and without P0), insert_potential_density, insert_buoyancy_frequency; after every operation queries at stored depths, interior points '
        '(incl. next-to-node), points outside the range, as float / list / ndarray and as int / list of ints / integer ndarray / 0, with name lists: all names, shuffled subsets with unknown names, single name, empty list; '
        '2-3 name lists per history, fixed at the start and containing names later operations add (ua/va/wa, planned chemicals, density, theta, N) and unknown names, are queried before the first and after EVERY operation against the independent interpolation of the table as stored then; a case is non-trivial when (source, levels, columns, operation history) is new')
LEVEL_NOTE = ('theorems over the reals about a hand-written model of get_values / interp1d / the profile operations; the model is tied to the real code by differential '
              'execution on seeded histories (tolerance 1e-11, exact at nodes), not by translation')
SCRATCH = '/root/scratch/c07'


def audit_files():
    return ['TamocV/Num.lean', 'TamocV/Real.lean', 'TamocV/Model/Profile.lean', 'TamocV/Lemmas/C07.lean',
            'TamocV/Props/C07.lean', 'TamocV/Gen/SeawaterPy.lean']


@contextlib.contextmanager
def quiet():
    """tamoc prints unit-conversion notes; fsolve/sqrt warn on unstable casts"""
    import warnings
    with contextlib.redirect_stdout(io.StringIO()), warnings.catch_warnings(), np.errstate(all='ignore'):
        warnings.simplefilter('ignore')
        yield


class FsolveRecorder:
    """records what scipy.optimize.fsolve returned inside extend_profile_deeper (no change to /repo)"""
    def __init__(self):
        import scipy.optimize
        self.mod = scipy.optimize
        self.orig = scipy.optimize.fsolve
        self.last = None

    def __enter__(self):
        def wrapped(*a, **k):
            r = self.orig(*a, **k)
            self.last = r
            return r
        self.mod.fsolve = wrapped
        return self

    def __exit__(self, *a):
        self.mod.fsolve = self.orig


# ---------------------------------------------------------------------------------------------
# state snapshots
# ---------------------------------------------------------------------------------------------

def snapshot(p):
    table, names = sp.claimed_table(p)
    f = p.f
    if hasattr(f, 'x') and hasattr(f, 'y'):
        cache_rows = np.column_stack([np.array(f.x, dtype=float), np.array(f.y, dtype=float).T])
    else:
        # the interpolant does not expose its node arrays: the copy it was built from (interp_data, sorted as interp1d
        # would) stands in; its BEHAVIOUR is judged by the queries
        idata = np.array(p.interp_data, dtype=float)
        cache_rows = idata[np.argsort(idata[:, 0], kind='mergesort')]
    x = table[:, 0]
    d = np.diff(x)
    return {'table': table, 'names': names, 'zmin': float(p.z_min), 'zmax': float(p.z_max),
            # the ends of the data the profile holds — NOT read from z_min/z_max
            'zlo': float(np.min(x)), 'zhi': float(np.max(x)),
            'order': 'increasing' if np.all(d > 0) else 'decreasing' if np.all(d < 0) else 'duplicates' if len(set(x.tolist())) < len(x) else 'unsorted',
            'cache': cache_rows, 'cnames': [str(x) for x in p.f_names],
            'interp_data': np.array(p.interp_data, dtype=float)}


def state_args(s):
    return [s['table'].shape[1], s['table'], ','.join(s['names']), s['zmin'], s['zmax'],
            s['cache'].shape[1], s['cache'], ','.join(s['cnames'])]


def same_table(a, b):
    return a.shape == b.shape and bool(np.all((a == b) | (np.isnan(a) & np.isnan(b))))


def close_table(a, b):
    if a.shape != b.shape:
        return False
    fa, fb = a.ravel(), b.ravel()
    return all(close(float(x), float(y), TOL['gen_vs_source']) for x, y in zip(fa, fb))


# ---------------------------------------------------------------------------------------------
# generators
# ---------------------------------------------------------------------------------------------

def gen_depths(rng, table, zmin, zmax):
    """query depths: stored depths, interior points, points outside (zmin, zmax = ends of the TABLE)"""
    x = np.sort(table[:, 0])
    n = len(x)
    nodes = list(range(n)) if n <= 40 else sorted(set([0, 1, n - 2, n - 1] + [rng.randrange(n) for _ in range(24)]))
    zs = [float(x[i]) for i in nodes]
    for _ in range(16):
        i = rng.randrange(n - 1)
        lo, hi = float(x[i]), float(x[i + 1])
        u = rng.random()
        if u < 0.5:
            z = rng.uniform(lo, hi)
        elif u < 0.65:
            z = 0.5 * (lo + hi)
        elif u < 0.8:
            z = math.nextafter(lo, math.inf)
        elif u < 0.95:
            z = math.nextafter(hi, -math.inf)
        else:
            z = lo + (hi - lo) * 1e-9
        zs.append(z)
    span = max(zmax - zmin, 1.0)
    zs += [zmin - rng.uniform(0, 1) * span, zmin - 1e-9 * span, math.nextafter(zmin, -math.inf), -1.0e4,
           zmax + rng.uniform(0, 1) * span, zmax + 1e-9 * span, math.nextafter(zmax, math.inf), 1.0e5]
    rng.shuffle(zs)
    return zs


UNKNOWN = ['nope', 'Temperature', 'z', 'salinity_', 'density_x', 'TEMPERATURE', 'pressure2']


def gen_name_lists(rng, names):
    """(kind, list) pairs; 'dup' lists repeat a name (outside the property's quantifier)"""
    out = [('all', list(names))]
    k = rng.randint(1, len(names))
    sub = rng.sample(names, k)
    for _ in range(rng.randint(1, 3)):
        sub.insert(rng.randrange(len(sub) + 1), rng.choice(UNKNOWN) + rng.choice(['', '', str(rng.randrange(3))]))
    out.append(('subset+unknown', sub))
    out.append(('single', [rng.choice(names)]))
    u = rng.random()
    if u < 0.3:
        out.append(('empty', []))
    elif u < 0.6:
        out.append(('unknown-only', [rng.choice(UNKNOWN), 'x' + str(rng.randrange(9))]))
    elif u < 0.8:
        d = rng.sample(names, min(2, len(names)))
        out.append(('dup', d + [d[0]]))
    else:
        perm = list(names)
        rng.shuffle(perm)
        out.append(('permutation', perm))
    return out


NEW_NAMES = ['co2', 'h2s', 'dye', 'turbidity', 'ph_x', 'u_x', 'chl']


def gen_op(rng, p, snap, built, workdir, force=None, plan=None):
    """next operation: (descriptor dict, callable performing it on the real profile, payload for the model)"""
    kind = force or rng.choice(OPS + ['append'])
    names = snap['names']
    zmin, zmax = snap['zlo'], snap['zhi']
    if kind == 'append':
        k = rng.randint(1, 2)
        existing = [nm for nm in names if nm not in ('temperature', 'salinity', 'pressure')]
        vn, vu = [], []
        for _ in range(k):
            if existing and rng.random() < 0.3 and built.route != 'ncdataset':
                nm = rng.choice(existing)
            elif plan and rng.random() < 0.7:
                nm = rng.choice(plan)                    # a name the persistent name lists of this history already ask for
            else:
                nm = rng.choice(NEW_NAMES) + str(rng.randrange(4))
            if nm in vn:
                continue
            vn.append(nm)
            vu.append(rng.choice(list(sp.UNITS_C) + list(sp.UNITS_V)))
        m = rng.randint(2, 30)
        span = zmax - zmin
        lo = zmin + rng.choice([-0.2, 0.0, 0.0, 0.3]) * span
        hi = zmax + rng.choice([0.2, 0.0, 0.0, -0.3]) * span
        zs = sorted(set([lo, hi] + [rng.uniform(lo, hi) for _ in range(m - 2)]))
        data = np.column_stack([np.array(zs)] + [np.array([rng.uniform(0.0, 5.0) for _ in zs]) for _ in vn])
        if rng.random() < 0.3:
            data[rng.randrange(len(zs)), 1] = 0.0
        desc = {'op': 'append', 'names': ['z'] + vn, 'units': ['m'] + vu, 'data': data.tolist()}
        scale = [1.0] + [sp.unit_factor(u)[0] for u in vu]
        shift = [0.0] + [sp.unit_factor(u)[1] for u in vu]

        def do():
            p.append(np.array(data), ['z'] + list(vn), ['m'] + list(vu), ['synthetic'] * (len(vn) + 1))
        return desc, do, ('Profile.append', [data.shape[1], data, ','.join(['z'] + vn), scale, shift])
    if kind == 'extend':
        znew = zmax + rng.uniform(0.02, 0.6) * max(zmax - zmin, 10.0)
        N = rng.choice([None, rng.uniform(5e-4, 6e-3), rng.uniform(5e-4, 6e-3)])
        desc = {'op': 'extend_profile_deeper', 'z_new': znew, 'N': N}
        nc_name = sp._fresh(workdir, 'ext') if built.route == 'ncdataset' and p.nc_open else None
        if nc_name:
            built.files.append(nc_name)

        def do():
            if nc_name:
                p.extend_profile_deeper(znew, nc_name, N=N)
            else:
                p.extend_profile_deeper(znew, N=N)
        return desc, do, ('Profile.extendDeeper', [znew])     # S1 appended after the run
    if kind == 'insert_density_P0':
        P0 = rng.choice([101325.0, rng.uniform(1e5, 5e7), rng.uniform(1e5, 5e7), 0.0])
        desc = {'op': 'insert_density', 'P0': P0}

        def do():
            return p.insert_density(P0)
        # P0 = 0.0 is falsy for the code's `if P0:` — it then behaves like insert_density() (modelled so)
        return desc, do, (('Profile.densityAt', [P0]) if P0 else ('Profile.insertDensityP0', [P0]))
    desc = {'op': kind}
    meth = getattr(p, kind)
    drv = {'insert_density': 'Profile.insertDensity', 'insert_potential_density': 'Profile.insertPotentialDensity',
           'insert_buoyancy_frequency': 'Profile.insertBuoyancyFrequency'}[kind]
    return desc, (lambda: meth()), (drv, [])


# ---------------------------------------------------------------------------------------------
# queries on the real profile + direct predicates
# ---------------------------------------------------------------------------------------------

def tol_abs(*vals):
    s = sum(abs(v) for v in vals if math.isfinite(v))
    return TOL['gen_vs_source'] * s + TOL['abs_floor']


def judge_row(ctx, got, z, qnames, snap, history, after, how):
    """the property predicates for ONE answered depth; got = list of len(qnames).  The expected values come
    from the data the profile holds (interp_ds) only: its first / last stored depth decide the clamping."""
    names = snap['names']
    table = snap['table'][np.argsort(snap['table'][:, 0], kind='mergesort')]
    x = table[:, 0]
    n = len(x)
    base = {'history': history, 'query': {'z': z, 'names': qnames, 'call': how}, 'answer': [float(v) for v in got],
            'stored_names': names, 'first_stored_depth': snap['zlo'], 'last_stored_depth': snap['zhi'],
            'z_min': snap['zmin'], 'z_max': snap['zmax']}
    zc = min(max(z, snap['zlo']), snap['zhi'])
    i = bisect.bisect_left(x, zc)
    for j, nm in enumerate(qnames):
        g = float(got[j])
        if nm not in names:
            ctx.count('pred:unknown-zero')
            if g != 0.0:
                ctx.violation('unknown-name-not-zero:' + after, 'an unknown name did not yield zero', dict(base, name=nm, got=g))
            continue
        col = names.index(nm) + 1
        if i < n and x[i] == zc:
            # stored depth (possibly reached by clamping)
            want = float(table[i, col])
            nb = [float(table[k, col]) for k in (i - 1, i + 1) if 0 <= k < n]
            if not all(math.isfinite(v) for v in nb + [want]):
                ctx.count('pred:node-next-to-nonfinite(skipped)')
                continue
            kind = 'node' if z == zc else 'clamp'
            ctx.count('pred:' + kind)
            if not (g == want):
                key = ('node-not-exact:' if kind == 'node' else 'clamp-not-boundary:') + after
                ctx.violation(key, 'get_values at a stored depth does not return the stored value' if kind == 'node'
                              else 'get_values outside the range of stored depths does not return the boundary row',
                              dict(base, name=nm, got=g, stored=want, stored_depth=float(x[i]), row=i))
        else:
            lo, hi = i - 1, i
            yl, yh = float(table[lo, col]), float(table[hi, col])
            if not (math.isfinite(yl) and math.isfinite(yh)):
                ctx.count('pred:between-nonfinite(skipped)')
                continue
            ctx.count('pred:between')
            w = (zc - float(x[lo])) / (float(x[hi]) - float(x[lo]))
            want = (1.0 - w) * yl + w * yh
            t = tol_abs(yl, yh)
            if not (min(yl, yh) - t <= g <= max(yl, yh) + t):
                ctx.violation('not-between-neighbours:' + after, 'interpolated value is not between its neighbours',
                              dict(base, name=nm, got=g, neighbours=[yl, yh], depths=[float(x[lo]), float(x[hi])]))
            elif not abs(g - want) <= t:
                ctx.violation('not-linear:' + after, 'interpolated value is not in linear proportion to depth',
                              dict(base, name=nm, got=g, expected=want, weight=w, neighbours=[yl, yh]))


def integer_queries(ctx, rng, p, snap, history, after):
    """depths given as Python ints / lists of ints / integer ndarrays / 0 must answer like the same floats"""
    zlo, zhi = snap['zlo'], snap['zhi']
    ints = sorted(set([0, int(math.floor(zlo)) - 3, int(math.ceil(zhi)) + 7, int(math.ceil(zhi)) + 5000,
                       int(round(rng.uniform(zlo, zhi))), int(round(0.5 * (zlo + zhi)))]))
    nl = list(snap['names'])
    calls = [('int', k, lambda k=k: p.get_values(k, nl), lambda k=k: p.get_values(float(k), nl)) for k in ints]
    calls.append(('list-of-ints', ints, lambda: p.get_values(list(ints), nl), lambda: p.get_values([float(k) for k in ints], nl)))
    calls.append(('int-ndarray', ints, lambda: p.get_values(np.array(ints), nl), lambda: p.get_values(np.array(ints, dtype=float), nl)))
    calls.append(('numpy-int', ints[-1], lambda: p.get_values(np.int64(ints[-1]), nl), lambda: p.get_values(float(ints[-1]), nl)))
    for how, zq, fi, ff in calls:
        ctx.count('pred:integer-depth')
        ctx.evaluations += 1
        with quiet():
            want = np.array(ff(), dtype=float)
            try:
                got, exc = np.array(fi(), dtype=float), None
            except Exception as e:
                got, exc = None, '%s: %s' % (type(e).__name__, e)
        if exc is not None or not same_table(got, want):
            ctx.violation('integer-depth-clamp', 'a depth given as an integer is answered differently from the same depth as a float',
                          {'history': history, 'after': after, 'query': {'z': zq, 'names': nl, 'call': how},
                           'with_int': exc if exc is not None else got.tolist(), 'with_float': want.tolist(),
                           'first_stored_depth': zlo, 'last_stored_depth': zhi})


def reference_row(snap, z, qnames):
    """independent clamped linear interpolation of the table as stored NOW: unknown-at-this-moment names -> 0"""
    names = snap['names']
    table = snap['table'][np.argsort(snap['table'][:, 0], kind='mergesort')]
    x = table[:, 0]
    zc = min(max(z, snap['zlo']), snap['zhi'])
    i = min(max(bisect.bisect_left(x, zc), 1), len(x) - 1)
    out = []
    for nm in qnames:
        if nm not in names:
            out.append((0.0, 0.0, 'unknown'))
            continue
        col = names.index(nm) + 1
        if x[i] == zc:
            out.append((float(table[i, col]), 0.0, 'node'))
        elif x[i - 1] == zc:
            out.append((float(table[i - 1, col]), 0.0, 'node'))
        else:
            yl, yh = float(table[i - 1, col]), float(table[i, col])
            w = (zc - float(x[i - 1])) / (float(x[i]) - float(x[i - 1]))
            out.append(((1.0 - w) * yl + w * yh, tol_abs(yl, yh), 'between'))
    return out


def make_persistent_lists(rng, names, plan):
    """2-3 name lists fixed for the whole history: names stored now, names later operations will add, unknown names"""
    future = list(plan) + ['density', 'theta', 'N']
    lists = []
    for _ in range(rng.randint(2, 3)):
        nl = rng.sample(names, rng.randint(1, len(names))) + rng.sample(future, rng.randint(2, len(future))) \
            + [rng.choice(UNKNOWN), 'never_' + str(rng.randrange(9))]
        nl = list(dict.fromkeys(nl))
        rng.shuffle(nl)
        lists.append({'names': nl, 'unknown_at_first_query': None, 'late': set()})
    return lists


def persistent_queries(ctx, rng, p, snap, history, after, plists):
    """query the SAME name lists again (scalar and array depths) and compare with the table as stored at this moment"""
    x = snap['table'][:, 0]
    n = len(x)
    zs = [float(x[rng.randrange(n)]), float(x[0]), float(x[-1]), rng.uniform(snap['zlo'], snap['zhi']),
          rng.uniform(snap['zlo'], snap['zhi']), snap['zlo'] - 3.0, snap['zhi'] + 11.0]
    for pl in plists:
        nl = pl['names']                       # the same list object every time
        if pl['unknown_at_first_query'] is None:
            pl['unknown_at_first_query'] = set(nm for nm in nl if nm not in snap['names'])
        newly = set(nm for nm in pl['unknown_at_first_query'] if nm in snap['names'])
        pl['late'] |= newly
        ctx.count('pred:persistent-list')
        answers = []
        with quiet():
            try:
                for z in zs[:4]:
                    answers.append((z, 'float', np.array(p.get_values(z, nl), dtype=float)))
                big = np.array(p.get_values(np.array(zs), nl), dtype=float)
                answers += [(z, 'ndarray', big[i]) for i, z in enumerate(zs)]
            except Exception as e:
                ctx.violation('get-values-raised:' + after, 'get_values raised %s: %s' % (type(e).__name__, e),
                              {'history': history, 'query': {'z': zs, 'names': nl}})
                continue
        for z, how, got in answers:
            ctx.evaluations += 1
            ref = reference_row(snap, z, nl)
            for j, nm in enumerate(nl):
                want, t, kind = ref[j]
                g = float(got[j]) if got.shape == (len(nl),) else float('nan')
                if not math.isfinite(want):
                    continue
                if kind == 'between':
                    col = snap['names'].index(nm) + 1
                    if not np.all(np.isfinite(snap['table'][:, col])):
                        continue
                if abs(g - want) <= t or (kind != 'between' and g == want):
                    if nm in newly:
                        ctx.count('pred:late-known-name-answered')
                    continue
                if kind == 'node':
                    col = snap['names'].index(nm) + 1
                    if not np.all(np.isfinite(snap['table'][:, col])):
                        ctx.count('pred:node-next-to-nonfinite(skipped)')
                        continue
                case = {'history': history, 'query': {'z': z, 'names': nl, 'call': how}, 'name': nm, 'got': g, 'expected': want,
                        'stored_names_now': snap['names'], 'unknown_when_the_list_was_first_queried': sorted(pl['unknown_at_first_query']),
                        'first_stored_depth': snap['zlo'], 'last_stored_depth': snap['zhi']}
                if nm in pl['late']:
                    ctx.violation('name-added-after-first-query-not-answered:' + after,
                                  'a name that was unknown when this name list was first queried and has been added to the profile since '
                                  'does not return its interpolated value', case)
                elif kind == 'unknown':
                    ctx.violation('unknown-name-not-zero:' + after, 'an unknown name did not yield zero', case)
                else:
                    ctx.violation('persistent-list-wrong-value:' + after, 'a repeated query of the same name list does not return the clamped linear '
                                  'interpolation of the table as stored now', case)


def query_state(ctx, rng, p, snap, history, after, lines, pending):
    """ask the real profile; queue the same questions for the Lean model"""
    zs = gen_depths(rng, snap['table'], snap['zlo'], snap['zhi'])
    nls = gen_name_lists(rng, snap['names'])
    ctx.count('state:depths-' + snap['order'])
    sorted_tab = snap['order'] in ('increasing', 'decreasing')
    # z_min / z_max must be the first / last stored depth (they decide the clamping)
    ctx.count('pred:z-range')
    if snap['zmin'] != snap['zlo'] or snap['zmax'] != snap['zhi']:
        ctx.violation('z-range-stale:' + after, 'z_min / z_max are not the shallowest / deepest stored depth',
                      {'history': history, 'z_min': snap['zmin'], 'z_max': snap['zmax'],
                       'first_stored_depth': snap['zlo'], 'last_stored_depth': snap['zhi']})
    # cache == build(table): the arrays the interpolant holds are the claimed table
    ctx.count('pred:cache-fresh')
    order = np.argsort(snap['table'][:, 0], kind='mergesort')
    if not (same_table(snap['cache'], snap['table'][order]) and snap['cnames'] == snap['names']
            and same_table(snap['interp_data'], snap['table'])):
        ctx.violation('cache-stale:' + after, 'the cached interpolant / interp_data / f_names differ from the data the profile holds',
                      {'history': history, 'stored_names': snap['names'], 'f_names': snap['cnames'],
                       'table_shape': list(snap['table'].shape), 'cache_shape': list(snap['cache'].shape)})
    if sorted_tab:
        integer_queries(ctx, rng, p, snap, history, after)
    real = []
    singles = []
    for kind, nl in nls:
        ctx.count('names:' + kind)
        zarr = np.array(zs, dtype=float)
        with quiet():
            try:
                big = np.array(p.get_values(zarr.copy(), list(nl)), dtype=float)
            except Exception as e:
                ctx.violation('get-values-raised:' + after, 'get_values raised %s: %s' % (type(e).__name__, e),
                              {'history': history, 'query': {'z': zs, 'names': nl}})
                real.append(None)
                continue
        ok_shape = big.shape == (len(zs), len(nl))
        if not ok_shape:
            ctx.violation('shape:' + after, 'array query does not return (len(z), len(names))',
                          {'history': history, 'query': {'z': zs, 'names': nl}, 'shape': list(big.shape)})
            real.append(None)
            continue
        real.append(big)
        judged = kind != 'dup' and sorted_tab
        # short batches (0, 2, 3 depths; ndarray or list) against the rows of the long one
        for L in (0, 2, 3):
            sub = zs[:L]
            with quiet():
                try:
                    small = np.array(p.get_values(np.array(sub, dtype=float) if rng.random() < 0.7 or L == 0 else list(sub), list(nl)), dtype=float)
                except Exception as e:
                    ctx.violation('get-values-raised:' + after, 'get_values raised %s: %s' % (type(e).__name__, e),
                                  {'history': history, 'query': {'z': sub, 'names': nl}})
                    continue
            ctx.evaluations += 1
            ctx.count('pred:short-batch')
            if small.shape != (L, len(nl)):
                ctx.violation('shape:' + after, 'array query does not return (len(z), len(names))',
                              {'history': history, 'query': {'z': sub, 'names': nl}, 'shape': list(small.shape)})
            elif not same_table(small, big[:L]):
                ctx.violation('batch-ne-single:' + after, 'querying many depths at once differs from querying them one at a time',
                              {'history': history, 'query': {'z': sub, 'names': nl}, 'short_batch': small.tolist(),
                               'rows_of_long_batch': big[:L].tolist()})
        # single queries (float, list, 1-element array, str name) for a sample of the depths
        pick = range(len(zs)) if len(zs) <= 30 else sorted(rng.sample(range(len(zs)), 30))
        for qi in pick:
            z = zs[qi]
            u = rng.random()
            with quiet():
                try:
                    if u < 0.6:
                        one, how = p.get_values(float(z), list(nl)), 'float'
                    elif u < 0.8:
                        one, how = p.get_values([float(z)], list(nl)), 'list[1]'
                    elif u < 0.9 or len(nl) != 1:
                        one, how = p.get_values(np.array([z]), list(nl)), 'ndarray[1]'
                    else:
                        one, how = p.get_values(float(z), nl[0]), 'float,str-name'
                except Exception as e:
                    ctx.violation('get-values-raised:' + after, 'get_values raised %s: %s' % (type(e).__name__, e),
                                  {'history': history, 'query': {'z': z, 'names': nl}})
                    continue
            one = np.array(one, dtype=float)
            singles.append((len(real) - 1, qi, how, one))
            ctx.evaluations += 1
            ctx.count('pred:batch-eq-single')
            if one.shape != (len(nl),):
                ctx.violation('shape:' + after, 'single query does not return a 1-D array of len(names)',
                              {'history': history, 'query': {'z': z, 'names': nl, 'call': how}, 'shape': list(one.shape)})
                continue
            if not same_table(one, big[qi]):
                ctx.violation('batch-ne-single:' + after, 'querying many depths at once differs from querying them one at a time',
                              {'history': history, 'query': {'z': z, 'names': nl, 'call': how}, 'single': one.tolist(),
                               'row_of_batch': big[qi].tolist(), 'batch_z': zs})
            if judged:
                judge_row(ctx, one, z, nl, snap, history, after, how)
        if judged:
            for qi in range(len(zs)):
                if qi not in pick:
                    judge_row(ctx, big[qi], zs[qi], nl, snap, history, after, 'ndarray')
        ctx.evaluations += len(zs)
    lines.append(req('Profile.getValues', snap['table'].shape[1], snap['table'], ','.join(snap['names']),
                     snap['zlo'], snap['zhi'], zs, ';'.join(','.join(nl) for _k, nl in nls)))
    pending.append(('query', {'history': history, 'after': after, 'zs': zs, 'nls': nls, 'real': real, 'singles': singles}))


# ---------------------------------------------------------------------------------------------
# scenarios
# ---------------------------------------------------------------------------------------------

SOURCES = ['array', 'xarray', 'ncfile', 'ncdataset', 'world', 'array-bottom-first']
OPS = ['append', 'extend', 'insert_density', 'insert_density_P0', 'insert_potential_density', 'insert_buoyancy_frequency']


def world_ocean_table(Ts=290.41, Ss=34.89):
    """the harness's OWN reading of tamoc/data/world_ocean_ave_ctd.dat and of the documented scaling (Sarmiento & Gruber
    world-ocean average: z, T [deg C], S, O2, O2_sat [umol/kg -> kg/m^3 with 31.9988 g/mol]; temperature capped at the surface
    value, salinity scaled to the surface value) + its own hydrostatic pressure.  Columns z, T, S, P, oxygen, oxygen_sat."""
    import common
    raw = np.loadtxt(os.path.join(common.REPO, 'tamoc', 'data', 'world_ocean_ave_ctd.dat'), comments='%')
    z = raw[:, 0]
    T = np.minimum(raw[:, 1] + 273.15, Ts + 273.15)
    S = raw[:, 2] * (Ss / raw[0, 2])
    P = sp.hydrostatic(z, T, S)
    return np.column_stack([z, T, S, P, raw[:, 3] * 31.9988 / 1.e6, raw[:, 4] * 31.9988 / 1.e6]), \
        ['z', 'temperature', 'salinity', 'pressure', 'oxygen', 'oxygen_sat']


def build_scenario(ctx, rng, workdir, force=None, exact=False):
    """returns (built profile, origin, (expected table, names, exact?)): the expected table is the HARNESS's own statement of
    what the profile must hold — the cast it handed over, converted to standard units by the harness — never read back
    from the object"""
    from tamoc import ambient
    u = rng.random()
    kind = force or ('world' if u < 0.08 else 'array-bottom-first' if u < 0.14 else None)
    err = 0.0 if exact else rng.choice([0.0, 0.0, 0.01, 10 ** rng.uniform(-4, -0.3)])
    stab = False if exact else rng.random() < 0.6
    if kind == 'world':
        which = rng.choice(['none', 'surface'])
        werr = 0.0 if exact else rng.choice([0.0, 0.01])
        with quiet():
            if which == 'none':
                p = ambient.Profile(None, chem_names=['oxygen', 'oxygen_sat'], chem_units=['kg/m^3', 'kg/m^3'],
                                    err=werr, stabilize_profile=stab)
                tabw, namesw = world_ocean_table()
            else:
                Ts, Ss = rng.uniform(5.0, 25.0), rng.uniform(33.0, 36.0)
                p = ambient.Profile(np.array([0.0, Ts, Ss]), err=werr, stabilize_profile=stab)
                tabw, namesw = world_ocean_table(Ts, Ss)
                tabw, namesw = tabw[:, :4], namesw[:4]
        return sp.Built(p, 'world', []), {'source': 'world-ocean:' + which, 'err': werr, 'stabilize_profile': stab}, \
            (tabw, namesw, werr == 0.0 and not stab)
    cast = sp.make_cast(rng, 3, 500, with_pressure=True if kind else None)
    if kind == 'array-bottom-first':
        # the same table stored from the deepest level up (an up-cast); pressure supplied
        data, names, units = sp.cast_table(cast)
        chem_names, chem_units = sp.chem_lists(cast)
        with quiet():
            p = ambient.Profile(np.array(data[::-1]), chem_names=list(chem_names), err=err, ztsp_units=list(units[:4]),
                                chem_units=list(chem_units), stabilize_profile=False)
        std, snames, _u = sp.standard_table(cast)
        return sp.Built(p, 'array-bottom-first', []), {'source': 'array-bottom-first', 'err': err, 'stabilize_profile': False,
                                                       'cast': cast['meta']}, (std[::-1], snames, err == 0.0)
    route = kind or rng.choice(sp.routes_for(cast))
    with quiet():
        built = sp.build_profile(cast, route, workdir, err=err, stabilize=stab)
    std, snames, _u = sp.standard_table(cast, dataset_order=(route != 'array'))
    if cast['P'] is None:
        # the profile must integrate the pressure itself: the harness's own hydrostatic column
        std = np.column_stack([std, sp.hydrostatic(cast['z'], cast['T'], cast['S'])])
        snames = snames + ['pressure']
    return built, {'source': route, 'err': err, 'stabilize_profile': stab, 'cast': cast['meta']}, (std, snames, err == 0.0 and not stab)


def check_construct(ctx, snap, expected, origin):
    """the table the profile holds after construction against the harness's own table, BY NAME"""
    want, wnames, exact = expected
    src = origin['source'].split(':')[0]
    ctx.count('pred:construct-table' + ('-exact' if exact else '-thinned'))
    ctx.evaluations += int(want.shape[0])
    case = {'history': [dict(origin, op='construct')], 'expected_names': wnames[1:], 'stored_names': snap['names'],
            'expected_first_row': want[0].tolist(), 'expected_levels': int(want.shape[0]), 'stored_levels': int(snap['table'].shape[0])}
    missing = [nm for nm in wnames[1:] if nm not in snap['names']]
    extra = [nm for nm in snap['names'] if nm not in wnames[1:]]
    if missing or extra:
        ctx.violation('construct-names-differ:' + src, 'the constructed profile does not hold exactly the variables it was given',
                      dict(case, missing=missing, unexpected=extra))
        return
    got = snap['table'][:, [0] + [1 + snap['names'].index(nm) for nm in wnames[1:]]]
    if exact:
        # err = 0, stabilisation off: every row, bit for bit (pressure integrated by the code: 1e-11)
        if not (same_table(got, want) or close_table(got, want)):
            bad = np.argwhere(~np.isclose(got, want, rtol=1e-11, atol=0, equal_nan=True))[:3] if got.shape == want.shape else []
            ctx.violation('construct-table-differs:' + src, 'the constructed profile (err=0, no stabilisation) does not hold the table it was given '
                          '(converted to standard units), compared by variable name',
                          dict(case, differs_at=[[int(i), wnames[int(j)]] for i, j in bad],
                               stored=[float(got[tuple(k)]) for k in bad], expected=[float(want[tuple(k)]) for k in bad],
                               stored_first_row=got[0].tolist()))
        return
    # thinned (err > 0) and / or stabilised: a sub-sequence of the given rows that keeps the first and the last one
    j, idx = 0, []
    for r in got:
        while j < want.shape[0] and not (same_table(want[j], r) or close_table(want[j:j + 1], r[None, :])):
            j += 1
        if j >= want.shape[0]:
            idx = None
            break
        idx.append(j)
        j += 1
    if idx is None:
        ctx.violation('construct-row-not-given:' + src, 'a stored row of the constructed profile is not a row of the table it was given, '
                      'compared by variable name', dict(case, stored_first_row=got[0].tolist()))
    elif not idx or idx[0] != 0 or idx[-1] != want.shape[0] - 1:
        ctx.violation('construct-first-last:' + src, 'the constructed profile does not keep the first / last given row', case)


def run(ctx, lean_ok):
    os.makedirs(SCRATCH, exist_ok=True)
    workdir = tempfile.mkdtemp(prefix='c07_', dir=SCRATCH)
    try:
        _run(ctx, lean_ok, workdir)
    finally:
        shutil.rmtree(workdir, ignore_errors=True)


def by_design(route, desc, exc):
    """raises that are the documented behaviour, not a failure of the code under test"""
    # a netCDF-backed profile refuses to overwrite an existing netCDF variable with other units (fill_nc_db_variable)
    return route == 'ncdataset' and desc['op'] == 'append' and isinstance(exc, ValueError) and 'units must be in' in str(exc)


def _run(ctx, lean_ok, workdir):
    nscen = ctx.n(48, 600)
    batch_lines, batch_pending = [], []
    stats = {'q_bad': 0, 'q_n': 0, 's_bad': 0, 's_n': 0}
    rec = FsolveRecorder()
    with rec:
        for si in range(nscen):
            rng = random.Random(ctx.rng.getrandbits(60))
            force_src = SOURCES[si % len(SOURCES)] if si < 2 * len(SOURCES) else None
            try:
                built, origin, expected = build_scenario(ctx, rng, workdir, force_src, exact=(si < 2 * len(SOURCES)))
            except Exception as e:
                ctx.count('construct-raised:%s' % type(e).__name__)
                ctx.violation('construct-raised:%s:%s' % (force_src or 'random', type(e).__name__),
                              'constructing a profile from a valid synthetic cast raised %s: %s' % (type(e).__name__, e),
                              {'source': force_src, 'seed_index': si})
                continue
            p = built.profile
            src = origin['source'].split(':')[0]
            ctx.count('source:' + src)
            history = [dict(origin, op='construct')]
            snap = snapshot(p)
            check_construct(ctx, snap, expected, origin)
            ctx.count('levels:%s' % ('3-9' if snap['table'].shape[0] < 10 else '10-99' if snap['table'].shape[0] < 100 else '100-500'))
            query_state(ctx, rng, p, snap, list(history), 'construct', batch_lines, batch_pending)
            # names later operations of THIS history will add, and the name lists that are asked again after every operation
            plan = rng.sample(['ua', 'va', 'wa', 'co2_bg', 'dye_7', 'methane_bg'], 3)
            plists = make_persistent_lists(rng, snap['names'], plan)
            persistent_queries(ctx, rng, p, snap, list(history), 'construct', plists)
            nops = rng.choice([0, 1, 2, 3, 4, 5, 7])
            if si < 3 * len(OPS):
                nops = max(nops, 1)
            opnames = []
            for k in range(nops):
                force_op = OPS[si % len(OPS)] if (k == 0 and si < 3 * len(OPS)) else None
                desc, do, (drv, payload) = gen_op(rng, p, snap, built, workdir, force_op, plan)
                rec.last = None
                ret = None
                with quiet():
                    try:
                        ret = do()
                        raised = None
                    except Exception as e:
                        raised = e
                after = desc['op'] + ('(P0)' if 'P0' in desc else '')
                ctx.count('op:' + after)
                if raised is not None:
                    desc = dict(desc, raised='%s: %s' % (type(raised).__name__, raised))
                history.append(desc)
                opnames.append(after)
                new = snapshot(p)
                if raised is not None:
                    if by_design(built.route, desc, raised):
                        ctx.count('op-refused-by-design:append-other-units-to-netCDF-variable')
                    elif (desc['op'] == 'extend_profile_deeper' and desc.get('N') is None and isinstance(raised, ValueError)
                          and 'Selected depths outside range' in str(raised)
                          and snap['zmin'] + 1.0 * (snap['zmax'] - snap['zmin']) > snap['zmax']):
                        # exact signature: l.317 z = z_min + h_N*(z_max - z_min) with the default h_N = 1.0 rounds ABOVE z_max
                        # observation, not a violation of the look-up property (the profile is unchanged and still answers; DESIGN §9.7)
                        ctx.count('observation:op-raised:extend-hN-rounding')
                    elif src == 'array-bottom-first' and desc['op'] == 'extend_profile_deeper':
                        ctx.count('op-raised:extend-on-bottom-first-table')
                        ctx.violation('extend-deeper-on-bottom-first-table',
                                      'extend_profile_deeper on a profile stored bottom-first raised %s' % desc['raised'],
                                      {'history': list(history)})
                    else:
                        ctx.count('op-raised:%s:%s' % (after, type(raised).__name__))
                        ctx.violation('op-raised:%s:%s' % (after, type(raised).__name__),
                                      'a profile operation raised on a valid profile: %s' % desc['raised'], {'history': list(history)})
                    # an operation that raises must leave a usable profile: it is queried again
                    snap = new
                    if snap['order'] in ('increasing', 'decreasing'):
                        query_state(ctx, rng, p, snap, list(history), after + '[raised]', batch_lines, batch_pending)
                        persistent_queries(ctx, rng, p, snap, list(history), after + '[raised]', plists)
                    continue
                ctx.count('op-done:' + after)
                # ---- transition correspondence: Lean step on the state before vs the state after ----
                if drv == 'Profile.extendDeeper':
                    S1 = float(np.ravel(rec.last)[0]) if rec.last is not None else float('nan')
                    payload = payload + [S1]
                if drv == 'Profile.densityAt':
                    batch_lines.append(req(drv, *(state_args(snap) + payload)))
                    batch_pending.append(('density', {'history': list(history), 'after': after, 'real': np.array(ret, dtype=float),
                                                      'before': snap, 'now': new}))
                else:
                    batch_lines.append(req(drv, *(state_args(snap) + payload)))
                    batch_pending.append(('step', {'history': list(history), 'after': after, 'now': new}))
                before, snap = snap, new
                if snap['order'] not in ('increasing', 'decreasing'):
                    # the stored depths are no longer distinct / ordered: the profile is broken, the history ends here
                    narrow = before['order'] == 'decreasing' and desc['op'] == 'extend_profile_deeper' and snap['order'] == 'duplicates'
                    ctx.violation('extend-deeper-on-bottom-first-table' if narrow else 'stored-depths-%s:%s' % (snap['order'], after),
                                  'after the operation the stored depths are %s' % snap['order'] +
                                  (': extend_profile_deeper drops the LAST stored row (the surface row of a bottom-first table) and appends '
                                   'below the deepest one, which is stored first' if narrow else ''),
                                  {'history': list(history), 'stored_depths_head': snap['table'][:3, 0].tolist(),
                                   'stored_depths_tail': snap['table'][-3:, 0].tolist(), 'z_min': snap['zmin'], 'z_max': snap['zmax']})
                    break
                # the persistent lists FIRST (before any other query of this state touches the profile)
                persistent_queries(ctx, rng, p, snap, list(history), after, plists)
                query_state(ctx, rng, p, snap, list(history), after, batch_lines, batch_pending)
            ctx.count('history')
            if any(pl['late'] for pl in plists):
                ctx.count('history:name-unknown-at-first-query-known-later')
            ctx.nontrivial.add((origin['source'], snap['table'].shape, tuple(opnames)))
            if si < 4:
                ctx.sample({'source': origin['source'], 'levels': int(snap['table'].shape[0]), 'names': snap['names'],
                            'history': [h['op'] for h in history], 'z_range': [snap['zmin'], snap['zmax']]})
            built.close()
            if len(batch_lines) >= 400:
                flush(ctx, lean_ok, batch_lines, batch_pending, stats)
                batch_lines, batch_pending = [], []
    flush(ctx, lean_ok, batch_lines, batch_pending, stats)
    if lean_ok:
        ctx.oblige('correspondence Model.Profile.getValues(build(claimed table), table ends) == real cached get_values on %d (state, name-list) batteries (rel %g)'
                   % (stats['q_n'], TOL['gen_vs_source']), stats['q_bad'] == 0 and stats['q_n'] > 0, '%d disagreements' % stats['q_bad'])
        ctx.oblige('correspondence Model.Profile.step(state before, op) == real state after the operation on %d transitions (rel %g; names, z_min, z_max exact)'
                   % (stats['s_n'], TOL['gen_vs_source']), stats['s_bad'] == 0, '%d disagreements' % stats['s_bad'])
    # ---- floors: the run must actually have exercised every source, every operation and every predicate ----
    h = ctx.hist
    floors = [('source:' + k, 1) for k in ('array', 'xarray', 'ncfile', 'ncdataset', 'world-ocean', 'array-bottom-first')]
    floors += [('op-done:' + k, 3) for k in ('append', 'extend_profile_deeper', 'insert_density', 'insert_density(P0)',
                                             'insert_potential_density', 'insert_buoyancy_frequency')]
    floors += [('pred:node', 2000), ('pred:between', 2000), ('pred:clamp', 1000), ('pred:unknown-zero', 1000),
               ('pred:batch-eq-single', 1000), ('pred:short-batch', 300), ('pred:integer-depth', 300),
               ('pred:cache-fresh', 80), ('pred:z-range', 80)]
    floors += [('pred:construct-table-exact', 12), ('pred:construct-table-thinned', 8), ('pred:persistent-list', 200), ('pred:late-known-name-answered', 200),
               ('history:name-unknown-at-first-query-known-later', int(math.ceil(0.3 * h.get('history', 0))))]
    low = [(k, h.get(k, 0), f) for k, f in floors if h.get(k, 0) < f]
    ctx.oblige('coverage floors: every source form, every operation (completed >= 3 times) and every predicate exercised (%d counters)' % len(floors),
               not low, 'below floor (counter, seen, floor): %r' % low)


def flush(ctx, lean_ok, lines, pending, stats):
    if not lines or not lean_ok:
        return
    out = run_driver(ctx, 'C07', lines)
    if out is None:
        return
    for (kind, info), o in zip(pending, out):
        if not isinstance(o, list):
            ctx.broken.append(('correspondence', 'driver answer', '%r for %s' % (o, info['after'])))
            stats['q_bad' if kind == 'query' else 's_bad'] += 1
            continue
        if kind == 'query':
            zs, nls, real = info['zs'], info['nls'], info['real']
            for k, (nk, nl) in enumerate(nls):
                stats['q_n'] += 1
                shape_kind, flat = o[2 * k], o[2 * k + 1]
                if real[k] is None:
                    continue
                model = np.array(flat, dtype=float).reshape(len(zs), len(nl)) if len(nl) else np.zeros((len(zs), 0))
                if shape_kind != (1 if len(zs) == 1 else 2) or not close_table(model, real[k]):
                    stats['q_bad'] += 1
                    if stats['q_bad'] <= 3:
                        bad = [(zs[i], nl[j], float(model[i, j]), float(real[k][i, j])) for i in range(len(zs)) for j in range(len(nl))
                               if not close(float(model[i, j]), float(real[k][i, j]), TOL['gen_vs_source'])][:4]
                        ctx.broken.append(('correspondence', 'get_values after ' + info['after'],
                                           'history=%r names(%s)=%r (z, name, model-from-claimed-table, real-cached)=%r'
                                           % ([h['op'] for h in info['history']], nk, nl, bad)))
            # the single-depth answers against the same model rows
            for k, qi, how, one in info['singles']:
                nl = nls[k][1]
                flat = o[2 * k + 1]
                row = [flat[qi * len(nl) + j] for j in range(len(nl))]
                if one.shape != (len(nl),) or not close([float(v) for v in one], row, TOL['gen_vs_source']):
                    stats['q_bad'] += 1
                    if stats['q_bad'] <= 3:
                        ctx.broken.append(('correspondence', 'get_values(single depth) after ' + info['after'],
                                           'history=%r z=%r call=%s names=%r model=%r real=%r'
                                           % ([h['op'] for h in info['history']], zs[qi], how, nl, row, one.tolist())))
        elif kind == 'density':
            stats['s_n'] += 1
            model = np.array(o[0], dtype=float)
            ok = close_table(model, info['real']) and same_table(info['before']['table'], info['now']['table']) \
                and info['before']['names'] == info['now']['names']
            if not ok:
                stats['s_bad'] += 1
                ctx.broken.append(('correspondence', 'insert_density(P0)', 'history=%r' % [h['op'] for h in info['history']]))
        else:
            stats['s_n'] += 1
            now = info['now']
            k, rows, names, zmin, zmax, crows, cnames = o
            mt = np.array(rows, dtype=float).reshape(-1, k) if k else np.zeros((0, 0))
            mc = np.array(crows, dtype=float).reshape(-1, k) if k else np.zeros((0, 0))
            ok = (names.split(',') if names else []) == now['names'] and close_table(mt, now['table']) \
                and zmin == now['zmin'] and zmax == now['zmax'] \
                and (cnames.split(',') if cnames else []) == now['cnames'] and close_table(mc, now['cache'])
            if not ok:
                stats['s_bad'] += 1
                if stats['s_bad'] <= 3:
                    why = []
                    if (names.split(',') if names else []) != now['names']:
                        why.append('names %r vs %r' % (names, now['names']))
                    if mt.shape != now['table'].shape:
                        why.append('shape %r vs %r' % (mt.shape, now['table'].shape))
                    elif not close_table(mt, now['table']):
                        d = np.argwhere(~np.isclose(mt, now['table'], rtol=1e-11, atol=0, equal_nan=True))[:3]
                        why.append('table differs at %r: model %r real %r' % (d.tolist(), [float(mt[tuple(i)]) for i in d], [float(now['table'][tuple(i)]) for i in d]))
                    if zmin != now['zmin'] or zmax != now['zmax']:
                        why.append('z range %r vs %r' % ((zmin, zmax), (now['zmin'], now['zmax'])))
                    if not close_table(mc, now['cache']) or (cnames.split(',') if cnames else []) != now['cnames']:
                        why.append('cache differs (model rebuilds after the operation)')
                    ctx.broken.append(('correspondence', 'state after ' + info['after'],
                                       'history=%r: %s' % ([h['op'] for h in info['history']], '; '.join(why))))
