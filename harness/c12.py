"""
C12 — Live-oil builder meets its gas-to-oil ratio and flow-rate targets.      (PARTIAL by design)

proof        : TamocV/Props/C12.lean over the hand model TamocV/Model/Oil.lean
               (dbm_utilities.get_oil (TAMOC-database branch), mix_gas_for_gor, gas_fraction,
               set_mass_fluxes; flash and densities at 15 C / 1 atm and the value returned by fsolve
               are oracle parameters)
tie          : (H) oracle-table correspondence: FluidMixture.equilibrium / .density (class attributes) and
               dbm_utilities.fsolve are wrapped by recorders from this process (restored afterwards,
               nothing in /repo changes); the recorded flash/density answers and the recorded root are
               handed to the Lean model; padded vectors, first guess, residual and returned mass fluxes
               are compared
real code    : the postconditions themselves on the real `get_oil` output, re-flashed with
               oil.equilibrium / oil.density at 288.15 K, 101325 Pa: rate target, GOR target (this is the
               part that is only OBSERVED: fsolve convergence), non-negativity, proportionality to the
               rate (second call), dead-oil proportions and component order, zero atmospheric gases.
"""
import io
import os
import math
import time
import traceback
import signal
import warnings
import contextlib
import numpy as np
from common import req, close, relerr, TOL, run_driver

META = {
    'text': 'Theorems (Lean 4, over the reals, any number of dead-oil compounds and tracked atmospheric gases): returned mass fluxes are non-negative; exactly proportional to the requested rate; the dead-oil components keep their given proportions and order (gas block = natural gas x beta, atmospheric gases zero; normalisation / absolute scale of the given masses irrelevant - also checked on the real code component-wise and by the metamorphic predicate get_oil(lambda*masses) = get_oil(masses)); the liquid (gas, for the gas-rate convention) volume flow of the returned fluxes at standard conditions equals the requested rate EXACTLY, given (hypotheses) homogeneity of the flash and scale invariance of density and that the rated phase is present - when it is absent no scaling can meet a positive rate (rate_target_infeasible_absent_phase); PARTIAL: the gas-to-oil ratio of the returned fluxes equals the requested one IF the value returned by fsolve is a root of gas_fraction (gor_target_if_root). That fsolve returns a root is NOT proved: it is observed on the real get_oil over the quantifier by re-flashing the returned fluxes at 288.15 K, 101325 Pa, with coverage floors per GOR band (0, 10-1000, >1000, >5000) as obligations. The model is tied to the real code by oracle-table correspondence (recorded flash / density answers and the recorded root replayed through the model).',
    'note': 'PARTIAL: convergence of scipy.optimize.fsolve inside mix_gas_for_gor is a library contract that is only sampled, and observed to FAIL (known finding gor-fsolve-start-beyond-dew-point) for dead oils with a small C8+ fraction once GOR exceeds about 2000 scf/bbl - about a quarter of random database oils at 5000-20000; second known finding: gas-rate convention for a gas-free oil returns NaN silently. Both known keys are emitted only after their signature is verified on the case (all gas at the first guess + fsolve returned it + a root found by bisection; resp. fp_type 0, gor 0, no gas phase, all NaN); the share of cases ending in a known signature and of time-outs is bounded by obligations; a raise of get_oil is a keyed violation. Trusted: Lean kernel + 3 standard axioms; the hand transcription Model/Oil.lean (validated each run by the correspondence); real arithmetic for IEEE doubles. The flash and the equations of state are oracle parameters; their homogeneity / scale invariance are HYPOTHESES sampled on every case. The targets are judged on a FluidMixture the harness builds itself (database constants, own evaluation of the documented Pedersen coefficients); the returned mixture must carry exactly these constants. Only the TAMOC-database branch of get_oil is modelled (no ADIOS/GNOME import).',
    'technique': 'Lean 4 proof over a hand-written model + oracle-table correspondence + re-flash of the real outputs with coverage floors',
}
GEN = []
MODULES = ['TamocV.Props.C12', 'TamocV.Model.Oil']
RULE = ('get_oil on dead oils of 2-12 of the 12 database compounds that are liquid at 15 C / 1 atm, masses Dirichlet or log-uniform '
        '(1e-4..1); the absolute scale of the GIVEN masses cycles inside every GOR band through: total 1e-12..3e-10, total 1e-9..1e-6, '
        'trace components (fractions 1e-12..1e-6, normalised or total 1e-3..1e6), normalised / total 1e-2..1e6; given as array or list; '
        'on a fixed third of the cases get_oil(lambda * masses) for lambda = 1e-9, 1e-6, 1e3; on another third 2-3 further calls in the '
        'same process with the same component list and other masses (the last also with other ca / fp_type / q / gor); rate 1, 1e6 and log-uniform 1-1e6 bbl/d; stratified '
        'GOR: 0 (oil-rate and gas-rate convention), 10-1000, 1000-5000, 5000-20000 (random oils and oils with >= 50 % '
        'toluene/ethylbenzene/n-decane that stay liquid under the gas load), two fixed cases; oil-rate and gas-rate convention; '
        'ca = [], all four atmospheric gases or a subset; a second call at another rate for proportionality; a case is non-trivial '
        'when its rounded inputs are new')
LEVEL_NOTE = ('theorems over the reals about the hand-written model of the live-oil builder; flash/EOS answers and the root returned '
              'by fsolve are an oracle; the GOR target is proved only conditionally on fsolve returning a root (observed on the real '
              'code); homogeneity of the flash and scale invariance of density are sampled; floating point and libm are trusted')

T_STD, P_STD = 273.15 + 15., 101325.
FT3, BBL = 0.0283168, 0.158987
TOL_RATE = 1e-9    # rate target: exact in the reals; in floating point it rests on flash(k*m) = k*flash(m), which the flash
#                    satisfies to rounding because it iterates on mole fractions (measured worst over 1500 cases: 1.6e-14)
TOL_GOR = 1e-9     # GOR target: what the unchanged tree supports with a margin of 1000 (measured worst over 1500 converged
#                    cases: 8e-13; fsolve converges quadratically well below its xtol).  A root finder stopped at xtol=1e-3
#                    misses the target by 1e-5..1e-3 and is reported.
TOL_SCALE = 1e-12   # get_oil(lambda * masses) vs get_oil(masses), component-wise relative (measured worst over 170 x 3 scaled calls on the unchanged tree: 1.4e-14)
CALL_TIMEOUT = {'quick': 45, 'thorough': 90}  # s, per get_oil call (slowest observed: 4.1 s)

LIQUIDS = ['2-3-dimethylbutane', '2-methylpentane', '3-methylpentane', 'benzene', 'ethylbenzene', 'isopentane',
           'n-decane', 'n-heptane', 'n-hexane', 'n-pentane', 'neohexane', 'toluene']
GAS = ['methane', 'ethane', 'propane', 'isobutane', 'n-butane']
GAS_MF = [0.939, 0.042, 0.0184, 0.0003, 0.0003]
AIR = ['nitrogen', 'oxygen', 'argon', 'carbon_dioxide']


def audit_files():
    return ['TamocV/Num.lean', 'TamocV/Real.lean', 'TamocV/Proto.lean', 'TamocV/Lemmas/Basic.lean',
            'TamocV/Lemmas/C12.lean', 'TamocV/Model/Oil.lean', 'TamocV/Props/C12.lean']


def fl(x):
    return np.atleast_1d(np.asarray(x, dtype=float)).ravel().tolist()


class Timeout(Exception):
    pass


@contextlib.contextmanager
def timebox(seconds):
    def handler(signum, frame):
        raise Timeout()
    old = signal.signal(signal.SIGALRM, handler)
    signal.setitimer(signal.ITIMER_REAL, seconds)
    try:
        yield
    finally:
        signal.setitimer(signal.ITIMER_REAL, 0)
        signal.signal(signal.SIGALRM, old)


@contextlib.contextmanager
def quiet():
    with contextlib.redirect_stdout(io.StringIO()), warnings.catch_warnings(), np.errstate(all='ignore'):
        warnings.simplefilter('ignore')
        yield


class Recorder:
    """class-level recorders on FluidMixture.equilibrium / .density and on dbm_utilities.fsolve"""

    def __enter__(self):
        from tamoc import dbm, dbm_utilities
        self.dbm, self.du = dbm, dbm_utilities
        self.o_eq, self.o_den, self.o_fs = dbm.FluidMixture.equilibrium, dbm.FluidMixture.density, dbm_utilities.fsolve
        self.flash, self.dens, self.roots = [], [], []
        rec = self

        def eq(obj, m, T, P, *a, **k):
            r = rec.o_eq(obj, m, T, P, *a, **k)
            rec.flash.append((fl(m), float(T), float(P), fl(r[0][0, :]) + fl(r[0][1, :])))
            return r

        def den(obj, m, T, P):
            r = rec.o_den(obj, m, T, P)
            rec.dens.append((fl(m), float(T), float(P), [float(r[0, 0]), float(r[1, 0])]))
            return r

        def fs(func, x0, args=(), **k):
            r = rec.o_fs(func, x0, args=args, **k)
            rec.roots.append({'x0': float(np.asarray(x0).ravel()[0]), 'beta': float(np.asarray(r).ravel()[0]), 'args': args})
            return r
        dbm.FluidMixture.equilibrium = eq
        dbm.FluidMixture.density = den
        dbm_utilities.fsolve = fs
        return self

    def __exit__(self, *a):
        self.dbm.FluidMixture.equilibrium = self.o_eq
        self.dbm.FluidMixture.density = self.o_den
        self.du.fsolve = self.o_fs

    def table(self):
        out, seen = [], set()
        for name, calls in (('flash', self.flash), ('density', self.dens)):
            for m, T, P, r in calls:
                if T != T_STD or P != P_STD:
                    continue
                key = (name, tuple(m))
                if key in seen:
                    continue
                seen.add(key)
                out += [name, m, r]
        return out


# ---------------------------------------------------------------------------

FIXED_CASES = [
    # volatile condensate at a high GOR: the first guess of mix_gas_for_gor lies beyond the dew point
    {'composition': ['2-methylpentane', 'neohexane', '3-methylpentane', 'n-heptane', 'n-pentane'],
     'masses': [0.0128, 0.1459, 0.0041, 0.0041, 0.8331], 'norm': 'normalised', 'q': 1000., 'gor': 2348., 'fp_type': 1, 'ca': [],
     'stratum': 'fixed',
     'rate_factor': 2., 'masses_as_list': False},
    # the documented default blowout oil at a moderate GOR
    {'composition': ['n-hexane', 'n-heptane', 'benzene', 'toluene', 'n-decane'], 'masses': [0.1, 0.2, 0.2, 0.3, 0.2],
     'norm': 'normalised', 'q': 20000., 'gor': 500., 'fp_type': 1, 'ca': list(AIR), 'rate_factor': 0.5, 'masses_as_list': True,
     'stratum': 'fixed'},
]


HEAVY = ('toluene', 'ethylbenzene', 'n-decane')


SCALE_MODES = ('tiny-total', 'trace', 'small-total', 'plain')


def gen_oil(r, heavy=False, scale_mode='plain'):
    """dead oil: composition, GIVEN masses (in the user's units, normalised or not), label.
    scale_mode: 'tiny-total' total mass 1e-12..3e-10 (every entry <= 1e-9); 'small-total' total 1e-9..1e-6;
    'trace' one or two components at fractions 1e-12..1e-6 (one of them <= 1e-9), total 1 or log-uniform 1e-3..1e6;
    'plain' normalised or total log-uniform 1e-2..1e6"""
    n = r.choice([2, 12, r.randint(2, 12), r.randint(2, 12), r.randint(2, 12)])
    comp = r.sample(LIQUIDS, n)
    if r.random() < 0.5:
        ms = np.array([r.gammavariate(1., 1.) + 1e-9 for _ in comp])
    else:
        ms = np.array([10 ** r.uniform(-4, 0) for _ in comp])
    ms = ms / ms.sum()
    if heavy:
        # an oil that stays a liquid at 15 C / 1 atm under a large gas load: >= 50 % toluene / ethylbenzene / n-decane
        if not any(cn in HEAVY for cn in comp):
            comp[r.randrange(n)] = r.choice(HEAVY)
        hv = np.array([cn in HEAVY for cn in comp])
        f = r.uniform(0.5, 0.95)
        ms[hv] *= f / ms[hv].sum()
        ms[~hv] *= (1. - f) / max(ms[~hv].sum(), 1e-300)
        ms = ms / ms.sum()
    if scale_mode == 'trace':
        others = [k for k in range(n) if k != int(np.argmax(ms))]
        k1 = r.choice(others)
        ms[k1] = 10 ** r.uniform(-12, -9)
        if len(others) > 1 and r.random() < 0.5:
            k2 = r.choice([k for k in others if k != k1])
            ms[k2] = 10 ** r.uniform(-9, -6)
        ms = ms / ms.sum()
        if r.random() < 0.5:
            return comp, ms, 'trace, normalised'
        return comp, ms * 10 ** r.uniform(-3, 6), 'trace, scaled'
    if scale_mode == 'tiny-total':
        return comp, ms * 10 ** r.uniform(-12, -9.5), 'total 1e-12..3e-10'
    if scale_mode == 'small-total':
        return comp, ms * 10 ** r.uniform(-9, -6), 'total 1e-9..1e-6'
    if r.random() < 0.5:
        return comp, ms, 'normalised'
    return comp, ms * 10 ** r.uniform(-2, 6), 'scaled'


def gen_case(r, stratum, scale_mode='plain'):
    comp, ms, norm = gen_oil(r, heavy=stratum.endswith('heavy'), scale_mode=scale_mode)
    q = r.choice([1., 1.e6, 10 ** r.uniform(0, 6), 10 ** r.uniform(0, 6), 10 ** r.uniform(2, 5)])
    fp = r.choice([1, 1, 0])
    if stratum == 'gor0-oil':
        gor, fp = 0., 1
    elif stratum == 'gor0-gas':
        gor, fp = 0., 0
    elif stratum == '10-1000':
        gor = r.choice([10., 10 ** r.uniform(1, 3), 10 ** r.uniform(1, 3), 10 ** r.uniform(2, 3)])
    elif stratum == '1000-5000':
        gor = 10 ** r.uniform(3, math.log10(5000.))
    else:
        gor = r.choice([20000., 10 ** r.uniform(math.log10(5000.), math.log10(20000.)), r.uniform(5000., 20000.)])
    ca = r.choice([[], [], list(AIR), r.sample(AIR, r.randint(1, 3))])
    c2 = r.choice([2., 0.5, 10 ** r.uniform(-3, 3), 86400.])
    return {'stratum': stratum, 'composition': comp, 'masses': ms.tolist(), 'norm': norm, 'q': q, 'gor': gor, 'fp_type': fp, 'ca': ca,
            'rate_factor': c2, 'masses_as_list': r.random() < 0.25, 'scale_mode': scale_mode}


# (stratum, quick count, thorough count); the two fixed cases come first
PLAN = [('gor0-oil', 4, 70), ('gor0-gas', 1, 20), ('10-1000', 5, 140), ('1000-5000', 4, 90), ('5000-20000-heavy', 4, 80),
        ('5000-20000', 3, 100)]
# floors on JUDGED cases (all predicates evaluated: not timed out, not raised, not a known signature): (quick, thorough)
FLOORS = {'gor=0': (3, 60), '0<gor<=1000': (5, 120), 'gor>1000': (7, 150), 'gor>5000': (4, 90)}
MAX_TIMEOUT_SHARE = 0.10
MAX_KNOWN_SHARE = 0.30


def band(c):
    g = c['gor']
    return ['gor=0'] if g == 0. else (['0<gor<=1000'] if g <= 1000. else (['gor>1000', 'gor>5000'] if g > 5000. else ['gor>1000']))


def call_get_oil(c, q):
    from tamoc import dbm_utilities
    ms = list(c['masses']) if c['masses_as_list'] else np.array(c['masses'])
    return dbm_utilities.get_oil({'composition': list(c['composition']), 'masses': ms}, q, c['gor'], list(c['ca']), c['fp_type'])


def raise_key(e):
    """narrow key of an exception raised by the code under test: type + innermost frame inside <repo>/tamoc"""
    import common
    tb = traceback.extract_tb(e.__traceback__)
    pkg = os.path.join(os.path.realpath(common.REPO), 'tamoc') + os.sep
    inner = [f for f in tb if os.path.realpath(f.filename).startswith(pkg)]
    if inner:
        site = '%s:%s' % (os.path.basename(inner[-1].filename), inner[-1].name)
    else:
        site = '%s:%s' % (os.path.basename(tb[-1].filename), tb[-1].name) if tb else '?'
    return 'get_oil-raised:%s@%s' % (type(e).__name__, site), site


def reflash(oil, mflux):
    """volumes (m^3/s) of gas and liquid when the fluxes are brought to equilibrium at standard conditions"""
    m, xi, K = oil.equilibrium(mflux, T_STD, P_STD)
    vg = vl = 0.
    if np.sum(m[0, :]) > 0.:
        vg = float(np.sum(m[0, :]) / oil.density(m[0, :], T_STD, P_STD)[0, 0])
    if np.sum(m[1, :]) > 0.:
        vl = float(np.sum(m[1, :]) / oil.density(m[1, :], T_STD, P_STD)[1, 0])
    return m, vg, vl


_AIR_HYDRO = {'nitrogen': 0.08, 'oxygen': 0.08, 'carbon_dioxide': 0.01}
_AIR_ORDER = ['nitrogen', 'oxygen', 'carbon_dioxide']
_AIR_GAS = {'nitrogen': [0.0311, 0.0515, 0.0852, 0.1033, 0.08], 'oxygen': [0.0311, 0.0515, 0.0852, 0.1033, 0.08],
            'carbon_dioxide': [0.12, 0.12, 0.12, 0.12, 0.12]}


def own_pedersen(M, comp):
    """the harness's OWN evaluation of the binary interaction coefficients documented for dbm_utilities.pedersen
    (Pedersen et al., Table 4.2): 0.00145 * max(Mi/Mj, Mj/Mi) between the natural-gas hydrocarbons; tabulated values
    between N2 / O2 / CO2 and the natural-gas hydrocarbons; among N2 / O2 / CO2 the heavy-hydrocarbon value of the one
    listed later; zero for every compound outside {pseudo-components, N2, O2, CO2, C1-nC4} (database liquids, argon)."""
    n = len(comp)
    D = np.zeros((n, n))
    for i in range(n):
        for j in range(n):
            if i == j:
                continue
            a, b = comp[i], comp[j]
            if a in GAS and b in GAS:
                D[i, j] = 0.00145 * max(M[j] / M[i], M[i] / M[j])
            elif a in _AIR_ORDER and b in GAS:
                D[i, j] = _AIR_GAS[a][GAS.index(b)]
            elif b in _AIR_ORDER and a in GAS:
                D[i, j] = _AIR_GAS[b][GAS.index(a)]
            elif a in _AIR_ORDER and b in _AIR_ORDER:
                later = a if _AIR_ORDER.index(a) > _AIR_ORDER.index(b) else b
                D[i, j] = _AIR_HYDRO[later]
    return D


_CONSTANTS = ('M', 'Pc', 'Tc', 'omega', 'Vc', 'Vb', 'Tb', 'kh_0', 'neg_dH_solR', 'nu_bar', 'K_salt', 'B', 'dE', 'C_pen', 'C_pen_T',
              'delta_groups', 'calc_delta')


def reference_mixture(exp_comp):
    """FluidMixture of the expected composition built by the HARNESS straight from the chemical database (no user_data
    re-packed by the builder) with the harness's own Pedersen coefficients: the thermodynamics the targets are judged in"""
    from tamoc import dbm
    db = dbm.FluidMixture(list(exp_comp))
    return dbm.FluidMixture(list(exp_comp), delta=own_pedersen(db.M, list(exp_comp)))


def mixture_differences(oil, ref):
    bad = []
    for a in _CONSTANTS:
        x, y = np.asarray(getattr(oil, a, np.nan), dtype=float), np.asarray(getattr(ref, a), dtype=float)
        if x.shape != y.shape or not np.array_equal(x, y, equal_nan=True):
            bad.append(a)
    x, y = np.asarray(oil.delta, dtype=float), np.asarray(ref.delta, dtype=float)
    if x.shape != y.shape or not np.all(np.abs(x - y) <= 1e-12):
        bad.append('delta')
    return bad


def run_case(ctx, c, worst):
    """real code + predicates; returns the driver lines and a comparison closure (or None)"""
    from tamoc import dbm_utilities
    rep = dict(c)
    t0 = time.time()
    try:
        with Recorder() as rec, quiet(), timebox(CALL_TIMEOUT[ctx.tier if ctx.tier in CALL_TIMEOUT else 'quick']):
            oil, mflux = call_get_oil(c, c['q'])
    except Timeout:
        ctx.count('get_oil timed out (time-boxed; bounded by a coverage obligation)')
        c['outcome'] = 'timeout'
        return None
    except Exception as e:
        key, site = raise_key(e)
        ctx.violation(key, 'get_oil raised %s: %s (innermost tamoc frame %s) on an input of the quantifier'
                      % (type(e).__name__, str(e)[:200], site), dict(rep, traceback=traceback.format_exc()[-3000:]))
        c['outcome'] = 'raised'
        return None
    c['t_get_oil'] = time.time() - t0
    mflux = np.asarray(mflux, dtype=float)
    rep['mass_flux'] = mflux.tolist()
    rep['composition_returned'] = list(oil.composition)
    n = len(c['composition'])
    off = 5 if c['gor'] > 0. else 0
    exp_comp = (GAS if c['gor'] > 0. else []) + list(c['composition']) + list(c['ca'])
    if list(oil.composition) != exp_comp or len(mflux) != len(exp_comp):
        ctx.violation('get_oil-composition-order', 'returned mixture is not [natural gas] + dead oil + atmospheric gases in the given order',
                      rep)
        c['outcome'] = 'violation'
        return None
    # the mixture returned by the builder must be the database mixture of the expected composition with the documented
    # interaction coefficients; the targets are judged on the harness's own mixture, never on the returned object
    ref = reference_mixture(exp_comp)
    diff = mixture_differences(oil, ref)
    if diff:
        ctx.violation('get_oil-mixture-constants:' + '+'.join(diff),
                      'the FluidMixture returned by get_oil does not carry the database constants / documented Pedersen interaction '
                      'coefficients of its composition (differs in %s)' % ', '.join(diff),
                      dict(rep, differs=diff, delta_returned=np.asarray(oil.delta).tolist(), delta_expected=ref.delta.tolist()))
        c['outcome'] = 'violation'
        return None
    oil = ref
    root = rec.roots[-1] if rec.roots else None
    if c['gor'] > 0. and root is None:
        ctx.violation('get_oil-no-root-find', 'gor > 0 but mix_gas_for_gor did not call the root finder', rep)
        c['outcome'] = 'violation'
        return None
    # ---------------- GOR target first (its failure makes everything else meaningless) ----------------
    if not np.all(np.isfinite(mflux)):
        if root is None:
            key, what = classify_gasfree_nan(c, oil, mflux, rep)
            ctx.violation(key, 'get_oil returned non-finite mass fluxes: ' + what, rep)
        else:
            key, what = classify_gor_failure(c, root, rep)
            ctx.violation(key, 'get_oil returned non-finite mass fluxes: ' + what, rep)
        c['outcome'] = 'known-signature' if key in (KEY_DEW, KEY_GASFREE) else 'violation'
        return None
    with quiet():
        m, vg, vl = reflash(oil, mflux)
    rep.update({'v_gas_std': vg, 'v_liq_std': vl})
    if c['gor'] > 0.:
        gor_got = (vg / FT3) / (vl / BBL) if vl > 0. else float('inf')
        e = abs(gor_got - c['gor']) / c['gor']
        rep.update({'gor_reflashed': gor_got, 'gor_relerr': e})
        if math.isfinite(e):
            worst['gor'] = max(worst['gor'], e)
        if not e <= TOL_GOR:
            key, what = classify_gor_failure(c, root, rep)
            ctx.violation(key, 'returned mass fluxes re-flashed at 15 C, 1 atm do not have the requested gas-to-oil ratio: ' + what, dict(rep))
            if key == KEY_DEW:
                c['outcome'] = 'known-signature'
    else:
        if vg != 0.:
            ctx.violation('gor-zero-has-gas', 'GOR 0 requested but the returned fluxes form a gas phase at 15 C, 1 atm', rep)
    # ---------------- rate target ----------------
    rate = (vl if c['fp_type'] == 1 else vg) / BBL * 86400.
    e = abs(rate - c['q']) / c['q']
    if not math.isfinite(e):
        e = float('inf')
    rep.update({'rate_reflashed_bbl_d': rate, 'rate_relerr': e})
    worst['rate'] = max(worst['rate'], e)
    if not e <= TOL_RATE:
        ctx.violation('rate-target-fp%d' % c['fp_type'], 'returned mass fluxes re-flashed at 15 C, 1 atm do not give the requested %s volume flow'
                      % ('liquid' if c['fp_type'] == 1 else 'gas'), rep)
    # ---------------- non-negative ----------------
    if not np.all(mflux >= 0.):
        ctx.violation('flux-negative', 'a returned mass flux is negative', rep)
    if root is not None and not (0. <= root['beta'] <= 1.):
        ctx.count('root beta outside [0,1]')
    # ---------------- dead-oil proportions, atmospheric gases, gas block ----------------
    ms = np.array(c['masses'])
    dead = mflux[off:off + n]
    k = float(np.sum(dead) / np.sum(ms))
    # COMPONENT-WISE relative (every flux is one multiplication away from its given mass): a trace component that is
    # dropped or distorted is seen however small it is
    e = float(np.max(np.abs(dead - k * ms) / (k * ms)))
    worst['prop'] = max(worst['prop'], e)
    if not e <= TOL['identity']:
        ctx.violation('dead-oil-proportions', 'dead-oil components of the returned fluxes are not in the given proportions',
                      dict(rep, dead_block=dead.tolist(), factor=k, relerr=e))
    if len(c['ca']) and not np.all(mflux[off + n:] == 0.):
        ctx.violation('atmospheric-gases-nonzero', 'tracked atmospheric gases carry a non-zero flux', rep)
    if off:
        kg = float(np.sum(mflux[:5]))
        if kg > 0 and not float(np.max(np.abs(mflux[:5] - kg * np.array(GAS_MF) / sum(GAS_MF)))) <= TOL['identity'] * kg:
            ctx.violation('gas-block-composition', 'added gas is not natural gas in the proportions of natural_gas()', rep)
    # ---------------- proportional to the rate (second call) ----------------
    q2 = c['q'] * c['rate_factor']
    try:
        with quiet(), timebox(CALL_TIMEOUT[ctx.tier if ctx.tier in CALL_TIMEOUT else 'quick']):
            oil2, mflux2 = call_get_oil(c, q2)
        mflux2 = np.asarray(mflux2, dtype=float)
        e = float(np.max(np.abs(mflux2 - c['rate_factor'] * mflux))) / float(np.max(np.abs(c['rate_factor'] * mflux)))
        worst['linear'] = max(worst['linear'], e if math.isfinite(e) else float('inf'))
        if not e <= TOL['identity']:
            ctx.violation('flux-not-proportional-to-rate', 'mass fluxes at rate c*q are not c times the mass fluxes at rate q',
                          dict(rep, q2=q2, mass_flux2=mflux2.tolist(), relerr=e))
    except Timeout:
        ctx.count('second get_oil call timed out (counted)')
        c['second_timeout'] = True
    except Exception as e:
        key, site = raise_key(e)
        ctx.violation(key, 'second get_oil call (rate %g) raised %s: %s' % (q2, type(e).__name__, str(e)[:200]),
                      dict(rep, q2=q2, traceback=traceback.format_exc()[-3000:]))
    # ---------------- independent of the absolute scale of the given masses (metamorphic) ----------------
    if c.get('metamorphic'):
        for lam in (1e-9, 1e-6, 1e3):
            c3 = dict(c, masses=(np.array(c['masses']) * lam).tolist())
            try:
                with quiet(), timebox(CALL_TIMEOUT[ctx.tier if ctx.tier in CALL_TIMEOUT else 'quick']):
                    oil3, mflux3 = call_get_oil(c3, c['q'])
                mflux3 = np.asarray(mflux3, dtype=float)
                with np.errstate(all='ignore'):
                    e3 = float(np.max(np.where(mflux > 0., np.abs(mflux3 - mflux) / np.where(mflux > 0., mflux, 1.), np.abs(mflux3))))
                worst['scale'] = max(worst['scale'], e3 if math.isfinite(e3) else float('inf'))
                if not e3 <= TOL_SCALE:
                    ctx.violation('flux-depends-on-mass-scale', 'get_oil(lambda * masses) differs from get_oil(masses): the result depends on the '
                                  'absolute scale of the given dead-oil masses', dict(rep, scale_factor=lam, mass_flux_scaled=mflux3.tolist(), relerr=e3))
                    break
            except Timeout:
                ctx.count('scaled get_oil call timed out (counted)')
                c['second_timeout'] = True
            except Exception as e:
                key, site = raise_key(e)
                ctx.violation(key, 'get_oil on the masses scaled by %g raised %s: %s' % (lam, type(e).__name__, str(e)[:200]),
                              dict(rep, scale_factor=lam, traceback=traceback.format_exc()[-3000:]))
                break
        c['metamorphic_done'] = True
    # ---------------- call history: the SAME component list again with DIFFERENT masses ----------------
    # (each call must honour the masses requested in THAT call: nothing may be carried over from an earlier call with
    #  the same composition; the oracle below uses the requested masses of the repeated call, nothing read back)
    if c.get('history'):
        for kk, (factors, alt) in enumerate(c['history']):
            ms2 = np.array(c['masses']) * np.array(factors)
            c4 = dict(c, masses=ms2.tolist())
            c4.update(alt)
            rep4 = {k: c4[k] for k in ('composition', 'masses', 'q', 'gor', 'fp_type', 'ca')}
            rep4['earlier_call_same_composition'] = {k: c[k] for k in ('masses', 'q', 'gor', 'fp_type', 'ca')}
            try:
                with quiet(), timebox(CALL_TIMEOUT[ctx.tier if ctx.tier in CALL_TIMEOUT else 'quick']):
                    oil4, mflux4 = call_get_oil(c4, c4['q'])
            except Timeout:
                ctx.count('repeated get_oil call timed out (counted)')
                c['second_timeout'] = True
                continue
            except Exception as e:
                key, site = raise_key(e)
                ctx.violation(key, 'repeated get_oil call (same composition, other masses) raised %s: %s' % (type(e).__name__, str(e)[:200]),
                              dict(rep4, traceback=traceback.format_exc()[-3000:]))
                break
            mflux4 = np.asarray(mflux4, dtype=float)
            rep4['mass_flux'] = mflux4.tolist()
            off4 = 5 if c4['gor'] > 0. else 0
            exp4 = (GAS if c4['gor'] > 0. else []) + list(c4['composition']) + list(c4['ca'])
            if list(oil4.composition) != exp4 or len(mflux4) != len(exp4):
                ctx.violation('get_oil-composition-order', 'repeated call: returned mixture is not [natural gas] + dead oil + atmospheric gases', rep4)
                break
            if not np.all(np.isfinite(mflux4)):
                ctx.count('repeated call: non-finite fluxes (known signatures are judged on first calls only; skipped)')
                continue
            dead4 = mflux4[off4:off4 + n]
            k4 = float(np.sum(dead4) / np.sum(ms2))
            e4 = float(np.max(np.abs(dead4 - k4 * ms2) / (k4 * ms2)))
            worst['prop'] = max(worst['prop'], e4)
            c['history_judged'] = c.get('history_judged', 0) + 1
            if not e4 <= TOL['identity']:
                ctx.violation('dead-oil-proportions-after-earlier-call',
                              'a repeated get_oil call with the same component list but different masses does not return the dead-oil '
                              'components in the proportions requested in THAT call', dict(rep4, dead_block=dead4.tolist(), factor=k4, relerr=e4))
                break
    c.setdefault('outcome', 'judged')     # every predicate of the property was evaluated on this case
    # ---------------- named hypotheses sampled: homogeneity of the flash / scale invariance -------------
    std = [(mm, r) for mm, T, P, r in rec.flash if T == T_STD and P == P_STD]
    if std:
        m_unit = np.array(std[-1][1])           # flash of the unit flux inside set_mass_fluxes
        kfac = float(np.sum(mflux) / np.sum(std[-1][0]))
        mm = np.concatenate((m[0, :], m[1, :]))
        worst['homog'] = max(worst['homog'], float(np.max(np.abs(mm - kfac * m_unit))) / float(np.sum(mflux)))
    # ---------------- correspondence lines ----------------
    masses_arg = c['masses']
    nca = len(c['ca'])
    beta = root['beta'] if root is not None else 0.
    tbl = rec.table()
    lines = [req('Oil.getOil', masses_arg, nca, c['gor'], beta, c['q'], c['fp_type'], *tbl)]
    extra = {}
    if root is not None:
        gor0, oil_r, mf_gas, mf_oil, T, P = root['args']
        with Recorder() as rec2, quiet():
            res = float(dbm_utilities.gas_fraction(root['beta'], gor0, oil_r, mf_gas, mf_oil, T, P))
        extra = {'res': res, 'mf_gas': fl(mf_gas), 'mf_oil': fl(mf_oil), 'x0': root['x0']}
        worst['residual/gor'] = max(worst['residual/gor'], abs(res) / c['gor'] if math.isfinite(res) else 0.)
        dead_mf = fl(mf_oil)[5:]
        lines.append(req('Oil.vectors', len(dead_mf), dead_mf))
        lines.append(req('Oil.betaGuess', c['gor'], fl(mf_gas), fl(mf_oil), *tbl))
        lines.append(req('Oil.gasFraction', root['beta'], c['gor'], fl(mf_gas), fl(mf_oil), *rec2.table()))
    # the model's definition of the two targets on the real re-flash (ties stdRate / gorOf to the predicates above)
    with Recorder() as rec3, quiet():
        reflash(oil, mflux)
    lines.append(req('Oil.stdRate', c['fp_type'], mflux.tolist(), *rec3.table()))

    def compare(outs):
        bad = []
        o = outs[0]
        if not isinstance(o, list):
            return ['getOil: %r' % (o,)]
        for a, b in zip(o[0], mflux.tolist()):
            worst['corr'] = max(worst['corr'], relerr(a, b))
        if not close(o[0], mflux.tolist(), TOL['gen_vs_source']):
            bad.append('getOil model=%r code=%r' % (o[0][:6], mflux.tolist()[:6]))
        k = 1
        if root is not None:
            v, g, f = outs[1], outs[2], outs[3]
            if not (isinstance(v, list) and close(v[0], extra['mf_gas'], TOL['gen_vs_source']) and close(v[1], extra['mf_oil'], TOL['gen_vs_source'])):
                bad.append('padded vectors model=%r code=%r' % (v, (extra['mf_gas'], extra['mf_oil'])))
            if not (isinstance(g, list) and close(g[0], extra['x0'], TOL['gen_vs_source'])):
                bad.append('betaGuess model=%r code=%r' % (g, extra['x0']))
            if not (isinstance(f, list) and (abs(f[0] - extra['res']) <= TOL['gen_vs_source'] * c['gor']
                                            or (math.isnan(f[0]) and math.isnan(extra['res'])))):
                bad.append('gasFraction model=%r code=%r' % (f, extra['res']))
            k = 4
        s = outs[k]
        if not (isinstance(s, list) and close(s[0], rate, TOL['gen_vs_source'])):
            bad.append('stdRate model=%r harness=%r' % (s, rate))
        return bad
    return lines, compare, rep


KEY_DEW = 'gor-fsolve-start-beyond-dew-point'
KEY_GASFREE = 'gas-rate-absent-gas-nan'


def classify_gasfree_nan(c, oil, mflux, rep):
    """non-finite fluxes without a root find.  `gas-rate-absent-gas-nan` ONLY for: gas-rate convention, gor = 0, the dead oil
    itself has no gas phase at 15 C / 1 atm (checked here by flashing the normalised dead oil) and EVERY flux is NaN."""
    if c['fp_type'] == 0 and c['gor'] == 0. and np.all(np.isnan(mflux)):
        ms = np.zeros(len(mflux))
        ms[:len(c['masses'])] = np.array(c['masses']) / np.sum(c['masses'])
        with quiet():
            m, xi, K = oil.equilibrium(ms, T_STD, P_STD)
        rep['dead_oil_gas_mass_at_std'] = float(np.sum(m[0, :]))
        if np.sum(m[0, :]) == 0. and np.sum(m[1, :]) > 0.:
            return KEY_GASFREE, ('gas-rate convention (fp_type=0) requested for a gas-free oil (gor=0, no gas phase at 15 C / 1 atm): '
                                 'set_mass_fluxes divides the zero gas mass by the density of nothing, every flux is NaN, no error')
    return 'mass-flux-nonfinite', 'no gas added, no root find involved'


def classify_gor_failure(c, root, rep):
    """distinct keys for the ways the root find can fail.  `gor-fsolve-start-beyond-dew-point` is used ONLY when the documented
    signature is verified on this very case:
    (a) at fsolve's start value the mixture flashed at 15 C / 1 atm is ALL GAS (liquid row empty, gas row not) and therefore
        the residual is not finite there, (b) fsolve handed that start value back, (c) a root of the same residual
        demonstrably exists below the start value (bracketed on a grid, refined by bisection to |residual| <= 1e-9 gor)."""
    from tamoc import dbm_utilities
    if root is None:
        return 'gor-target-missed', 'no root find recorded'
    gor0, oil_r, mf_gas, mf_oil, T, P = root['args']

    def f(b):
        with quiet():
            return float(dbm_utilities.gas_fraction(b, gor0, oil_r, mf_gas, mf_oil, T, P))
    r0, rb = f(root['x0']), f(root['beta'])
    rep.update({'fsolve_x0': root['x0'], 'residual_at_x0': r0, 'fsolve_result': root['beta'], 'residual_at_result': rb})
    all_gas = False
    if 0. < root['x0'] < 1.:
        with quiet():
            m, xi, K = oil_r.equilibrium(root['x0'] * np.asarray(mf_gas) + (1. - root['x0']) * np.asarray(mf_oil), T, P)
        all_gas = bool(np.sum(m[1, :]) == 0. and np.sum(m[0, :]) > 0.)
        rep['liquid_mass_at_x0'] = float(np.sum(m[1, :]))
    if all_gas and not math.isfinite(r0) and root['beta'] == root['x0']:
        grid = [root['x0'] * (k / 48.) for k in range(1, 48)]
        vals = [f(b) for b in grid]
        lo = hi = None
        for k in range(len(grid) - 1):
            if math.isfinite(vals[k]) and math.isfinite(vals[k + 1]) and vals[k] < 0. <= vals[k + 1]:
                lo, hi = grid[k], grid[k + 1]
                break
        if lo is not None:
            for _ in range(70):
                mid = 0.5 * (lo + hi)
                v = f(mid)
                if not math.isfinite(v):
                    break
                if v > 0.:
                    hi = mid
                else:
                    lo = mid
            rl = f(lo)
            rep.update({'bisection_root': lo, 'residual_at_bisection_root': rl})
            if abs(rl) <= 1e-9 * gor0:
                return (KEY_DEW,
                        'the first guess of the gas mass fraction (%.4g) lies beyond the dew point (the mixture is all gas at 15 C / 1 atm), '
                        'the residual is NaN/inf there and fsolve returns its start value, although a root exists at beta=%.6g '
                        '(bisection)' % (root['x0'], lo))
        return 'gor-start-nan-no-root-found', ('all gas at the first guess %.4g and no root of gas_fraction bracketed below it'
                                               % root['x0'])
    if not math.isfinite(rb):
        return 'gor-residual-nonfinite', ('residual not finite at the returned beta=%.6g (first guess %.6g, residual there %r; all gas at '
                                          'the first guess: %s)' % (root['beta'], root['x0'], r0, all_gas))
    return 'gor-target-missed', 'fsolve stopped at beta=%.6g with residual %.3g (first guess %.6g, residual %.3g)' % (root['beta'], rb, root['x0'], r0)


def run(ctx, lean_ok):
    r = ctx.rng
    worst = {k: 0. for k in ('gor', 'rate', 'prop', 'linear', 'homog', 'residual/gor', 'corr', 'scale')}
    lines, owners = [], []
    tmax = 0.
    todo = [dict(c) for c in FIXED_CASES]
    kmode = 0
    for name, nq, nt in PLAN:
        for _ in range(ctx.n(nq, nt)):
            # the absolute scale of the given masses cycles through the four classes inside every GOR band
            todo.append(gen_case(r, name, SCALE_MODES[kmode % len(SCALE_MODES)]))
            kmode += 1
    for k, c in enumerate(todo):
        c['metamorphic'] = (k % 3 == 0)        # a fixed third of the cases: get_oil(lambda * masses) == get_oil(masses)
        if k % 3 == 1:
            # another third: 2-3 further calls in this process with the SAME component list and other mass vectors
            # (per-component factors 0.2..5), the last one also with other ca / fp_type / q / gor
            nrep = r.randint(2, 3)
            hist = []
            for j in range(nrep):
                factors = [10 ** r.uniform(-0.7, 0.7) for _ in c['masses']]
                alt = {}
                if j == nrep - 1:
                    # another GOR inside the quantifier's 10-20000 scf/bbl (below ~10 all gas dissolves at 15 C / 1 atm,
                    # outside the property's domain)
                    g2 = min(20000., max(10., c['gor'] * r.choice([0.5, 0.8]))) if c['gor'] > 0. else 0.
                    if g2 == c['gor'] and g2 > 0.:
                        g2 = c['gor'] * 2.
                    alt = {'q': c['q'] * r.choice([0.1, 3., 10.]), 'gor': g2, 'ca': ([] if c['ca'] else list(AIR)),
                           'fp_type': (c['fp_type'] if g2 == 0. else 1 - c['fp_type'])}
                hist.append((factors, alt))
            c['history'] = hist
    ntot = len(todo)
    allowed_timeouts = max(1, int(MAX_TIMEOUT_SHARE * ntot))
    outcomes = {}
    judged = {k: 0 for k in FLOORS}
    ntimeout = 0
    done = 0
    for c in todo:
        if ntimeout > allowed_timeouts:
            break           # more time-outs than the coverage obligation tolerates: stop burning time, the floor fails below
        done += 1
        ctx.evaluations += 1
        ctx.count('stratum ' + c['stratum'])
        ctx.count('fp_type=%d' % c['fp_type'])
        ctx.count('ca=%d' % len(c['ca']))
        ctx.count('masses ' + c['norm'])
        ctx.nontrivial.add((len(c['composition']), float('%.6g' % c['q']), float('%.6g' % c['gor']), c['fp_type'], len(c['ca']),
                            float('%.6g' % c['masses'][0])))
        res = run_case(ctx, c, worst)
        tmax = max(tmax, c.get('t_get_oil', 0.))
        oc = c.get('outcome', 'violation')
        outcomes[oc] = outcomes.get(oc, 0) + 1
        ctx.count('outcome ' + oc)
        if oc == 'timeout' or c.get('second_timeout'):
            ntimeout += 1
        if oc == 'judged':
            for b in band(c):
                judged[b] += 1
        if res is None:
            continue
        ls, cmp, rep = res
        owners.append((rep, len(lines), len(ls), cmp))
        lines.extend(ls)
        ctx.sample({k: rep[k] for k in ('composition', 'masses', 'q', 'gor', 'fp_type', 'ca', 'mass_flux', 'rate_reflashed_bbl_d')
                    if k in rep}, cap=3)
    # ---- coverage obligations: an all-timeout / always-failing get_oil must not pass ------------------------------
    for b, (fq, ft) in FLOORS.items():
        need = ctx.n(fq, ft)
        ctx.oblige('coverage floor: >= %d cases with %s JUDGED (all predicates evaluated on a finite get_oil result)' % (need, b),
                   judged[b] >= need, 'only %d judged; outcomes %r' % (judged[b], outcomes))
    jd = [c for c in todo if c.get('outcome') == 'judged']
    for name, have, need in (('a given mass entry <= 1e-9', sum(1 for c in jd if min(c['masses']) <= 1e-9), ctx.n(5, 100)),
                             ('a total given mass <= 1e-6', sum(1 for c in jd if sum(c['masses']) <= 1e-6), ctx.n(5, 100)),
                             ('a total given mass >= 1e3', sum(1 for c in jd if sum(c['masses']) >= 1e3), ctx.n(1, 20)),
                             ('a repeated call (same component list, other masses) judged', sum(1 for c in jd if c.get('history_judged', 0) >= 2), ctx.n(4, 80)),
                             ('the scale-invariance (metamorphic) predicate evaluated', sum(1 for c in jd if c.get('metamorphic_done')), ctx.n(5, 100))):
        ctx.oblige('coverage floor: >= %d JUDGED cases with %s' % (need, name), have >= need, 'only %d' % have)
    ctx.oblige('coverage: all %d planned cases attempted and time-outs <= %d (%.0f %%)' % (ntot, allowed_timeouts, 100 * MAX_TIMEOUT_SHARE),
               done == ntot and ntimeout <= allowed_timeouts, '%d attempted, %d time-outs' % (done, ntimeout))
    nknown = outcomes.get('known-signature', 0)
    ctx.oblige('coverage: cases ending in a known-finding signature <= %.0f %% of the cases' % (100 * MAX_KNOWN_SHARE),
               nknown <= MAX_KNOWN_SHARE * ntot, '%d of %d' % (nknown, ntot))
    ctx.notes.append('outcomes: %r; judged per band: %r' % (outcomes, judged))
    if lean_ok and lines:
        out = run_driver(ctx, 'C12', lines)
        if out is not None:
            nbad = 0
            for rep, k0, nl, cmp in owners:
                bad = cmp(out[k0:k0 + nl])
                if bad:
                    nbad += 1
                    if nbad <= 3:
                        ctx.broken.append(('correspondence', 'Model.Oil vs dbm_utilities.get_oil', '; '.join(bad[:3])
                                           + ' case=%r' % {k: rep[k] for k in ('composition', 'masses', 'q', 'gor', 'fp_type', 'ca')}))
            ctx.oblige('correspondence Oil.getOil / mfGasFull, mfOilFull / betaGuess / gasFraction / stdRate (oracle table: recorded flash, '
                       'density, root) == dbm_utilities.get_oil, mix_gas_for_gor, gas_fraction, set_mass_fluxes on %d cases (rel %g)'
                       % (len(owners), TOL['gen_vs_source']), nbad == 0, '%d cases disagree' % nbad)
    for v in ctx.violations:
        ctx.count('predicate failed: ' + v['key'])
    ctx.notes.append('worst deviations: ' + ', '.join('%s=%.3g' % kv for kv in sorted(worst.items())))
    ctx.notes.append('tolerances: TOL_RATE=%g, TOL_GOR=%g (measured worst on the unchanged tree 1.6e-14 / 8e-13); slowest get_oil call %.1f s'
                     % (TOL_RATE, TOL_GOR, tmax))
    ctx.notes.append('fsolve convergence is OBSERVED only (C12 partial): the GOR theorem is conditional on gas_fraction(beta) = 0')
