"""
C12 — Live-oil builder meets its gas-to-oil ratio and flow-rate targets.      (PARTIAL by design)

proof        : TamocV/Props/C12.lean over the hand model TamocV/Model/Oil.lean
               (dbm_utilities.get_oil (TAMOC-database branch), mix_gas_for_gor, gas_fraction,
               set_mass_fluxes; flash and densities at 15 C / 1 atm and the value returned by fsolve
               are oracle parameters)
tie          : (H) oracle-table correspondence: FluidMixture.equilibrium / .density (class attributes) and
               dbm_utilities.fsolve are wrapped by recorders from this process (restored afterwards,
               nothing in /repo changes); the recorded flash/density answers and the recorded root are
               handed to the Lean model; padded vectors, first guess, residual and returned mass fluxes
               are compared
real code    : the postconditions themselves on the real `get_oil` output, re-flashed with
               oil.equilibrium / oil.density at 288.15 K, 101325 Pa: rate target, GOR target (this is the
               part that is only OBSERVED: fsolve convergence), non-negativity, proportionality to the
               rate (second call), dead-oil proportions and component order, zero atmospheric gases.
"""
import io
import math
import time
import signal
import warnings
import contextlib
import numpy as np
from common import req, close, relerr, TOL, run_driver

META = {
    'text': 'Theorems (Lean 4, over the reals, any number of dead-oil compounds and tracked atmospheric gases): returned mass fluxes are non-negative; exactly proportional to the requested rate; the dead-oil components keep their given proportions and order (gas block = natural gas x beta, atmospheric gases zero; normalisation of the given masses irrelevant); the liquid (gas, for the gas-rate convention) volume flow of the returned fluxes at standard conditions equals the requested rate EXACTLY, given homogeneity of the flash and scale invariance of density; the gas-to-oil ratio of the returned fluxes equals the requested one IF the value returned by fsolve is a root of gas_fraction. That fsolve returns a root is NOT proved: it is observed on the real get_oil over the quantifier by re-flashing the returned fluxes at 288.15 K, 101325 Pa. The model is tied to the real code by oracle-table correspondence (recorded flash / density answers and the recorded root replayed through the model).',
    'note': 'PARTIAL: convergence of scipy.optimize.fsolve inside mix_gas_for_gor is a library contract that is only sampled (and observed to FAIL for volatile dead oils at high GOR, where the first guess lies beyond the dew point and the residual is NaN). Trusted: Lean kernel + 3 standard axioms; the hand transcription Model/Oil.lean (validated each run by the correspondence); real arithmetic for IEEE doubles. The flash and the equations of state are oracle parameters; their homogeneity / scale invariance (named hypotheses) is sampled on every case. Only the TAMOC-database branch of get_oil is modelled (no ADIOS/GNOME import).',
    'technique': 'Lean 4 proof over a hand-written model + oracle-table correspondence + re-flash of the real outputs',
}
GEN = []
MODULES = ['TamocV.Props.C12', 'TamocV.Model.Oil']
RULE = ('get_oil on dead oils of 2-12 of the 12 database compounds that are liquid at 15 C / 1 atm, masses Dirichlet or log-uniform '
        '(1e-4..1), normalised or scaled by 10^U(-2,3), given as array or list; rate 1, 1e6 and log-uniform 1-1e6 bbl/d; GOR 0, 10, '
        '20000 and log-uniform 10-20000 scf/bbl; oil-rate and gas-rate convention (gas-rate only with GOR > 0); ca = [], all four '
        'atmospheric gases or a subset; a second call at another rate for proportionality; a case is non-trivial when its rounded '
        'inputs are new')
LEVEL_NOTE = ('theorems over the reals about the hand-written model of the live-oil builder; flash/EOS answers and the root returned '
              'by fsolve are an oracle; the GOR target is proved only conditionally on fsolve returning a root (observed on the real '
              'code); homogeneity of the flash and scale invariance of density are sampled; floating point and libm are trusted')

T_STD, P_STD = 273.15 + 15., 101325.
FT3, BBL = 0.0283168, 0.158987
TOL_RATE = 1e-6    # rate target: exact in the reals; in floating point it rests on flash(k*m) = k*flash(m), which the
#                    iterative flash satisfies to its own tolerance at worst (measured: 1e-15)
TOL_GOR = 1e-5     # GOR target: fsolve xtol 1.49e-8 relative on beta, times d ln GOR / d ln beta <= ~1/(1-beta) <= 100
#                    (measured on converged cases: <= 3e-13)
CALL_TIMEOUT = 90  # s, per get_oil call (rare very slow flashes belong to another property; counted, not reported)

LIQUIDS = ['2-3-dimethylbutane', '2-methylpentane', '3-methylpentane', 'benzene', 'ethylbenzene', 'isopentane',
           'n-decane', 'n-heptane', 'n-hexane', 'n-pentane', 'neohexane', 'toluene']
GAS = ['methane', 'ethane', 'propane', 'isobutane', 'n-butane']
GAS_MF = [0.939, 0.042, 0.0184, 0.0003, 0.0003]
AIR = ['nitrogen', 'oxygen', 'argon', 'carbon_dioxide']


def audit_files():
    return ['TamocV/Num.lean', 'TamocV/Real.lean', 'TamocV/Proto.lean', 'TamocV/Lemmas/Basic.lean',
            'TamocV/Lemmas/C12.lean', 'TamocV/Model/Oil.lean', 'TamocV/Props/C12.lean']


def fl(x):
    return np.atleast_1d(np.asarray(x, dtype=float)).ravel().tolist()


class Timeout(Exception):
    pass


@contextlib.contextmanager
def timebox(seconds):
    def handler(signum, frame):
        raise Timeout()
    old = signal.signal(signal.SIGALRM, handler)
    signal.setitimer(signal.ITIMER_REAL, seconds)
    try:
        yield
    finally:
        signal.setitimer(signal.ITIMER_REAL, 0)
        signal.signal(signal.SIGALRM, old)


@contextlib.contextmanager
def quiet():
    with contextlib.redirect_stdout(io.StringIO()), warnings.catch_warnings(), np.errstate(all='ignore'):
        warnings.simplefilter('ignore')
        yield


class Recorder:
    """class-level recorders on FluidMixture.equilibrium / .density and on dbm_utilities.fsolve"""

    def __enter__(self):
        from tamoc import dbm, dbm_utilities
        self.dbm, self.du = dbm, dbm_utilities
        self.o_eq, self.o_den, self.o_fs = dbm.FluidMixture.equilibrium, dbm.FluidMixture.density, dbm_utilities.fsolve
        self.flash, self.dens, self.roots = [], [], []
        rec = self

        def eq(obj, m, T, P, *a, **k):
            r = rec.o_eq(obj, m, T, P, *a, **k)
            rec.flash.append((fl(m), float(T), float(P), fl(r[0][0, :]) + fl(r[0][1, :])))
            return r

        def den(obj, m, T, P):
            r = rec.o_den(obj, m, T, P)
            rec.dens.append((fl(m), float(T), float(P), [float(r[0, 0]), float(r[1, 0])]))
            return r

        def fs(func, x0, args=(), **k):
            r = rec.o_fs(func, x0, args=args, **k)
            rec.roots.append({'x0': float(np.asarray(x0).ravel()[0]), 'beta': float(np.asarray(r).ravel()[0]), 'args': args})
            return r
        dbm.FluidMixture.equilibrium = eq
        dbm.FluidMixture.density = den
        dbm_utilities.fsolve = fs
        return self

    def __exit__(self, *a):
        self.dbm.FluidMixture.equilibrium = self.o_eq
        self.dbm.FluidMixture.density = self.o_den
        self.du.fsolve = self.o_fs

    def table(self):
        out, seen = [], set()
        for name, calls in (('flash', self.flash), ('density', self.dens)):
            for m, T, P, r in calls:
                if T != T_STD or P != P_STD:
                    continue
                key = (name, tuple(m))
                if key in seen:
                    continue
                seen.add(key)
                out += [name, m, r]
        return out


# ---------------------------------------------------------------------------

FIXED_CASES = [
    # volatile condensate at a high GOR: the first guess of mix_gas_for_gor lies beyond the dew point
    {'composition': ['2-methylpentane', 'neohexane', '3-methylpentane', 'n-heptane', 'n-pentane'],
     'masses': [0.0128, 0.1459, 0.0041, 0.0041, 0.8331], 'norm': 'normalised', 'q': 1000., 'gor': 2348., 'fp_type': 1, 'ca': [],
     'rate_factor': 2., 'masses_as_list': False},
    # the documented default blowout oil at a moderate GOR
    {'composition': ['n-hexane', 'n-heptane', 'benzene', 'toluene', 'n-decane'], 'masses': [0.1, 0.2, 0.2, 0.3, 0.2],
     'norm': 'normalised', 'q': 20000., 'gor': 500., 'fp_type': 1, 'ca': list(AIR), 'rate_factor': 0.5, 'masses_as_list': True},
]


def gen_case(r, i):
    if i < len(FIXED_CASES):
        return dict(FIXED_CASES[i])
    n = r.choice([2, 12, r.randint(2, 12), r.randint(2, 12), r.randint(2, 12)])
    comp = r.sample(LIQUIDS, n)
    if r.random() < 0.5:
        ms = np.array([r.gammavariate(1., 1.) + 1e-9 for _ in comp])
    else:
        ms = np.array([10 ** r.uniform(-4, 0) for _ in comp])
    if r.random() < 0.5:
        ms, norm = ms / ms.sum(), 'normalised'
    else:
        ms, norm = ms / ms.sum() * 10 ** r.uniform(-2, 3), 'scaled'
    q = r.choice([1., 1.e6, 10 ** r.uniform(0, 6), 10 ** r.uniform(0, 6), 10 ** r.uniform(2, 5)])
    gor = r.choice([0., 0., 10., 20000., 10 ** r.uniform(1, math.log10(20000.)), 10 ** r.uniform(1, math.log10(20000.)),
                    10 ** r.uniform(1, math.log10(20000.)), 10 ** r.uniform(2, 3.5)])
    fp = 1 if gor == 0. else r.choice([1, 1, 0])
    ca = r.choice([[], [], list(AIR), r.sample(AIR, r.randint(1, 3))])
    c2 = r.choice([2., 0.5, 10 ** r.uniform(-3, 3), 86400.])
    aslist = r.random() < 0.25
    return {'composition': comp, 'masses': ms.tolist(), 'norm': norm, 'q': q, 'gor': gor, 'fp_type': fp, 'ca': ca,
            'rate_factor': c2, 'masses_as_list': aslist}


def call_get_oil(c, q):
    from tamoc import dbm_utilities
    ms = list(c['masses']) if c['masses_as_list'] else np.array(c['masses'])
    return dbm_utilities.get_oil({'composition': list(c['composition']), 'masses': ms}, q, c['gor'], list(c['ca']), c['fp_type'])


def reflash(oil, mflux):
    """volumes (m^3/s) of gas and liquid when the fluxes are brought to equilibrium at standard conditions"""
    m, xi, K = oil.equilibrium(mflux, T_STD, P_STD)
    vg = vl = 0.
    if np.sum(m[0, :]) > 0.:
        vg = float(np.sum(m[0, :]) / oil.density(m[0, :], T_STD, P_STD)[0, 0])
    if np.sum(m[1, :]) > 0.:
        vl = float(np.sum(m[1, :]) / oil.density(m[1, :], T_STD, P_STD)[1, 0])
    return m, vg, vl


def run_case(ctx, c, worst):
    """real code + predicates; returns the driver lines and a comparison closure (or None)"""
    from tamoc import dbm_utilities
    rep = dict(c)
    t0 = time.time()
    try:
        with Recorder() as rec, quiet(), timebox(CALL_TIMEOUT):
            oil, mflux = call_get_oil(c, c['q'])
    except Timeout:
        ctx.count('get_oil timed out after %d s (slow flash; counted, not a C12 matter)' % CALL_TIMEOUT)
        return None
    c['t_get_oil'] = time.time() - t0
    mflux = np.asarray(mflux, dtype=float)
    rep['mass_flux'] = mflux.tolist()
    rep['composition_returned'] = list(oil.composition)
    n = len(c['composition'])
    off = 5 if c['gor'] > 0. else 0
    exp_comp = (GAS if c['gor'] > 0. else []) + list(c['composition']) + list(c['ca'])
    if list(oil.composition) != exp_comp or len(mflux) != len(exp_comp):
        ctx.violation('get_oil-composition-order', 'returned mixture is not [natural gas] + dead oil + atmospheric gases in the given order',
                      rep)
        return None
    root = rec.roots[-1] if rec.roots else None
    if c['gor'] > 0. and root is None:
        ctx.violation('get_oil-no-root-find', 'gor > 0 but mix_gas_for_gor did not call the root finder', rep)
        return None
    # ---------------- GOR target first (its failure makes everything else meaningless) ----------------
    if not np.all(np.isfinite(mflux)):
        if root is None:
            ctx.violation('mass-flux-nonfinite', 'get_oil returned non-finite mass fluxes (no gas added, no root find involved)', rep)
        else:
            key, what = classify_gor_failure(c, root, rep)
            ctx.violation(key, 'get_oil returned non-finite mass fluxes: ' + what, rep)
        return None
    with quiet():
        m, vg, vl = reflash(oil, mflux)
    rep.update({'v_gas_std': vg, 'v_liq_std': vl})
    if c['gor'] > 0.:
        gor_got = (vg / FT3) / (vl / BBL) if vl > 0. else float('inf')
        e = abs(gor_got - c['gor']) / c['gor']
        rep.update({'gor_reflashed': gor_got, 'gor_relerr': e})
        if math.isfinite(e):
            worst['gor'] = max(worst['gor'], e)
        if not e <= TOL_GOR:
            key, what = classify_gor_failure(c, root, rep)
            ctx.violation(key, 'returned mass fluxes re-flashed at 15 C, 1 atm do not have the requested gas-to-oil ratio: ' + what, dict(rep))
    else:
        if vg != 0.:
            ctx.violation('gor-zero-has-gas', 'GOR 0 requested but the returned fluxes form a gas phase at 15 C, 1 atm', rep)
    # ---------------- rate target ----------------
    rate = (vl if c['fp_type'] == 1 else vg) / BBL * 86400.
    e = abs(rate - c['q']) / c['q']
    if not math.isfinite(e):
        e = float('inf')
    rep.update({'rate_reflashed_bbl_d': rate, 'rate_relerr': e})
    worst['rate'] = max(worst['rate'], e)
    if not e <= TOL_RATE:
        ctx.violation('rate-target-fp%d' % c['fp_type'], 'returned mass fluxes re-flashed at 15 C, 1 atm do not give the requested %s volume flow'
                      % ('liquid' if c['fp_type'] == 1 else 'gas'), rep)
    # ---------------- non-negative ----------------
    if not np.all(mflux >= 0.):
        ctx.violation('flux-negative', 'a returned mass flux is negative', rep)
    if root is not None and not (0. <= root['beta'] <= 1.):
        ctx.count('root beta outside [0,1]')
    # ---------------- dead-oil proportions, atmospheric gases, gas block ----------------
    ms = np.array(c['masses'])
    dead = mflux[off:off + n]
    k = float(np.sum(dead) / np.sum(ms))
    e = float(np.max(np.abs(dead - k * ms))) / float(np.max(k * ms))
    worst['prop'] = max(worst['prop'], e)
    if not e <= TOL['identity']:
        ctx.violation('dead-oil-proportions', 'dead-oil components of the returned fluxes are not in the given proportions',
                      dict(rep, dead_block=dead.tolist(), factor=k, relerr=e))
    if len(c['ca']) and not np.all(mflux[off + n:] == 0.):
        ctx.violation('atmospheric-gases-nonzero', 'tracked atmospheric gases carry a non-zero flux', rep)
    if off:
        kg = float(np.sum(mflux[:5]))
        if kg > 0 and not float(np.max(np.abs(mflux[:5] - kg * np.array(GAS_MF) / sum(GAS_MF)))) <= TOL['identity'] * kg:
            ctx.violation('gas-block-composition', 'added gas is not natural gas in the proportions of natural_gas()', rep)
    # ---------------- proportional to the rate (second call) ----------------
    q2 = c['q'] * c['rate_factor']
    try:
        with quiet(), timebox(CALL_TIMEOUT):
            oil2, mflux2 = call_get_oil(c, q2)
        mflux2 = np.asarray(mflux2, dtype=float)
        e = float(np.max(np.abs(mflux2 - c['rate_factor'] * mflux))) / float(np.max(np.abs(c['rate_factor'] * mflux)))
        worst['linear'] = max(worst['linear'], e if math.isfinite(e) else float('inf'))
        if not e <= TOL['identity']:
            ctx.violation('flux-not-proportional-to-rate', 'mass fluxes at rate c*q are not c times the mass fluxes at rate q',
                          dict(rep, q2=q2, mass_flux2=mflux2.tolist(), relerr=e))
    except Timeout:
        ctx.count('second get_oil call timed out (counted)')
    # ---------------- named hypotheses sampled: homogeneity of the flash / scale invariance -------------
    std = [(mm, r) for mm, T, P, r in rec.flash if T == T_STD and P == P_STD]
    if std:
        m_unit = np.array(std[-1][1])           # flash of the unit flux inside set_mass_fluxes
        kfac = float(np.sum(mflux) / np.sum(std[-1][0]))
        mm = np.concatenate((m[0, :], m[1, :]))
        worst['homog'] = max(worst['homog'], float(np.max(np.abs(mm - kfac * m_unit))) / float(np.sum(mflux)))
    # ---------------- correspondence lines ----------------
    masses_arg = c['masses']
    nca = len(c['ca'])
    beta = root['beta'] if root is not None else 0.
    tbl = rec.table()
    lines = [req('Oil.getOil', masses_arg, nca, c['gor'], beta, c['q'], c['fp_type'], *tbl)]
    extra = {}
    if root is not None:
        gor0, oil_r, mf_gas, mf_oil, T, P = root['args']
        with Recorder() as rec2, quiet():
            res = float(dbm_utilities.gas_fraction(root['beta'], gor0, oil_r, mf_gas, mf_oil, T, P))
        extra = {'res': res, 'mf_gas': fl(mf_gas), 'mf_oil': fl(mf_oil), 'x0': root['x0']}
        worst['residual/gor'] = max(worst['residual/gor'], abs(res) / c['gor'] if math.isfinite(res) else 0.)
        dead_mf = fl(mf_oil)[5:]
        lines.append(req('Oil.vectors', len(dead_mf), dead_mf))
        lines.append(req('Oil.betaGuess', c['gor'], fl(mf_gas), fl(mf_oil), *tbl))
        lines.append(req('Oil.gasFraction', root['beta'], c['gor'], fl(mf_gas), fl(mf_oil), *rec2.table()))
    # the model's definition of the two targets on the real re-flash (ties stdRate / gorOf to the predicates above)
    with Recorder() as rec3, quiet():
        reflash(oil, mflux)
    lines.append(req('Oil.stdRate', c['fp_type'], mflux.tolist(), *rec3.table()))

    def compare(outs):
        bad = []
        o = outs[0]
        if not isinstance(o, list):
            return ['getOil: %r' % (o,)]
        for a, b in zip(o[0], mflux.tolist()):
            worst['corr'] = max(worst['corr'], relerr(a, b))
        if not close(o[0], mflux.tolist(), TOL['gen_vs_source']):
            bad.append('getOil model=%r code=%r' % (o[0][:6], mflux.tolist()[:6]))
        k = 1
        if root is not None:
            v, g, f = outs[1], outs[2], outs[3]
            if not (isinstance(v, list) and close(v[0], extra['mf_gas'], TOL['gen_vs_source']) and close(v[1], extra['mf_oil'], TOL['gen_vs_source'])):
                bad.append('padded vectors model=%r code=%r' % (v, (extra['mf_gas'], extra['mf_oil'])))
            if not (isinstance(g, list) and close(g[0], extra['x0'], TOL['gen_vs_source'])):
                bad.append('betaGuess model=%r code=%r' % (g, extra['x0']))
            if not (isinstance(f, list) and (abs(f[0] - extra['res']) <= TOL['gen_vs_source'] * c['gor']
                                            or (math.isnan(f[0]) and math.isnan(extra['res'])))):
                bad.append('gasFraction model=%r code=%r' % (f, extra['res']))
            k = 4
        s = outs[k]
        if not (isinstance(s, list) and close(s[0], rate, TOL['gen_vs_source'])):
            bad.append('stdRate model=%r harness=%r' % (s, rate))
        return bad
    return lines, compare, rep


def classify_gor_failure(c, root, rep):
    """distinct keys for the ways the root find can fail.  `gor-fsolve-start-beyond-dew-point` is used ONLY when
    (a) the residual at fsolve's start value is not finite (all gas at standard conditions), (b) fsolve handed that
    start value back, and (c) a root of the same residual demonstrably exists (found here by bisection)."""
    from tamoc import dbm_utilities
    if root is None:
        return 'gor-target-missed', 'no root find recorded'
    gor0, oil_r, mf_gas, mf_oil, T, P = root['args']

    def f(b):
        with quiet():
            return float(dbm_utilities.gas_fraction(b, gor0, oil_r, mf_gas, mf_oil, T, P))
    r0, rb = f(root['x0']), f(root['beta'])
    rep.update({'fsolve_x0': root['x0'], 'residual_at_x0': r0, 'fsolve_result': root['beta'], 'residual_at_result': rb})
    if not math.isfinite(r0) and root['beta'] == root['x0']:
        # does a root exist?  the two-phase interval lies below the first guess (NaN above it: all gas; NaN near 0: all
        # liquid, no gas density).  Scan a grid for a sign change between two finite residuals, then bisect.
        grid = [root['x0'] * (k / 48.) for k in range(1, 48)]
        vals = [f(b) for b in grid]
        lo = hi = None
        for k in range(len(grid) - 1):
            if math.isfinite(vals[k]) and math.isfinite(vals[k + 1]) and vals[k] < 0. <= vals[k + 1]:
                lo, hi = grid[k], grid[k + 1]
                break
        if lo is not None:
            for _ in range(70):
                mid = 0.5 * (lo + hi)
                v = f(mid)
                if not math.isfinite(v):
                    break
                if v > 0.:
                    hi = mid
                else:
                    lo = mid
            rl = f(lo)
            rep.update({'bisection_root': lo, 'residual_at_bisection_root': rl})
            if abs(rl) <= TOL_GOR * gor0:
                return ('gor-fsolve-start-beyond-dew-point',
                        'the first guess of the gas mass fraction (%.4g) lies where the mixture is all gas at standard conditions, the '
                        'residual is NaN/inf there and fsolve returns its start value, although a root exists at beta=%.6g '
                        '(bisection)' % (root['x0'], lo))
        return 'gor-start-nan-no-root-found', ('residual not finite at the first guess %.4g and no root of gas_fraction bracketed below it'
                                               % root['x0'])
    return 'gor-target-missed', 'fsolve stopped at beta=%.6g with residual %.3g (first guess %.6g, residual %.3g)' % (root['beta'], rb, root['x0'], r0)


def run(ctx, lean_ok):
    r = ctx.rng
    n = ctx.n(20, 500)
    worst = {k: 0. for k in ('gor', 'rate', 'prop', 'linear', 'homog', 'residual/gor', 'corr')}
    lines, owners = [], []
    tmax = 0.
    for i in range(n):
        c = gen_case(r, i)
        ctx.evaluations += 1
        ctx.count('gor=0' if c['gor'] == 0. else ('gor<=1000' if c['gor'] <= 1000. else 'gor>1000'))
        ctx.count('fp_type=%d' % c['fp_type'])
        ctx.count('ca=%d' % len(c['ca']))
        ctx.count('masses ' + c['norm'])
        ctx.nontrivial.add((len(c['composition']), float('%.6g' % c['q']), float('%.6g' % c['gor']), c['fp_type'], len(c['ca']),
                            float('%.6g' % c['masses'][0])))
        res = run_case(ctx, c, worst)
        tmax = max(tmax, c.get('t_get_oil', 0.))
        if res is None:
            continue
        ls, cmp, rep = res
        owners.append((rep, len(lines), len(ls), cmp))
        lines.extend(ls)
        ctx.sample({k: rep[k] for k in ('composition', 'masses', 'q', 'gor', 'fp_type', 'ca', 'mass_flux', 'rate_reflashed_bbl_d')
                    if k in rep}, cap=3)
    if lean_ok and lines:
        out = run_driver(ctx, 'C12', lines)
        if out is not None:
            nbad = 0
            for rep, k0, nl, cmp in owners:
                bad = cmp(out[k0:k0 + nl])
                if bad:
                    nbad += 1
                    if nbad <= 3:
                        ctx.broken.append(('correspondence', 'Model.Oil vs dbm_utilities.get_oil', '; '.join(bad[:3])
                                           + ' case=%r' % {k: rep[k] for k in ('composition', 'masses', 'q', 'gor', 'fp_type', 'ca')}))
            ctx.oblige('correspondence Oil.getOil / mfGasFull, mfOilFull / betaGuess / gasFraction / stdRate (oracle table: recorded flash, '
                       'density, root) == dbm_utilities.get_oil, mix_gas_for_gor, gas_fraction, set_mass_fluxes on %d cases (rel %g)'
                       % (len(owners), TOL['gen_vs_source']), nbad == 0, '%d cases disagree' % nbad)
    for v in ctx.violations:
        ctx.count('predicate failed: ' + v['key'])
    ctx.notes.append('worst deviations: ' + ', '.join('%s=%.3g' % kv for kv in sorted(worst.items())))
    ctx.notes.append('tolerances: TOL_RATE=%g, TOL_GOR=%g (fsolve xtol 1.49e-8 on beta x sensitivity <= 100); slowest get_oil call %.1f s'
                     % (TOL_RATE, TOL_GOR, tmax))
    ctx.notes.append('fsolve convergence is OBSERVED only (C12 partial): the GOR theorem is conditional on gas_fraction(beta) = 0')
    ctx.notes.append('gas-rate convention is generated only with GOR > 0 (a gas-free dead oil has no gas volume to rate)')
