"""
C18 — Saved simulations reload identically.

proof        : TamocV/Props/C18.lean over TamocV/Model/SaveLoad.lean (file = finite map; particle
               writer/reader; the three model writers/readers; profile data base writer/reader)
tie          : (H) real save -> dump of the netCDF file (names, order, dtypes, dimensions, attributes,
               values, masks) == the Lean model's `save` of the same abstract record; real load ==
               the Lean model's `load`; re-save == the Lean model's re-save
real code    : save -> load into a NEW model object -> every solution array bit for bit, every
               particle-definition field -> re-save -> re-load -> compare again; save_txt vs binary;
               profile written with create_nc_db/fill_nc_db vs the same table in memory
"""
import os
import re
import math
import shutil
import tempfile
import traceback

import numpy as np

from common import hexf, unhex, close, TOL, run_driver
import scen_c18 as sc

META = {
    'text': 'Theorems (Lean 4; pure data movement, hence generic in the value type: any array contents incl. NaN, any number of particles, compounds, tracers, rows): for the transcribed writers/readers of single_bubble_model, bent_plume_model, stratified_plume_model, dispersed_phases.save/load_particle_to/from_nc_file and ambient.create_nc_db/fill_nc_db/get_nc_data, load(save x) returns every solution array (t,y / t,q / zi,yi,zo,yo), every model parameter and every STORED particle-definition field of x exactly (load_save_id_partial = particles_load_save_partial, sbm/bpm_file/spm_load_save_partial, *_arrays_exact, profile_load_save; bpm_load_save_partial is the whole load_sim, equal up to the LagElement reset of integrate,t,x,y,z, an explicit exclusion), and save(load(save x)) = save x (particles/bpm_file/spm_resave_fixpoint; bpm_resave_after_load). The full statement is FALSE for the code as written; the negations are proved with concrete witnesses: delta, lag_time, the k_bio/t_bio/C_pen/C_pen_T entries of user data, k_bio/t_bio/fp_type of insoluble particles, a particle\'s own composition and cj with other than one tracer are not stored (two different definitions give one file; load_save_id_false), save_sim raises without tracers, re-saving a reloaded single-particle model raises (sbm_resave_raises). PIPELINES of every run: (1) particle lists of the three classes (random + every run: lists mixing soluble particles with/without user data, differing fp_type/delta/delta_groups/sigma per particle, reordered / shorter compositions, new compound names): save, file vs model, load, compare, re-save, re-load; (2) profile files: write, file vs model, read back, interpolate; (2b) casts to which 1-3 variables (chemistry, currents, tracer) are APPENDED from data covering only part of the depth range (top / bottom / both ends missing, beyond the cast, 2-20 samples) through Profile.append and through fill_nc_db: written, closed, read back (netCDF4.Dataset and file name) and compared with the in-memory profile for every variable inside, at the ends of and outside the sampled range (T,S,P bit for bit; appended columns to 1e-12: two separately rounded evaluations of one interpolant), and re-attached by load_sim of a simulation that used it (to the 1 % default coarsening); (2c) HISTORY: three single-particle pipelines in one process that rewrite one and the same profile path with different contents (run, save, load) plus one more on the unchanged path: every reloaded model carries the profile its own simulation used (bit for bit) and a later load does not alter an earlier reloaded model\'s profile; floor >= 5 casts and all four coverage modes per run; (3) simulations sbm x {soluble, inert}, bpm x {soluble tracked, inert with tracers, mixed, one without tracers}, spm x {soluble, inert, mixed}: save, file vs model, load into a new object, every array bit for bit and every definition field, RE-SAVE and RE-LOAD (reached by every one of them: coverage obligations; a raise with the exact signature of a recorded defect is reported and then bypassed — cj=[0.] for no tracers, float K_T0 for the reloaded single-particle model — so that the later stages still run), text export, re-attached profile, load with the profile file absent.',
    'note': 'Trusted: Lean kernel + 3 standard axioms; my transcription of the writers/readers (tied on every run by comparing the real netCDF file — names, order, dtypes, dimensions, attributes, written cells, values — with the model\'s save, and the real load_sim / loader with the model\'s load). NOT modelled, assumed by contract: netCDF4/xarray store and return arrays and attributes unchanged (f8/i4 cells, fill value for unwritten cells, numpy broadcasting of a length-1 source into a slice); " ".join/str.split are inverse on whitespace-free names; numpy.savetxt/loadtxt (%.18e round-trips a double; checked by reading the text back). The values LagElement.update gives integrate,t,x,y,z of a reloaded bent-plume particle are an INPUT of the model (taken from the real reloaded object): that the end-of-simulation state in the file is discarded is proved (bpm_state_reset_on_load), recorded in the histogram and not counted as a violation (state, not a definition field). The profile theorem covers the first fill of an empty data base; the interpolating re-fill branch of fill_nc_db, the Profile constructor and the re-attachment of the profile on load are sampled only (bit-for-bit). The delta_groups theorem carries the guard "no row sums to zero" (FluidWF.nozero): that loss is found on the real code only. Known-finding keys are emitted only for the documented signature (direction of the value loss; exception type + innermost tamoc frame + source line + triggering condition); anything else gets its own key. The only arithmetic on the path (re-normalisation of delta_groups by the FluidMixture constructor) is compared at 1e-15 (real vs real) / 1e-11 (model vs real).',
    'technique': 'Lean 4 proof about a hand model of the (de)serialisers + file-level differential execution against the real code',
}
GEN = []
MODULES = ['TamocV.Props.C18', 'TamocV.Model.SaveLoad']
RULE = ('seeded specs: single-particle, bent-plume and stratified-plume simulations with soluble, inert and mixed particle '
        'lists (1-3 particles; 1-3 compounds, one possibly under a new user-defined name; user chemical data for none/some/all '
        'compounds with and without k_bio,t_bio,C_pen,C_pen_T; delta matrix; delta_groups none/built-in/dict/array; isair; '
        'sigma_correction; K, K_T, fdis, t_hyd, lag_time, lambda_1 — fp_type, delta, delta_groups, user_data varying from '
        'particle to particle within one list), 0-3 tracers, tracking on/off, currents 0-0.2 m/s (particles inside and outside '
        'the plume at the end), missing profile file; plus particle lists of all three classes without a simulation and '
        'profile tables (regular/irregular depths, dissolved compounds, currents). A case is non-trivial when its '
        '(model, kind, layout of the state vector, number of rows) differs from every other case')
LEVEL_NOTE = ('theorems about my transcription of the save/load code (generic value type); the transcription is tied to /repo on '
              'every run by file-level comparison; netCDF4, xarray, numpy text I/O are trusted libraries')

FILL = 9.969209968386869e36
# the property arrays FluidMixture.__init__ derives from user_data / the built-in data base
DERIVED = ['M', 'Pc', 'Tc', 'Vc', 'Tb', 'Vb', 'omega', 'kh_0', 'neg_dH_solR', 'nu_bar', 'B', 'dE', 'K_salt']
USER_KEYS = sc.USER_KEYS
EXTRA_KEYS = sc.EXTRA_KEYS
SCRATCH = '/root/scratch/c18'


def audit_files():
    return ['TamocV/Num.lean', 'TamocV/Model/SaveLoad.lean', 'TamocV/Lemmas/C18.lean', 'TamocV/Props/C18.lean']


# ---------------------------------------------------------------------------
# abstract records of the real objects
# ---------------------------------------------------------------------------

def fnum(x):
    """python float of a (possibly masked, possibly 0-d / 1-element) number; masked -> fill value"""
    if x is np.ma.masked:
        return FILL
    if isinstance(x, np.ma.MaskedArray):
        if np.ma.getmaskarray(x).any():
            return FILL
        x = np.ma.getdata(x)
    a = np.asarray(x, dtype=float)
    return float(a.reshape(-1)[0]) if a.size == 1 else float('nan')


def farr(x):
    """float ndarray; masked entries become NaN (a masked entry of a loaded array is a lost value)"""
    if isinstance(x, np.ma.MaskedArray):
        x = np.ma.filled(x.astype(float), np.nan)
    return np.array(x, dtype=float)


def abs_dbm(d):
    if d.issoluble:
        ud = []
        for name, row in d.user_data.items():
            ud.append({'name': name, 'props': [fnum(row[k]) for k in USER_KEYS],
                       'extra': {k: (fnum(row[k]) if k in row else None) for k in EXTRA_KEYS}})
        return {'sol': True, 'derived': {k: farr(getattr(d, k)) for k in DERIVED},
                'composition': list(d.composition), 'fp_type': int(d.fp_type), 'isair': bool(d.isair),
                'sigma': fnum(d.sigma_correction), 'calc_delta': int(d.calc_delta),
                'delta_groups': farr(d.delta_groups), 'delta': farr(d.delta), 'user_data': ud}
    return {'sol': False, 'isfluid': bool(d.isfluid), 'iscompressible': bool(d.iscompressible), 'rho_p': fnum(d.rho_p),
            'gamma': fnum(d.gamma), 'beta': fnum(d.beta), 'co': fnum(d.co), 'k_bio': fnum(d.k_bio),
            't_bio': fnum(d.t_bio), 'fp_type': int(d.fp_type)}


def abs_particle(o, ptype, K_T=None):
    p = {'dbm': abs_dbm(o.particle), 'm0': farr(o.m0).reshape(-1), 'T0': fnum(o.T0), 'K': fnum(o.K),
         'K_T': fnum(o.K_T if K_T is None else K_T), 'fdis': fnum(o.fdis), 't_hyd': fnum(o.t_hyd),
         'lag_time': bool(o.lag_time), 'nb0': 0., 'lambda_1': 0., 'nbe': 0., 'integrate': False, 'sim_stored': False,
         'farfield': False, 'tp': 0., 'xp': 0., 'yp': 0., 'zp': 0., 'exit': None}
    if ptype >= 1:
        p['nb0'], p['lambda_1'] = fnum(o.nb0), fnum(o.lambda_1)
    if ptype == 2:
        p.update({'nbe': fnum(o.nbe), 'integrate': bool(o.integrate), 'sim_stored': bool(o.sim_stored),
                  'farfield': bool(o.farfield), 'tp': fnum(o.t), 'xp': fnum(o.x), 'yp': fnum(o.y), 'zp': fnum(o.z)})
        if hasattr(o, 'te'):
            p['exit'] = (fnum(o.te), fnum(o.xe), fnum(o.ye), fnum(o.ze))
    return p


def abs_sbm(m):
    return {'particles': [abs_particle(m.particle, 0)], 'composition': list(m.particle.composition),
            'K_T0': fnum(m.K_T0), 'K_T0_0d': bool(isinstance(m.K_T0, np.ndarray) and np.ndim(m.K_T0) == 0),
            'delta_t': fnum(m.delta_t), 't': farr(m.t).reshape(-1), 'y': farr(m.y)}


def abs_bpm(m, particles=None):
    Ta, Sa, P = m.profile.get_values(np.max(m.X[2]), ['temperature', 'salinity', 'pressure'])
    ps = particles if particles is not None else [abs_particle(p, 2) for p in m.particles]
    return {'X': farr(m.X).reshape(-1), 'D': fnum(m.D), 'Vj': fnum(m.Vj), 'phi_0': fnum(m.phi_0),
            'theta_0': fnum(m.theta_0), 'Sj': fnum(m.Sj), 'Tj': fnum(m.Tj), 'cj': farr(m.cj).reshape(-1),
            'tracers': list(m.tracers), 'chem_names': list(m.chem_names), 'particles': ps, 'track': bool(m.track),
            'dt_max': fnum(m.dt_max), 'sd_max': fnum(m.sd_max), 'K_T0': farr(m.K_T0).reshape(-1),
            'ns': int(len(m.q_local.q0)), 't': farr(m.t).reshape(-1), 'q': farr(m.q), 'Ta': float(Ta), 'Sa': float(Sa),
            'P': float(P)}


def abs_spm(m, particles=None):
    Ta, Sa, P = m.profile.get_values(np.max(m.zi), ['temperature', 'salinity', 'pressure'])
    ps = particles if particles is not None else [abs_particle(p, 1) for p in m.particles]
    return {'particles': ps, 'chem_names': list(m.chem_names), 'K_T0': farr(m.K_T0).reshape(-1), 'R': fnum(m.R),
            'maxit': fnum(m.maxit), 'toler': fnum(m.toler), 'delta_z': fnum(m.delta_z), 'nsi': int(len(m.yi_local.y0)),
            'nso': int(len(m.yo_local.y0)), 'zi': farr(m.zi).reshape(-1), 'yi': farr(m.yi), 'zo': farr(m.zo).reshape(-1),
            'yo': farr(m.yo), 'Ta': float(Ta), 'Sa': float(Sa), 'P': float(P)}


ABS = {'sbm': abs_sbm, 'bpm': abs_bpm, 'spm': abs_spm}
PTYPE = {'sbm': 0, 'spm': 1, 'bpm': 2}

# ---------------------------------------------------------------------------
# line protocol: encoders (mirror TamocV.Model.SaveLoad.p*) and decoders (mirror e*)
# ---------------------------------------------------------------------------


def N(i):
    return 'n:%d' % int(i)


def T(s):
    assert s != '' and ' ' not in s, s
    return 't:' + s


def F(x):
    return hexf(x)


def V(a):
    return 'v:' + ','.join(hexf(x) for x in np.asarray(a, dtype=float).ravel())


def S(s):
    """string with blanks"""
    assert '~' not in s
    return 't:' + ('~' if s == '' else s.replace(' ', '~'))


def B(b):
    return N(1 if b else 0)


def I(i):
    return 't:%d' % int(i)


def M(a, ncols=None):
    a = np.asarray(a, dtype=float)
    if a.ndim != 2:
        a = a.reshape(len(a), -1) if a.size else np.zeros((0, ncols or 0))
    return [N(a.shape[0]), N(a.shape[1]), V(a)]


def names(l):
    return [N(len(l))] + [T(x) for x in l]


def optf(x):
    return [B(x is not None), F(0. if x is None else x)]


def enc_dbm(d):
    if d['sol']:
        out = [B(True)] + names(d['composition']) + [I(d['fp_type']), B(d['isair']), F(d['sigma']), I(d['calc_delta'])]
        out += M(d['delta_groups'], 15) + M(d['delta'], len(d['composition'])) + [N(len(d['user_data']))]
        for u in d['user_data']:
            out += [T(u['name']), V(u['props'])]
            for k in EXTRA_KEYS:
                out += optf(u['extra'][k])
        return out
    return [B(False), B(d['isfluid']), B(d['iscompressible']), F(d['rho_p']), F(d['gamma']), F(d['beta']), F(d['co']),
            F(d['k_bio']), F(d['t_bio']), I(d['fp_type'])]


def enc_particle(p):
    e = p['exit'] or (0., 0., 0., 0.)
    return enc_dbm(p['dbm']) + [V(p['m0']), F(p['T0']), F(p['K']), F(p['K_T']), F(p['fdis']), F(p['t_hyd']),
                                B(p['lag_time']), F(p['nb0']), F(p['lambda_1']), F(p['nbe']), B(p['integrate']),
                                B(p['sim_stored']), B(p['farfield']), F(p['tp']), F(p['xp']), F(p['yp']), F(p['zp']),
                                B(p['exit'] is not None), F(e[0]), F(e[1]), F(e[2]), F(e[3])]


def enc_particles(ps):
    out = [N(len(ps))]
    for p in ps:
        out += enc_particle(p)
    return out


def enc_header(h):
    return [S(h['title']), S(h['summary']), S(h['source']), S(h['created']), S(h['modified'])]


def enc_sbm(r):
    return (enc_particles(r['particles']) + names(r['composition'])
            + [F(r['K_T0']), B(r['K_T0_0d']), F(r['delta_t']), V(r['t'])] + M(r['y']))


def enc_bpm(r):
    return ([V(r['X']), F(r['D']), F(r['Vj']), F(r['phi_0']), F(r['theta_0']), F(r['Sj']), F(r['Tj']), V(r['cj'])]
            + names(r['tracers']) + names(r['chem_names']) + enc_particles(r['particles'])
            + [B(r['track']), F(r['dt_max']), F(r['sd_max']), V(r['K_T0']), N(r['ns']), V(r['t'])] + M(r['q'], r['ns'])
            + [F(r['Ta']), F(r['Sa']), F(r['P'])])


def enc_spm(r):
    return (enc_particles(r['particles']) + names(r['chem_names'])
            + [V(r['K_T0']), F(r['R']), F(r['maxit']), F(r['toler']), F(r['delta_z']), N(r['nsi']), N(r['nso']), V(r['zi'])]
            + M(r['yi'], r['nsi']) + [V(r['zo'])] + M(r['yo'], r['nso']) + [F(r['Ta']), F(r['Sa']), F(r['P'])])


ENC = {'sbm': enc_sbm, 'bpm': enc_bpm, 'spm': enc_spm}


class Rd:
    """reader over a decoded response (list of python values from common.dec)"""

    def __init__(self, toks):
        self.t = toks
        self.i = 0

    def nx(self):
        v = self.t[self.i]
        self.i += 1
        return v

    def s(self):
        v = self.nx()
        return '' if v == '~' else v.replace('~', ' ')

    def names(self):
        return [self.nx() for _ in range(self.nx())]

    def m(self):
        r, c, v = self.nx(), self.nx(), self.nx()
        return np.array(v, dtype=float).reshape(r, c) if r * c == len(v) else np.array(v, dtype=float)

    def optf(self):
        b, x = self.nx(), self.nx()
        return x if b else None

    def done(self):
        return self.i == len(self.t)


def dec_dbm(r):
    if r.nx():
        d = {'sol': True, 'composition': r.names(), 'fp_type': int(r.nx()), 'isair': bool(r.nx()), 'sigma': r.nx(),
             'calc_delta': int(r.nx()), 'delta_groups': r.m(), 'delta': r.m(), 'user_data': []}
        for _ in range(r.nx()):
            u = {'name': r.nx(), 'props': list(r.nx()), 'extra': {}}
            for k in EXTRA_KEYS:
                u['extra'][k] = r.optf()
            d['user_data'].append(u)
        return d
    return {'sol': False, 'isfluid': bool(r.nx()), 'iscompressible': bool(r.nx()), 'rho_p': r.nx(), 'gamma': r.nx(),
            'beta': r.nx(), 'co': r.nx(), 'k_bio': r.nx(), 't_bio': r.nx(), 'fp_type': int(r.nx())}


def dec_particle(r):
    p = {'dbm': dec_dbm(r), 'm0': np.array(r.nx(), dtype=float)}
    for k in ('T0', 'K', 'K_T', 'fdis', 't_hyd'):
        p[k] = r.nx()
    p['lag_time'] = bool(r.nx())
    for k in ('nb0', 'lambda_1', 'nbe'):
        p[k] = r.nx()
    for k in ('integrate', 'sim_stored', 'farfield'):
        p[k] = bool(r.nx())
    for k in ('tp', 'xp', 'yp', 'zp'):
        p[k] = r.nx()
    has = r.nx()
    e = (r.nx(), r.nx(), r.nx(), r.nx())
    p['exit'] = e if has else None
    return p


def dec_particles(r):
    return [dec_particle(r) for _ in range(r.nx())]


def dec_sbm(r):
    return {'particles': dec_particles(r), 'composition': r.names(), 'K_T0': r.nx(), 'K_T0_0d': bool(r.nx()), 'delta_t': r.nx(),
            't': np.array(r.nx(), dtype=float), 'y': r.m()}


def dec_bpm(r):
    d = {'X': np.array(r.nx()), 'D': r.nx(), 'Vj': r.nx(), 'phi_0': r.nx(), 'theta_0': r.nx(), 'Sj': r.nx(), 'Tj': r.nx(),
         'cj': np.array(r.nx()), 'tracers': r.names(), 'chem_names': r.names(), 'particles': dec_particles(r),
         'track': bool(r.nx()), 'dt_max': r.nx(), 'sd_max': r.nx(), 'K_T0': np.array(r.nx()), 'ns': r.nx(),
         't': np.array(r.nx(), dtype=float), 'q': r.m()}
    d['Ta'], d['Sa'], d['P'] = r.nx(), r.nx(), r.nx()
    return d


def dec_spm(r):
    d = {'particles': dec_particles(r), 'chem_names': r.names(), 'K_T0': np.array(r.nx()), 'R': r.nx(), 'maxit': r.nx(),
         'toler': r.nx(), 'delta_z': r.nx(), 'nsi': r.nx(), 'nso': r.nx(), 'zi': np.array(r.nx(), dtype=float), 'yi': r.m(),
         'zo': np.array(r.nx(), dtype=float), 'yo': r.m()}
    d['Ta'], d['Sa'], d['P'] = r.nx(), r.nx(), r.nx()
    return d


DEC = {'sbm': dec_sbm, 'bpm': dec_bpm, 'spm': dec_spm}


def dec_attr(r):
    k, kind = r.s(), r.nx()
    if kind == 's':
        return (k, r.s())
    if kind == 'n':
        return (k, int(r.nx()))
    return (k, float(r.nx()))


def dec_file(r):
    """the Lean model's file -> same structure as dump_nc"""
    f = {'attrs': [dec_attr(r) for _ in range(r.nx())]}
    f['dims'] = [(r.nx(), r.nx()) for _ in range(r.nx())]
    f['vars'] = []
    for _ in range(r.nx()):
        v = {'name': r.s(), 'dtype': r.nx(), 'dims': r.names()}
        v['attrs'] = [dec_attr(r) for _ in range(r.nx())]
        nd = r.nx()
        for _ in range(nd):
            r.nx()
        v['data'] = np.array(r.nx(), dtype=float)
        v['mask'] = np.array(r.nx(), dtype=float) == 0.
        f['vars'].append(v)
    return f


def dump_nc(path):
    """names, order, dtypes, dimensions, attributes, values and masks of a netCDF file"""
    from netCDF4 import Dataset
    nc = Dataset(path)
    try:
        def attr(o, k):
            v = o.getncattr(k)
            if isinstance(v, str):
                return (k, v)
            if isinstance(v, (np.integer, int)):
                return (k, int(v))
            return (k, float(v))
        f = {'attrs': [attr(nc, k) for k in nc.ncattrs()],
             'dims': [(k, len(d)) for k, d in nc.dimensions.items()], 'vars': []}
        for name, var in nc.variables.items():
            a = var[...]
            f['vars'].append({'name': name, 'dtype': {'int32': 'i4', 'float64': 'f8'}.get(str(var.dtype), str(var.dtype)),
                              'dims': list(var.dimensions), 'attrs': [attr(var, k) for k in var.ncattrs()],
                              'shape': tuple(var.shape), 'data': np.array(np.ma.getdata(a), dtype=float).ravel(),
                              'mask': np.ma.getmaskarray(a).ravel()})
    finally:
        nc.close()
    return f


def same(a, b):
    """equality of float arrays at the level of the stored bits: same shape, same values, NaN where NaN,
    same sign of zero"""
    a, b = np.asarray(a, dtype=float), np.asarray(b, dtype=float)
    if a.shape != b.shape:
        return False
    if not np.array_equal(a, b, equal_nan=True):
        return False
    ok = ~np.isnan(a)
    return bool(np.array_equal(np.signbit(a[ok]), np.signbit(b[ok])))


def diff_files(real, model, skip_attr_values=(), approx_vars=()):
    """list of differences between the dump of a real file and the model's file; variables named in
    `approx_vars` are compared to 1e-11 (the only arithmetic on the whole path is the re-normalisation of
    delta_groups by the FluidMixture constructor, whose np.sum order the model does not reproduce)"""
    out = []
    ra = [(k, v) for k, v in real['attrs']]
    ma = [(k, v) for k, v in model['attrs']]
    if [k for k, _ in ra] != [k for k, _ in ma]:
        out.append('global attribute names: real %r model %r' % ([k for k, _ in ra], [k for k, _ in ma]))
    else:
        for (k, v), (_k, w) in zip(ra, ma):
            if k not in skip_attr_values and v != w:
                out.append('global attribute %s: real %r model %r' % (k, v, w))
    if real['dims'] != model['dims']:
        out.append('dimensions: real %r model %r' % (real['dims'], model['dims']))
    rn, mn = [v['name'] for v in real['vars']], [v['name'] for v in model['vars']]
    if rn != mn:
        out.append('variable names/order: only real %r only model %r' % ([x for x in rn if x not in mn], [x for x in mn if x not in rn]))
    md = {v['name']: v for v in model['vars']}
    for v in real['vars']:
        w = md.get(v['name'])
        if w is None:
            continue
        for k in ('dtype', 'dims', 'attrs'):
            if v[k] != w[k]:
                out.append('variable %s %s: real %r model %r' % (v['name'], k, v[k], w[k]))
        if v['data'].size != w['data'].size:
            out.append('variable %s size: real %r model %d' % (v['name'], v['shape'], w['data'].size))
            continue
        # numpy.ma masks the result of 0/0 (so netCDF4 writes the fill value) where IEEE arithmetic, and the
        # model at Float, gives NaN: a cell the real file leaves unwritten may be a written NaN in the model
        wm = w['mask'] | (v['mask'] & np.isnan(w['data']))
        if not np.array_equal(v['mask'], wm):
            out.append('variable %s written cells: real %r model %r' % (v['name'], (~v['mask']).astype(int).tolist()[:40], (~w['mask']).astype(int).tolist()[:40]))
            continue
        keep = ~v['mask']
        if v['name'] in approx_vars and near(v['data'][keep], w['data'][keep], TOL['gen_vs_source']):
            continue
        if not same(v['data'][keep], w['data'][keep]):
            bad = np.where(keep)[0][[not same(x, y) for x, y in zip(v['data'][keep], w['data'][keep])]]
            out.append('variable %s values differ at flat indices %r: real %r model %r' % (v['name'], bad[:5].tolist(), v['data'][bad[:5]].tolist(), w['data'][bad[:5]].tolist()))
    return out


# ---------------------------------------------------------------------------
# comparison of abstract records
# ---------------------------------------------------------------------------

def near(a, b, tol):
    a, b = np.asarray(a, dtype=float), np.asarray(b, dtype=float)
    if a.shape != b.shape:
        return False
    return all(close(float(x), float(y), tol) for x, y in zip(a.ravel(), b.ravel()))


def diff_dbm(a, b, tol_groups, path):
    """differences of two abstract dbm records: list of (field, a, b)"""
    out = []
    if a['sol'] != b['sol']:
        return [(path + 'issoluble', a['sol'], b['sol'])]
    if a['sol']:
        for k in ('composition', 'fp_type', 'isair', 'calc_delta'):
            if a[k] != b[k]:
                out.append((path + k, a[k], b[k]))
        if not same(a['sigma'], b['sigma']):
            out.append((path + 'sigma_correction', a['sigma'], b['sigma']))
        ok = same(a['delta_groups'], b['delta_groups']) if tol_groups == 0 else near(a['delta_groups'], b['delta_groups'], tol_groups)
        if not ok:
            out.append((path + 'delta_groups', a['delta_groups'].tolist(), b['delta_groups'].tolist()))
        # with group contributions (calc_delta > 0) dbm_p.coefs overwrites delta_ij at every call (and, as
        # written, in the object's own array): the matrix is not a definition then
        if a['calc_delta'] <= 0 and b['calc_delta'] <= 0 and not same(a['delta'], b['delta']):
            out.append((path + 'delta', a['delta'].tolist(), b['delta'].tolist()))
        if 'derived' in a and 'derived' in b:
            for k in DERIVED:
                if not same(a['derived'][k], b['derived'][k]):
                    out.append((path + 'dbm.' + k, a['derived'][k].tolist(), b['derived'][k].tolist()))
        na, nb = [u['name'] for u in a['user_data']], [u['name'] for u in b['user_data']]
        if sorted(na) != sorted(nb):
            out.append((path + 'user_data.keys', na, nb))
        else:
            bd = {u['name']: u for u in b['user_data']}
            for u in a['user_data']:
                w = bd[u['name']]
                for j, k in enumerate(USER_KEYS):
                    if not same(u['props'][j], w['props'][j]):
                        out.append((path + 'user_data.' + k, u['props'][j], w['props'][j]))
                for k in EXTRA_KEYS:
                    x, y = u['extra'][k], w['extra'][k]
                    if (x is None) != (y is None) or (x is not None and not same(x, y)):
                        out.append((path + 'user_data.' + k, x, y))
    else:
        for k in ('isfluid', 'iscompressible', 'fp_type'):
            if a[k] != b[k]:
                out.append((path + 'insoluble.' + k, a[k], b[k]))
        for k in ('rho_p', 'gamma', 'beta', 'co', 'k_bio', 't_bio'):
            if not same(a[k], b[k]):
                out.append((path + 'insoluble.' + k, a[k], b[k]))
    return out


STATE_FIELDS = ('integrate', 'tp', 'xp', 'yp', 'zp', 'sim_stored')


def diff_particle(a, b, tol_groups=0, state=True, path=''):
    out = diff_dbm(a['dbm'], b['dbm'], tol_groups, path)
    for k in ('T0', 'K', 'K_T', 'fdis', 't_hyd', 'nb0', 'lambda_1', 'nbe') + (('tp', 'xp', 'yp', 'zp') if state else ()):
        if not same(a[k], b[k]):
            out.append((path + k, a[k], b[k]))
    if not same(a['m0'], b['m0']):
        out.append((path + 'm0', a['m0'].tolist(), b['m0'].tolist()))
    if a['dbm']['sol'] and b['dbm']['sol']:
        # initial mass per compound, by NAME (a relabelled composition shows here even when both lists look alike)
        ma = dict(zip(a['dbm']['composition'], np.ravel(a['m0']).tolist())) if len(a['dbm']['composition']) == len(np.ravel(a['m0'])) else None
        mb = dict(zip(b['dbm']['composition'], np.ravel(b['m0']).tolist())) if len(b['dbm']['composition']) == len(np.ravel(b['m0'])) else None
        if ma is None or mb is None or sorted(ma) != sorted(mb) or any(not same(ma[k], mb[k]) for k in ma):
            out.append((path + 'm0_by_name', ma, mb))
    for k in ('lag_time', 'farfield') + (('integrate', 'sim_stored') if state else ()):
        if a[k] != b[k]:
            out.append((path + k, a[k], b[k]))
    ea, eb = a['exit'], b['exit']
    if (ea is None) != (eb is None) or (ea is not None and not same(ea, eb)):
        out.append((path + 'exit', ea, eb))
    return out


def diff_particles(A, B, tol_groups=0, state=True):
    if len(A) != len(B):
        return [('nparticles', len(A), len(B))]
    out = []
    for i, (a, b) in enumerate(zip(A, B)):
        out += diff_particle(a, b, tol_groups, state, 'particles[%d].' % i)
    return out


ARRAYS = {'sbm': ('t', 'y'), 'bpm': ('t', 'q'), 'spm': ('zi', 'yi', 'zo', 'yo')}
SCALARS = {'sbm': ('K_T0', 'delta_t'),
           'bpm': ('X', 'D', 'Vj', 'phi_0', 'theta_0', 'Sj', 'Tj', 'cj', 'dt_max', 'sd_max', 'K_T0'),
           'spm': ('R', 'maxit', 'toler', 'delta_z', 'K_T0')}
LISTS = {'sbm': ('composition', 'K_T0_0d'), 'bpm': ('tracers', 'chem_names', 'track'), 'spm': ('chem_names',)}


def diff_model(kind, a, b, tol_groups=0, state=True):
    """differences of two abstract model records: (field, a, b) — arrays first"""
    out = []
    for k in ARRAYS[kind]:
        if not same(a[k], b[k]):
            out.append(('array:' + k, 'shape %r' % (np.shape(a[k]),), 'shape %r' % (np.shape(b[k]),)))
    for k in SCALARS[kind]:
        if not same(a[k], b[k]):
            out.append((k, np.asarray(a[k]).tolist(), np.asarray(b[k]).tolist()))
    for k in LISTS[kind]:
        if k == 'K_T0_0d' and not state:
            continue            # representation of K_T0 (float / 0-d array): model correspondence only
        if a[k] != b[k]:
            out.append((k, a[k], b[k]))
    out += diff_particles(a['particles'], b['particles'], tol_groups, state)
    return out


# ---------------------------------------------------------------------------
# violation keys.  A key that may be listed in known_findings.txt is emitted ONLY when the observation carries
# the documented signature of that defect (direction of the loss / exception type + innermost tamoc frame +
# the condition that triggers it); anything else in the same region gets a generic key of its own.
# ---------------------------------------------------------------------------

def _all_zero(x):
    a = np.asarray(x, dtype=float)
    return a.size > 0 and not np.isnan(a).any() and not a.any()


# Behaviour that is real but that the property statement does not forbid (DESIGN §9.7): `lag_time` and the tracer source
# concentrations `cj` are not among the particle-definition fields the statement enumerates, and deleting the profile file
# between save and load is outside the quantifier.  They are counted as observations, not reported as violations.
OBSERVATIONS = {'not-saved:lag_time', 'not-saved:cj', 'load-raises:bpm:no-profile'}


def _viol(ctx, key, what, case):
    if key in OBSERVATIONS:
        ctx.count('observation:' + key)
        return
    ctx.violation(key, what, case)


def loss_key(field, a, b, orig_dbm=None):
    """a = original value, b = reloaded value"""
    f = re.sub(r'^particles\[\d+\]\.', '', field)
    if f.startswith('array:'):
        return f
    generic = 'not-restored:' + f
    if f == 'delta':
        # documented: a user-supplied (non-zero) matrix comes back as zeros
        return 'not-saved:delta' if (not _all_zero(a) and _all_zero(b)) else generic
    if f == 'lag_time':
        return 'not-saved:lag_time' if (a is False and b is True) else generic
    if f.startswith('user_data.') and f.split('.')[1] in EXTRA_KEYS:
        return 'not-saved:' + f if (a is not None and b is None) else generic
    if f in ('insoluble.k_bio', 'insoluble.t_bio'):
        return 'not-saved:' + f if (a != 0. and b == 0.) else generic
    if f == 'insoluble.fp_type':
        return 'not-saved:' + f if (a != 1 and b == 1) else generic
    if f == 'cj':
        a1, b1 = np.ravel(np.asarray(a, dtype=float)), np.ravel(np.asarray(b, dtype=float))
        return 'not-saved:cj' if (len(a1) >= 2 and len(b1) == 1 and same(a1[-1], b1[0])) else generic
    if f == 'delta_groups' and orig_dbm is not None and orig_dbm['calc_delta'] > 0:
        # documented: exactly the all-zero rows come back NaN / masked, every other row is unchanged
        A, B_ = np.asarray(a, dtype=float), np.asarray(b, dtype=float)
        if A.shape == B_.shape:
            zr = np.abs(A).sum(axis=1) == 0
            if zr.any() and np.isnan(B_[zr]).all() and near(A[~zr], B_[~zr], GROUP_TOL):
                return 'not-restored:delta_groups:zero-row'
        return generic
    return generic


def tamoc_site(e):
    """(file, function, source line) of the innermost frame inside the tamoc package, or None"""
    import common
    pkg = os.path.join(os.path.realpath(common.REPO), 'tamoc') + os.sep
    inner = [f for f in traceback.extract_tb(e.__traceback__) if os.path.realpath(f.filename).startswith(pkg)]
    if not inner:
        return None
    f = inner[-1]
    return (os.path.basename(f.filename), f.name, (f.line or '').strip())


# key, exception type, file, function, fragment of the source line, name of the condition that must hold
KNOWN_RAISES = [
    ('save-raises:bpm:no-tracers', 'IndexError', 'bent_plume_model.py', 'save_sim', 'cj[0] = self.cj', 'no_tracers'),
    ('load-raises:bpm:no-profile', 'AttributeError', 'bent_plume_model.py', 'update', 'profile.get_values(', 'no_profile'),
    ('resave-raises:sbm', 'IndexError', 'dispersed_phases.py', 'save_particle_to_nc_file', 'K_T[i] = K_T0[i]', 'k_t0_0d'),
    ('not-restored:delta_groups:zero-row', 'TypeError', 'dbm_p.py', 'coefs', 'np.isnan(sum_term)', 'zero_row'),
    ('save-raises:particles:user_data-keys', 'KeyError', 'dispersed_phases.py', 'save_particle_to_nc_file',
     'user_data[user_composition[j]]', 'keys_differ'),
]


def raise_key(e, stage, kind, cond):
    """key of an exception raised by the code under test at `stage` ('save', 'load', 'resave', …).
    `cond`: dict of the triggering conditions that hold for this case."""
    site = tamoc_site(e)
    tname = type(e).__name__
    if site is not None:
        for key, t, fn, func, frag, c in KNOWN_RAISES:
            if tname == t and site[0] == fn and site[1] == func and frag in site[2] and cond.get(c):
                return key
        return '%s-raises:%s:%s@%s:%s' % (stage, kind, tname, site[0], site[1])
    return '%s-raises:%s:%s' % (stage, kind, tname)


def raise_case(e, spec):
    site = tamoc_site(e)
    return {'error': '%s: %s' % (type(e).__name__, e), 'site': list(site) if site else None,
            'trace': ''.join(traceback.format_exception(type(e), e, e.__traceback__))[-700:], 'spec': sc.jsonable(spec)}


def report_raise(ctx, e, stage, kind, cond, where, spec):
    key = raise_key(e, stage, kind, cond)
    ctx.count('violation ' + key)
    case = raise_case(e, spec)
    if key in REPRO:
        case['stand_alone_reproduction'] = REPRO[key]
    _viol(ctx, key, '%s: %s raises %s' % (where, stage, type(e).__name__), case)
    return key


_PRE = '''import numpy as np, tempfile, os
from netCDF4 import Dataset
from tamoc import dbm, dispersed_phases, model_share
def roundtrip(particle):
    d = tempfile.mkdtemp(); f = os.path.join(d, 'p.nc')
    nc = model_share.tamoc_nc_file(f, 't', 's', 'src')
    dispersed_phases.save_particle_to_nc_file(nc, particle.composition, particle, 1.); nc.close()
    nc = Dataset(f); q = dispersed_phases.load_particle_from_nc_file(nc)[0][0]; nc.close(); return q
'''
REPRO = {
    'not-saved:delta': _PRE + '''fp = dbm.FluidParticle(['methane', 'ethane'], delta=np.array([[0., 0.05], [0.05, 0.]]))
q = roundtrip(dispersed_phases.SingleParticle(fp, np.array([1e-6, 1e-6]), 290.))
print(fp.delta, q.particle.delta)          # [[0,.05],[.05,0]]  vs  zeros
''',
    'not-saved:lag_time': _PRE + '''fp = dbm.FluidParticle(['methane'])
q = roundtrip(dispersed_phases.SingleParticle(fp, np.array([1e-6]), 290., lag_time=False))
print(q.lag_time)                          # True
''',
    'not-saved:user_data.k_bio': _PRE + '''row = dict(dbm.FluidMixture(['methane']).chem_db['methane'])
row.update({'k_bio': 1e-6, 't_bio': 100., 'C_pen': 1e-6, 'C_pen_T': 1e-8})
fp = dbm.FluidParticle(['methane'], user_data={'methane': row})
q = roundtrip(dispersed_phases.SingleParticle(fp, np.array([1e-6]), 290.))
print(fp.k_bio, fp.t_bio, fp.C_pen, fp.C_pen_T)                                  # 1e-6 100 1e-6 1e-8
print(q.particle.k_bio, q.particle.t_bio, q.particle.C_pen, q.particle.C_pen_T)  # 0 0 0 0
''',
    'not-saved:insoluble.k_bio': _PRE + '''ip = dbm.InsolubleParticle(True, False, k_bio=1e-5, t_bio=50., fp_type=0)
q = roundtrip(dispersed_phases.SingleParticle(ip, np.array([1e-5]), 290.))
print(q.particle.k_bio, q.particle.t_bio, q.particle.fp_type)   # 0.0 0.0 1
''',
    'not-restored:delta_groups:zero-row': _PRE + '''fp = dbm.FluidParticle(['methane', 'oxygen'], delta_groups={})   # oxygen has no Privat-Jaubert groups
q = roundtrip(dispersed_phases.SingleParticle(fp, np.array([1e-6, 2e-6]), 290.))
print(fp.delta_groups[1], q.particle.delta_groups[1])            # zeros  vs  masked (0/0)
print(fp.density(np.array([1e-6, 2e-6]), 290., 1e7))             # 111.9
print(q.particle.density(np.array([1e-6, 2e-6]), 290., 1e7))     # raises / NaN
''',
    'save-raises:particles:user_data-keys': _PRE + '''db = dbm.FluidMixture(['methane']).chem_db
c = ['methane', 'ethane']; m0 = np.array([1e-6, 1e-6])
p1 = dispersed_phases.PlumeParticle(dbm.FluidParticle(c, user_data={'methane': dict(db['methane'])}), m0, 290., 10., .8, 1e7, 34., 280.)
p2 = dispersed_phases.PlumeParticle(dbm.FluidParticle(c, user_data={'ethane': dict(db['ethane'])}), m0, 290., 10., .8, 1e7, 34., 280.)
nc = model_share.tamoc_nc_file(os.path.join(tempfile.mkdtemp(), 'p.nc'), 't', 's', 'src')
dispersed_phases.save_particle_to_nc_file(nc, c, [p1, p2], [1., 1.])      # KeyError: 'methane'
''',
}
REPRO['resave-raises:sbm'] = '''import numpy as np, tempfile, os
from tamoc import ambient, dbm, single_bubble_model
d = tempfile.mkdtemp(); z = np.linspace(0., 400., 30)
T = 277. + 15. * np.exp(-z / 200.); S = 34. + z / 800.; P = ambient.compute_pressure(z, T, S, 0)
nc = ambient.create_nc_db(os.path.join(d, 'prf.nc'), 's', 'src', 'sea', 0., 0., 0.)
nc = ambient.fill_nc_db(nc, np.vstack((z, T, S, P)).T, ['z', 'temperature', 'salinity', 'pressure'], ['m', 'K', 'psu', 'Pa'], ['a'] * 4, 0)
prf = ambient.Profile(nc, chem_names='all'); prf.close_nc()
m = single_bubble_model.Model(prf)
m.simulate(dbm.FluidParticle(['methane']), np.array([0., 0., 100.]), 0.005, np.array([1.]), delta_t=10.)
m.save_sim(os.path.join(d, 'a.nc'), 'prf.nc', 'info')
m2 = single_bubble_model.Model(simfile=os.path.join(d, 'a.nc'))
m2.save_sim(os.path.join(d, 'b.nc'), 'prf.nc', 'info')   # IndexError: K_T0 was read as a 0-d masked array, K_T0[i] fails
'''
_LIST = '''import numpy as np, tempfile, os
from netCDF4 import Dataset
from tamoc import dbm, dispersed_phases, model_share
def PP(comp, m0): return dispersed_phases.PlumeParticle(dbm.FluidParticle(comp), np.array(m0), 290., 100., 0.8, 1e7, 34., 280.)
def roundtrip(ps):
    f = os.path.join(tempfile.mkdtemp(), 'p.nc'); nc = model_share.tamoc_nc_file(f, 't', 's', 'src'); nc.createDimension('params', 1)
    for n, v in (('Ta', 280.), ('Sa', 34.), ('P', 1e7)): nc.createVariable(n, 'f8', ('params',))[0] = v
    dispersed_phases.save_particle_to_nc_file(nc, dispersed_phases.get_chem_names(ps), ps, [1.] * len(ps)); nc.close()
    nc = Dataset(f); out = dispersed_phases.load_particle_from_nc_file(nc)[0]; nc.close(); return out
'''
REPRO['not-restored:composition:reordered'] = _LIST + '''q = roundtrip([PP(['methane', 'ethane'], [1e-6, 2e-6]), PP(['ethane', 'methane'], [3e-6, 4e-6])])
print(q[1].composition, q[1].m0)    # ['methane', 'ethane'] [3e-06 4e-06]: 3e-6 kg of ethane came back as methane
'''
REPRO['not-restored:composition:subset'] = REPRO['not-restored:m0:broadcast'] = _LIST + '''q = roundtrip([PP(['methane', 'ethane'], [1e-6, 2e-6]), PP(['methane'], [5e-6])])
print(q[1].composition, q[1].m0)    # ['methane', 'ethane'] [5e-06 5e-06]: the one mass is repeated for a compound the particle never had
'''
REPRO['not-saved:user_data.t_bio'] = REPRO['not-saved:user_data.C_pen'] = REPRO['not-saved:user_data.C_pen_T'] = REPRO['not-saved:user_data.k_bio']
REPRO['not-saved:insoluble.t_bio'] = REPRO['not-saved:insoluble.fp_type'] = REPRO['not-saved:insoluble.k_bio']
_BPM = '''import numpy as np, tempfile, os
from tamoc import ambient, dbm, dispersed_phases, bent_plume_model
d = tempfile.mkdtemp(); z = np.linspace(0., 400., 30)
T = 277. + 15. * np.exp(-z / 200.); S = 34. + z / 800.; P = ambient.compute_pressure(z, T, S, 0)
nc = ambient.create_nc_db(os.path.join(d, 'prf.nc'), 's', 'src', 'sea', 0., 0., 0.)
nc = ambient.fill_nc_db(nc, np.vstack((z, T, S, P)).T, ['z', 'temperature', 'salinity', 'pressure'], ['m', 'K', 'psu', 'Pa'], ['a'] * 4, 0)
prf = ambient.Profile(nc, chem_names='all'); prf.close_nc()
def sim(cj, tracers):
    m = bent_plume_model.Model(prf); oil = dbm.InsolubleParticle(True, True)
    m0, T0, nb0, P, Sa, Ta = dispersed_phases.initial_conditions(prf, 300., oil, np.array([1.]), 0.1, 2, 0.003, None)
    p = bent_plume_model.Particle(0., 0., 300., oil, m0, T0, nb0, 0.9, P, Sa, Ta)
    m.simulate(np.array([0., 0., 300.]), 0.2, 1., -np.pi / 2, 0., 0., T0, np.array(cj), tracers, [p], dt_max=60., sd_max=50.)
    return m
'''
REPRO['not-saved:cj'] = _BPM + '''m = sim([1., 2., 3.], ['a', 'b', 'c']); m.save_sim(os.path.join(d, 'b.nc'), 'prf.nc', 'info')
print(m.cj, bent_plume_model.Model(simfile=os.path.join(d, 'b.nc')).cj)     # [1. 2. 3.]  vs  3.0
'''
REPRO['save-raises:bpm:no-tracers'] = _BPM + '''m = sim([], []); m.save_sim(os.path.join(d, 'b.nc'), 'prf.nc', 'info')      # IndexError
'''
REPRO['load-raises:bpm:no-profile'] = _BPM + '''m = sim([1.], ['a']); m.save_sim(os.path.join(d, 'b.nc'), 'moved_away.nc', 'info')
bent_plume_model.Model(simfile=os.path.join(d, 'b.nc'))    # AttributeError: 'NoneType' object has no attribute 'get_values'
# (load_sim documents: "If the load fails, a warning will be reported ..., but the other steps ... will be performed";
#  single_bubble_model and stratified_plume_model do continue)
'''


# ---------------------------------------------------------------------------
# the check
# ---------------------------------------------------------------------------

DATE_ATTRS = ('date_created', 'date_modified')
GROUP_TOL = 1e-15       # re-normalising an already normalised delta_groups row moves it by at most a few ulp


class Job:
    """requests queued for the Lean driver, with what to compare the answers with"""

    def __init__(self):
        self.lines = []
        self.expect = []

    def add(self, name, args, kind, payload):
        self.lines.append(name + ' ' + ' '.join(args))
        self.expect.append((name, kind, payload))


def header_of(dump):
    a = dict(dump['attrs'])
    return {'title': a.get('title', ''), 'summary': a.get('summary', ''), 'source': a.get('source', ''),
            'created': a.get('date_created', ''), 'modified': a.get('date_modified', '')}


def strip_dates(d):
    return {'attrs': [(k, ('' if k in DATE_ATTRS else v)) for k, v in d['attrs']], 'dims': d['dims'],
            'vars': [{k: (w.tolist() if isinstance(w, np.ndarray) else w) for k, w in v.items() if k != 'shape'} for v in d['vars']]}


def dumps_equal(d1, d2):
    """two real files equal up to the date attributes (NaN-aware)"""
    return not diff_files(d1, {'attrs': d2['attrs'], 'dims': d2['dims'], 'vars': d2['vars']}, skip_attr_values=DATE_ATTRS)


def report_losses(ctx, diffs, orig_particles, where, spec, prefix='', chem=None, skip=(), override=None):
    """turn field differences between an original and a reloaded record into violations"""
    for field, a, b in diffs:
        mobj = re.match(r'particles\[(\d+)\]\.', field)
        odbm = orig_particles[int(mobj.group(1))]['dbm'] if mobj and orig_particles else None
        f = re.sub(r'^particles\[\d+\]\.', '', field)
        if f in skip:
            continue
        if f == 'delta' and odbm is not None and odbm['calc_delta'] > 0:
            # group-contribution mode overwrites every delta_ij at each EOS call: the stored matrix is immaterial
            ctx.count('delta-ignored(calc_delta>0)')
            continue
        key = None
        if odbm is not None and odbm['sol'] and chem is not None and list(odbm['composition']) != list(chem):
            # `chem` is the first-seen-order union of the list's soluble compositions computed by the harness.  The
            # recorded defect is about a particle whose OWN composition differs from it (the writer ignores the
            # particle's composition).  A particle whose composition equals it must come back exactly: there, and
            # in a list whose particles all share one composition, any relabelling is a violation.
            own, chem_l = list(odbm['composition']), list(chem)
            reordered = sorted(own) == sorted(chem_l) and len(set(own)) == len(own)
            subset = len(own) < len(chem_l) and all(c in chem_l for c in own)
            if f == 'composition' and list(b) == chem_l and reordered:
                key = 'not-restored:composition:reordered'      # same set, other order: relabelled with chem_names
            elif f == 'composition' and list(b) == chem_l and subset:
                key = 'not-restored:composition:subset'         # fewer compounds: relabelled with chem_names
            elif f == 'm0' and subset and len(own) == 1 and len(np.ravel(a)) == 1 and \
                    same(np.ravel(b), np.repeat(np.ravel(a), len(chem_l))):
                key = 'not-restored:m0:broadcast'               # the single mass replicated into every slot
            elif f == 'm0_by_name' and ((reordered and list(orig_particles[int(mobj.group(1))]['m0']) and b is not None and
                                         [b.get(c) for c in chem_l] == np.ravel(orig_particles[int(mobj.group(1))]['m0']).tolist())
                                        or (subset and len(own) == 1)):
                # the same recorded defect seen by name: masses re-attached by position / replicated
                ctx.count('consequence of the relabelled composition (m0 by name)')
                continue
            elif f.startswith('dbm.') and (reordered or subset):
                # property arrays follow the composition: necessarily in the other order / longer
                ctx.count('consequence of the relabelled composition (%s)' % f)
                continue
            elif subset and f in ('delta', 'delta_groups') and np.shape(a) != np.shape(b):
                ctx.count('consequence of the relabelled composition (%s shape)' % f)
                continue
        if override and field in override:
            key = override[field]
        key = prefix + (key or loss_key(field, a, b, odbm))
        ctx.count('violation ' + key)
        case = {'where': where, 'field': field, 'original': a, 'reloaded': b, 'spec': sc.jsonable(spec)}
        if key in REPRO:
            case['stand_alone_reproduction'] = REPRO[key]
        _viol(ctx, key, '%s: %s is not restored by save -> load (original %s, reloaded %s)' %
                      (where, field, str(a)[:80], str(b)[:80]), case)


def harness_chem(ps):
    """first-seen-order union of the soluble particles' compositions, computed here (NOT by get_chem_names)"""
    out = []
    for p in ps:
        if p['dbm']['sol']:
            out += [c for c in p['dbm']['composition'] if c not in out]
    return out


def zero_group_row(ps):
    return any(p['dbm']['sol'] and p['dbm']['calc_delta'] > 0 and (np.abs(p['dbm']['delta_groups']).sum(axis=1) == 0).any()
               for p in ps)


def user_keys_differ(ps):
    sets = [tuple(sorted(u['name'] for u in p['dbm']['user_data'])) for p in ps
            if p['dbm']['sol'] and p['dbm']['user_data']]
    return len(set(sets)) > 1


def check_particle_list(ctx, job, tmp, idx, spec):
    from netCDF4 import Dataset
    from tamoc import dispersed_phases, model_share
    ptype = spec['ptype']
    objs, chem, KT0 = sc.build_particle_list(spec)
    recs = [abs_particle(o, ptype) for o in objs]
    ctx.count('list ptype=%d %s' % (ptype, spec['kind']))
    args = [N(ptype)] + names(chem) + enc_particles(recs) + [V(KT0), F(spec['Ta'])]
    where = 'particle list (class %d)' % ptype

    def write(path, particles, chem_names, K_T0):
        nc = model_share.tamoc_nc_file(path, 'particles', 'none', 'none')
        try:
            nc.createDimension('params', 1)
            for nme in ('Ta', 'Sa', 'P'):
                nc.createVariable(nme, 'f8', ('params',))[0] = spec[nme]
            dispersed_phases.save_particle_to_nc_file(nc, chem_names, particles, K_T0)
        finally:
            nc.close()

    def section(d):
        return {'attrs': d['attrs'][12:], 'dims': [x for x in d['dims'] if x[0] != 'params'],
                'vars': [v for v in d['vars'] if v['name'] not in ('Ta', 'Sa', 'P')]}

    f1 = os.path.join(tmp, 'pl%d.nc' % idx)
    f2 = os.path.join(tmp, 'pl%d_b.nc' % idx)
    try:
        try:
            with sc.quiet():
                write(f1, objs if ptype else objs[0], chem, KT0 if ptype else KT0[0])
        except Exception as e:
            report_raise(ctx, e, 'save', 'particles', {'keys_differ': user_keys_differ(recs)}, where, spec)
            job.add('SaveLoad.particles.save', args, 'raises', {'what': 'particle list %d' % idx})
            return
        d1 = dump_nc(f1)
        for field, a, b in diff_particles(recs, [abs_particle(o, ptype) for o in objs], 0, state=True):
            _viol(ctx, 'save-alters-model:' + re.sub(r'\[\d+\]', '', field), 'save_particle_to_nc_file changes %s of the particles it saves' % field,
                  {'field': field, 'before': a, 'after': b, 'spec': sc.jsonable(spec)})
        job.add('SaveLoad.particles.save', args, 'file', {'real': section(d1), 'what': 'particle list %d' % idx, 'skip': ()})
        nc = Dataset(f1)
        try:
            with sc.quiet():
                loaded, chem2 = dispersed_phases.load_particle_from_nc_file(nc)
        except Exception as e:
            report_raise(ctx, e, 'load', 'particles', {'zero_row': zero_group_row(recs)}, where, spec)
            return
        finally:
            nc.close()
        recs2 = [abs_particle(o, ptype) for o in loaded]
        job.add('SaveLoad.particles.load', args, 'particles', {'real': recs2, 'chem': list(chem2), 'what': 'particle list %d' % idx})
        diffs = diff_particles(recs, recs2, GROUP_TOL, state=True)
        if list(chem2) != list(chem):
            diffs.append(('chem_names', chem, list(chem2)))
        report_losses(ctx, diffs, recs, where, spec, chem=chem)
        # re-save what was loaded, reload: nothing may change any more
        try:
            with sc.quiet():
                write(f2, loaded if ptype else loaded[0], chem2,
                      np.array([q.K_T for q in loaded]) if ptype else float(loaded[0].K_T))
            d2 = dump_nc(f2)
            job.add('SaveLoad.particles.resave', args, 'file', {'real': section(d2), 'what': 're-saved particle list %d' % idx, 'skip': ()})
            soft = [x for x in diff_files(section(d1), section(d2)) if 'delta_groups' not in x]
            if soft:
                _viol(ctx, 'resave-differs:particles', 'saving the reloaded particle list gives a different file',
                              {'differences': soft[:5], 'spec': sc.jsonable(spec)})
            nc = Dataset(f2)
            try:
                with sc.quiet():
                    loaded3, _c = dispersed_phases.load_particle_from_nc_file(nc)
            finally:
                nc.close()
            for field, a, b in diff_particles(recs2, [abs_particle(o, ptype) for o in loaded3], GROUP_TOL, state=True):
                _viol(ctx, 'reload-differs:' + field, 'second reload differs from the first',
                              {'field': field, 'first': a, 'second': b, 'spec': sc.jsonable(spec)})
            ctx.count('list re-save and re-load reached')
        except Exception as e:
            report_raise(ctx, e, 'resave', 'particles', {}, where, spec)
        ctx.evaluations += 1
    finally:
        for f in (f1, f2):
            if os.path.exists(f):
                os.remove(f)


def check_profile(ctx, job, tmp, idx, ps):
    """create_nc_db + fill_nc_db, file vs model, read back vs the table in memory"""
    from netCDF4 import Dataset
    from tamoc import ambient
    path = os.path.join(tmp, 'prf%d.nc' % idx)
    with sc.quiet():
        nc, data, nms, units, comments = sc.write_profile(ps, path)
        nc.close()
    d = dump_nc(path)
    h = header_of(d)
    args = [S(h['created']), S(h['modified']), S(h['summary']), S(h['source']), S(ps['sea_name']), F(ps['lat']), F(ps['lon']),
            F(ps['time']), S(nms[0]), S(units[0]), S(comments[0]), V(data[:, 0]), N(len(nms) - 1)]
    for j in range(1, len(nms)):
        args += [S(nms[j]), S(units[j]), S(comments[j]), V(data[:, j])]
    job.add('SaveLoad.profile.save', args, 'file', {'real': d, 'what': 'profile %d' % idx, 'skip': ()})
    ztsp, chems = nms[:4], nms[4:]
    nc = Dataset(path)
    try:
        got, zu, cu = ambient.get_nc_data(nc, ztsp, chems)
    finally:
        nc.close()
    job.add('SaveLoad.profile.load', args + names(ztsp) + names(chems), 'profile',
            {'real': got, 'names': nms, 'units': zu + cu, 'what': 'profile %d' % idx})
    ctx.evaluations += 1
    if not same(got, data):
        _viol(ctx, 'profile-data-differs', 'get_nc_data does not return the table written by fill_nc_db',
                      {'profile': sc.jsonable(ps)})
    # interpolation: the profile read back from the file vs the same table in memory
    with sc.quiet():
        p_file = ambient.Profile(Dataset(path), chem_names='all')
        p_file.close_nc()
        p_path = ambient.Profile(path, chem_names='all')
        p_mem = ambient.Profile(data.copy(), ztsp=ztsp, chem_names=list(chems), chem_units=units[4:], ztsp_units=units[:4])
    r = np.random.default_rng(ps['zseed'] + 1)
    zz = np.concatenate([r.uniform(-20., ps['H'] + 50., 300), data[:, 0], [0., ps['H']]])
    q = nms[1:]
    a, b, c = p_mem.get_values(zz, q), p_file.get_values(zz, q), p_path.get_values(zz, q)
    ctx.evaluations += len(zz)
    ctx.count('profile %s%s%s' % ('irregular' if ps['irregular'] else 'regular', ' +chems' if chems and chems != ['ua'] else '', ' +ua' if 'ua' in chems else ''))
    for tag, x in (('netCDF4.Dataset', b), ('file name (xarray)', c)):
        if not same(a, x):
            bad = np.argwhere(~((a == x) | (np.isnan(a) & np.isnan(x))))[:3]
            _viol(ctx, 'profile-interp-differs', 'a profile written to netCDF and read back (%s) does not interpolate identically' % tag,
                          {'profile': sc.jsonable(ps), 'first differences (row, column)': bad.tolist(),
                           'depths': zz[bad[:, 0]].tolist() if len(bad) else []})
    return path, p_file


APPEND_TOL = 1e-12      # appended columns: two separately rounded evaluations of the same linear interpolant (see below)
REATTACH_TOL = 0.03     # of max|v|: load_sim re-attaches the profile with the default 1 % coarsening (err=0.01)


def check_profile_append(ctx, tmp, idx, ps, mode, route, with_sim):
    """a cast written with create_nc_db/fill_nc_db, then 1-3 variables APPENDED from data that cover only part of the
    depth range — through Profile.append on the nc-backed profile or through fill_nc_db directly — closed and read back.
    The in-memory profile (BaseProfile.append holds the end values constant) and the read-back one must interpolate
    alike for EVERY variable at depths inside, at the ends of and outside the appended data's range.
    Precision, determined on the unchanged tree: temperature, salinity, pressure bit for bit (the file stores f8);
    an appended column to 1e-12 relative — the file holds fill_nc_db's interp1d evaluation on the cast's depths, the
    memory holds xr_add_data_from_numpy's evaluation of the same interpolant: each is rounded separately, observed
    difference <= 4e-16 relative in 17 of 40 casts, 0 in the others (both built with err=0: no coarsening)."""
    from netCDF4 import Dataset
    from tamoc import ambient, single_bubble_model, dbm
    path = os.path.join(tmp, 'app%d.nc' % idx)
    adds = sc.append_specs(ctx.rng, ps['H'], mode)
    case = {'profile': sc.jsonable(ps), 'mode': mode, 'route': route, 'appended': sc.jsonable(adds)}
    with sc.quiet():
        nc, data, nms, units, comments = sc.write_profile(ps, path)
        mem = ambient.Profile(nc, chem_names='all', err=0.)
        for a in adds:
            tab = np.array(a['table'], dtype=float)
            cm = ['appended'] * len(a['names'])
            if route == 'Profile.append':
                mem.append(tab, list(a['names']), list(a['units']), cm, 0)
            else:
                mem.nc = ambient.fill_nc_db(mem.nc, tab, list(a['names']), list(a['units']), cm, 0)
                ambient.BaseProfile.append(mem, tab, list(a['names']), list(a['units']), cm, 0)
        mem.close_nc()
        back = ambient.Profile(Dataset(path), chem_names='all', err=0.)
        back.close_nc()
        back2 = ambient.Profile(path, chem_names='all', err=0.)
    base = [n for n in nms[1:]]
    new = [n for a in adds for n in a['names'][1:]]
    q = base + [n for n in new if n not in base]
    r = np.random.default_rng(ps['zseed'] + 11)
    pts = [r.uniform(-30., ps['H'] + 40., 150), data[:, 0], [0., ps['H'], mem.z_min, mem.z_max]]
    for a in adds:
        z = np.array(a['table'])[:, 0]
        lo, hi = a['range']
        pts += [z, [lo, hi, np.nextafter(lo, -1e9), np.nextafter(lo, 1e9), np.nextafter(hi, -1e9), np.nextafter(hi, 1e9)],
                r.uniform(lo, hi, 30), r.uniform(min(lo, 0.) - 20., lo, 15), r.uniform(hi, max(hi, ps['H']) + 20., 15)]
    zz = np.concatenate([np.asarray(x, dtype=float) for x in pts])
    A = mem.get_values(zz, q)
    ctx.evaluations += A.size
    ctx.count('appended profile: %s, %s' % (mode, route))
    bad = False
    for tag, prf in (('netCDF4.Dataset', back), ('file name (xarray)', back2)):
        if sorted(prf.f_names) != sorted(mem.f_names):
            ctx.violation('profile-append-variables-differ', 'a profile with appended variables read back (%s) has other variables' % tag,
                          dict(case, written=list(mem.f_names), read_back=list(prf.f_names)))
            bad = True
            continue
        Bv = prf.get_values(zz, q)
        for j, nme in enumerate(q):
            if nme in new:
                ok = all(close(float(x), float(y), APPEND_TOL, 1e-300) for x, y in zip(A[:, j], Bv[:, j]))
            else:
                ok = same(A[:, j], Bv[:, j])
            if not ok:
                k = int(np.nanargmax(np.abs(A[:, j] - Bv[:, j])))
                lo_hi = next((a['range'] for a in adds if nme in a['names']), None)
                ctx.violation('profile-append-readback-differs',
                              'a profile with data appended on part of the depth range, written to netCDF and read back (%s), does not '
                              'interpolate identically: %s at z = %.6g m written %.9g read back %.9g' % (tag, nme, zz[k], A[k, j], Bv[k, j]),
                              dict(case, variable=nme, z=float(zz[k]), written=float(A[k, j]), read_back=float(Bv[k, j]),
                                   sampled_range=lo_hi))
                bad = True
                break
    if with_sim and not bad:
        # the profile load_sim re-attaches (profile_from_model_savefile: default err = 0.01) to a simulation that used it
        sbm = single_bubble_model.Model(mem)
        with sc.quiet():
            sbm.simulate(dbm.InsolubleParticle(False, False, rho_p=2500.), np.array([0., 0., 0.8 * ps['H']]), 0.002, 1., delta_t=20.)
        fs = os.path.join(tmp, 'app%d_sbm.nc' % idx)
        with sc.quiet():
            sbm.save_sim(fs, os.path.basename(path), 'C18 appended profile')
            m2 = single_bubble_model.Model(simfile=fs)
        ctx.count('appended profile re-attached by load_sim')
        if m2.profile is None:
            ctx.violation('profile-reattach-differs', 'load_sim did not re-attach the profile with appended variables', case)
        else:
            Bv = m2.profile.get_values(zz, q)
            for j, nme in enumerate(q):
                tol = REATTACH_TOL * float(np.max(np.abs(A[:, j])))
                dev = float(np.max(np.abs(A[:, j] - Bv[:, j])))
                if not dev <= tol:
                    k = int(np.argmax(np.abs(A[:, j] - Bv[:, j])))
                    ctx.violation('profile-reattach-differs',
                                  'the profile load_sim re-attaches does not interpolate like the one the simulation used: %s at z = %.6g m '
                                  'used %.9g re-attached %.9g (tolerance: %g of max|v|, the default coarsening)' % (nme, zz[k], A[k, j], Bv[k, j], REATTACH_TOL),
                                  dict(case, variable=nme, z=float(zz[k]), used=float(A[k, j]), reattached=float(Bv[k, j])))
                    break
        os.remove(fs)
    os.remove(path)
    return not bad


def check_profile_history(ctx, tmp):
    """HISTORY class: several save / load pipelines in ONE process whose profile files share one path.
    (1) a batch that rewrites ctd.nc per site (different contents), runs, saves and loads: every reloaded model must carry
    the profile its own simulation used, and loading a later site must not alter the profile of an already loaded model;
    (2) two save files that point to the same UNCHANGED profile file: both reload with that profile."""
    from tamoc import single_bubble_model, dbm
    rng = ctx.rng
    hdir = os.path.join(tmp, 'history')
    os.makedirs(hdir, exist_ok=True)
    ctd = os.path.join(hdir, 'ctd.nc')
    q = ['temperature', 'salinity', 'pressure', 'ua']
    loaded = []           # (site, reloaded model, values of its profile when it was loaded, depths)
    prf = ps = None

    def run_site(site, rewrite):
        nonlocal prf, ps
        if rewrite:
            if os.path.exists(ctd):
                os.remove(ctd)
            ps = sc.profile_spec(rng, H=rng.choice([300., 500.]), current=rng.choice([0., 0.1]))
            with sc.quiet():
                nc, _d, _n, _u, _c = sc.write_profile(ps, ctd)
                nc.close()
            prf = sc.profile_from_file(ctd)
        m = single_bubble_model.Model(prf)
        with sc.quiet():
            m.simulate(dbm.InsolubleParticle(True, False, rho_p=rng.uniform(850., 950.)), np.array([0., 0., 0.5 * ps['H']]),
                       rng.uniform(0.002, 0.005), 1., delta_t=20.)
        f = os.path.join(hdir, 'site%d.nc' % site)
        with sc.quiet():
            m.save_sim(f, 'ctd.nc', 'site %d' % site)
            m2 = single_bubble_model.Model(simfile=f)
        zz = np.concatenate([np.linspace(0., ps['H'], 23), np.random.default_rng(site).uniform(-5., ps['H'] + 5., 40)])
        used = m.profile.get_values(zz, q)
        ctx.evaluations += used.size
        case = {'site': site, 'rewritten': rewrite, 'profile': sc.jsonable(ps)}
        if m2.profile is None:
            ctx.violation('profile-reattach-differs', 'history: load_sim of site %d did not re-attach a profile' % site, case)
            return
        got = m2.profile.get_values(zz, q)
        if not same(used, got):
            k = np.unravel_index(int(np.nanargmax(np.abs(used - got))), used.shape)
            ctx.violation('profile-reattach-stale', 'history: after the profile file ctd.nc was %s for site %d, the reloaded model\'s profile does not '
                          'interpolate like the one the simulation used: %s at z = %.5g m used %.9g reloaded %.9g'
                          % ('rewritten' if rewrite else 'left unchanged', site, q[k[1]], zz[k[0]], used[k], got[k]),
                          dict(case, variable=q[k[1]], z=float(zz[k[0]]), used=float(used[k]), reloaded=float(got[k])))
        if not (same(farr(m.t), farr(m2.t)) and same(farr(m.y), farr(m2.y))):
            ctx.violation('array:y', 'history: solution arrays of site %d differ after reload' % site, case)
        # loading this site must not have touched the models loaded before
        for site0, m0, vals0, zz0 in loaded:
            now = m0.profile.get_values(zz0, q)
            if m0.profile is m2.profile and rewrite:
                ctx.violation('profile-reattach-stale', 'history: the models reloaded for site %d and site %d share ONE profile object although '
                              'ctd.nc was rewritten in between' % (site0, site), case)
            elif not same(vals0, now):
                ctx.violation('profile-reattach-stale', 'history: loading site %d altered the profile of the model already loaded for site %d'
                              % (site, site0), case)
        loaded.append((site, m2, got, zz))
        ctx.count('history: site with %s profile file' % ('rewritten' if rewrite else 'unchanged'))

    try:
        run_site(0, True)
        run_site(1, True)            # same path, other contents
        run_site(2, True)
        run_site(3, False)           # a second save file pointing to the same, unchanged profile file
    except Exception as e:
        report_raise(ctx, e, 'history', 'sbm', {}, 'history of save/load pipelines sharing one profile path', {'profile': ps})
    shutil.rmtree(hdir, ignore_errors=True)
    ctx.oblige('history: 3 pipelines rewriting one profile path + 1 on the unchanged path were saved, loaded and compared (%d)' % len(loaded),
               len(loaded) == 4, '%d' % len(loaded))
    ctx.nontrivial.add(('history', len(loaded)))


def farfield_pairs(m, m2):
    out = []
    for i, (p, q) in enumerate(zip(m.particles, m2.particles)):
        if p.farfield:
            out.append((i, p, q))
    return out


def is_0d(x):
    return isinstance(x, np.ndarray) and np.ndim(x) == 0


def pstates(m):
    """the state LagElement.update left in the particles of a (re)loaded bent-plume model"""
    out = [N(len(m.particles))]
    for p in m.particles:
        out += [B(bool(p.integrate)), F(fnum(p.t)), F(fnum(p.x)), F(fnum(p.y)), F(fnum(p.z))]
    return out


def row0_temperatures(rec):
    """(temperature of the first Lagrangian element, temperature of each particle) from the first row of the bent-plume
    solution, by the state-vector layout (bent_plume_model.LagElement.update l.3113-3215): q[0] mass, q[2] heat of the
    element (cp = seawater.cp()); per particle nc masses, heat (cp_p = 0.5 seawater.cp()), age, three coordinates"""
    from tamoc import seawater
    q0 = np.asarray(rec['q'])[0]
    cp = float(seawater.cp())
    Te = q0[2] / (q0[0] * cp)
    Tp, idx = [], 11
    for p in rec['particles']:
        nc = len(p['m0'])
        Mp, Hp = q0[idx:idx + nc], q0[idx + nc]
        Tp.append(Hp / (np.sum(Mp) * 0.5 * cp))
        idx += nc + 5
    return float(Te), [float(x) for x in Tp]


def require_unchanged(ctx, kind, before, after, where, spec, what, skip=()):
    """the writer must leave the model it saves as it found it (reference records are taken BEFORE every save)"""
    for field, a, b in diff_model(kind, before, after, 0, state=True):
        if re.sub(r'^particles\[\d+\]\.', '', field) in skip:
            continue
        ctx.count('violation save-alters-model:' + re.sub(r'\[\d+\]', '', field))
        _viol(ctx, 'save-alters-model:' + re.sub(r'\[\d+\]', '', field),
              '%s: %s changes %s of the model it saves (before %s, after %s)' % (where, what, field, str(a)[:70], str(b)[:70]),
              {'field': field, 'before': a, 'after': b, 'spec': sc.jsonable(spec)})


def check_sim(ctx, job, cdir, kind, m, spec, tag):
    """save -> file vs model -> load -> compare -> re-save -> re-load -> compare; text export; profile.
    Returns the set of stages reached.  A raise with the signature of a recorded defect is reported under its key and
    the pipeline continues with that defect bypassed (documented at each site)."""
    from tamoc import single_bubble_model, bent_plume_model, stratified_plume_model
    Model = {'sbm': single_bubble_model.Model, 'bpm': bent_plume_model.Model, 'spm': stratified_plume_model.Model}[kind]
    reached = set()
    where = '%s simulation (%s)' % (kind, spec['kind'])
    f1 = os.path.join(cdir, 'sim.nc')
    ntr = len(spec.get('tracers', [1]))
    skip = ()
    rec_orig = ABS[kind](m)
    try:
        with sc.quiet():
            m.save_sim(f1, 'prf.nc', 'C18 profile info')
    except Exception as e:
        key = report_raise(ctx, e, 'save', kind, {'no_tracers': kind == 'bpm' and ntr == 0 and len(np.ravel(m.cj)) == 0}, where, spec)
        job.add('SaveLoad.%s.save' % kind, enc_header({'title': 'x', 'summary': 'prf.nc', 'source': 'i', 'created': 'c', 'modified': 'm'}) + ENC[kind](rec_orig),
                'raises', {'what': tag})
        if key != 'save-raises:bpm:no-tracers':
            return reached
        # bypass of the recorded defect: give the writer ONE tracer concentration to store (the simulation has no
        # tracer; `cj` is then excluded from the comparisons), so that the rest of the pipeline is still exercised
        m.cj = np.zeros(1)
        skip = ('cj',)
        rec_orig = ABS[kind](m)            # reference of the bypassed model, again BEFORE it is saved
        ctx.count('bypass: cj = [0.] for a simulation without tracers')
        f1 = os.path.join(cdir, 'simb.nc')        # the failed writer left the first file open
        try:
            with sc.quiet():
                m.save_sim(f1, 'prf.nc', 'C18 profile info')
        except Exception as e2:
            report_raise(ctx, e2, 'save', kind, {}, where + ' (cj bypassed)', spec)
            return reached
    reached.add('save')
    # the reference record was taken BEFORE save_sim; whatever save_sim did to the model must not enter the reference
    rec = rec_orig
    require_unchanged(ctx, kind, rec, ABS[kind](m), where, spec, 'save_sim')
    d1 = dump_nc(f1)
    h = header_of(d1)
    args = enc_header(h) + ENC[kind](rec)
    job.add('SaveLoad.%s.save' % kind, args, 'file', {'real': d1, 'what': tag, 'skip': ()})
    # --- text export carries the numbers of the model (reference taken before any save) and hence of the binary file,
    #     whose arrays are compared with the same reference after load
    try:
        base = os.path.join(cdir, 'txt')
        with sc.quiet():
            m.save_txt(base, 'prf.nc', 'C18 profile info')
        pairs = {'sbm': [(base + '.txt', 't', 'y')], 'bpm': [(base + '.txt', 't', 'q')],
                 'spm': [(base + '_inner.txt', 'zi', 'yi'), (base + '_outer.txt', 'zo', 'yo')]}[kind]
        for fn, kx, ky in pairs:
            tab = np.atleast_2d(np.loadtxt(fn))
            ctx.evaluations += tab.size
            if not (same(tab[:, 0], rec[kx]) and same(tab[:, 1:], rec[ky])):
                _viol(ctx, 'txt-differs:' + kind, '%s: %s does not carry the numbers of the binary file (%s, %s)' % (where, os.path.basename(fn), kx, ky),
                              {'shape text': list(tab.shape), 'shape binary': [len(rec[kx]), list(np.shape(rec[ky]))], 'spec': sc.jsonable(spec)})
        if kind == 'bpm':
            for i, p in [(i, p) for i, p in enumerate(m.particles) if p.farfield]:
                tab = np.atleast_2d(np.loadtxt(base + '%3.3d.txt' % i))
                if not (same(tab[:, 0], farr(p.sbm.t)) and same(tab[:, 1:], farr(p.sbm.y))):
                    _viol(ctx, 'txt-differs:bpm.farfield', '%s: far-field text export differs' % where, {'spec': sc.jsonable(spec)})
        reached.add('txt')
    except Exception as e:
        report_raise(ctx, e, 'save_txt', kind, {}, where, spec)
    # --- load into a NEW object
    try:
        with sc.quiet():
            m2 = Model(simfile=f1)
    except Exception as e:
        report_raise(ctx, e, 'load', kind, {'zero_row': zero_group_row(rec['particles'])}, where, spec)
        return reached
    reached.add('load')
    rec2 = ABS[kind](m2)
    # the model's load_sim: for the bent plume model the particle state after the LagElement reset is an input
    job.add('SaveLoad.%s.load' % kind, args + (pstates(m2) if kind == 'bpm' else []), 'model',
            {'real': rec2, 'kind': kind, 'what': tag})
    for k in ARRAYS[kind]:
        arr = getattr(m2, k)
        if isinstance(arr, np.ma.MaskedArray) and np.ma.getmaskarray(arr).any():
            _viol(ctx, 'array:%s:masked' % k, '%s: reloaded %s has masked entries' % (where, k), {'spec': sc.jsonable(spec)})
        ctx.evaluations += int(np.size(arr))
    override = {}
    if kind == 'bpm':
        # LagElement.update at the first row switches K_T off for a particle within 0.5 K of the plume water; load_sim
        # restores K_T from K_T0 right afterwards (repaired in /repo; before, the reloaded particle kept K_T = 0).  The
        # situation is generated in every run (coverage obligation) so that a return of the defect shows as
        # not-restored:K_T — an ordinary violation.
        Te, Tp = row0_temperatures(rec)
        for i, pa in enumerate(rec['particles']):
            if abs(Te - Tp[i]) < 0.5 and pa['K_T'] > 0.:
                ctx.count('bpm particle with K_T > 0 within 0.5 K of the plume water at the first row')
    report_losses(ctx, diff_model(kind, rec, rec2, GROUP_TOL, state=False), rec['particles'], where, spec,
                  chem=harness_chem(rec['particles']) if kind != 'sbm' else rec['composition'], skip=skip, override=override)
    if kind != 'sbm' and list(rec['chem_names']) != harness_chem(rec['particles']):
        ctx.violation('not-restored:composition', '%s: the model\'s chem_names %r is not the first-seen-order union of the particles\' '
                      'compositions %r (the file labels every soluble particle with it while m0 keeps the particle\'s order)'
                      % (where, rec['chem_names'], harness_chem(rec['particles'])), {'spec': sc.jsonable(spec)})
    if kind == 'bpm':
        # the end-of-simulation state the file holds is overwritten by LagElement.update(t[0], q[0]) at load time:
        # not a definition field (recorded, not a violation of the property's predicate)
        for pa, pb in zip(rec['particles'], rec2['particles']):
            if any(not same(pa[k], pb[k]) for k in ('tp', 'xp', 'yp', 'zp')) or pa['integrate'] != pb['integrate']:
                ctx.count('bpm particle state (integrate,t,x,y,z) reset by load_sim')
    # --- far-field single-particle simulations stored beside the bent-plume file
    if kind == 'bpm':
        for i, p, q in farfield_pairs(m, m2):
            ctx.count('farfield sub-simulation')
            if not hasattr(q, 'sbm'):
                _viol(ctx, 'not-restored:farfield.sbm', '%s: tracked particle %d has no sbm after load' % (where, i), {'spec': sc.jsonable(spec)})
                continue
            ra, rb = abs_sbm(p.sbm), abs_sbm(q.sbm)
            report_losses(ctx, diff_model('sbm', ra, rb, GROUP_TOL, state=False), ra['particles'],
                          where + ' far-field track of particle %d' % i, spec, chem=ra['composition'])
            fs = f1.split('.nc')[0] + '%3.3d.nc' % i
            ds = dump_nc(fs)
            job.add('SaveLoad.sbm.save', enc_header(header_of(ds)) + enc_sbm(ra), 'file', {'real': ds, 'what': tag + ' far-field %d' % i, 'skip': ()})
    # --- re-save, re-load
    f2 = os.path.join(cdir, 'sim2.nc')

    def sbms(mm):
        if kind == 'sbm':
            return [mm]
        if kind == 'bpm':
            return [p.sbm for p in mm.particles if p.farfield and hasattr(p, 'sbm')]
        return []

    resaved = False
    rec2_ref = rec2                      # the reloaded model BEFORE it is saved again
    try:
        with sc.quiet():
            m2.save_sim(f2, 'prf.nc', 'C18 profile info')
        resaved = True
    except Exception as e:
        key = report_raise(ctx, e, 'resave', kind, {'k_t0_0d': any(is_0d(x.K_T0) for x in sbms(m2))}, where, spec)
        if kind == 'sbm':
            job.add('SaveLoad.sbm.save', enc_header(h) + enc_sbm(rec2), 'raises', {'what': 're-saving reloaded ' + tag})
        if key == 'resave-raises:sbm':
            # bypass of the recorded defect: hand K_T0 over as the float the writer expects
            for x in sbms(m2):
                x.K_T0 = float(fnum(x.K_T0))
            rec2_ref = ABS[kind](m2)     # reference of the bypassed model, again BEFORE it is saved
            ctx.count('bypass: K_T0 of the reloaded single-particle model converted to float')
            f2 = os.path.join(cdir, 'sim2b.nc')   # the failed writer left the first file open
            try:
                with sc.quiet():
                    m2.save_sim(f2, 'prf.nc', 'C18 profile info')
                resaved = True
            except Exception as e2:
                report_raise(ctx, e2, 'resave', kind, {}, where + ' (K_T0 bypassed)', spec)
    if resaved:
        reached.add('resave')
        try:
            require_unchanged(ctx, kind, rec2_ref, ABS[kind](m2), where, spec, 'save_sim of the reloaded model')
            d2 = dump_nc(f2)
            # the model's writer on the reloaded object as it was BEFORE this save (its particles carry the state
            # LagElement.update gave them at load time)
            job.add('SaveLoad.%s.save' % kind, enc_header(header_of(d2)) + ENC[kind](rec2_ref), 'file',
                    {'real': d2, 'what': 're-saved ' + tag, 'skip': ()})
            state_vars = ('integrate', 'tp', 'xp', 'yp', 'zp')     # state of a bent-plume particle, not its definition
            soft = [x for x in diff_files(d1, d2, skip_attr_values=DATE_ATTRS)
                    if 'delta_groups' not in x and not any(x.startswith('variable %s ' % v) for v in state_vars)]
            if soft:
                _viol(ctx, 'resave-differs:' + kind, '%s: saving the reloaded simulation gives a different file' % where,
                              {'differences': soft[:5], 'spec': sc.jsonable(spec)})
            with sc.quiet():
                m3 = Model(simfile=f2)
            reached.add('reload')
            for field, a, b in diff_model(kind, rec2, ABS[kind](m3), GROUP_TOL, state=False):
                _viol(ctx, 'reload-differs:' + field, '%s: second reload differs from the first in %s' % (where, field),
                              {'field': field, 'first': a, 'second': b, 'spec': sc.jsonable(spec)})
            if kind == 'bpm':
                for i, p, q in farfield_pairs(m2, m3):
                    if hasattr(p, 'sbm') and hasattr(q, 'sbm'):
                        for field, a, b in diff_model('sbm', abs_sbm(p.sbm), abs_sbm(q.sbm), GROUP_TOL, state=False):
                            _viol(ctx, 'reload-differs:farfield.' + field, '%s: far-field track %d differs after the second reload' % (where, i),
                                          {'field': field, 'spec': sc.jsonable(spec)})
        except Exception as e:
            report_raise(ctx, e, 'reload', kind, {}, where, spec)
    # --- the re-attached profile interpolates like the one the simulation used
    r = np.random.default_rng(spec['profile']['zseed'] + 7)
    zz = r.uniform(-10., spec['profile']['H'] + 20., 100)
    q = ['temperature', 'salinity', 'pressure', 'ua', 'va', 'wa'] + list(spec['profile']['chems'])
    if m2.profile is None or not same(m.profile.get_values(zz, q), m2.profile.get_values(zz, q)):
        _viol(ctx, 'profile-reattach-differs', '%s: the profile attached on load does not interpolate like the original' % where,
                      {'spec': sc.jsonable(spec)})
    # --- the profile file has moved: the loaders document that they continue without it
    f3 = os.path.join(cdir, 'sim3.nc')
    try:
        with sc.quiet():
            m.save_sim(f3, 'moved_away.nc', 'C18 profile info')
    except Exception as e:
        report_raise(ctx, e, 'save', kind, {}, where + ' (profile path changed)', spec)
    else:
        try:
            with sc.quiet():
                m4 = Model(simfile=f3)
            ctx.count('no-profile load ok ' + kind)
            for k in ARRAYS[kind]:
                if not same(farr(getattr(m4, k)), rec[k]):
                    _viol(ctx, 'array:' + k, '%s: %s differs after loading without the profile file' % (where, k), {'spec': sc.jsonable(spec)})
        except Exception as e:
            report_raise(ctx, e, 'load', kind, {'no_profile': kind == 'bpm' and "'NoneType' object has no attribute 'get_values'" in str(e)},
                         where + ' (profile file absent; documented: continues with a warning)', spec)
    ctx.evaluations += 1
    return reached


def layout_key(kind, rec):
    ps = rec['particles']
    lay = tuple((p['dbm']['sol'], len(p['m0'])) for p in ps)
    n = {'sbm': np.shape(rec.get('y')), 'bpm': np.shape(rec.get('q')), 'spm': (np.shape(rec.get('yi')), np.shape(rec.get('yo')))}[kind]
    return (kind, lay, len(rec.get('tracers', [])), n)


def sim_plan(ctx):
    """(kind, builder kwargs): every model x particle kind first (each must reach re-save and re-load), the
    quantifier's corners (0-3 tracers, tracking, currents), then random"""
    r = ctx.rng
    plan = [('sbm', {'kind': 'soluble'}), ('sbm', {'kind': 'inert'}),
            ('bpm', {'kind': 'mixed', 'ntracers': 1, 'track': False, 'current': 0.2, 'unsorted': True}),
            ('bpm', {'kind': 'soluble', 'ntracers': r.choice([2, 3]), 'track': True, 'current': 0.1, 'unsorted': True}),
            ('bpm', {'kind': 'inert', 'ntracers': r.choice([1, 2]), 'track': r.random() < 0.5, 'current': 0.05, 'jet_match': True}),
            ('bpm', {'kind': r.choice(['inert', 'mixed']), 'ntracers': 0, 'track': False, 'current': 0.}),
            ('spm', {'kind': 'soluble', 'unsorted': True}), ('spm', {'kind': 'inert'}), ('spm', {'kind': 'mixed', 'unsorted': True})]
    for i in range(ctx.n(0, 51)):
        plan.append((('sbm', 'bpm', 'spm', 'bpm', 'sbm', 'spm')[i % 6], {}))
    return plan


def run(ctx, lean_ok):
    os.makedirs(SCRATCH, exist_ok=True)
    tmp = tempfile.mkdtemp(prefix='run-', dir=SCRATCH)
    try:
        _run(ctx, lean_ok, tmp)
    finally:
        shutil.rmtree(tmp, ignore_errors=True)


def _run(ctx, lean_ok, tmp):
    rng = ctx.rng
    job = Job()
    # ---- A. particle writer / reader alone, all three particle classes ---------------------------
    for i in range(ctx.n(36, 600)):
        spec = sc.particle_list_spec(rng, (0, 1, 2)[i % 3])
        check_particle_list(ctx, job, tmp, i, spec)
        ctx.nontrivial.add(('list', spec['ptype'], spec['kind'], tuple(spec['composition']),
                            tuple(len(p['dbm'].get('user_data', {})) for p in spec['particles'])))
        if i < 2:
            ctx.sample({'particle list': {'class': spec['ptype'], 'kind': spec['kind'], 'composition': spec['composition'],
                                          'n': len(spec['particles'])}})
    # ---- A'. plume particle lists that mix soluble particles with and without user chemical data, both
    #          orders, with and without an inert particle in between (every run, both plume classes)
    k = 100000
    for ptype in (1, 2):
        for with_first in (True, False):
            for inert_between in (False, True):
                spec = sc.mixed_user_data_list_spec(rng, ptype, with_first, inert_between, tail=(ptype == 2 and inert_between))
                check_particle_list(ctx, job, tmp, k, spec)
                ctx.count('list mixed user data: %s first%s' % ('with' if with_first else 'without', ', inert between' if inert_between else ''))
                ctx.nontrivial.add(('list-mixed-ud', ptype, with_first, inert_between, tuple(spec['composition'])))
                k += 1
    # ---- A''. soluble particles whose own composition is not the list's chem_names (another order / fewer compounds)
    for ptype in (1, 2):
        for variant in ('reordered', 'subset'):
            spec = sc.composition_variant_list_spec(rng, ptype, variant)
            check_particle_list(ctx, job, tmp, k, spec)
            ctx.nontrivial.add(('list-composition', ptype, variant, tuple(spec['composition'])))
            k += 1
    # ---- B. profile files -------------------------------------------------------------------------
    for i in range(ctx.n(3, 40)):
        ps = sc.profile_spec(rng, chems=rng.choice([(), ('oxygen',), ('methane', 'oxygen')]))
        try:
            path, _p = check_profile(ctx, job, tmp, i, ps)
            os.remove(path)
        except Exception as e:
            _viol(ctx, 'profile-readback-raises', 'writing a profile with create_nc_db/fill_nc_db and reading it back raises %s' % type(e).__name__,
                          {'error': '%s: %s' % (type(e).__name__, e), 'trace': traceback.format_exc()[-600:], 'profile': sc.jsonable(ps)})
    # ---- B'. casts with variables appended from data covering only part of the depth range -------------
    napp = 0
    modes = list(sc.APPEND_MODES)
    for i in range(ctx.n(8, 60)):
        ps = sc.profile_spec(rng, current=0., chems=rng.choice([(), ('oxygen',)]) if i % 3 == 2 else ())
        mode = modes[i % len(modes)]
        route = ('Profile.append', 'fill_nc_db')[(i // len(modes) + i) % 2]
        try:
            check_profile_append(ctx, tmp, i, ps, mode, route, with_sim=(i < 2 or i % 10 == 0))
            napp += 1
            ctx.nontrivial.add(('profile-append', mode, route, ps['n'], ps['irregular']))
        except Exception as e:
            report_raise(ctx, e, 'profile-append', 'profile', {}, 'cast with appended variables (%s, %s)' % (mode, route), {'profile': ps})
    ctx.oblige('floor: at least 5 casts with variables appended on part of the depth range were written, read back and compared (%d)' % napp,
               napp >= 5, '%d' % napp)
    for mode in ('top-missing', 'bottom-missing', 'both-missing', 'beyond'):
        ctx.oblige('coverage: appended data with %s compared' % mode,
                   any(k.startswith('appended profile: %s,' % mode) for k in ctx.hist), 'not generated')
    # ---- B''. history: pipelines in one process that share a profile path -------------------------------
    check_profile_history(ctx, tmp)
    # ---- C. real simulations ---------------------------------------------------------------------
    mk = {'sbm': sc.sbm_spec, 'bpm': sc.bpm_spec, 'spm': sc.spm_spec}
    done = {}
    unsorted_done = {}
    heat_on = {}
    cov = {}
    plan = sim_plan(ctx)
    mandatory = 9           # the first entries carry the coverage obligations
    retried = {}
    n = -1
    while n + 1 < len(plan):
        n += 1
        kind, kw = plan[n]
        m = spec = None
        for attempt in range(6):
            spec = mk[kind](rng, **kw)
            cdir = os.path.join(tmp, 'case%d' % n)
            shutil.rmtree(cdir, ignore_errors=True)
            os.makedirs(cdir)
            try:
                with sc.quiet():
                    nc, _d, _n, _u, _c = sc.write_profile(spec['profile'], os.path.join(cdir, 'prf.nc'))
                    nc.close()
                prf = sc.profile_from_file(os.path.join(cdir, 'prf.nc'))
            except Exception as e:
                _viol(ctx, 'profile-readback-raises', 'writing the profile of a simulation with create_nc_db/fill_nc_db and reading it back raises %s' % type(e).__name__,
                              {'error': '%s: %s' % (type(e).__name__, e), 'trace': traceback.format_exc()[-600:], 'profile': sc.jsonable(spec['profile'])})
                break
            try:
                m = sc.RUN[kind](spec, prf)
                ok = {'sbm': lambda: len(m.t) > 3, 'bpm': lambda: len(m.t) > 3, 'spm': lambda: len(m.zi) > 3 and len(m.zo) > 1}[kind]()
                if ok:
                    break
            except Exception as e:      # the simulation itself failed: not a completed simulation (C20's business)
                ctx.count('simulation failed (%s: %s), respecified' % (kind, type(e).__name__))
            m = None
        if m is None:
            ctx.notes.append('no completed %s simulation for plan entry %d' % (kind, n))
            ctx.count('no completed simulation ' + kind)
            continue
        done[kind] = done.get(kind, 0) + 1
        tag = '%s case %d' % (kind, n)
        rec = ABS[kind](m)
        ctx.nontrivial.add(layout_key(kind, rec))
        ctx.count('%s %s' % (kind, spec['kind']))
        if kind == 'bpm':
            ctx.count('bpm tracers=%d' % len(spec['tracers']))
            ctx.count('bpm track=%s' % spec['track'])
            for p in m.particles:
                ctx.count('bpm particle %s the plume at the end' % ('inside' if p.integrate else 'outside'))
        if n < 4:
            ctx.sample({'simulation': kind, 'kind': spec['kind'], 'rows': int(len(rec[ARRAYS[kind][0]])),
                        'state vector': int(np.shape(rec[ARRAYS[kind][1]])[1]), 'particles': len(rec['particles'])})
        reached = check_sim(ctx, job, cdir, kind, m, spec, tag)
        if kind != 'sbm' and 'reload' in reached and any(k > 0. for k in np.ravel(rec['K_T0'])):
            heat_on[kind] = heat_on.get(kind, 0) + 1
            ctx.count('%s simulation with K_T0 > 0 (particle released off the ambient temperature)' % kind)
        hc = harness_chem(rec['particles'])
        if kind != 'sbm' and len(hc) >= 2 and hc != sorted(hc) and 'load' in reached:
            unsorted_done[kind] = unsorted_done.get(kind, 0) + 1
        for st in reached:
            cov.setdefault((kind, spec['kind']), set()).add(st)
        if kind == 'bpm' and spec['track'] and any(p.farfield for p in m.particles) and 'reload' in reached:
            cov.setdefault(('bpm', 'tracked'), set()).add('reload')
        src = retried.get(n, n)
        if src < mandatory and 'reload' not in reached and sum(1 for v in retried.values() if v == src) < 3:
            # a recorded defect that cannot be bypassed (e.g. the zero-row delta_groups load failure) stopped this
            # pipeline: it is reported; the coverage obligation is served by another specification of the same entry
            plan.append((kind, kw))
            retried[len(plan) - 1] = src
            ctx.count('planned pipeline stopped early by a reported defect: respecified')
        shutil.rmtree(cdir, ignore_errors=True)
    for kind in ('sbm', 'bpm', 'spm'):
        ctx.oblige('at least one completed %s simulation was saved and reloaded (the check is not vacuous)' % kind,
                   done.get(kind, 0) > 0, 'none of the planned %s simulations completed' % kind)
    for kind in ('bpm', 'spm'):
        ctx.oblige('floor: %s simulations whose soluble composition is NOT alphabetically sorted were saved and reloaded (%d)'
                   % (kind, unsorted_done.get(kind, 0)), unsorted_done.get(kind, 0) >= 1, '')
    for kind in ('bpm', 'spm'):
        ctx.oblige('floor: %s simulations whose particles keep heat transfer on (K_T0 > 0, released warmer/colder than the water) went '
                   'through save -> load -> re-save -> re-load (%d)' % (kind, heat_on.get(kind, 0)), heat_on.get(kind, 0) >= 1, '')
    ctx.oblige('coverage: a bent-plume particle with K_T > 0 released within 0.5 K of the jet water (first-row equilibrium) was saved and reloaded',
               ctx.hist.get('bpm particle with K_T > 0 within 0.5 K of the plume water at the first row', 0) >= 1, '')
    # coverage matrix: model x particle kind, all the way to the second reload (recorded defects on the way are bypassed)
    need = [('sbm', 'soluble'), ('sbm', 'inert'), ('bpm', 'soluble'), ('bpm', 'inert'), ('bpm', 'mixed'), ('bpm', 'tracked'),
            ('spm', 'soluble'), ('spm', 'inert'), ('spm', 'mixed')]
    for kk in need:
        ctx.oblige('coverage: %s / %s reached save -> load -> re-save -> re-load' % kk, 'reload' in cov.get(kk, ()),
                   'stages reached: %r' % sorted(cov.get(kk, ())))
    ctx.notes.append('stages reached per model x kind: %r' % {'%s/%s' % k: sorted(v) for k, v in sorted(cov.items())})
    # ---- D. the Lean model on the same records -----------------------------------------------------
    if not lean_ok:
        return
    out = run_driver(ctx, 'C18', job.lines)
    if out is None:
        return
    nbad = {}
    ntot = {}
    for (name, kind, pl), res in zip(job.expect, out):
        ntot[name] = ntot.get(name, 0) + 1
        diffs = []
        if isinstance(res, tuple):
            diffs = ['driver: ' + res[1][:200]]
        elif kind == 'raises':
            if res[0] != 'raises':
                diffs = ['the real writer raises, the model writes a file']
        elif res[0] != 'ok':
            diffs = ['the model says the writer raises, the real writer wrote a file']
        else:
            r = Rd(res[1:])
            if kind == 'file':
                diffs = diff_files(pl['real'], dec_file(r), skip_attr_values=pl['skip'], approx_vars=('delta_groups',))
            elif kind == 'particles':
                ps = dec_particles(r)
                chem = r.names()
                diffs = ['%s: real %s model %s' % (f, str(a)[:60], str(b)[:60]) for f, a, b in diff_particles(pl['real'], ps, TOL['gen_vs_source'], True)]
                if chem != pl['chem']:
                    diffs.append('composition: real %r model %r' % (pl['chem'], chem))
            elif kind == 'model':
                rec = DEC[pl['kind']](r)
                diffs = ['%s: real %s model %s' % (f, str(a)[:60], str(b)[:60]) for f, a, b in diff_model(pl['kind'], pl['real'], rec, TOL['gen_vs_source'], True)]
                for k in ('ns', 'nsi', 'nso'):
                    if k in rec and rec[k] != pl['real'][k]:
                        diffs.append('%s: real %r model %r' % (k, pl['real'][k], rec[k]))
            elif kind == 'profile':
                for j, nme in enumerate(pl['names']):
                    a, u, v = r.s(), r.s(), r.nx()
                    if a != nme or u != pl['units'][j] or not same(v, pl['real'][:, j]):
                        diffs.append('column %s (%s): model %s (%s)' % (nme, pl['units'][j], a, u))
            if not diffs and not r.done():
                diffs = ['trailing output']
        if diffs:
            nbad[name] = nbad.get(name, 0) + 1
            if sum(nbad.values()) <= 4:
                ctx.broken.append(('correspondence', '%s on %s' % (name, pl['what']), '; '.join(diffs[:4])[:1200]))
    for name in sorted(ntot):
        ctx.oblige('correspondence %s == real code on %d cases' % (name, ntot[name]), nbad.get(name, 0) == 0,
                   '%d disagreements' % nbad.get(name, 0))


def replay(ctx, path):
    """./check C18 --replay <file>: rebuild the failing case from its spec and run the same predicates"""
    import json
    import common
    d = json.load(open(path))
    spec = (d.get('case') or {}).get('spec') or (d.get('case') or {}).get('profile')
    if spec is None:
        print('replay file has no spec (broken proof obligation?): %s' % d.get('what'))
        return 2
    os.makedirs(SCRATCH, exist_ok=True)
    tmp = tempfile.mkdtemp(prefix='replay-', dir=SCRATCH)
    job = Job()
    try:
        if 'ptype' in spec:
            check_particle_list(ctx, job, tmp, 0, spec)
        elif 'model' in spec:
            kind = spec['model']
            with sc.quiet():
                nc, _d, _n, _u, _c = sc.write_profile(spec['profile'], os.path.join(tmp, 'prf.nc'))
                nc.close()
            prf = sc.profile_from_file(os.path.join(tmp, 'prf.nc'))
            m = sc.RUN[kind](spec, prf)
            check_sim(ctx, job, tmp, kind, m, spec, 'replayed %s' % kind)
        else:
            check_profile(ctx, job, tmp, 0, spec)
    finally:
        shutil.rmtree(tmp, ignore_errors=True)
    keys = sorted(set(v['key'] for v in ctx.violations))
    print('replayed %s: violations %s' % (path, keys or 'none'))
    hit = [v for v in ctx.violations if v['key'] == d.get('key')]
    for v in hit[:1]:
        print('REPRODUCED key=%s %s' % (v['key'], v['what']))
    return 1 if hit else 0
