"""
scen_bpm.py — seeded builders of bent-plume scenarios for the checks (C03, C04, ...).

A scenario is a plain JSON-serialisable dict (so that a failing case can be written to a
replay file and rebuilt):

  {'depth': m, 'profile': {...}, 'release': {...}, 'particles': [spec, ...]}

`random_scenario(rng, ...)` draws one from a `random.Random`; `build(scn)` turns it into the
REAL tamoc objects (`ambient.Profile`, `bent_plume_model.Particle` list, argument tuple of
`bent_plume_model.Model.simulate`); `simulate(scn)` runs the real simulation with stdout
silenced.  Nothing here compares numbers or knows about any property.

Conventions of tamoc that matter: z is depth (positive down); phi_0 = -pi/2 is a vertical
upward release; all soluble particles of one simulation must share one composition list
(`LagElement`/`lmp.derivs` align particle arrays with `chem_names` by position).
"""
import io
import math
import contextlib

import numpy as np

GAS_SETS = [
    ['methane'],
    ['methane', 'ethane'],
    ['methane', 'ethane', 'propane'],
    ['methane', 'carbon_dioxide'],
    ['methane', 'nitrogen', 'oxygen'],
    ['methane', 'ethane', 'propane', 'n-butane', 'n-pentane'],
]
OIL_SETS = [
    ['methane', 'n-hexane', 'benzene'],
    ['methane', 'ethane', 'n-heptane', 'toluene'],
    ['methane', 'propane', 'n-hexane', 'n-decane'],
    ['ethane', 'n-pentane', 'n-heptane', 'ethylbenzene', 'n-decane'],
]
LIGHT = {'methane', 'ethane', 'propane', 'nitrogen', 'oxygen', 'carbon_dioxide'}


@contextlib.contextmanager
def silence():
    """tamoc prints progress lines; keep them out of the check output"""
    buf = io.StringIO()
    with contextlib.redirect_stdout(buf):
        yield buf


def _dirichlet(rng, weights):
    x = [rng.gammavariate(max(w, 1e-3) * 4.0, 1.0) for w in weights]
    s = sum(x)
    return [v / s for v in x]


def random_profile(rng, depth, chems=(), current='random', background='random', wa=False, strat='random'):
    """profile spec: temperature / salinity shapes, current nodes, background concentrations.
    strat: 'normal' (thermocline, plumes usually trap) | 'weak' (nearly uniform, plumes may surface)"""
    H = depth + rng.uniform(50., 400.)
    if strat == 'random':
        strat = 'weak' if rng.random() < 0.25 else 'normal'
    Tbot = rng.uniform(275., 280.)
    spec = {
        'H': H,
        'n': rng.choice([12, 25, 40]),
        'Tsurf': (Tbot + rng.uniform(0., 0.3)) if strat == 'weak' else rng.uniform(283., 301.),
        'Tbot': Tbot,
        'zT': rng.uniform(80., 500.),
        'S0': rng.uniform(33.5, 35.5),
        'dS': rng.uniform(0., 0.02) if strat == 'weak' else rng.uniform(0., 1.5),
        'zS': rng.uniform(100., 800.),
    }
    if current == 'random':
        current = rng.choice(['none', 'uniform', 'sheared', 'sheared'])
    cur = None
    if current != 'none':
        speed = rng.uniform(0.0, 0.3)
        ang = rng.uniform(0., 2. * math.pi)
        if current == 'uniform':
            nodes = [(0., speed, ang), (H, speed, ang)]
        else:
            nodes = [(0., rng.uniform(0., 0.3), rng.uniform(0., 2. * math.pi)),
                     (rng.uniform(0.2, 0.8) * H, speed, ang),
                     (H, rng.uniform(0., 0.3), rng.uniform(0., 2. * math.pi))]
        cur = {'nodes': [[z, s * math.cos(a), s * math.sin(a), (rng.uniform(-0.01, 0.01) if wa else 0.)]
                         for z, s, a in nodes], 'wa': bool(wa)}
    spec['current'] = cur
    bg = {}
    if background == 'random':
        background = rng.choice(['none', 'some', 'all'])
    if background != 'none':
        for ch in chems:
            if background == 'all' or rng.random() < 0.5:
                c0 = 10 ** rng.uniform(-6, -2)          # kg/m^3
                bg[ch] = [c0 * rng.uniform(0.2, 1.), c0]  # surface, bottom (linear)
    spec['background'] = bg
    return spec


def _snapped_nodes(cur, grid):
    """current nodes with their depths moved to the nearest node of the cast, so that the appended data are linear
    between the nodes of the Profile's depth axis (Profile.append interpolates new data onto that axis)"""
    nodes = np.array(cur['nodes'], dtype=float)
    nodes[:, 0] = [grid[int(np.argmin(np.abs(grid - z)))] for z in nodes[:, 0]]
    keep = [0] + [k for k in range(1, len(nodes)) if nodes[k, 0] > nodes[k - 1, 0]]
    return nodes[keep]


def _add_to_table(tab, spec_part, H):
    """the harness's own raw data for currents / backgrounds, on the depth nodes of the cast"""
    z = tab['z']
    if spec_part.get('current'):
        nodes = _snapped_nodes(spec_part['current'], z)
        names = ['ua', 'va'] + (['wa'] if spec_part['current'].get('wa') else [])
        for j, nm in enumerate(names):
            tab[nm] = np.interp(z, nodes[:, 0], nodes[:, 1 + j])
    for ch, (c_top, c_bot) in spec_part.get('background', {}).items():
        tab[ch] = c_top + (c_bot - c_top) * z / H


def profile_table(spec):
    """RAW TABLE of a profile spec, computed by the harness from the spec's closed forms only: depth nodes
    linspace(0, H, n), temperature and salinity shapes, hydrostatic pressure (own trapezoidal integration with
    seawater.density), currents (piecewise linear through the nodes), backgrounds (linear surface -> bottom).  This
    table, not the Profile object, is the reference for every ambient value a check uses: see `table_value`."""
    from tamoc import seawater
    H, n = spec['H'], spec['n']
    z = np.linspace(0., H, n)
    T = spec['Tbot'] + (spec['Tsurf'] - spec['Tbot']) * np.exp(-z / spec['zT'])
    S = spec['S0'] + spec['dS'] * (1. - np.exp(-z / spec['zS']))
    P = np.zeros(n)
    P[0] = 101325.
    for k in range(1, n):
        r0 = float(seawater.density(float(T[k - 1]), float(S[k - 1]), float(P[k - 1])))
        P1 = P[k - 1] + 9.81 * r0 * (z[k] - z[k - 1])
        r1 = float(seawater.density(float(T[k]), float(S[k]), float(P1)))
        P[k] = P[k - 1] + 9.81 * 0.5 * (r0 + r1) * (z[k] - z[k - 1])
    tab = {'z': z, 'temperature': T, 'salinity': S, 'pressure': P}
    _add_to_table(tab, spec, H)
    return tab


def table_value(tab, z, name):
    """linear interpolation of variable `name` of the harness's raw table at depth z, clamped to the table; 0 for a
    variable the table lacks (what tamoc documents for unknown names)"""
    if name not in tab:
        return 0.
    zz = min(max(float(z), float(tab['z'][0])), float(tab['z'][-1]))
    return float(np.interp(zz, tab['z'], tab[name]))


def build_profile(spec):
    """real ambient.Profile from the raw table (z, T, S, P handed in; currents / backgrounds appended).  Built with
    err=0 and stabilize_profile=False so that the object interpolates exactly the nodes it was given (the generated
    casts are stably stratified).  The harness's raw table travels with the object as `verif_table`."""
    from tamoc import ambient
    tab = profile_table(spec)
    H = spec['H']
    data = np.vstack((tab['z'], tab['temperature'], tab['salinity'], tab['pressure'])).T
    prf = ambient.Profile(data, ztsp=['z', 'temperature', 'salinity', 'pressure'],
                          ztsp_units=['m', 'K', 'psu', 'Pa'], err=0., stabilize_profile=False)
    if spec.get('current'):
        nodes = _snapped_nodes(spec['current'], tab['z'])
        names = ['z', 'ua', 'va'] + (['wa'] if spec['current'].get('wa') else [])
        prf.append(nodes[:, :len(names)], names, ['m'] + ['m/s'] * (len(names) - 1), z_col=0)
    for ch, (c_top, c_bot) in spec.get('background', {}).items():
        prf.append(np.array([[0., c_top], [H, c_bot]]), ['z', ch], ['m', 'kg/m^3'], z_col=0)
    prf.verif_table = tab
    return prf


def random_particles(rng, n, mix='random', biodeg=False, lag_time=None):
    """list of particle specs; all soluble ones share one composition.
    biodeg: False (all rate constants zero) | True (random first-order rates and lag times) |
    'database' (keep the BioData.csv values of tamoc)"""
    if mix == 'random':
        mix = rng.choice(['gas', 'oil', 'gas+inert', 'oil+inert', 'inert'])
    use_oil = mix.startswith('oil')
    comp = list(rng.choice(OIL_SETS if use_oil else GAS_SETS))
    specs = []
    for i in range(n):
        if mix == 'inert':
            kind = 'inert'
        elif mix.endswith('+inert'):
            kind = 'inert' if rng.random() < 0.4 else ('liquid' if use_oil and rng.random() < 0.6 else 'gas')
        else:
            kind = 'liquid' if use_oil and rng.random() < 0.6 else 'gas'
        if kind == 'inert':
            sp = {'kind': 'inert', 'rho_p': rng.uniform(780., 950.), 'compressible': rng.random() < 0.5,
                  'gamma': rng.uniform(20., 40.), 'mdot': 10 ** rng.uniform(-2, 1), 'de': 10 ** rng.uniform(-4, -2.2),
                  'k_bio': (10 ** rng.uniform(-7, -4) if biodeg and rng.random() < 0.7 else 0.), 't_bio': 0.}
        else:
            w = [(3.0 if c in LIGHT else 0.05) if kind == 'gas' else (0.15 if c in LIGHT else 2.0) for c in comp]
            yk = _dirichlet(rng, w)
            sp = {'kind': kind, 'composition': comp, 'yk': yk,
                  'mdot': 10 ** rng.uniform(-2, 1), 'de': 10 ** rng.uniform(-3.3, -2.0),
                  'k_bio': (None if biodeg == 'database' else
                            [10 ** rng.uniform(-7, -4) if rng.random() < 0.8 else 0. for _ in comp] if biodeg
                            else [0.] * len(comp)),
                  't_bio': (None if biodeg == 'database' else
                            [rng.choice([0., 0., 30., 86400.]) for _ in comp] if biodeg else [0.] * len(comp))}
        sp['lambda_1'] = rng.uniform(0.7, 1.0)
        sp['K'] = rng.choice([1., 1., rng.uniform(0.3, 1.)])
        sp['K_T'] = rng.choice([1., 1., 0., rng.uniform(0.3, 1.)])
        sp['fdis'] = rng.choice([1e-6, 1e-6, 1e-3])
        sp['t_hyd'] = rng.choice([0., 0., rng.uniform(0., 200.)])
        sp['lag_time'] = (rng.random() < 0.5) if lag_time is None else bool(lag_time)
        sp['dT0'] = rng.choice([0., 0., rng.uniform(-3., 30.)])   # particle temperature above ambient
        specs.append(sp)
    return specs


STRIP_GASES = ['oxygen', 'nitrogen', 'carbon_dioxide']


def add_zero_fraction(rng, specs, n_extra=1, p_zero_existing=0.3):
    """the standard tamoc set-up of particles that STRIP dissolved gases from the water: the shared composition of the
    soluble particles gets `n_extra` more compounds (oxygen, nitrogen, carbon dioxide) that every particle lists with
    mole fraction EXACTLY 0 at the release, and with probability `p_zero_existing` one of the original compounds of a
    particle is set to mole fraction 0 as well (the others renormalised).  Modifies the specs in place; returns the
    list of compounds that some particle holds with zero mass."""
    sol = [sp for sp in specs if sp['kind'] != 'inert']
    if not sol:
        return []
    comp = list(sol[0]['composition'])
    extra = [g for g in STRIP_GASES if g not in comp]
    rng.shuffle(extra)
    extra = extra[:n_extra]
    zero = list(extra)
    for sp in sol:
        yk = list(sp['yk'])
        if len(yk) > 1 and rng.random() < p_zero_existing:
            j = rng.randrange(len(yk))
            if sum(y for i, y in enumerate(yk) if i != j) > 0:
                yk[j] = 0.
                tot = sum(yk)
                yk = [y / tot for y in yk]
                if comp[j] not in zero:
                    zero.append(comp[j])
        sp['composition'] = comp + extra
        sp['yk'] = yk + [0.] * len(extra)
        if sp.get('k_bio') is not None:
            sp['k_bio'] = list(sp['k_bio']) + [0.] * len(extra)
            sp['t_bio'] = list(sp['t_bio']) + [0.] * len(extra)
    return zero


def split_profile(rng, scn):
    """two-stage use of ONE Profile object, as users do: returns the part of the scenario's ambient that is withheld at
    construction and appended later with Profile.append -- the currents and the background of some compounds.  The
    scenario's profile spec is changed in place to the stage-1 content; `append_later(profile, later)` adds the rest."""
    spec = scn['profile']
    later = {'H': spec['H'], 'current': spec.get('current'), 'background': {}}
    spec['current'] = None
    names = sorted(spec.get('background', {}))
    for j, ch in enumerate(names):
        if j == 0 or rng.random() < 0.6:
            later['background'][ch] = spec['background'].pop(ch)
    return later


def append_later(prf, later):
    """stage 2: append the withheld currents / background concentrations to the SAME Profile object (and, separately,
    to the harness's raw table)"""
    tab = prf.verif_table
    if later.get('current'):
        nodes = _snapped_nodes(later['current'], tab['z'])
        names = ['z', 'ua', 'va'] + (['wa'] if later['current'].get('wa') else [])
        prf.append(nodes[:, :len(names)], names, ['m'] + ['m/s'] * (len(names) - 1), z_col=0)
    for ch, (c_top, c_bot) in later.get('background', {}).items():
        prf.append(np.array([[0., c_top], [later['H'], c_bot]]), ['z', ch], ['m', 'kg/m^3'], z_col=0)
    _add_to_table(tab, later, later['H'])


def build_dbm(sp):
    from tamoc import dbm
    if sp['kind'] == 'inert':
        return dbm.InsolubleParticle(True, bool(sp['compressible']), rho_p=sp['rho_p'], gamma=sp['gamma'],
                                     beta=0.0007, co=2.9e-9, k_bio=sp.get('k_bio', 0.), t_bio=sp.get('t_bio', 0.))
    fp = dbm.FluidParticle(list(sp['composition']), fp_type=0 if sp['kind'] == 'gas' else 1)
    if sp.get('k_bio') is not None:          # None: keep the BioData.csv values of the database
        fp.k_bio = np.array(sp['k_bio'], dtype=float)
        fp.t_bio = np.array(sp['t_bio'], dtype=float)
    return fp


def build_particles(profile, z0, specs):
    from tamoc import dispersed_phases, bent_plume_model
    parts = []
    for sp in specs:
        obj = build_dbm(sp)
        Ta = float(profile.get_values(z0, ['temperature'])[0])
        T0 = Ta + sp.get('dT0', 0.)
        yk = np.array([1.]) if sp['kind'] == 'inert' else np.array(sp['yk'], dtype=float)
        m0, T0p, nb0, P, Sa, Ta_ = dispersed_phases.initial_conditions(profile, z0, obj, yk, sp['mdot'], 2,
                                                                      sp['de'], T0)
        parts.append(bent_plume_model.Particle(0., 0., z0, obj, m0, T0p, nb0, sp['lambda_1'], P, Sa, Ta_,
                                               K=sp['K'], K_T=sp['K_T'], fdis=sp['fdis'], t_hyd=sp['t_hyd'],
                                               lag_time=sp['lag_time']))
    return parts


def random_release(rng, depth, multiphase_only=None, ntracers=None):
    if multiphase_only is None:
        multiphase_only = rng.random() < 0.5
    if ntracers is None:
        ntracers = rng.choice([0, 1, 1, 2])
    u = rng.random()
    phi = -math.pi / 2 if u < 0.4 else (0. if u < 0.55 else -rng.uniform(0., math.pi / 2))
    return {
        'z0': depth,
        'D': 10 ** rng.uniform(math.log10(0.05), 0.),
        'Vj': 0. if multiphase_only else 10 ** rng.uniform(-1., 0.7),
        'phi_0': phi,
        'theta_0': rng.choice([0., rng.uniform(0., 2. * math.pi)]),
        'Sj': rng.choice([0., rng.uniform(0., 35.)]),
        'dTj': rng.choice([0., rng.uniform(0., 40.)]),
        'tracers': ['tracer%d' % i for i in range(ntracers)],
        'cj': [rng.uniform(0.1, 10.) for _ in range(ntracers)],
        'dt_max': 10 ** rng.uniform(1., math.log10(600.)),
        'sd_max': rng.uniform(20., 200.),
    }


def random_scenario(rng, nparticles=None, depth=None, mix='random', biodeg=None, background='random',
                    current='random', lag_time=None, multiphase_only=None, wa=None, strat='random'):
    """one scenario covering the quantifiers of C03/C04"""
    if depth is None:
        depth = rng.uniform(100., 2500.)
    if nparticles is None:
        nparticles = rng.randint(1, 6)
    if biodeg is None:
        biodeg = rng.choice([False, True, True, 'database'])
    if wa is None:
        wa = rng.random() < 0.2
    if nparticles == 0:
        multiphase_only = False
    pspecs = random_particles(rng, nparticles, mix=mix, biodeg=biodeg, lag_time=lag_time)
    chems = []
    for sp in pspecs:
        if sp['kind'] != 'inert':
            chems = list(sp['composition'])
            break
    rel = random_release(rng, depth, multiphase_only=multiphase_only)
    # a tracer may coincide with an ambient variable; give some tracers an ambient background too
    prof = random_profile(rng, depth, chems=chems + [t for t in rel['tracers'] if rng.random() < 0.5],
                          current=current, background=background, wa=wa, strat=strat)
    return {'depth': depth, 'profile': prof, 'release': rel, 'particles': pspecs}


def build(scn):
    """-> (profile, particles, args of Model.simulate as dict)"""
    prf = build_profile(scn['profile'])
    rel = scn['release']
    z0 = rel['z0']
    parts = build_particles(prf, z0, scn['particles'])
    Ta = float(prf.get_values(z0, ['temperature'])[0])
    args = dict(X=np.array([0., 0., z0]), D=rel['D'], Vj=rel['Vj'], phi_0=rel['phi_0'], theta_0=rel['theta_0'],
                Sj=rel['Sj'], Tj=Ta + rel['dTj'], cj=np.array(rel['cj'], dtype=float), tracers=list(rel['tracers']),
                particles=parts, track=False, dt_max=rel['dt_max'], sd_max=rel['sd_max'])
    return prf, parts, args


def simulate(scn):
    """run the real bent_plume_model on the scenario -> (Model, profile, particles)"""
    from tamoc import bent_plume_model
    prf, parts, args = build(scn)
    bpm = bent_plume_model.Model(prf)
    with silence():
        bpm.simulate(args['X'], args['D'], args['Vj'], args['phi_0'], args['theta_0'], args['Sj'], args['Tj'],
                     args['cj'], args['tracers'], particles=parts, track=False, dt_max=args['dt_max'],
                     sd_max=args['sd_max'])
    return bpm, prf, parts


def layout(particles, nchems, ntracers):
    """slot map of the packed state (lmp.bent_plume_ic): per particle (mass slice, heat, age, pos slice),
    then dissolved slice, tracer slice"""
    idx = 11
    per = []
    for p in particles:
        nc = p.particle.nc
        per.append({'m': (idx, idx + nc), 'H': idx + nc, 't': idx + nc + 1, 'X': (idx + nc + 2, idx + nc + 5)})
        idx += nc + 5
    return {'particles': per, 'chems': (idx, idx + nchems), 'tracers': (idx + nchems, idx + nchems + ntracers),
            'len': idx + nchems + ntracers}
