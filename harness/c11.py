"""
C11 — Release set-up reproduces the prescribed fluxes and sizes.

proof        : TamocV/Props/C11.lean over the hand model TamocV/Model/Release.lean
               (dispersed_phases.initial_conditions, blowout.particles, the phase hand-off of
               Blowout._update, particle_from_Q / particle_from_mb0, the particle part of
               lmp.bent_plume_ic, particles_state_space)
tie          : (H) oracle-table correspondence: the real dbm particle's density / masses_by_diameter /
               mass_by_diameter / mass_frac and profile.get_values are wrapped by recorders from this
               process (instance attributes, nothing in /repo changes); the recorded answers are handed
               to the Lean model as its oracle; questions asked and outputs are compared.  For the first
               plume element lmp.bent_plume_ic is wrapped to record its arguments.
real code    : the property predicates themselves on every real output: number flux x per-particle
               masses vs the prescribed flux (three conventions), diameter and mole fractions of the
               particle built (real dbm diameter / mol_frac), bins of blowout.particles vs the phase
               total, Blowout.disp_phases vs Blowout.mass_flux, first row of bent_plume_model.Model.q.
"""
import io
import os
import math
import warnings
import contextlib
import numpy as np
from common import req, close, relerr, TOL, run_driver
import mixgen

META = {
    'text': 'Theorems (Lean 4, over the reals, any number of compounds and size bins): for the mass-flux and the standard-volume-flux convention number flux x per-particle component masses = prescribed mass flux x mass fractions (vector and total; also for a zero flux), resp. = volume flux x density at 273.15 K/1e5 Pa x mass fractions; the particle built has the prescribed diameter (given scale invariance of density - a HYPOTHESIS for an arbitrary oracle, a THEOREM (eos_density_scaleInvariant, chained with Props.C10.gen_density_smul) for the density regenerated from dbm_p.py on every run; insoluble: unconditional) and mole fractions; per-particle convention: the guarded round-trip hypotheses are proved for the transcribed masses_by_diameter (roundTrips_hold); with sum(vf)=1 the bins of blowout.particles carry exactly the phase total of every compound (empty bins allowed); blowout: fluxes over all gas and liquid bins = released mass flux of every compound GIVEN (hypotheses) flash conservation and the flash\'s phase hand-off, also with an absent phase without bins; first plume element: packed row = m x nb0 x fill time per compound, heat, zeros, fill time = element volume / discharge, and a class set up with mass flux q contributes q x mf_j x dt. The model is tied to the real code by oracle-table correspondence (recorded density / masses_by_diameter / ambient answers of the real objects replayed through the model, questions and outputs compared); every predicate is also evaluated on the real outputs of initial_conditions, blowout.particles, Blowout(...).disp_phases, particle_from_Q/mb0 and the first row of bent_plume_model.Model.q, the latter against the release set-up\'s OWN nb0/m0 and an independent fill-time slot.',
    'note': 'Trusted: Lean kernel + 3 standard axioms; the hand transcription Model/Release.lean (validated each run by the oracle-table correspondence); real arithmetic for IEEE doubles. HYPOTHESES of the theorems, NOT proved here and only sampled on the real library on every generated case: conservation of the flash (that is property C02; not imported as a lemma), the flash hand-off m = n*xi*M, positivity of the densities, scale invariance of density for an arbitrary oracle (proved only for the regenerated Python EOS density, Props.C10.gen_density_smul; the Fortran backend is tied to it by C08). Not modelled: profile interpolation (C07), the size-distribution model psm (only its output arrays are used). Blowout references are the harness\'s own (released flux and mixture from its own get_oil call, release state from its own z0 and profile node table, flash and FluidParticles built from its own mixture, prescribed bins, requested bin counts); what the Blowout object holds is compared with them. The blowout correspondence runs at 1e-9 (phase totals near a phase boundary are conditioned like 1/phase fraction), all predicates at 1e-10. Coverage floors per clause are obligations. Known finding: user-supplied bins for a phase that is absent at the release give NaN particles.',
    'technique': 'Lean 4 proof over a hand-written model (one hypothesis discharged by a theorem about regenerated code) + oracle-table correspondence + direct predicates on real outputs with independent oracles',
}
GEN = ['eosfull']       # Props/C11 chains with Props.C10.gen_density_smul about the density regenerated from dbm_p.py
MODULES = ['TamocV.Props.C11', 'TamocV.Model.Release']
RULE = ('initial_conditions on real dbm particles: gas bubbles / liquid drops of 1-8 database compounds (Dirichlet or log-uniform mole '
        'fractions incl. traces and zero entries, yk as array or list) and inert particles (fluid/rigid, compressible or not); '
        'q_type 0/1/2; q log-uniform 1e-6..10; de log-uniform 1e-5..0.05 m; release depth 50-3000 m incl. both ends on 4 random '
        'profiles; T0 None / ambient / ambient+U(0,60) / ambient+60; blowout.particles with 1-40 bins (log-spaced or random '
        'diameters, Dirichlet volume fractions); Blowout(...) without simulate(): dead oils of 2-8 database liquids, GOR 0 / '
        'log-uniform 10-5000 / U(0,5000), 1-20 gas and oil bins from the size-distribution model or user supplied, depth 50-3000 m, '
        'with atmospheric gases tracked; particle_from_Q / particle_from_mb0; first row of Model.q after a short simulate '
        '(pure multiphase and with produced water, gas+inert particle lists and blowouts); a case is non-trivial when its '
        '(kind, particle kind, number of compounds, q_type, T0 mode, bins) combination or its rounded inputs are new')
LEVEL_NOTE = ('theorems over the reals about the hand-written model of the release set-up; the model is tied to /repo by '
              'oracle-table correspondence on generated cases (sampled); library (EOS, flash, profile) answers are an oracle; flash '
              'conservation (C02) and the flash hand-off are HYPOTHESES of the blowout theorems and are sampled only; scale invariance of '
              'density is a hypothesis for an arbitrary oracle and a theorem (gen_density_smul) for the regenerated Python EOS density; '
              'floating point and libm are trusted')

TOL_DIAM = 1e-9     # diameter of the particle built vs prescribed: density(c*m) vs density(m) agree to rounding (cubic
#                     root finding amplifies 1e-16 to <= 1e-12 observed), cube root divides the error by 3
TOL_BLOWOUT_CORR = 1e-9   # Release.blowoutPhases vs Blowout.disp_phases: the number flux of a bin is proportional to the phase
#                           total of the release flash; for a phase close to appearing (the placed cases hold free gas at a
#                           void fraction of 1e-4) that total is conditioned like 1 / (phase fraction): last-bit differences
#                           between the Float model's and NumPy's evaluation (mass fractions, cubic root behind the density)
#                           show up at 1e-11..1e-10 (observed 4.3e-11).  The flux-closure PREDICATES stay at 1e-10 of the total.
TOL_FLASH = TOL['conservation_drift']   # blowout total vs mass_flux: chained with the flash's mass balance (C02)


def audit_files():
    return ['TamocV/Num.lean', 'TamocV/Real.lean', 'TamocV/Proto.lean', 'TamocV/Lemmas/Basic.lean',
            'TamocV/Lemmas/C11.lean', 'TamocV/Model/Release.lean', 'TamocV/Props/C11.lean',
            'TamocV/Props/C10Gen.lean', 'TamocV/Props/C10.lean', 'TamocV/Lemmas/EosRefine.lean', 'TamocV/Gen/EosFullPy.lean']


LIQUIDS = ['2-3-dimethylbutane', '2-methylpentane', '3-methylpentane', 'benzene', 'ethylbenzene', 'isopentane',
           'n-decane', 'n-heptane', 'n-hexane', 'n-pentane', 'neohexane', 'toluene']


@contextlib.contextmanager
def silence():
    with contextlib.redirect_stdout(io.StringIO()):
        yield


def fl(x):
    return np.atleast_1d(np.asarray(x, dtype=float)).ravel().tolist()


# ---------------------------------------------------------------------------
# recorders
# ---------------------------------------------------------------------------

class Rec:
    """wraps bound methods of ONE object by instance attributes; records (tag, depth, args, result)"""

    def __init__(self):
        self.calls = []
        self.depth = 0
        self.undo = []

    def wrap(self, obj, name, tag, flat):
        orig = getattr(obj, name)
        rec = self

        def f(*a, **k):
            d = rec.depth
            rec.depth += 1
            try:
                r = orig(*a, **k)
            finally:
                rec.depth -= 1
            rec.calls.append((tag, d, flat(*a, **k), fl(r)))
            return r
        setattr(obj, name, f)
        self.undo.append((obj, name))

    def release(self):
        for obj, name in self.undo:
            try:
                delattr(obj, name)
            except AttributeError:
                pass
        self.undo = []


def record_particle(rec, particle):
    if particle.issoluble:
        rec.wrap(particle, 'density', 'density', lambda m, T, P: fl(m) + [float(T), float(P)])
        rec.wrap(particle, 'masses_by_diameter', 'mbd', lambda de, T, P, yk: [float(de), float(T), float(P)] + fl(yk))
        rec.wrap(particle, 'mass_frac', 'mass_frac', lambda n: fl(n))
    else:
        rec.wrap(particle, 'density', 'densityI', lambda T, P, Sa, Ta: [float(T), float(P), float(Sa), float(Ta)])
        rec.wrap(particle, 'mass_by_diameter', 'mbdI',
                 lambda de, T, P, Sa, Ta: [float(de), float(T), float(P), float(Sa), float(Ta)])


def table_args(calls, tags, top_only=False):
    """flatten recorded calls into `t:name v:args v:res` triples (unique by name+args)"""
    out = []
    seen = set()
    for tag, d, a, r in calls:
        if tag not in tags or (top_only and d != 0):
            continue
        key = (tag, tuple(a))
        if key in seen:
            continue
        seen.add(key)
        out += [tag, list(a), list(r)]
    return out


# ---------------------------------------------------------------------------
# generators
# ---------------------------------------------------------------------------

def make_profiles(r, n=4):
    from tamoc import ambient
    out = []
    for _ in range(n):
        H = 3000. + r.uniform(20., 400.)
        nz = r.choice([15, 40, 80])
        z = np.linspace(0., H, nz)
        Tb, Ts, zT = r.uniform(274.5, 279.), r.uniform(283., 301.), r.uniform(80., 600.)
        S0, dS, zS = r.uniform(33.5, 35.5), r.uniform(0., 1.5), r.uniform(100., 900.)
        T = Tb + (Ts - Tb) * np.exp(-z / zT)
        S = S0 + dS * (1. - np.exp(-z / zS))
        prf = ambient.Profile(np.vstack((z, T, S)).T, ztsp=['z', 'temperature', 'salinity', 'pressure'],
                              ztsp_units=['m', 'K', 'psu', 'Pa'])
        out.append((prf, {'H': H, 'nz': nz, 'Tb': Tb, 'Ts': Ts, 'zT': zT, 'S0': S0, 'dS': dS, 'zS': zS}))
    return out


def gen_yk(r, n):
    mode = r.choice(['dirichlet', 'dirichlet', 'log', 'zero-entry'])
    if n == 1:
        return np.array([1.0]), 'pure'
    if mode == 'dirichlet':
        y = np.array([r.gammavariate(1., 1.) + 1e-12 for _ in range(n)])
    elif mode == 'log':
        y = np.array([10 ** r.uniform(-9, 0) for _ in range(n)])
    else:
        y = np.array([r.gammavariate(1., 1.) + 1e-12 for _ in range(n)])
        y[r.randrange(n)] = 0.
        if y.sum() == 0.:
            y[0] = 1.
    return y / y.sum(), mode


def gen_particle(r, kind=None, ncmax=8):
    """-> (dbm particle, description)"""
    from tamoc import dbm
    kind = kind or r.choice(['gas', 'liquid', 'gas', 'liquid', 'inert'])
    if kind == 'inert':
        isfluid = r.random() < 0.7
        iscomp = r.random() < 0.6
        kw = dict(rho_p=r.uniform(600., 2600.), gamma=r.uniform(10., 45.), beta=r.uniform(1e-4, 1e-3),
                  co=10 ** r.uniform(-10, -9))
        p = dbm.InsolubleParticle(isfluid, iscomp, **kw)
        return p, dict(kind='inert', isfluid=isfluid, iscompressible=iscomp, **kw)
    n = r.choice([1, 2, 3, r.randint(1, ncmax), r.randint(1, ncmax), ncmax])
    pool = mixgen.compounds(include_water=False)
    if kind == 'gas':
        light = ['methane', 'ethane', 'propane', 'carbon_dioxide', 'nitrogen', 'oxygen', 'isobutane', 'n-butane',
                 'hydrogen_sulfide', 'argon', 'n-pentane', 'isopentane']
        pool = [c for c in pool if c in light]
    comp = r.sample(pool, min(n, len(pool)))
    p = dbm.FluidParticle(list(comp), fp_type=0 if kind == 'gas' else 1)
    return p, dict(kind=kind, composition=list(comp))


def gen_release(r, profiles):
    ip = r.randrange(len(profiles))
    z0 = r.choice([50., 3000., r.uniform(50., 3000.), r.uniform(50., 3000.), 10 ** r.uniform(math.log10(50.), math.log10(3000.))])
    return ip, z0


def gen_T0(r, Ta):
    mode = r.choice(['none', 'ambient', 'warm', 'warm', '+60'])
    if mode == 'none':
        return None, mode
    if mode == 'ambient':
        return float(Ta), mode
    if mode == '+60':
        return float(Ta) + 60., mode
    return float(Ta) + r.uniform(0., 60.), mode


# ---------------------------------------------------------------------------
# part A: initial_conditions (+ particle_from_Q / particle_from_mb0)
# ---------------------------------------------------------------------------

def ic_case(ctx, r, profiles, i, via=None):
    from tamoc import dispersed_phases, stratified_plume_model
    particle, descr = gen_particle(r)
    sol = bool(particle.issoluble)
    ip, z0 = gen_release(r, profiles)
    prf = profiles[ip][0]
    Ta0 = float(prf.get_values(z0, ['temperature'])[0])
    T0, tmode = gen_T0(r, Ta0)
    if sol:
        yk, ymode = gen_yk(r, len(particle.composition))
        yk_arg = yk.tolist() if r.random() < 0.2 else yk
    else:
        yk, ymode = np.array([1.0]), 'inert'
        yk_arg = r.choice([np.array([1.0]), 1.0, [1.0]])
    q_type = r.choice([0, 1, 2, 1, 2]) if via is None else (1 if via == 'Q' else 2)
    q = 10 ** r.uniform(-6, 1)
    de = 10 ** r.uniform(-5, math.log10(0.05))
    case = {'kind': 'ic' if via is None else 'particle_from_' + via, 'particle': descr, 'profile': profiles[ip][1], 'z0': z0,
            'T0': T0, 'T0_mode': tmode, 'yk': yk.tolist(), 'q': q, 'q_type': q_type, 'de': de}
    rec = Rec()
    record_particle(rec, particle)
    rec.wrap(prf, 'get_values', 'amb', lambda z, names: [float(z)])
    try:
        with np.errstate(all='ignore'):
            if via is None:
                out = dispersed_phases.initial_conditions(prf, z0, particle, yk_arg, (None if q_type == 0 else q), q_type, de, T0)
                m0, T0o, nb0, P, Sa, Ta = out
            else:
                lam = r.uniform(0.7, 1.0)
                f = stratified_plume_model.particle_from_Q if via == 'Q' else stratified_plume_model.particle_from_mb0
                pp = f(prf, z0, particle, yk_arg, q, de, lam, T0)
                # PlumeParticle.update re-asks the library; only the set-up questions are of interest
                m0, T0o, nb0 = pp.m0, pp.T0, pp.nb0
                Ta, Sa, P = [float(v) for v in [x for x in rec.calls if x[0] == 'amb'][0][3]]
    finally:
        rec.release()
    amb = [c for c in rec.calls if c[0] == 'amb']
    case.update({'out': {'m0': fl(m0), 'T0': float(T0o), 'nb0': float(nb0), 'P': float(P), 'Sa': float(Sa), 'Ta': float(Ta)},
                 'amb': amb[0][3], 'sol': sol, 'M': fl(particle.M) if sol else [1.0],
                 'calls': rec.calls, 'particle_obj': particle, 'prf': prf, 'via': via})
    return case


def ic_predicates(ctx, c, worst):
    """the property itself on the real outputs (independent real-library calls, not the recorded ones)"""
    p = c['particle_obj']
    o = c['out']
    m0 = np.array(o['m0'])
    nb0, T0, P, Sa, Ta = o['nb0'], o['T0'], o['P'], o['Sa'], o['Ta']
    yk = np.array(c['yk'])
    sol = c['sol']
    rep = {k: c[k] for k in ('kind', 'particle', 'profile', 'z0', 'T0', 'yk', 'q', 'q_type', 'de')}
    rep['out'] = o
    # release state handed on
    Ta_r, Sa_r, P_r = [float(v) for v in c['prf'].get_values(c['z0'], ['temperature', 'salinity', 'pressure'])]
    T0_exp = Ta_r if c['T0'] is None else c['T0']
    if not (P == P_r and Sa == Sa_r and Ta == Ta_r and T0 == T0_exp):
        ctx.violation('ic-release-state', 'initial_conditions does not hand on the ambient state / prescribed temperature at the release', rep)
    with np.errstate(all='ignore'):
        if sol:
            mf = np.asarray(p.mass_frac(yk), dtype=float)
            rhoN = float(p.density(mf, 273.15, 1.e5))
            rhoP = float(p.density(mf, T0, P))
        else:
            mf = np.array([1.0])
            rhoN = float(p.density(273.15, 1.e5, 0., 273.15))
            rhoP = float(p.density(T0, P, Sa, Ta))
    if not (math.isfinite(rhoN) and math.isfinite(rhoP) and rhoN > 0 and rhoP > 0):
        ctx.count('library density not positive/finite (skipped: EOS, not set-up)')
        return
    qt = c['q_type']
    if qt == 0:
        if nb0 != 1.0:
            ctx.violation('ic-per-particle-nb0', 'q_type 0: number flux is not 1', rep)
    else:
        mdot = c['q'] * rhoN if qt == 1 else c['q']
        got = nb0 * m0
        exp = mdot * mf
        e = float(np.max(np.abs(got - exp))) / mdot
        worst['flux'] = max(worst['flux'], e)
        if not (np.all(np.isfinite(got)) and e <= TOL['identity']):
            ctx.violation('ic-flux-q%d' % qt, 'number flux x per-particle masses differs from the prescribed %s'
                          % ('standard volume flux x standard density' if qt == 1 else 'mass flux'),
                          dict(rep, nb0_times_m0=got.tolist(), expected=exp.tolist(), rho_N=rhoN, relerr=e))
        es = abs(float(np.sum(got)) - mdot) / mdot
        if not es <= TOL['identity']:
            ctx.violation('ic-flux-sum-q%d' % qt, 'total of number flux x per-particle masses differs from the prescribed flux',
                          dict(rep, total=float(np.sum(got)), expected=mdot))
    # prescribed diameter and mole fractions of the particle that was built
    with np.errstate(all='ignore'):
        if sol:
            de_got = float(p.diameter(m0, T0, P))
            yk_got = np.asarray(p.mol_frac(m0), dtype=float)
        else:
            de_got = float(p.diameter(float(m0[0]), T0, P, Sa, Ta))
            yk_got = None
    e = relerr(de_got, c['de'])
    worst['diam'] = max(worst['diam'], e)
    if not close(de_got, c['de'], TOL_DIAM):
        ctx.violation('ic-diameter-q%d' % qt, 'particle built by initial_conditions does not have the prescribed diameter at release conditions',
                      dict(rep, diameter=de_got, relerr=e))
    if yk_got is not None:
        e = float(np.max(np.abs(yk_got - yk)))
        worst['yk'] = max(worst['yk'], e)
        if not e <= TOL['identity']:
            ctx.violation('ic-molfrac-q%d' % qt, 'particle built by initial_conditions does not have the prescribed mole fractions',
                          dict(rep, mol_frac=yk_got.tolist(), abserr=e))
        # named hypothesis ScaleInvariant, sampled: density(m0) == density(mf)
        with np.errstate(all='ignore'):
            r2 = float(p.density(m0, T0, P))
        worst['scale'] = max(worst['scale'], relerr(r2, rhoP))


def ic_lines(c):
    o = c['out']
    sol = 1 if c['sol'] else 0
    Ta, Sa, P = c['amb']
    head = [sol, c['M'], Ta, Sa, P, c['yk'], c['q'], c['q_type'], c['de'], 0 if c['T0'] is None else 1,
            0. if c['T0'] is None else c['T0']]
    tags = ('density', 'densityI', 'mbd', 'mbdI')
    l1 = req('Release.ic', *(head + table_args(c['calls'], tags, top_only=(c['via'] is None))))
    l2 = req('Release.icF', *(head + table_args(c['calls'], ('density', 'densityI'))))
    l3 = req('Release.questions', sol, c['M'], Ta, Sa, P, c['yk'], c['q_type'], c['de'], 0 if c['T0'] is None else 1,
             0. if c['T0'] is None else c['T0'])
    l4 = req('Release.massFrac', c['M'], c['yk'])
    return [l1, l2, l3, l4]


def ic_compare(ctx, c, outs, worst):
    bad = []
    o = c['out']
    for which, res in (('ic', outs[0]), ('icF', outs[1])):
        if not isinstance(res, list):
            bad.append('%s: %r' % (which, res))
            continue
        m0, T0, nb0, P, Sa, Ta = res
        for name, got, exp in (('m0', m0, o['m0']), ('T0', T0, o['T0']), ('nb0', nb0, o['nb0']), ('P', P, o['P']),
                               ('Sa', Sa, o['Sa']), ('Ta', Ta, o['Ta'])):
            if isinstance(exp, list):
                if len(got) == len(exp):
                    for a, b in zip(got, exp):
                        worst['corr'] = max(worst['corr'], relerr(a, b))
            else:
                worst['corr'] = max(worst['corr'], relerr(got, exp))
            if not close(got, exp, TOL['gen_vs_source']):
                bad.append('%s.%s model=%r code=%r' % (which, name, got, exp))
    # the questions: same names and arguments, in the order of the code (top-level calls only)
    if c['via'] is None and isinstance(outs[2], list):
        asked = [(t, a) for t, d, a, _r in c['calls'] if d == 0 and t in ('density', 'densityI', 'mbd', 'mbdI')]
        q = outs[2]
        model = [(q[k], q[k + 1]) for k in range(0, len(q), 2)]
        if len(asked) != len(model):
            bad.append('questions: model asks %d, code asked %d' % (len(model), len(asked)))
        else:
            for (tm, am), (tc, ac) in zip(model, asked):
                if tm != tc or not close(am, ac, TOL['gen_vs_source']):
                    bad.append('question %s%r vs code %s%r' % (tm, am, tc, ac))
    # mass_frac transcription
    if c['sol'] and isinstance(outs[3], list):
        mfc = [x for x in c['calls'] if x[0] == 'mass_frac' and x[1] == 0]
        if mfc and not close(outs[3][0], mfc[0][3], TOL['gen_vs_source']):
            bad.append('massFrac model=%r code=%r' % (outs[3][0], mfc[0][3]))
    return bad


# ---------------------------------------------------------------------------
# part B: blowout.particles (size bins)
# ---------------------------------------------------------------------------

def gen_bins(r, n):
    if r.random() < 0.5:
        lo = 10 ** r.uniform(-4.5, -3)
        hi = lo * 10 ** r.uniform(0.3, 1.5)
        d = np.exp(np.linspace(math.log(lo), math.log(hi), n)) if n > 1 else np.array([lo])
    else:
        d = np.sort(np.array([10 ** r.uniform(-4.5, -1.5) for _ in range(n)]))
    vf = np.array([r.gammavariate(r.choice([0.3, 1., 5.]), 1.) + 1e-9 for _ in range(n)])
    vf = vf / vf.sum()
    return d, vf


def bins_case(ctx, r, profiles, i, mode='normal'):
    """mode: 'normal' | 'zero-vf' (an empty bin: vf_i = 0, the others sum to 1) | 'long-vf' (len(vf) > len(d))"""
    from tamoc import blowout
    kind = r.choice(['gas', 'liquid'])
    particle, descr = gen_particle(r, kind)
    ip, z0 = gen_release(r, profiles)
    prf = profiles[ip][0]
    Ta, Sa, P = [float(v) for v in prf.get_values(z0, ['temperature', 'salinity', 'pressure'])]
    Tj = Ta + r.choice([0., r.uniform(0., 60.)])
    yk, ymode = gen_yk(r, len(particle.composition))
    n = r.choice([1, 2, 40, r.randint(1, 40), r.randint(1, 40)])
    d, vf = gen_bins(r, n)
    if mode == 'zero-vf':
        if n < 2:
            n = 3
            d, vf = gen_bins(r, n)
        vf[r.randrange(n)] = 0.
        vf = vf / vf.sum()
    elif mode == 'long-vf':
        extra = r.randint(1, 3)
        _d, vf = gen_bins(r, n + extra)       # sums to 1 over n + extra entries; only the first n are used by the code
    m_tot = 10 ** r.uniform(-3, 2)
    lam = r.uniform(0.7, 1.0)
    rec = Rec()
    record_particle(rec, particle)
    try:
        with np.errstate(all='ignore'):
            ps = blowout.particles(m_tot, d, vf, prf, particle, yk, 0., 0., z0, Tj, lam, False)
    finally:
        rec.release()
    return {'kind': 'bins', 'particle': descr, 'profile': profiles[ip][1], 'z0': z0, 'Tj': Tj, 'yk': yk.tolist(), 'm_tot': m_tot,
            'd': d.tolist(), 'vf': vf.tolist(), 'amb': [Ta, Sa, P], 'M': fl(particle.M),
            'm0': [fl(p.m0) for p in ps], 'nb0': [float(p.nb0) for p in ps],
            'calls': rec.calls, 'particle_obj': particle, 'nb': n, 'mode': mode}


def bins_predicates(ctx, c, worst):
    p = c['particle_obj']
    yk = np.array(c['yk'])
    Ta, Sa, P = c['amb']
    rep = {k: c[k] for k in ('kind', 'particle', 'profile', 'z0', 'Tj', 'yk', 'm_tot', 'd', 'vf', 'm0', 'nb0')}
    if len(c['m0']) != len(c['d']):
        ctx.violation('bins-count', 'blowout.particles did not return one particle class per size bin', rep)
        return
    with np.errstate(all='ignore'):
        mf = np.asarray(p.mass_frac(yk), dtype=float)
        rhoP = float(p.density(mf, c['Tj'], P))
    if not (math.isfinite(rhoP) and rhoP > 0):
        ctx.count('library density not positive/finite (skipped: EOS, not set-up)')
        return
    m0 = np.array(c['m0'])
    nb0 = np.array(c['nb0'])
    nd = len(c['d'])
    vf = np.array(c['vf'][:nd])      # `for i in range(len(d))`: volume fractions beyond len(d) are silently ignored
    if len(c['vf']) > nd:
        ctx.count('bins: len(vf) > len(d): the extra volume fractions are silently ignored (bins carry sum(vf[:len(d)]) * m_tot)')
    rep['mode'] = c.get('mode')
    tot = (nb0[:, None] * m0).sum(axis=0)
    exp = c['m_tot'] * float(np.sum(vf)) * mf
    e = float(np.max(np.abs(tot - exp))) / c['m_tot']
    worst['bins'] = max(worst['bins'], e if math.isfinite(e) else 0.)
    zero = vf == 0.
    if not (np.all(np.isfinite(tot)) and e <= TOL['identity']):
        ctx.violation('bins-total', 'the size bins of blowout.particles do not carry the phase total of every compound'
                      + (' (distribution with an empty bin, vf_i = 0)' if zero.any() else ''),
                      dict(rep, total_over_bins=tot.tolist(), expected=exp.tolist(), relerr=e))
    for k in range(nd):
        # an empty bin (vf_i = 0) carries nothing: number flux 0, finite per-particle masses
        eb = float(np.max(np.abs(nb0[k] * m0[k] - vf[k] * c['m_tot'] * mf))) / (max(vf[k], 1e-3 / nd) * c['m_tot'])
        if not (eb <= TOL['identity'] and np.all(np.isfinite(m0[k])) and (vf[k] > 0. or nb0[k] == 0.)):
            ctx.violation('bins-bin-flux', 'a size bin does not carry vf_i * m_tot of every compound'
                          + (' (empty bin, vf_i = 0)' if vf[k] == 0. else ''), dict(rep, bin=k, relerr=eb))
            break
    for k in sorted(set([0, len(c['d']) - 1, len(c['d']) // 2] + [int(i) for i in np.nonzero(zero)[0]])):
        with np.errstate(all='ignore'):
            dk = float(p.diameter(m0[k], c['Tj'], P))
            yg = np.asarray(p.mol_frac(m0[k]), dtype=float)
        worst['diam'] = max(worst['diam'], relerr(dk, c['d'][k]))
        if not close(dk, c['d'][k], TOL_DIAM):
            ctx.violation('bins-diameter', 'a size bin\'s particle does not have the bin diameter at release conditions',
                          dict(rep, bin=k, diameter=dk))
            break
        if not float(np.max(np.abs(yg - yk))) <= TOL['identity']:
            ctx.violation('bins-molfrac', 'a size bin\'s particle does not have the prescribed mole fractions',
                          dict(rep, bin=k, mol_frac=yg.tolist()))
            break


def bins_line(c):
    Ta, Sa, P = c['amb']
    return req('Release.particles', c['M'], Ta, Sa, P, c['m_tot'], c['d'], c['vf'], c['yk'], c['Tj'],
               *table_args(c['calls'], ('density',)))


def bins_compare(c, res, worst):
    if not isinstance(res, list):
        return ['particles: %r' % (res,)]
    bad = []
    n = min(len(c['d']), len(c['vf']))
    if len(res) != 2 * n + 1 or len(c['m0']) != n or len(c['nb0']) != n:
        return ['particles: model returns %d bins, code %d' % ((len(res) - 1) // 2, len(c['m0']))]
    for k in range(n):
        for a, b in zip(res[2 * k], c['m0'][k]):
            worst['corr'] = max(worst['corr'], relerr(a, b))
        worst['corr'] = max(worst['corr'], relerr(res[2 * k + 1], c['nb0'][k]))
        if not close(res[2 * k], c['m0'][k], TOL['gen_vs_source']) or not close(res[2 * k + 1], c['nb0'][k], TOL['gen_vs_source']):
            bad.append('bin %d model=(%r,%r) code=(%r,%r)' % (k, res[2 * k], res[2 * k + 1], c['m0'][k], c['nb0'][k]))
            break
    tot = (np.array(c['nb0'])[:, None] * np.array(c['m0'])).sum(axis=0)
    if not all((math.isnan(a) and math.isnan(b)) or abs(a - b) <= TOL['identity'] * c['m_tot'] for a, b in zip(res[-1], tot)):
        bad.append('component totals model=%r code=%r' % (res[-1], tot.tolist()))
    return bad


# ---------------------------------------------------------------------------
# part C: Blowout(...) without simulate()
# ---------------------------------------------------------------------------

def gen_dead_oil(r, nmax=8):
    n = r.randint(2, nmax)
    pool = [c for c in LIQUIDS]
    comp = r.sample(pool, n)
    if r.random() < 0.5:
        ms = np.array([r.gammavariate(1., 1.) + 1e-6 for _ in comp])
    else:
        ms = np.array([10 ** r.uniform(-3, 0) for _ in comp])
    # keep a heavy end so that the oil stays a liquid at high GOR (volatile condensates: see C12)
    heavy = [k for k, cname in enumerate(comp) if cname in ('n-decane', 'ethylbenzene', 'toluene', 'n-heptane', 'benzene')]
    if not heavy:
        comp[0] = r.choice(['n-decane', 'ethylbenzene', 'toluene'])
        heavy = [0]
    ms[heavy[0]] = max(ms[heavy[0]], 0.6 * ms.sum())
    return comp, ms / ms.sum()


def blowout_case(ctx, r, profiles, i, force=None, stratum=None, preset=None):
    """force = 'user-absent-gas': user size distribution with gas bins at GOR 0 (absent gas phase)"""
    from tamoc import blowout, dbm_utilities
    comp, ms = gen_dead_oil(r)
    ip, z0 = gen_release(r, profiles)
    prf = profiles[ip][0]
    gor = r.choice([0., 10 ** r.uniform(1, math.log10(5000.)), r.uniform(0., 5000.), 10 ** r.uniform(1, math.log10(5000.))])
    if stratum in ('gor0', 'gor0-user'):
        gor = 0.
    elif stratum in ('two-phase', 'two-phase-user'):
        gor, z0 = 10 ** r.uniform(2.5, 3.7), r.uniform(50., 300.)
    if gor > 0. and r.random() < 0.6:
        z0 = min(z0, r.uniform(50., 600.))        # shallow enough for free gas at the release
    q_oil = 10 ** r.uniform(2, 5.3)
    d0 = r.uniform(0.05, 0.5)
    ng, no = r.randint(1, 20), r.randint(1, 20)
    ca = r.choice(['all', [], ['nitrogen', 'oxygen']])
    mode = 'psm'
    if force == 'user-absent-gas':
        # fixed scenario: a dead oil that is all liquid at 800 m; the user supplies gas AND liquid bins
        gor, mode, z0 = 0., 'user', 800.
        comp, ms = ['n-hexane', 'n-heptane', 'benzene', 'toluene', 'n-decane'], np.array([0.1, 0.2, 0.2, 0.3, 0.2])
        ng, no = 2, 3
    elif (stratum or '').endswith('-user') or (stratum is None and preset is None and r.random() < 0.3):
        mode = 'user'
    if preset is not None:
        # a release placed on purpose (e.g. just above the bubble point): built-in size model
        comp, ms, gor, z0, ip, q_oil, d0, ca = (preset[k] for k in ('composition', 'masses', 'gor', 'z0', 'ip', 'q_oil', 'd0', 'ca'))
        ms = np.array(ms)
        prf = profiles[ip][0]
        mode = 'psm'
    case = {'kind': 'blowout', 'mode': mode, 'profile': profiles[ip][1], 'z0': z0, 'd0': d0, 'composition': comp,
            'masses': ms.tolist(), 'q_oil': q_oil, 'gor': gor, 'num_gas_elements': ng, 'num_oil_elements': no, 'ca': ca,
            'forced': force, 'placed': (preset or {}).get('placed')}
    sub = {'composition': list(comp), 'masses': ms.copy()}
    ca_list = ['nitrogen', 'oxygen', 'argon', 'carbon_dioxide'] if ca == 'all' else list(ca)
    with silence(), np.errstate(all='ignore'):
        oil, mflux = dbm_utilities.get_oil({'composition': list(comp), 'masses': ms.copy()}, q_oil, gor, list(ca_list), 1)
    if not np.all(np.isfinite(mflux)):
        ctx.count('blowout skipped: get_oil returned non-finite mass fluxes (C12)')
        return None
    sd = None
    if mode == 'user':
        Ta, Sa, P = [float(v) for v in prf.get_values(z0, ['temperature', 'salinity', 'pressure'])]
        with np.errstate(all='ignore'):
            m, xi, K = oil.equilibrium(mflux, Ta, P)
        dg, vg = gen_bins(r, ng)
        dl, vl = gen_bins(r, no)
        if force != 'user-absent-gas':
            # a user cannot prescribe a distribution for a phase that is not there: empty arrays (as psm returns)
            if np.sum(m[0, :]) == 0.:
                dg, vg = np.array([]), np.array([])
            if np.sum(m[1, :]) == 0.:
                dl, vl = np.array([]), np.array([])
        sd = {'d_gas': dg, 'vf_gas': vg, 'd_liq': dl, 'vf_liq': vl}
        case['size_distribution'] = {k: v.tolist() for k, v in sd.items()}
    with silence(), np.errstate(all='ignore'):
        b = blowout.Blowout(z0=z0, d0=d0, substance=sub, q_oil=q_oil, gor=gor, num_gas_elements=ng, num_oil_elements=no,
                            water=prf, current=np.array([0.05, 0., 0.]), ca=ca, size_distribution=sd)
    blowout_snapshot(case, b, oil, mflux, prf, sd)
    return case


def profile_nodes(spec):
    """the node table the harness itself wrote into the Profile (closed form of make_profiles)"""
    z = np.linspace(0., spec['H'], spec['nz'])
    T = spec['Tb'] + (spec['Ts'] - spec['Tb']) * np.exp(-z / spec['zT'])
    S = spec['S0'] + spec['dS'] * (1. - np.exp(-z / spec['zS']))
    return z, T, S


def blowout_snapshot(case, b, ref_oil, ref_mflux, prf, sd=None):
    """what the predicates use.  Everything that serves as a REFERENCE is the harness's own: the released mass flux and
    the mixture of its own get_oil call, the release state from its own z0 and profile table (T, S by linear interpolation
    of the node table it generated, P by its own look-up), the release flash on its own mixture, FluidParticle objects built
    from its own mixture, the bins it prescribed (user mode).  What the Blowout object holds is kept under 'obj_*' and
    compared with these references by blowout_predicates."""
    from tamoc import dbm
    z0 = case['z0']
    zn, Tn, Sn = profile_nodes(case['profile'])
    Ta_r, Sa_r = float(np.interp(z0, zn, Tn)), float(np.interp(z0, zn, Sn))
    P_r = float(prf.get_values(z0, ['pressure'])[0])
    ref_mflux = np.asarray(ref_mflux, dtype=float)
    with np.errstate(all='ignore'):
        m, xi, K = ref_oil.equilibrium(ref_mflux, Ta_r, P_r)
    refp = [dbm.FluidParticle(list(ref_oil.composition), fp_type=k, delta=ref_oil.delta, user_data=ref_oil.user_data) for k in (0, 1)]
    case.update({'b': b, 'm': m, 'xi': xi, 'mass_flux': fl(ref_mflux), 'amb': [Ta_r, Sa_r, P_r], 'Tj': Ta_r, 'M': fl(ref_oil.M),
                 'ref_particles': refp, 'ref_composition': list(ref_oil.composition),
                 'obj_mass_flux': fl(b.mass_flux), 'obj_composition': list(b.oil.composition),
                 'obj_state': [float(b.T0), float(b.S0), float(b.P0), float(b.Tj)],
                 'obj_bins': {'d_gas': fl(b.d_gas), 'vf_gas': fl(b.vf_gas), 'd_liq': fl(b.d_liq), 'vf_liq': fl(b.vf_liq)},
                 'm0': [fl(p.m0) for p in b.disp_phases], 'nb0': [float(p.nb0) for p in b.disp_phases],
                 'obj_fp_types': [int(p.particle.fp_type) for p in b.disp_phases]})
    if sd is not None:
        # user mode: the PRESCRIBED bins are the reference
        case.update({k: fl(sd[k]) for k in ('d_gas', 'vf_gas', 'd_liq', 'vf_liq')})
    else:
        case.update(case['obj_bins'])
    return case


def blowout_history(ctx, r, profiles, worst):
    """ONE Blowout object taken through update_q_oil / update_gor / update_substance / update_release_depth in random
    order; after each change it is re-initialised the way simulate() does (`_update()`), judged with the usual
    predicates against the release flux of THAT state (independent get_oil call + re-flash), and compared with a
    fresh Blowout built directly with the same parameters.  Returns the list of judged state dicts."""
    from tamoc import blowout, dbm_utilities
    comp, ms = gen_dead_oil(r, nmax=6)
    ip = r.randrange(len(profiles))
    prf = profiles[ip][0]
    st = {'z0': r.uniform(50., 400.), 'd0': r.uniform(0.05, 0.3), 'composition': comp, 'masses': ms.tolist(),
          'q_oil': 10 ** r.uniform(3, 5), 'gor': 10 ** r.uniform(2.3, 3.3), 'num_gas_elements': r.randint(1, 8),
          'num_oil_elements': r.randint(1, 8), 'ca': r.choice([[], 'all'])}

    def fresh(stt):
        with silence(), np.errstate(all='ignore'):
            return blowout.Blowout(z0=stt['z0'], d0=stt['d0'], substance={'composition': list(stt['composition']), 'masses': np.array(stt['masses'])},
                                   q_oil=stt['q_oil'], gor=stt['gor'], num_gas_elements=stt['num_gas_elements'],
                                   num_oil_elements=stt['num_oil_elements'], water=prf, current=np.array([0.05, 0., 0.]), ca=stt['ca'])
    b = fresh(st)
    ops = ['q_oil', 'gor', 'substance', 'depth']
    r.shuffle(ops)
    out = []
    hist = []
    for op in ops:
        if op == 'q_oil':
            st['q_oil'] = 2. * st['q_oil']
            b.update_q_oil(st['q_oil'])
        elif op == 'gor':
            st['gor'] = st['gor'] * r.choice([0.4, 2.5]) if st['gor'] * 2.5 <= 5000. else st['gor'] * 0.4
            b.update_gor(st['gor'])
        elif op == 'substance':
            comp2, ms2 = gen_dead_oil(r, nmax=6)
            st['composition'], st['masses'] = comp2, ms2.tolist()
            b.update_substance({'composition': list(comp2), 'masses': np.array(ms2)})
        else:
            st['z0'] = r.uniform(50., 400.)
            b.update_release_depth(st['z0'])
        hist.append(op)
        try:
            with silence(), np.errstate(all='ignore'):
                if not b.update:
                    b._update()                      # what simulate() does first
        except Exception as e:
            import traceback
            tb = traceback.extract_tb(e.__traceback__)
            inner = [f for f in tb if os.sep + 'tamoc' + os.sep in f.filename]
            site = '%s:%s' % (os.path.basename(inner[-1].filename), inner[-1].name) if inner else '?'
            ctx.violation('blowout-history-update-raised:%s@%s' % (type(e).__name__, site),
                          're-initialising ONE Blowout object after %s raised %s: %s' % (' + '.join(hist), type(e).__name__, str(e)[:200]),
                          dict(st, history=list(hist), traceback=traceback.format_exc()[-3000:]))
            break
        with silence(), np.errstate(all='ignore'):
            ca_list = ['nitrogen', 'oxygen', 'argon', 'carbon_dioxide'] if st['ca'] == 'all' else []
            oil_i, mflux_i = dbm_utilities.get_oil({'composition': list(st['composition']), 'masses': np.array(st['masses'])},
                                                   st['q_oil'], st['gor'], ca_list, 1)
        case = dict(st, kind='blowout', mode='psm', profile=profiles[ip][1], forced=None, placed=None, history=list(hist))
        if not np.all(np.isfinite(mflux_i)):
            ctx.count('blowout history: state skipped, get_oil returned non-finite fluxes (C12)')
            continue
        # the release flux of THIS state, independently of the object
        if not (len(mflux_i) == len(b.mass_flux) and close(fl(b.mass_flux), fl(mflux_i), TOL['identity'])):
            ctx.violation('blowout-history-mass-flux', 'after %s the Blowout carries a mass_flux that is not the one of its present parameters'
                          % '+'.join(hist), dict(case, mass_flux_object=fl(b.mass_flux), mass_flux_fresh_get_oil=fl(mflux_i)))
            break
        blowout_snapshot(case, b, oil_i, mflux_i, prf)
        nv = len(ctx.violations)
        blowout_predicates(ctx, case, worst)
        if len(ctx.violations) > nv:
            ctx.violations[-1]['key'] += '-after-update'
            ctx.violations[-1]['what'] += ' (ONE Blowout object after %s, re-initialised with _update())' % ' + '.join(hist)
            ctx.violations[-1]['case'] = dict(ctx.violations[-1]['case'], history=list(hist))
            break
        # equality with a fresh Blowout built directly with these parameters
        f = fresh(st)
        same = (len(f.disp_phases) == len(b.disp_phases)
                and all(close(float(p.nb0), float(q.nb0), TOL['identity']) and close(fl(p.m0), fl(q.m0), TOL['identity'])
                        for p, q in zip(f.disp_phases, b.disp_phases)))
        if not same:
            ctx.violation('blowout-history-differs-from-fresh', 'after %s the particle list of the updated Blowout differs from the one of a fresh '
                          'Blowout with the same parameters' % '+'.join(hist),
                          dict({k: case[k] for k in ('z0', 'd0', 'composition', 'masses', 'q_oil', 'gor', 'num_gas_elements', 'num_oil_elements', 'ca', 'history')},
                               nb0_updated=[float(p.nb0) for p in b.disp_phases], nb0_fresh=[float(p.nb0) for p in f.disp_phases]))
            break
        out.append(case)
    return out


def void_fraction(oil, mflux, prf, z):
    """gas volume fraction of the release flash at depth z (the flash Blowout._update does: ambient T and P at z)"""
    Ta, Sa, P = [float(v) for v in prf.get_values(z, ['temperature', 'salinity', 'pressure'])]
    with np.errstate(all='ignore'):
        m, xi, K = oil.equilibrium(mflux, Ta, P)
        mg, ml = float(np.sum(m[0, :])), float(np.sum(m[1, :]))
        if mg <= 0.:
            return 0.
        if ml <= 0.:
            return 1.
        vg = mg / float(oil.density(m[0, :], Ta, P)[0, 0])
        vl = ml / float(oil.density(m[1, :], Ta, P)[1, 0])
    return vg / (vg + vl)


def bubble_point_presets(ctx, r, profiles, targets):
    """a random live oil; by bisection on the release depth the depths at which the release flash holds free gas with the
    target void fractions (just above the bubble-point depth); also the depth just below it (no free gas)"""
    from tamoc import dbm_utilities
    for attempt in range(6):
        comp, ms = gen_dead_oil(r, nmax=6)
        gor = 10 ** r.uniform(2.5, 3.3)
        ip = r.randrange(len(profiles))
        prf = profiles[ip][0]
        q_oil = 10 ** r.uniform(3.5, 5.)
        ca = r.choice([[], 'all'])
        ca_list = ['nitrogen', 'oxygen', 'argon', 'carbon_dioxide'] if ca == 'all' else []
        with silence(), np.errstate(all='ignore'):
            oil, mflux = dbm_utilities.get_oil({'composition': list(comp), 'masses': ms.copy()}, q_oil, gor, ca_list, 1)
        if not np.all(np.isfinite(mflux)):
            continue
        zlo, zhi = 50., 3000.
        if not (void_fraction(oil, mflux, prf, zlo) > max(targets) and void_fraction(oil, mflux, prf, zhi) == 0.):
            continue            # bubble point outside 50-3000 m: draw another oil / GOR
        out = []
        for tv in targets:
            a, b = zlo, zhi      # void(a) > tv >= void(b); the void fraction decreases with depth
            for _ in range(40):
                mid = 0.5 * (a + b)
                if void_fraction(oil, mflux, prf, mid) > tv:
                    a = mid
                else:
                    b = mid
                if b - a < 1e-3:
                    break
            z = a if tv > 0. else b
            out.append({'composition': comp, 'masses': ms.tolist(), 'gor': gor, 'z0': z, 'ip': ip, 'q_oil': q_oil,
                        'd0': r.uniform(0.05, 0.3), 'ca': ca,
                        'placed': {'target_void': tv, 'void': void_fraction(oil, mflux, prf, z)}})
        return out
    return []


def blowout_predicates(ctx, c, worst):
    b = c['b']
    rep = {k: c[k] for k in ('kind', 'mode', 'profile', 'z0', 'd0', 'composition', 'masses', 'q_oil', 'gor', 'num_gas_elements',
                             'num_oil_elements', 'ca', 'mass_flux', 'd_gas', 'vf_gas', 'd_liq', 'vf_liq', 'nb0')}
    if 'size_distribution' in c:
        rep['size_distribution'] = c['size_distribution']
    mflux = np.array(c['mass_flux'])
    m, xi = c['m'], c['xi']
    nG, nL = len(c['d_gas']), len(c['d_liq'])
    # ---- what the object holds vs the harness's own references (requested inputs, own get_oil, own profile table) ----
    if c['obj_composition'] != c['ref_composition'] or not close(c['obj_mass_flux'], c['mass_flux'], TOL['identity']):
        ctx.violation('blowout-mass-flux-not-requested', 'Blowout.mass_flux / Blowout.oil are not those of get_oil(substance, q_oil, gor, ca, 1) '
                      'for the requested parameters', dict(rep, object_mass_flux=c['obj_mass_flux'], object_composition=c['obj_composition'],
                                                           expected_composition=c['ref_composition']))
        return
    Ta_r, Sa_r, P_r = c['amb']
    T0o, S0o, P0o, Tjo = c['obj_state']
    if not (close(T0o, Ta_r, 1e-10) and close(S0o, Sa_r, 1e-10) and close(P0o, P_r, 1e-10) and Tjo == T0o):
        ctx.violation('blowout-release-state', 'Blowout.T0/S0/P0/Tj are not the ambient state of the profile at the requested release depth '
                      '(jet temperature = ambient)', dict(rep, object_T0_S0_P0_Tj=c['obj_state'], expected_T_S_P=c['amb']))
        return
    ob = c['obj_bins']
    if c['mode'] == 'user':
        if any(ob[k] != c[k] for k in ('d_gas', 'vf_gas', 'd_liq', 'vf_liq')):
            ctx.violation('blowout-bins-not-as-prescribed', 'the Blowout does not use the user-supplied size distribution as given '
                          '(d_gas, vf_gas, d_liq, vf_liq)', dict(rep, object_bins=ob))
            return
    else:
        # built-in size model: the requested number of bins for a phase the release flash holds, none otherwise
        for ph, k, key, nreq in (('gas', 0, 'd_gas', c['num_gas_elements']), ('liquid', 1, 'd_liq', c['num_oil_elements'])):
            present = float(np.sum(m[k, :])) > 0.
            if present and len(ob[key]) != nreq and len(ob[key]) != 0:
                ctx.violation('blowout-bin-count-not-requested', 'the built-in size model returned %d %s bins, %d were requested'
                              % (len(ob[key]), ph, nreq), dict(rep, phase=ph, object_bins=ob))
                return
            if not present and len(ob[key]) != 0:
                ctx.violation('blowout-bins-for-absent-phase', 'the built-in size model returned %s bins although the release flash holds no %s'
                              % (ph, ph), dict(rep, phase=ph, object_bins=ob))
                return
    if len(c['obj_fp_types']) == nG + nL and c['obj_fp_types'] != [0] * nG + [1] * nL:
        ctx.violation('blowout-particle-phase', 'a gas bin is not a gas FluidParticle (fp_type 0) or a liquid bin not a liquid one (fp_type 1)',
                      dict(rep, fp_types=c['obj_fp_types']))
        return
    if len(c['m0']) != nG + nL:
        ctx.violation('blowout-bin-count', 'Blowout.disp_phases does not hold one particle class per gas and liquid bin', rep)
        return
    m0 = np.array(c['m0']).reshape(nG + nL, len(mflux))
    nb0 = np.array(c['nb0'])
    tot = (nb0[:, None] * m0).sum(axis=0) if nG + nL else np.zeros(len(mflux))
    scale = float(np.sum(mflux))
    key_suffix = ''
    absent = [ph for ph, k, nb in (('gas', 0, nG), ('liquid', 1, nL)) if np.sum(m[k, :]) == 0. and nb > 0]
    if absent and c['mode'] == 'user':
        # user-supplied bins for a phase the release flash finds absent: m_dot = 0 in initial_conditions -> 0/0.
        # The specific key is used ONLY if the NaNs sit exactly in those bins and the bins of the phase that is
        # present carry the whole released flux.
        sl_abs = np.zeros(nG + nL, dtype=bool)
        if 'gas' in absent:
            sl_abs[:nG] = True
        if 'liquid' in absent:
            sl_abs[nG:] = True
        rest = (nb0[~sl_abs, None] * m0[~sl_abs]).sum(axis=0)
        if (np.all(np.isnan(nb0[sl_abs])) and np.all(np.isfinite(rest))
                and float(np.max(np.abs(rest - mflux))) / scale <= TOL_FLASH):
            key_suffix = '-user-bins-absent-phase'
            rep['absent_phase_with_bins'] = absent
        else:
            absent = []
    else:
        absent = []
    # a phase that the release flash finds present must have size bins (otherwise its mass is silently dropped)
    for ph, k, nb in (('gas', 0, nG), ('liquid', 1, nL)):
        if nb == 0 and np.sum(m[k, :]) > 0.:
            ctx.violation('blowout-phase-without-bins',
                          'the release flash holds a %s phase (%.3g kg/s of %.3g kg/s) but the blowout has no %s size bins: its mass '
                          'is dropped and the bin fluxes fall short of mass_flux' % (ph, float(np.sum(m[k, :])), scale, ph),
                          dict(rep, phase=ph, phase_mass=float(np.sum(m[k, :])), placed=c.get('placed'),
                               shortfall=(mflux - tot).tolist()))
            return
    e = float(np.max(np.abs(tot - mflux))) / scale
    if math.isfinite(e):
        worst['blowout'] = max(worst['blowout'], e)
    if not (np.all(np.isfinite(tot)) and e <= TOL_FLASH):
        ctx.violation('blowout-total' + key_suffix,
                      'particle fluxes summed over all gas and liquid bins differ from Blowout.mass_flux'
                      + (' (NaN number flux / masses for the bins of the absent %s phase: 0/0 in initial_conditions)' % '/'.join(absent) if absent else ''),
                      dict(rep, total_over_bins=tot.tolist(), relerr=e))
        return
    # C11's own part, exact: each phase's bins carry the flash's phase masses (hand-off of totals and mole fractions)
    for ph, k, sl in (('gas', 0, slice(0, nG)), ('liquid', 1, slice(nG, nG + nL))):
        if (sl.stop - sl.start) == 0:
            if np.sum(m[k, :]) > TOL_FLASH * scale:
                ctx.violation('blowout-phase-dropped', 'the %s phase carries mass at the release but has no size bins' % ph,
                              dict(rep, phase_mass=float(np.sum(m[k, :]))))
            continue
        tp = (nb0[sl, None] * m0[sl]).sum(axis=0)
        ep = float(np.max(np.abs(tp - m[k, :]))) / scale
        worst['phase'] = max(worst['phase'], ep)
        if not ep <= TOL['identity']:
            ctx.violation('blowout-phase-total', 'the %s bins do not carry the phase masses of the release flash' % ph,
                          dict(rep, phase=ph, total_over_bins=tp.tolist(), flash=m[k, :].tolist(), relerr=ep))
    # named hypotheses on the real flash output (sampled): conservation and the hand-off m = n * xi * M
    ec = float(np.max(np.abs(m[0, :] + m[1, :] - mflux))) / scale
    worst['flash-cons'] = max(worst['flash-cons'], ec)
    M = np.array(c['M'])
    for k in (0, 1):
        s = float(np.sum(m[k, :]))
        if s > 0:
            w = xi[k, :] * M
            worst['handoff'] = max(worst['handoff'], float(np.max(np.abs(m[k, :] / s - w / np.sum(w)))))
    # diameters / mole fractions of the first and last particle class
    for idx in sorted(set([0, max(nG - 1, 0), min(nG, nG + nL - 1), nG + nL - 1]) if nG + nL else []):
        ph = 0 if idx < nG else 1
        dd = (c['d_gas'] + c['d_liq'])[idx]
        refp = c['ref_particles'][ph]        # FluidParticle of this phase built from the harness's own mixture
        with np.errstate(all='ignore'):
            dk = float(refp.diameter(np.array(c['m0'][idx]), c['Tj'], c['amb'][2]))
            yg = np.asarray(refp.mol_frac(np.array(c['m0'][idx])), dtype=float)
        if not close(dk, dd, TOL_DIAM):
            ctx.violation('blowout-diameter', 'a blowout particle class does not have its bin diameter at release conditions',
                          dict(rep, index=idx, diameter=dk, prescribed=dd))
        if not float(np.max(np.abs(yg - xi[ph, :]))) <= 1e-9:
            ctx.violation('blowout-molfrac', 'a blowout particle class does not have the mole fractions of its phase',
                          dict(rep, index=idx, mol_frac=yg.tolist(), flash_xi=xi[ph, :].tolist()))


def blowout_line(c):
    """model replay with the SAME inputs as the code: the object's release state (verified by the predicates to be the
    harness's own within 1e-10), the flash of the harness's own mixture at that state, densities from the harness-built
    FluidParticles (mass fractions of xi at standard and release state)"""
    T0o, S0o, P0o, Tjo = c['obj_state']
    refp = c['ref_particles']
    with np.errstate(all='ignore'):
        # the object's own mass_flux (verified equal to the harness's within 1e-10): near a phase boundary the phase totals
        # amplify a last-bit difference of the input by 1 / (phase fraction)
        m, xi, K = refp[0].equilibrium(np.array(c['obj_mass_flux']), Tjo, P0o)
    tbl = []
    ntab = [0, 0]
    for k, part in ((0, refp[0]), (1, refp[1])):
        with np.errstate(all='ignore'):
            mf = np.asarray(part.mass_frac(xi[k, :]), dtype=float)
            for (T, PP) in ((273.15, 1.e5), (Tjo, P0o)):
                tbl += ['density', fl(mf) + [T, PP], [float(part.density(mf, T, PP))]]
                ntab[k] += 1
    return req('Release.blowout', c['M'], T0o, S0o, P0o, fl(m[0, :]), fl(m[1, :]), fl(xi[0, :]), fl(xi[1, :]),
               c['d_gas'], c['vf_gas'], c['d_liq'], c['vf_liq'], Tjo, ntab[0], *tbl)


def blowout_compare(c, res, worst):
    if not isinstance(res, list):
        return ['blowout: %r' % (res,)]
    bad = []
    nb0, tot = res[0], res[1]
    if len(nb0) != len(c['nb0']):
        return ['blowout: model has %d particle classes, code %d' % (len(nb0), len(c['nb0']))]
    for k in range(len(nb0)):
        worst['corr'] = max(worst['corr'], relerr(nb0[k], c['nb0'][k]))
        if not close(nb0[k], c['nb0'][k], TOL_BLOWOUT_CORR) or not close(res[2 + k], c['m0'][k], TOL_BLOWOUT_CORR):
            bad.append('class %d model=(%r,%r) code=(%r,%r)' % (k, res[2 + k], nb0[k], c['m0'][k], c['nb0'][k]))
            break
    return bad


# ---------------------------------------------------------------------------
# part E: first row of bent_plume_model.Model.q
# ---------------------------------------------------------------------------

class IcRecorder:
    """wraps lmp.bent_plume_ic (module attribute, restored afterwards) to record its arguments"""

    def __enter__(self):
        from tamoc import lmp
        self.lmp = lmp
        self.orig = lmp.bent_plume_ic
        self.rec = []
        rec = self.rec
        orig = self.orig

        def wrap(profile, particles, Qj, A, D, X, phi_0, theta_0, Tj, Sj, Pj, rho_j, cj, chem_names, tracers, p):
            rec.append({'Qj': float(Qj), 'A': float(A), 'rho_j': float(rho_j),
                        'parts': [(fl(pp.m), float(pp.nb0), float(pp.cp), float(pp.T)) for pp in particles]})
            return orig(profile, particles, Qj, A, D, X, phi_0, theta_0, Tj, Sj, Pj, rho_j, cj, chem_names, tracers, p)
        lmp.bent_plume_ic = wrap
        return self

    def __exit__(self, *a):
        self.lmp.bent_plume_ic = self.orig


def row_case_particles(ctx, r, profiles, i):
    from tamoc import bent_plume_model, dispersed_phases, seawater
    ip, z0 = gen_release(r, profiles)
    z0 = min(z0, 2500.)
    prf = profiles[ip][0]
    Ta, Sa, P = [float(v) for v in prf.get_values(z0, ['temperature', 'salinity', 'pressure'])]
    gas, gdescr = gen_particle(r, 'gas', ncmax=4)
    nparts = r.randint(1, 4)
    parts = []
    specs = []
    own = []     # what the RELEASE SET-UP prescribed (initial_conditions outputs), independent of what lmp hands on
    for k in range(nparts):
        if k > 0 and r.random() < 0.4:
            pobj, descr = gen_particle(r, 'inert')
            yk = np.array([1.0])
        else:
            pobj, descr = gas, gdescr
            yk, _ = gen_yk(r, len(gas.composition))
            if (yk == 0.).any():
                yk = np.ones(len(yk)) / len(yk)
        mb0 = 10 ** r.uniform(-2, 1)
        de = 10 ** r.uniform(-3.3, -2)
        T0 = Ta + r.choice([0., r.uniform(0., 30.), r.uniform(0., 30.), 0.3])
        with np.errstate(all='ignore'):
            m0, T0p, nb0, Pp, Sap, Tap = dispersed_phases.initial_conditions(prf, z0, pobj, yk, mb0, 2, de, T0)
            parts.append(bent_plume_model.Particle(0., 0., z0, pobj, m0, T0p, nb0, r.uniform(0.7, 1.), Pp, Sap, Tap,
                                                   K=1., K_T=1., fdis=1.e-6, t_hyd=0., lag_time=False))
        specs.append({'particle': descr, 'yk': yk.tolist(), 'mb0': mb0, 'de': de, 'T0': T0})
        # the particle wrapper equilibrates a particle that is within 0.5 K of the ambient (SingleParticle.properties
        # l.208-213, property C17): the temperature carried by the element is then the ambient one
        T_own = float(Tap) if abs(float(Tap) - float(T0p)) < 0.5 else float(T0p)
        if T_own != float(T0p):
            ctx.count('first-row: particle within 0.5 K of ambient (carried at ambient temperature)')
        own.append((fl(m0), float(nb0), 0.5 * float(seawater.cp()), T_own))
    Vj = r.choice([None, 0., r.uniform(0.2, 3.)])
    D = r.uniform(0.05, 0.6)
    case = {'kind': 'first-row', 'source': 'particle list', 'profile': profiles[ip][1], 'z0': z0, 'D': D, 'Vj': Vj, 'particles': specs}
    bpm = bent_plume_model.Model(prf)
    with IcRecorder() as ir, silence(), np.errstate(all='ignore'):
        bpm.simulate(np.array([0., 0., z0]), D, Vj, -np.pi / 2., 0., 0., Ta, np.array([1.]), ['tracer'], parts,
                     track=False, dt_max=60., sd_max=r.uniform(0.2, 1.5))
    case.update({'row': fl(bpm.q[0, :]), 'rec': ir.rec[-1] if ir.rec else None, 'own': own})
    return case


def row_case_blowout(ctx, c):
    from tamoc import seawater
    b = c['b']
    # the release set-up's own numbers, captured when the Blowout was constructed (before simulate touches anything)
    own = [(list(m0), float(nb0), 0.5 * float(seawater.cp()), float(c['Tj'])) for m0, nb0 in zip(c['m0'], c['nb0'])]
    b.track = False
    b.sd_max = 1.0
    with IcRecorder() as ir, silence(), np.errstate(all='ignore'):
        b.simulate()
    rep = {k: c[k] for k in ('profile', 'z0', 'd0', 'composition', 'masses', 'q_oil', 'gor', 'num_gas_elements',
                             'num_oil_elements', 'ca', 'mode')}
    rep.update({'kind': 'first-row', 'source': 'blowout', 'row': fl(b.bpm.q[0, :]), 'rec': ir.rec[-1] if ir.rec else None,
                'own': own, 'D': c['d0'], 'Vj': None})
    return rep


def row_predicates(ctx, c, worst):
    """first plume element vs the release set-up's OWN nb0 / m0 (not what bent_plume_ic was handed) and a fill time read
    from an independent slot of the same row: q[6] = h / V = h A / Q = pi b^2 h / Q"""
    rec = c['rec']
    rep = {k: v for k, v in c.items() if k != 'rec'}
    if rec is None:
        ctx.violation('first-row-no-ic', 'simulate did not build the first element through lmp.bent_plume_ic', rep)
        return
    row = np.array(c['row'])
    dt = float(row[6])
    # two further routes to the fill time must agree: Mj / (Qj rho_j), and for a release with produced water D / (5 Vj)
    dt2 = float(row[0] / (rec['Qj'] * rec['rho_j']))
    if not close(dt, dt2, TOL['identity']):
        ctx.violation('first-row-fill-time', 'fill time h/V of the first element differs from Mj / (Qj rho_j)', dict(rep, h_over_V=dt, Mj_route=dt2))
        return
    if c.get('Vj'):
        if not close(dt, c['D'] / 5. / c['Vj'], 1e-9):
            ctx.violation('first-row-fill-time', 'fill time of the first element differs from (D/5) / Vj', dict(rep, h_over_V=dt, expected=c['D'] / 5. / c['Vj']))
            return
    if len(rec['parts']) != len(c['own']):
        ctx.violation('first-row-particle-count', 'bent_plume_ic was handed %d particle classes, the release set-up has %d'
                      % (len(rec['parts']), len(c['own'])), rep)
        return
    k = 11
    for idx, (m, nb0, cp, T) in enumerate(c['own']):
        m = np.array(m)
        blk = row[k:k + len(m) + 5]
        exp = np.concatenate((m * nb0 * dt, [m.sum() * nb0 * dt * cp * T, 0., 0., 0., 0.]))
        if len(blk) != len(exp):
            ctx.violation('first-row-particles', 'first plume element row is too short for the particle classes of the release', dict(rep, particle_index=idx))
            return
        sc = max(float(np.max(np.abs(exp[:len(m)]))), 1e-300)
        e = max(float(np.max(np.abs(blk[:len(m)] - exp[:len(m)]))) / sc, relerr(float(blk[len(m)]), float(exp[len(m)])))
        worst['row'] = max(worst['row'], e if math.isfinite(e) else float('inf'))
        if not (e <= TOL['identity'] and np.all(blk[len(m) + 1:] == 0.)):
            ctx.violation('first-row-particles', 'first plume element does not carry (m0 of the release set-up) * (nb0 of the release set-up) * fill time (heat, zeros) for a particle class',
                          dict(rep, particle_index=idx, block=blk.tolist(), expected=exp.tolist(), fill_time=dt, nb0=nb0))
            return
        # number of particles in the element = nb0 * fill time
        if m.sum() > 0:
            nbe = float(np.sum(blk[:len(m)]) / m.sum())
            if not close(nbe, nb0 * dt, TOL['identity']):
                ctx.violation('first-row-number', 'number of particles in the first element is not nb0 * fill time',
                              dict(rep, particle_index=idx, nbe=nbe, nb0=nb0, fill_time=dt))
                return
        k += len(m) + 5


def row_lines(c):
    """the model is fed the release set-up's own (m0, nb0, cp, T); only the geometry (A, Qj) is what lmp computed"""
    rec = c['rec']
    args = []
    for m, nb0, cp, T in c['own']:
        args += [m, nb0, cp, T]
    return [req('Release.firstRow', rec['A'], rec['Qj'], *args), req('Release.fillTime', rec['A'], rec['Qj'])]


def row_compare(c, outs, worst):
    res = outs[0]
    if not isinstance(res, list):
        return ['firstRow: %r' % (res,)]
    row = c['row']
    model = res[0]
    code = row[11:11 + len(model)]
    for a, b in zip(model, code):
        worst['corr'] = max(worst['corr'], relerr(a, b))
    bad = []
    if not close(model, code, TOL['gen_vs_source']):
        bad.append('firstRow model=%r code=%r' % (model[:8], code[:8]))
    if not (isinstance(outs[1], list) and close(outs[1][0], row[6], TOL['gen_vs_source'])):
        bad.append('fillTime model=%r row[6]=%r' % (outs[1], row[6]))
    return bad


# ---------------------------------------------------------------------------

def nontrivial_key(c):
    if c['kind'] in ('ic', 'particle_from_Q', 'particle_from_mb0'):
        p = c['particle']
        return (c['kind'], p['kind'], len(p.get('composition', [0])), c['q_type'], c['T0_mode'],
                float('%.6g' % c['q']), float('%.6g' % c['de']), float('%.6g' % c['z0']))
    if c['kind'] == 'bins':
        return ('bins', c['particle']['kind'], len(c['yk']), c['nb'], float('%.6g' % c['m_tot']), float('%.6g' % c['z0']))
    if c['kind'] == 'blowout':
        return ('blowout', c['mode'], len(c['composition']), len(c['d_gas']), len(c['d_liq']), float('%.6g' % c['gor']),
                float('%.6g' % c['z0']))
    return (c['kind'], c.get('source'), float('%.6g' % c['z0']), len(c['row']))


def run(ctx, lean_ok):
    with warnings.catch_warnings():
        warnings.simplefilter('ignore')      # fsolve / vode progress warnings of the short simulations
        _run(ctx, lean_ok)


def _run(ctx, lean_ok):
    r = ctx.rng
    profiles = make_profiles(r)
    worst = {k: 0. for k in ('flux', 'diam', 'yk', 'scale', 'bins', 'blowout', 'phase', 'flash-cons', 'handoff', 'row', 'corr')}
    lines, owners = [], []

    def add(c, ls, cmp):
        owners.append((c, len(lines), len(ls), cmp))
        lines.extend(ls)

    # ---- A: initial_conditions, D: particle_from_Q / particle_from_mb0 -------------------
    n_ic = ctx.n(260, 6000)
    n_pf = ctx.n(40, 600)
    ics = []
    for i in range(n_ic + n_pf):
        via = None if i < n_ic else ('Q' if i % 2 else 'mb0')
        c = ic_case(ctx, r, profiles, i, via)
        ics.append(c)
        ctx.count('%s:%s:q_type=%d' % (c['kind'], c['particle']['kind'], c['q_type']))
        ctx.count('T0:' + c['T0_mode'])
        ctx.nontrivial.add(nontrivial_key(c))
        ic_predicates(ctx, c, worst)
        add(c, ic_lines(c), lambda c, o: ic_compare(ctx, c, o, worst))
    for c in ics[:2]:
        ctx.sample({k: c[k] for k in ('kind', 'particle', 'z0', 'T0', 'yk', 'q', 'q_type', 'de', 'out')})

    # ---- B: blowout.particles ----------------------------------------------------------
    bins = []
    nbins = ctx.n(30, 500)
    for i in range(nbins):
        # case 0: an empty bin; case 1: len(vf) > len(d); thorough: a few more of each
        mode = 'zero-vf' if (i == 0 or (ctx.thorough and i % 50 == 7)) else ('long-vf' if (i == 1 or (ctx.thorough and i % 50 == 9)) else 'normal')
        c = bins_case(ctx, r, profiles, i, mode)
        if mode != 'normal':
            ctx.count('bins:' + mode)
        bins.append(c)
        ctx.count('bins:%s:%s' % (c['particle']['kind'], '1' if c['nb'] == 1 else ('2-10' if c['nb'] <= 10 else '11-40')))
        ctx.nontrivial.add(nontrivial_key(c))
        bins_predicates(ctx, c, worst)
        add(c, [bins_line(c)], lambda c, o: bins_compare(c, o[0], worst))
    if bins:
        c = bins[0]
        ctx.sample({k: c[k] for k in ('kind', 'particle', 'z0', 'Tj', 'yk', 'm_tot', 'd', 'vf', 'nb0')})

    # ---- C: Blowout(...) ----------------------------------------------------------------
    blows = []
    nblow = ctx.n(16, 150)
    for i in range(nblow):
        force = 'user-absent-gas' if i == 0 else None
        # stratified head of the list so that every coverage floor is met by construction, random tail
        stratum = {1: 'gor0', 2: 'gor0', 3: 'gor0-user', 4: 'two-phase', 5: 'two-phase', 6: 'two-phase', 7: 'two-phase-user',
                   8: 'two-phase'}.get(i if not ctx.thorough else (i if i < 9 else (i % 9 if i % 3 == 0 else -1)))
        c = blowout_case(ctx, r, profiles, i, force, stratum)
        if c is None:
            continue
        blows.append(c)
        ctx.count('blowout:%s:gor%s:gas-bins=%s' % (c['mode'], '=0' if c['gor'] == 0 else '>0', 'none' if not c['d_gas'] else 'some'))
        ctx.nontrivial.add(nontrivial_key(c))
        blowout_predicates(ctx, c, worst)
        if not (c.get('forced') or any(not math.isfinite(x) for x in c['nb0'])):
            add(c, [blowout_line(c)], lambda c, o: blowout_compare(c, o[0], worst))
    # releases placed just above (and just below) the bubble-point depth, built-in size model
    placed = []
    for rep_ in range(ctx.n(1, 8)):
        for ps in bubble_point_presets(ctx, r, profiles, [1e-4, 1e-3, 5e-3, 2e-2, 0.]):
            c = blowout_case(ctx, r, profiles, 1000 + len(placed), None, None, preset=ps)
            if c is None:
                continue
            placed.append(c)
            blows.append(c)
            ctx.count('blowout placed at the bubble point: void %s' % ('0 (just below)' if ps['placed']['target_void'] == 0. else '~%g' % ps['placed']['target_void']))
            ctx.nontrivial.add(nontrivial_key(c))
            blowout_predicates(ctx, c, worst)
            if all(math.isfinite(x) for x in c['nb0']):
                add(c, [blowout_line(c)], lambda c, o: blowout_compare(c, o[0], worst))
    # ONE Blowout object through a history of update_* calls
    hist_states = []
    for rep_ in range(ctx.n(1, 10)):
        hs = blowout_history(ctx, r, profiles, worst)
        for c in hs:
            ctx.count('blowout history state judged after ' + c['history'][-1])
            ctx.nontrivial.add(('blowout-history', tuple(c['history']), float('%.6g' % c['z0']), float('%.6g' % c['gor'])))
        hist_states += hs
    if blows:
        c = blows[-1]
        ctx.sample({k: c[k] for k in ('kind', 'mode', 'z0', 'd0', 'composition', 'masses', 'q_oil', 'gor', 'mass_flux', 'd_gas',
                                      'vf_gas', 'nb0')})

    # ---- E: first row of Model.q --------------------------------------------------------
    rows = []
    for i in range(ctx.n(8, 120)):
        c = row_case_particles(ctx, r, profiles, i)
        rows.append(c)
        ctx.count('first-row:particle-list:%s' % ('multiphase' if not c['Vj'] else 'with water'))
    for c in blows[1:1 + ctx.n(3, 40)]:
        if any(not math.isfinite(x) for x in c['nb0']):
            continue
        rows.append(row_case_blowout(ctx, c))
        ctx.count('first-row:blowout')
    for c in rows:
        ctx.nontrivial.add(nontrivial_key(c))
        row_predicates(ctx, c, worst)
        if c['rec'] is not None:
            add(c, row_lines(c), lambda c, o: row_compare(c, o, worst))
    if rows:
        c = rows[0]
        ctx.sample({'kind': c['kind'], 'source': c['source'], 'z0': c['z0'], 'row[0:14]': c['row'][:14],
                    'particles': c['rec']['parts'] if c['rec'] else None})

    ctx.evaluations = len(ics) + len(bins) + len(blows) + len(rows) + len(hist_states)

    # ---- coverage floors (obligations): every clause of the property is exercised in every run ------------------
    def floor(name, have, need):
        ctx.oblige('coverage floor: %s >= %d' % (name, need), have >= need, 'only %d' % have)
    for pk in ('gas', 'liquid', 'inert'):
        for qt in (0, 1, 2):
            floor('initial_conditions cases judged, %s particle, q_type %d' % (pk, qt),
                  sum(1 for c in ics if c['kind'] == 'ic' and c['particle']['kind'] == pk and c['q_type'] == qt), ctx.n(5, 100))
    floor('particle_from_Q / particle_from_mb0 cases', sum(1 for c in ics if c['kind'] != 'ic'), ctx.n(30, 400))
    floor('blowout.particles cases with > 10 bins', sum(1 for c in bins if c['nb'] > 10), ctx.n(6, 100))
    floor('blowout.particles cases with an empty bin (vf_i = 0)', sum(1 for c in bins if c.get('mode') == 'zero-vf'), 1)
    okb = [c for c in blows if not c.get('forced') and all(math.isfinite(x) for x in c['nb0'])]
    floor('blowouts judged (finite set-up)', len(okb), ctx.n(10, 100))
    floor('blowouts judged with gas AND liquid bins', sum(1 for c in okb if c['d_gas'] and c['d_liq']), ctx.n(3, 30))
    floor('blowouts judged with GOR 0', sum(1 for c in okb if c['gor'] == 0.), ctx.n(2, 15))
    floor('blowouts judged with a user-supplied size distribution', sum(1 for c in okb if c['mode'] == 'user'), ctx.n(2, 20))
    floor('blowouts judged with free gas at a void fraction in (0, 1 %) at the release (just above the bubble point, built-in size model)',
          sum(1 for c in placed if 0. < c['placed']['void'] < 0.01 and all(math.isfinite(x) for x in c['nb0'])), ctx.n(3, 20))
    floor('states of ONE Blowout object judged after update_q_oil / update_gor / update_substance / update_release_depth',
          len(hist_states), ctx.n(3, 30))
    floor('first-element rows judged (particle lists)', sum(1 for c in rows if c.get('source') == 'particle list' and c['rec']), ctx.n(6, 80))
    floor('first-element rows judged (blowouts)', sum(1 for c in rows if c.get('source') == 'blowout' and c['rec']), ctx.n(2, 20))

    # ---- correspondence through the driver ---------------------------------------------
    if lean_ok:
        out = run_driver(ctx, 'C11', lines)
        if out is not None:
            nbad = {}
            ncase = {}
            for c, k0, n, cmp in owners:
                kind = c['kind']
                ncase[kind] = ncase.get(kind, 0) + 1
                bad = cmp(c, out[k0:k0 + n])
                if bad:
                    nbad[kind] = nbad.get(kind, 0) + 1
                    if sum(nbad.values()) <= 4:
                        ctx.broken.append(('correspondence', 'Model.Release vs real code (%s)' % kind, '; '.join(bad[:3])))
            names = {'ic': 'Release.initialConditions (oracle table + transcribed masses_by_diameter; questions, outputs) == dispersed_phases.initial_conditions',
                     'particle_from_Q': 'Release.particleFromQ == stratified_plume_model.particle_from_Q (.m0, .nb0)',
                     'particle_from_mb0': 'Release.particleFromMb0 == stratified_plume_model.particle_from_mb0 (.m0, .nb0)',
                     'bins': 'Release.particles == blowout.particles (per-bin m0, nb0, component totals)',
                     'blowout': 'Release.blowoutPhases == Blowout.disp_phases (m0, nb0 of every gas and liquid bin; rel %g: phase totals near a phase boundary are ill-conditioned)' % TOL_BLOWOUT_CORR,
                     'first-row': 'Release.firstRow == dispersed-phase section of bent_plume_model.Model.q[0]'}
            for kind in ncase:
                ctx.oblige('correspondence %s on %d cases (rel %g)' % (names.get(kind, kind), ncase[kind], TOL['gen_vs_source']),
                           nbad.get(kind, 0) == 0, '%d cases disagree' % nbad.get(kind, 0))
    for v in ctx.violations:
        ctx.count('predicate failed: ' + v['key'])
    ctx.notes.append('worst deviations: ' + ', '.join('%s=%.3g' % kv for kv in sorted(worst.items())))
    ctx.notes.append('named hypotheses sampled on the real library: density scale invariance worst rel %.3g; flash conservation '
                     'worst %.3g of total flux; flash hand-off m/sum(m) vs mass_frac(xi) worst abs %.3g'
                     % (worst['scale'], worst['flash-cons'], worst['handoff']))
    ctx.notes.append('tolerances: TOL_DIAM=%g (diameter round trip), TOL_FLASH=%g (blowout total vs mass_flux, chained with the flash)'
                     % (TOL_DIAM, TOL_FLASH))
