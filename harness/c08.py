"""
C08 — Python fallback and Fortran library are interchangeable.

proof     : TamocV/Props/C08.lean — 29 `pair_*` / `pair_full_*` theorems (Python routine = Fortran routine as real
            functions, all arguments / vector lengths) over models regenerated from BOTH sources on
            every run, + 2 signature-table theorems decided by the kernel
tie       : translators re-run; Gen.*Py executed at Float against dbm_p.*, Gen.*F against the gfortran
            build of tamoc/src/*.f95 (ctypes)
real code : every one of the 29 routine pairs: dbm_p.<f>(args) vs the compiled Fortran <f>(args) over
            every regime branch; cubic_roots compared as root sets on cubics with separated roots
"""
import math
import numpy as np
from common import req, close, relerr, TOL, run_driver
import mixgen

META = {
    'text': 'Theorems (Lean 4, over the reals, all arguments and vector lengths): for 27 of the 29 routine pairs the definition regenerated from dbm_p.py equals the definition regenerated from the Fortran source (Fortran literal kinds honoured: a default-real literal is the rational value of its binary32 rounding; objects not declared double precision, REAL() conversions, integer division and operations carried out in single precision are REFUSED by the translator, so such a routine loses its model and its pair obligation breaks loudly instead of being modelled as double; coefs, z_pr, fugacity, density through the general loop/matrix mode with the cubic root finder as a parameter), plus kernel-decided signature tables (every dbm_f.<name> call site resolves in both libraries with identical parameter order and arity). Through the pair theorems the physical-state theorems of C01 are carried over to the routines regenerated from dbm_eos.f95 (Props/C08Fug.lean: fortran_reported_roots_physical, fortran_fugacity_refines, fortran_fugacity_pos, fortran_density_refines, fortran_gas_not_denser): both backends refine the same hand model, so they report the same physical state by theorem. The remaining pairs (viscosity, cubic_roots) and all 29 on real code are compared by differential execution of dbm_p against a gfortran build of /repo/tamoc/src called through ctypes, over every regime branch.',
    'note': 'Trusted: Lean kernel + 3 standard axioms; translators py2ir/f2ir (validated every run by executing the generated definitions against the Python functions and the compiled Fortran they were generated from); gfortran -O2 as the Fortran semantics; real arithmetic for doubles. Partial: viscosity ((2,1)-array broadcasting outside the translator subset) and cubic_roots (numpy.roots vs PDAS; no proof of the PDAS algorithm) are decided by differential execution only; the pair theorems of z_pr/fugacity/density hold for every root finder, and the two root finders are compared on real code.',
    'technique': 'Lean 4 program-pair equality over two models regenerated from source (Python and Fortran translators) + differential execution through ctypes',
}
GEN = ['phys', 'eos', 'sigs', 'eosfull']
MODULES = ['TamocV.Props.C08Fug', 'TamocV.Props.C08', 'TamocV.Gen.PhysPy', 'TamocV.Gen.PhysF', 'TamocV.Gen.EosPy', 'TamocV.Gen.EosF',
           'TamocV.Gen.Signatures', 'TamocV.Gen.EosFullPy', 'TamocV.Gen.EosFullF']
RULE = ('per routine: arguments drawn log-uniformly over the physical ranges (de 1e-5..0.1 m, densities, viscosities, '
        'interfacial tension, slip velocity, diffusivities incl. non-positive sentinels, status +-1, fp_type 0/1, nc 1..6) '
        'plus targeted cases that hit every regime band (Nd, H, Re, omega>0.49, kh_0<0, Vb<0, C_pen=0 / user Peneloux, '
        'calc_delta on/off); EOS routines on random database mixtures at 260-450 K, 1e4-1e8 Pa; a case is non-trivial '
        'when its (routine, regime-branch, rounded-argument) key is new')
LEVEL_NOTE = META['note']
PHYS = ['eotvos', 'morton', 'reynolds', 'h_parameter', 'particle_shape', 'theta_w_sc', 'surface_area_sc',
        'surface_area_sphere', 'us_sphere', 'us_ellipsoid', 'us_spherical_cap', 'xfer_kumar_hartland',
        'xfer_johnson', 'xfer_clift', 'xfer_sphere', 'xfer_ellipsoid', 'xfer_spherical_cap']
EOS_SIMPLE = ['mole_fraction', 'volume_trans', 'kh_insitu', 'sw_solubility', 'diffusivity', 'kvsi_hydrate']
EOS_FULL = ['coefs', 'z_pr', 'density', 'fugacity', 'viscosity']
G = 9.81


def audit_files():
    return ['TamocV/Num.lean', 'TamocV/Real.lean', 'TamocV/Props/C08.lean', 'TamocV/Props/C08Fug.lean', 'TamocV/Props/C01Fug.lean',
            'TamocV/Props/C01Gen.lean', 'TamocV/Props/C01GC.lean', 'TamocV/Props/C01.lean', 'TamocV/Lemmas/EosRefine.lean', 'TamocV/Lemmas/EosRefineGC.lean',
            'TamocV/Lemmas/Eos.lean', 'TamocV/Lemmas/C01.lean', 'TamocV/Lemmas/Basic.lean', 'TamocV/Model/Eos.lean', 'TamocV/Gen/PhysPy.lean',
            'TamocV/Gen/PhysF.lean', 'TamocV/Gen/EosPy.lean', 'TamocV/Gen/EosF.lean', 'TamocV/Gen/Signatures.lean',
            'TamocV/Gen/EosFullPy.lean', 'TamocV/Gen/EosFullF.lean']


def lu(r, lo, hi):
    return math.exp(r.uniform(math.log(lo), math.log(hi)))


def scalar_arg(r, name):
    if name == 'de':
        return lu(r, 1e-5, 0.1)
    if name == 'rho_p':
        return r.choice([lu(r, 1., 300.), r.uniform(600., 1020.), r.uniform(1030., 1200.)])
    if name == 'rho':
        return r.uniform(990., 1070.)
    if name == 'mu':
        return lu(r, 5e-4, 2e-3)
    if name == 'mu_p':
        return lu(r, 1e-5, 1e-1)
    if name == 'sigma':
        return lu(r, 1e-3, 8e-2)
    if name == 'us':
        return lu(r, 1e-4, 0.6)
    if name in ('status',):
        return r.choice([1, -1])
    if name == 'fp_type':
        return r.choice([0, 1])
    if name in ('theta_w', 'theta_W'):
        return r.uniform(0.3, 3.0)
    if name == 'Eo':
        return lu(r, 1e-3, 1e3)
    if name == 'M':
        return lu(r, 1e-14, 1e-2)
    raise KeyError(name)


def phys_case(r, fn, params, ctx):
    """arguments for a dbm_phys routine, with targeting of regime bands"""
    a = {}
    nc = r.randint(1, 6)
    for p in params:
        if p == 'D':
            D = [lu(r, 1e-10, 5e-9) for _ in range(nc)]
            if r.random() < 0.3:
                D[r.randrange(nc)] = r.choice([0.0, -1.0])
            a[p] = np.array(D)
        else:
            a[p] = scalar_arg(r, p)
    # Morton / Eotvos based routines are defined for buoyant particles (rho_p < rho) only:
    # a negative Morton number raised to -0.149 is complex in Python and NaN in Fortran
    if fn != 'us_sphere' and 'rho_p' in a and 'rho' in a and a['rho_p'] >= a['rho']:
        a['rho_p'] = r.choice([lu(r, 1., 300.), r.uniform(600., 0.99 * a['rho'])])
    # targeted bands
    if fn == 'us_sphere' and r.random() < 0.6:
        Nd = r.choice([lu(r, 1e-3, 73.), lu(r, 73., 580.), lu(r, 580., 1.55e7), lu(r, 1.55e7, 5e10), lu(r, 5e10, 1e12),
                       # near (not ON) each band edge: at an edge a one-ulp difference in Nd legitimately flips the band
                       73. * (1 + r.choice([-1, 1]) * 1e-6), 580. * (1 + r.choice([-1, 1]) * 1e-6),
                       1.55e7 * (1 + r.choice([-1, 1]) * 1e-6), 5.0e10 * (1 + r.choice([-1, 1]) * 1e-6)])
        a['de'] = (3. * a['mu'] ** 2 * Nd / (4. * a['rho'] * abs(a['rho'] - a['rho_p']) * G)) ** (1. / 3.)
    if fn in ('xfer_clift', 'xfer_sphere', 'xfer_ellipsoid') and r.random() < 0.6:
        Re = r.choice([lu(r, 1e-3, 1.), lu(r, 1., 100.), lu(r, 100., 2000.), lu(r, 2000., 1e5)])
        a['us'] = Re * a['mu'] / (a['rho'] * a['de'])
    return a


def branch_of(fn, a, dbm_p):
    try:
        if fn == 'us_sphere':
            Nd = 4. * a['rho'] * abs(a['rho'] - a['rho_p']) * G * a['de'] ** 3 / (3. * a['mu'] ** 2)
            return 'Nd' + str(sum(Nd > b for b in (73., 580., 1.55e7, 5e10)))
        if fn in ('us_ellipsoid', 'particle_shape'):
            Eo = dbm_p.eotvos(a['de'], a['rho_p'], a['rho'], a['sigma'])
            M = dbm_p.morton(a['rho_p'], a['rho'], a['mu'], a['sigma'])
            H = dbm_p.h_parameter(Eo, M, a['mu'])
            return 'H%d' % sum(H > b for b in (2., 59.3, 1000.)) + ('s%+d' % a['status'] if 'status' in a else '')
        if fn in ('xfer_clift', 'xfer_sphere', 'xfer_ellipsoid', 'xfer_spherical_cap'):
            Re = a['rho'] * a['de'] * a['us'] / a['mu']
            return 'Re%d' % sum(Re >= b for b in (1., 100., 2000.)) + 's%+d' % a.get('status', 0) + 'f%d' % a.get('fp_type', 9) \
                + ('z' if np.any(np.asarray(a['D']) <= 0) else '')
    except Exception:
        pass
    return ''


def flat(x):
    if isinstance(x, tuple):
        out = []
        for y in x:
            out.extend(flat(y))
        return out
    return [float(v) for v in np.asarray(x, dtype=float).ravel(order='C')]


def run(ctx, lean_ok):
    import inspect
    from tamoc import dbm_p
    import fortran
    r = ctx.rng
    try:
        F = fortran.FortranLib()
    except Exception as e:
        ctx.oblige('gfortran build of tamoc/src/*.f95', False, str(e)[-1500:])
        F = None
    if F is not None:
        ctx.oblige('gfortran build of tamoc/src/*.f95', True)

    nper = ctx.n(150, 6000)
    cases = []   # (fn, args dict, python result, fortran result)

    def fcall(fn, a):
        out = F.call(fn, **{k: v for k, v in a.items()})
        s = F.subs[fn.lower()]
        res = []
        for nm in s.args:
            if s.decl[nm]['intent'] == 'out':
                v = out[nm]
                res.append(v)
        return res

    # ------------------------------------------------------------------ dbm_phys pairs + simple eos
    for fn in PHYS:
        params = list(inspect.signature(getattr(dbm_p, fn)).parameters)
        for _ in range(nper):
            a = phys_case(r, fn, params, ctx)
            cases.append((fn, params, a))
    for _ in range(nper):
        n = r.randint(1, 6)
        fm, _d = mixgen.mixture(r, nmin=n, nmax=n, delta_mode='zero', peneloux=r.random() < 0.5)
        m = mixgen.masses(r, n)
        T, P = mixgen.state(r)
        if r.random() < 0.1:
            T = 288.15 + r.uniform(-1e-3, 1e-3)
        cases.append(('mole_fraction', ['mass', 'Mol_wt'], {'mass': m, 'Mol_wt': fm.M}))
        cases.append(('volume_trans', ['T', 'P', 'mass', 'Mol_wt', 'Pc', 'Tc', 'Vc', 'C_pen', 'C_pen_T'],
                      {'T': T, 'P': P, 'mass': m, 'Mol_wt': fm.M, 'Pc': fm.Pc, 'Tc': fm.Tc, 'Vc': fm.Vc,
                       'C_pen': fm.C_pen, 'C_pen_T': fm.C_pen_T}))
        kh0 = fm.kh_0.copy()
        if r.random() < 0.3:
            kh0[r.randrange(n)] = -9999.
        cases.append(('kh_insitu', ['T', 'P', 'S', 'kh_0', 'dH_solR', 'nu_bar', 'Mol_wt', 'K_salt'],
                      {'T': r.uniform(271., 320.), 'P': P, 'S': r.uniform(0., 40.), 'kh_0': kh0, 'dH_solR': fm.neg_dH_solR,
                       'nu_bar': fm.nu_bar, 'Mol_wt': fm.M, 'K_salt': fm.K_salt}))
        cases.append(('sw_solubility', ['f', 'kh'], {'f': np.array([lu(r, 1., 1e8) for _ in range(n)]),
                                                      'kh': np.array([lu(r, 1e-9, 1e-4) for _ in range(n)])}))
        Vb = fm.Vb.copy()
        if r.random() < 0.3:
            Vb[r.randrange(n)] = -9999.
        cases.append(('diffusivity', ['mu', 'Vb'], {'mu': lu(r, 5e-4, 2e-3), 'Vb': Vb}))
        mk = np.array([r.choice([0., r.random()]) for _ in range(8)])
        if mk.sum() == 0:
            mk[0] = 1.
        cases.append(('kvsi_hydrate', ['T_in', 'P_in', 'mass'], {'T_in': r.uniform(260., 300.), 'P_in': lu(r, 1e5, 3e7), 'mass': mk}))

    lines = []
    pyres, fres = [], []
    nbad_pf = 0
    worst = {}
    for fn, params, a in cases:
        args = [a[p] for p in params]
        with np.errstate(all='ignore'):
            import io
            import contextlib
            with contextlib.redirect_stdout(io.StringIO()):
                py = getattr(dbm_p, fn)(*args)
        py = flat(py)
        pyres.append(py)
        br = branch_of(fn, a, dbm_p)
        ctx.count(fn + ':' + br)
        ctx.nontrivial.add((fn, br, tuple('%.6g' % v for v in flat(tuple(args)))[:8]))
        f = None
        if F is not None:
            import os
            # the Fortran us_sphere prints a warning outside its range; silence fd 1
            f = flat(tuple(fcall(fn, a)))
        fres.append(f)
        if f is not None:
            e = max([relerr(x, y) for x, y in zip(py, f)] + [0.0]) if len(py) == len(f) else float('inf')
            worst[fn] = max(worst.get(fn, 0.), e)
            if not close(py, f, TOL['py_vs_fortran']):
                nbad_pf += 1
                ctx.violation('py-ne-fortran:' + fn, 'dbm_p.%s and the Fortran %s disagree beyond rounding' % (fn, fn),
                              {'routine': fn, 'args': {k: (v.tolist() if isinstance(v, np.ndarray) else v) for k, v in a.items()},
                               'python': py, 'fortran': f, 'relerr': e, 'branch': br})
        largs = [(np.asarray(x, dtype=float) if isinstance(x, np.ndarray) else float(x)) for x in args]
        mod = 'Phys' if fn in PHYS else 'Eos'
        lines.append(req('%sPy.%s' % (mod, fn), *largs))
        lines.append(req('%sF.%s' % (mod, fn.lower()), *largs))
    ctx.evaluations += len(cases)
    for k in range(0, len(cases), max(1, len(cases) // 4)):
        fn, params, a = cases[k]
        ctx.sample({'routine': fn, 'args': {p: (a[p].tolist() if isinstance(a[p], np.ndarray) else a[p]) for p in params},
                    'python': pyres[k], 'fortran': fres[k]})

    # ---- translator validation through the driver
    out = run_driver(ctx, 'C08', lines) if lean_ok else None
    if out is not None:
        bad_py = bad_f = 0
        for i, (fn, params, a) in enumerate(cases):
            gp = flat(tuple(out[2 * i])) if isinstance(out[2 * i], list) else None
            gf = flat(tuple(out[2 * i + 1])) if isinstance(out[2 * i + 1], list) else None
            if gp is None or not close(gp, pyres[i], TOL['gen_vs_source']):
                bad_py += 1
                if bad_py <= 3:
                    ctx.broken.append(('correspondence', 'Gen Py %s vs dbm_p.%s' % (fn, fn), 'args=%r model=%r code=%r' % (a, gp, pyres[i])))
            if fres[i] is not None and (gf is None or not close(gf, fres[i], TOL['gen_vs_source'])):
                bad_f += 1
                if bad_f <= 3:
                    ctx.broken.append(('correspondence', 'Gen F %s vs Fortran %s' % (fn, fn), 'args=%r model=%r code=%r' % (a, gf, fres[i])))
        ctx.oblige('correspondence Gen.{Phys,Eos}Py.* == dbm_p.* on %d cases' % len(cases), bad_py == 0, '%d disagreements' % bad_py)
        if F is not None:
            ctx.oblige('correspondence Gen.{Phys,Eos}F.* == compiled Fortran on %d cases' % len(cases), bad_f == 0, '%d disagreements' % bad_f)

    # ------------------------------------------------------------------ full EOS routines + cubic_roots (differential only)
    if F is not None:
        neos = ctx.n(150, 5000)
        full_lines, full_exp = [], []
        for k in range(neos):
            n = r.randint(1, 6)
            # a quarter of the cases repeat the state (T, P) and the size of the case before with another mixture: whatever
            # one back end remembers between calls under an incomplete key shows as a disagreement with the other
            again = k > 0 and r.random() < 0.25
            if again:
                n = prev_state[2]
            fm, d = mixgen.mixture(r, nmin=n, nmax=n)
            m = mixgen.masses(r, n)
            T, P = mixgen.state(r)
            if again:
                T, P = prev_state[:2]
                ctx.count('eos:state-repeated')
            prev_state = (T, P, n)
            e = mixgen.eos_args(fm)
            # the library routines take delta as given (dbm.FluidMixture stores a user table unchanged): half of the
            # constant-delta cases hand over a NON-symmetric table (upper-triangular as typed in from a PVT report, or
            # independently drawn halves), which separates row sums from column sums in the mixing rule
            if d['delta_mode'] == 'const' and n >= 2 and r.random() < 0.5:
                dl = np.array(e['delta'], dtype=float, copy=True)
                if r.random() < 0.5:
                    dl = np.triu(dl)
                else:
                    for i_ in range(n):
                        for j_ in range(i_):
                            dl[i_, j_] = r.uniform(-0.05, 0.15)
                e['delta'] = dl
                d = dict(d, delta_mode='asym')
            # the library routines take the acentric factors as an argument: exercise the omega > 0.49 branch of the
            # modified Peng-Robinson m(omega) (every database compound has omega <= 0.49) and both sides of its edge
            u = r.random()
            if u < 0.35:
                e['omega'] = np.array([r.uniform(0., 1.2) for _ in range(n)])
            elif u < 0.6:
                e['omega'] = np.array([0.49 + r.choice([-1, 1]) * 10 ** r.uniform(-5, -2) for _ in range(n)])
            ctx.count('omega:' + ('>0.49' if np.any(e['omega'] > 0.49) else '<=0.49'))
            common_args = dict(T=T, P=P, mass=m, Mol_wt=e['Mol_wt'], Pc=e['Pc'], Tc=e['Tc'], omega=e['omega'],
                               Aij=e['Aij'], Bij=e['Bij'], delta_groups=e['delta_groups'], calc_delta=e['calc_delta'])
            # ---- full-mode generated routines at Float (translator validation): the root finder is an oracle table
            #      recorded from the real solvers (numpy.roots for the Python model, the compiled cubic_roots for the
            #      Fortran model)
            rec = []
            orig_cr = dbm_p.cubic_roots

            def rec_cr(pp):
                zz = np.asarray(orig_cr(pp), dtype=complex)
                rec.append((np.asarray(pp, dtype=float).copy(), zz.copy()))
                return zz
            dbm_p.cubic_roots = rec_cr
            try:
                with np.errstate(all='ignore'):
                    full_py = {
                        'coefs': dbm_p.coefs(T, P, m, e['Mol_wt'], e['Pc'], e['Tc'], e['omega'], e['delta'].copy(), e['Aij'], e['Bij'],
                                             e['delta_groups'], e['calc_delta']),
                        'z_pr': dbm_p.z_pr(T, P, m, e['Mol_wt'], e['Pc'], e['Tc'], e['omega'], e['delta'].copy(), e['Aij'], e['Bij'],
                                           e['delta_groups'], e['calc_delta']),
                        'fugacity': dbm_p.fugacity(T, P, m, e['Mol_wt'], e['Pc'], e['Tc'], e['omega'], e['delta'].copy(), e['Aij'],
                                                   e['Bij'], e['delta_groups'], e['calc_delta']),
                        'density': dbm_p.density(T, P, m, e['Mol_wt'], e['Pc'], e['Tc'], e['Vc'], e['omega'], e['delta'].copy(),
                                                 e['Aij'], e['Bij'], e['delta_groups'], e['calc_delta'], e['C_pen'], e['C_pen_T']),
                    }
            finally:
                dbm_p.cubic_roots = orig_cr
            tab_py, tab_f = [], []
            for pp, zz in rec:
                tab_py += list(pp) + list(np.real(zz)) + list(np.imag(zz))
                zf_ = np.asarray(F.call('cubic_roots', a_t=pp)['z']).ravel()
                tab_f += list(pp) + list(np.real(zf_)) + list(np.imag(zf_))

            def mat(x):
                x = np.asarray(x, dtype=float)
                return [x.ravel(), int(x.shape[1])]
            cd_ = float(e['calc_delta'])
            base_args = [T, P, m, e['Mol_wt'], e['Pc'], e['Tc'], e['omega']] + mat(e['delta']) + mat(e['Aij']) + mat(e['Bij']) \
                + mat(e['delta_groups']) + [cd_]
            dens_args = [T, P, m, e['Mol_wt'], e['Pc'], e['Tc'], e['Vc'], e['omega']] + mat(e['delta']) + mat(e['Aij']) \
                + mat(e['Bij']) + mat(e['delta_groups']) + [cd_, e['C_pen'], e['C_pen_T']]
            if n >= 1 and len(full_lines) < 2 * 4 * ctx.n(60, 1500):
                for nm in ('coefs', 'z_pr', 'fugacity', 'density'):
                    a_ = dens_args if nm == 'density' else base_args
                    pre_py = [np.array(tab_py)] if nm != 'coefs' else []
                    pre_f = [np.array(tab_f)] if nm != 'coefs' else []
                    full_lines.append(req('EosFullPy.' + nm, *(pre_py + a_)))
                    full_lines.append(req('EosFullF.' + nm, *(pre_f + a_)))
                    full_exp.append((nm, flat(full_py[nm]), d, T, P))
            for fn in EOS_FULL:
                a = dict(common_args)
                if fn == 'coefs':
                    a['delta_in'] = e['delta'].copy()
                else:
                    a['delta'] = e['delta'].copy()
                if fn in ('density', 'viscosity'):
                    a.update(Vc=e['Vc'], C_pen=e['C_pen'], C_pen_T=e['C_pen_T'])
                params = list(inspect.signature(getattr(dbm_p, fn)).parameters)
                with np.errstate(all='ignore'):
                    py = getattr(dbm_p, fn)(*[np.array(a[p], copy=True) if isinstance(a[p], np.ndarray) else a[p] for p in params])
                f = fcall(fn, a)
                py, f = flat(py), flat(tuple(f))
                ctx.evaluations += 1
                br = '%s:nc%d:%s%s' % (fn, n, d['delta_mode'], ':pen' if d['peneloux'] else '')
                ctx.count(br)
                ctx.nontrivial.add((fn, br, round(T, 3), round(math.log(P), 3)))
                ee = max([relerr(x, y) for x, y in zip(py, f)] + [0.0]) if len(py) == len(f) else float('inf')
                worst[fn] = max(worst.get(fn, 0.), ee if math.isfinite(ee) else 1e300)
                # compare only where both are finite: a NaN fugacity (liquid root below the co-volume) belongs to C01
                tol = TOL['py_vs_fortran'] if fn != 'viscosity' else 1e-8
                ok = len(py) == len(f) and all((not math.isfinite(x) and not math.isfinite(y)) or close(x, y, tol) for x, y in zip(py, f))
                if not ok:
                    ctx.violation('py-ne-fortran:' + fn + (':calc_delta' if d['delta_mode'] == 'groups' and n >= 2 else ''),
                                  'dbm_p.%s and the Fortran %s disagree beyond rounding' % (fn, fn),
                                  {'routine': fn, 'composition': d['composition'], 'delta_mode': d['delta_mode'], 'peneloux': d['peneloux'],
                                   'mass': m.tolist(), 'T': T, 'P': P, 'python': py, 'fortran': f, 'relerr': ee})
        if lean_ok and full_lines:
            out2 = run_driver(ctx, 'C08', full_lines)
            if out2 is not None:
                badp = badf = 0
                for i2, (nm, expv, d_, T_, P_) in enumerate(full_exp):
                    gp = flat(tuple(out2[2 * i2])) if isinstance(out2[2 * i2], list) else None
                    gf = flat(tuple(out2[2 * i2 + 1])) if isinstance(out2[2 * i2 + 1], list) else None
                    # group-contribution sums have 225 cancelling terms: looser tolerance in that mode
                    tol_ = 1e-8 if d_['delta_mode'] == 'groups' else 1e-10

                    def same(g):
                        return g is not None and len(g) == len(expv) and all(
                            (not math.isfinite(x) and not math.isfinite(y)) or close(x, y, tol_) for x, y in zip(g, expv))
                    if not same(gp):
                        badp += 1
                        if badp <= 2:
                            ctx.broken.append(('correspondence', 'Gen.EosFullPy.%s vs dbm_p.%s' % (nm, nm),
                                               'composition=%r T=%r P=%r model=%r code=%r' % (d_['composition'], T_, P_, gp, expv)))
                    if not same(gf):
                        badf += 1
                        if badf <= 2:
                            ctx.broken.append(('correspondence', 'Gen.EosFullF.%s vs dbm_p.%s (pair already compared on real code)' % (nm, nm),
                                               'composition=%r T=%r P=%r model=%r code=%r' % (d_['composition'], T_, P_, gf, expv)))
                ctx.oblige('correspondence Gen.EosFullPy.{coefs,z_pr,fugacity,density} == dbm_p.* on %d calls' % len(full_exp), badp == 0,
                           '%d disagreements' % badp)
                ctx.oblige('correspondence Gen.EosFullF.{coefs,z_pr,fugacity,density} == dbm_p.* on %d calls (root table from the compiled solver)' % len(full_exp),
                           badf == 0, '%d disagreements' % badf)
        # cubic_roots: PR cubics from random (A,B) and random cubics with prescribed separated roots
        ncub = ctx.n(300, 20000)
        for k in range(ncub):
            if k % 2 == 0:
                roots = [lu(r, 1e-3, 10.) * r.choice([1, 1, -1]) for _ in range(3)]
                kind = 'real3'
            else:
                re_, im = r.uniform(-2, 2), lu(r, 1e-2, 2.)
                roots = [r.uniform(-3, 3), complex(re_, im), complex(re_, -im)]
                kind = 'real1'
            # "wherever the roots are well separated": pairwise distance >= 5 % of the largest modulus
            scale0 = max(abs(z) for z in roots)
            gaps = [abs(roots[i] - roots[j]) for i in range(3) for j in range(i)]
            if min(gaps) < 0.05 * scale0:
                ctx.count('cubic_roots:skipped-clustered')
                continue
            p = np.real(np.poly(roots))
            py = np.sort_complex(np.asarray(dbm_p.cubic_roots(p), dtype=complex))
            f = np.sort_complex(np.asarray(F.call('cubic_roots', a_t=p)['z']).ravel())
            ctx.evaluations += 1
            ctx.count('cubic_roots:' + kind)
            ctx.nontrivial.add(('cubic_roots', tuple(np.round(p, 6))))
            scale = max(abs(py).max(), 1e-300)
            if not np.all(np.abs(py - f) <= 1e-8 * scale):
                ctx.violation('py-ne-fortran:cubic_roots', 'the two cubic solvers return different root sets on a cubic with well separated roots',
                              {'coefficients': p.tolist(), 'python': [str(z) for z in py], 'fortran': [str(z) for z in f]})
        F.close()
    # floors: every regime branch named in the quantifier must have been hit
    need = {'us_sphere:Nd0': 5, 'us_sphere:Nd1': 5, 'us_sphere:Nd2': 5, 'us_sphere:Nd3': 5, 'us_sphere:Nd4': 3,
            'xfer_clift:Re0': 5, 'xfer_clift:Re1': 5, 'xfer_clift:Re2': 5, 'xfer_clift:Re3': 5,
            'omega:>0.49': 20, 'omega:<=0.49': 20, 'cubic_roots:real3': 20, 'cubic_roots:real1': 20}
    for sub, n_ in need.items():
        got = sum(v for k, v in ctx.hist.items() if k.startswith(sub))
        ctx.oblige('coverage floor: branch %s hit at least %d times (got %d)' % (sub, n_, got), got >= n_)
    for fn in ('us_ellipsoid', 'particle_shape'):
        for h in ('H0', 'H1', 'H2'):
            got = sum(v for k, v in ctx.hist.items() if k.startswith(fn + ':' + h))
            ctx.oblige('coverage floor: %s band %s hit (got %d)' % (fn, h, got), got >= 1)
    ctx.notes.append('worst Python-vs-Fortran relative difference per routine: %r' % {k: float('%.3g' % v) for k, v in worst.items()})
