"""
C14 — Profile construction gives a monotone, hydrostatic, stable column.

proof        : TamocV/Props/C14.lean over TamocV/Model/Profile.lean (coarsen, stabilize, computePressure,
               extractProfile, construct)
tie          : (H) real ambient.coarsen / stabilize / compute_pressure / extract_profile and real
               ambient.Profile(...) construction against the Lean model through the driver on the same
               arrays (row selection exact, floats 1e-11); seawater density in the model is the definition
               regenerated from seawater.py
real code    : the property predicates on the real outputs (sub-list, first/last kept, strict increase,
               error bound with the code's zero rule, potential density non-decreasing, hydrostatic
               recurrence, atmospheric surface value) + TEST of the four input adapters (same cast through
               array / xarray / netCDF file / open netCDF dataset, interp_data compared bit for bit)
"""
import io
import os
import math
import random
import shutil
import tempfile
import contextlib
import numpy as np
from common import req, close, TOL, run_driver
import scen_profile as sp

META = {
    'text': 'Theorems (Lean 4, over the reals, all inputs, every seawater-density function): coarsen output = the kept rows, each followed in the input by a run of dropped rows that are within err of it in every variable (relative to the dropped value, exactly-zero entries exempt as in the code), it is a sub-list, keeps first and last row and preserves strict increase of depth; in its domain stabilize returns exactly the rows selected by its mask (re-interpolating T,S of kept rows from kept rows changes nothing, by the C07 node theorem), keeps first and last row, and the potential density of all kept rows EXCEPT THE LAST is non-decreasing; compute_pressure returns atmospheric pressure (plus the weight above the first level) at the surface and the recurrence P[i+1]=P[i]+rho(T[i],S[i],P[i])*g*dz, increasing when rho>0 at the visited states, for positive depths/surface first and for negative depths/surface last; extract_profile returns a contiguous block of input rows plus at most one copy of an input row at depth 0 with atmospheric pressure; construct (pressure supplied, stabilisation off) stores a sub-list of the input with first/last row and strict increase. Proved counterexamples: stabilize does not test the deepest row; extract_profile keeps the first reversed sample; compute_pressure is wrong/raises for the two other documented (sign, fs_loc) combinations. The model is tied to the real functions and to real Profile construction (all input forms, canonical and non-canonical variable order, with and without pressure, with extra variables) by differential execution; the predicates (stating the property, with independent oracles for pressure and unit labels) are evaluated on the real outputs, also for negative-depth and bottom-first casts through Profile().',
    'note': 'Trusted: Lean kernel + 3 standard axioms; Model/Profile.lean is a hand transcription tied by differential execution (tolerance 1e-11, row selection exact; a selection that differs only because two densities are equal to 1e-11 is counted, not judged); seawater density in the model = Gen.SeawaterPy regenerated from seawater.py; real arithmetic as stand-in for doubles. Only FUNCTION-LEVEL statements are proved for the pipeline with stabilisation on (column reordering + stabilize): that composition is covered by the differential run against real Profile(...) only. The input adapters are I/O glue: NOT modelled, checked by a TEST (same synthetic cast through all forms, stored columns compared bit for bit by name). Unit conversion itself belongs to C15; here the harness applies value*factor+offset and checks the unit LABELS against an independent oracle. stabilize_monotone is PARTIAL (all but the deepest row) because the full statement is false of model and code. Known-finding keys are matched on the exact failure signature (recomputed by the harness), anything else in the same configuration gets a different key. Raises of the code under test are keyed violations; coverage floors are obligations.',
    'technique': 'Lean 4 proof over a hand model + differential execution against the real functions and real Profile construction; adapters by test',
}
GEN = ['seawater']
MODULES = ['TamocV.Props.C14', 'TamocV.Gen.SeawaterPy', 'TamocV.Model.Profile']
RULE = ('synthetic casts of 3-2000 levels (log-uniform + edge sizes), thermocline/halocline shapes with noise 0-5%, 0-5 warm/fresh parcels anywhere and (25%) a light deepest level, '
        '0-6 extra variables with exact zeros, pressure supplied or not, recognised unit systems; err in {0} U [1e-6,0.5]; stabilisation on/off; coarsen / stabilize / compute_pressure '
        '(all four documented (sign of depth, fs_loc) combinations) / extract_profile (raw records with a surface yo-yo and an up-cast, any depth column, p_col or None, z_start) called '
        'directly, and Profile(...) built through array / xarray / netCDF file / open netCDF dataset / BaseProfile with the variables in canonical or shuffled order, with and without a pressure variable '
        '(also with extra variables), plus negative-depth (surface-first / bottom-first) and positive bottom-first casts through Profile(); for every third cast (units that need converting) ONE table and ONE Dataset built from it are handed to all input forms in random order without copies (caller data unchanged, same profile, rebuild identical); a case is non-trivial when (function, levels, columns, err, options) is new')
LEVEL_NOTE = ('theorems over the reals about a hand-written model of coarsen / stabilize / compute_pressure / extract_profile, tied to the real code by differential execution '
              '(tolerance 1e-11, exact row selection); the format adapters are covered by a test only')
SCRATCH = '/root/scratch/c07'
P_ATM = 101325.0
G = 9.81


def audit_files():
    return ['TamocV/Num.lean', 'TamocV/Real.lean', 'TamocV/Model/Profile.lean', 'TamocV/Lemmas/C07.lean',
            'TamocV/Lemmas/C14.lean', 'TamocV/Props/C07.lean', 'TamocV/Props/C14.lean', 'TamocV/Gen/SeawaterPy.lean']


@contextlib.contextmanager
def quiet():
    import warnings
    with contextlib.redirect_stdout(io.StringIO()), warnings.catch_warnings(), np.errstate(all='ignore'):
        warnings.simplefilter('ignore')
        yield


def same(a, b):
    a, b = np.asarray(a, dtype=float), np.asarray(b, dtype=float)
    return a.shape == b.shape and bool(np.all((a == b) | (np.isnan(a) & np.isnan(b))))


def close_arr(a, b):
    a, b = np.asarray(a, dtype=float), np.asarray(b, dtype=float)
    if a.shape != b.shape:
        return False
    if same(a, b):
        return True
    return all(close(float(x), float(y), TOL['gen_vs_source']) for x, y in zip(a.ravel(), b.ravel()))


def sigma_theta(T, S):
    from tamoc import seawater
    return np.array([float(seawater.density(t, s, P_ATM)) for t, s in zip(T, S)])


class V:
    """violations: the full arrays go only into the first case of each key (the one that is replayed)"""
    def __init__(self, ctx):
        self.ctx = ctx
        self.seen = set()

    def __call__(self, key, what, small, full=None):
        case = dict(small)
        if key not in self.seen:
            self.seen.add(key)
            if full:
                case.update(full() if callable(full) else full)
        self.ctx.violation(key, what, case)


def tab(a, cap=400):
    a = np.asarray(a, dtype=float)
    return a.tolist() if a.shape[0] <= cap else {'first_rows': a[:5].tolist(), 'last_rows': a[-5:].tolist(), 'shape': list(a.shape)}


# ---------------------------------------------------------------------------------------------
# predicates on real outputs
# ---------------------------------------------------------------------------------------------

def match_rows(out, inp):
    """indices of the input rows the output rows are (in order), or None"""
    idx = []
    j = 0
    n = inp.shape[0]
    for r in out:
        while j < n and not same(inp[j], r):
            j += 1
        if j >= n:
            return None
        idx.append(j)
        j += 1
    return idx


def pred_coarsen(ctx, viol, raw, err, out, origin):
    ctx.count('pred:coarsen')
    ctx.evaluations += int(raw.shape[0])          # every row is judged (kept / dropped-within-err)
    small = {'function': 'ambient.coarsen', 'err': err, 'shape': list(raw.shape), 'origin': origin}
    full = lambda: {'raw': tab(raw), 'returned': tab(out)}
    idx = match_rows(out, raw)
    if idx is None:
        viol('coarsen-row-not-in-input', 'a retained row is not a row of the input (or rows were reordered)', small, full)
        return
    n = raw.shape[0]
    if not idx or idx[0] != 0 or idx[-1] != n - 1:
        viol('coarsen-first-last', 'first / last input row not kept', dict(small, kept_first_last=[idx[0] if idx else None, idx[-1] if idx else None]), full)
    if np.all(np.diff(raw[:, 0]) > 0) and not np.all(np.diff(out[:, 0]) > 0):
        viol('coarsen-depth-order', 'strictly increasing depths not preserved', small, full)
    # every dropped row within err of the preceding kept row (relative to the dropped value; zeros exempt)
    base = np.zeros(n, dtype=int)
    kept = np.zeros(n, dtype=bool)
    kept[idx] = True
    last = 0
    for i in range(n):
        if kept[i]:
            last = i
        base[i] = last
    d = raw[:, 1:]
    b = raw[base][:, 1:]
    with np.errstate(all='ignore'):
        ea = np.abs((d - b) / d)
    bad = (~kept)[:, None] & (d != 0.0) & ~(ea <= err)
    if bad.any():
        i, k = [int(x) for x in np.argwhere(bad)[0]]
        viol('coarsen-error-bound', 'a dropped row differs from the preceding kept row by more than err',
             dict(small, dropped_row=i, kept_row=int(base[i]), column=k + 1, value=float(raw[i, k + 1]),
                  kept_value=float(raw[base[i], k + 1]), relative=float(ea[i, k])), full)


def pred_stabilize(ctx, viol, raw, out, origin):
    ctx.count('pred:stabilize')
    ctx.evaluations += int(raw.shape[0])
    small = {'function': 'ambient.stabilize', 'shape': list(raw.shape), 'origin': origin}
    full = lambda: {'raw': tab(raw), 'returned': tab(out)}
    idx = match_rows(out, raw)
    if idx is None:
        viol('stabilize-row-not-in-input', 'a retained row is not a row of the input', small, full)
    elif not idx or idx[0] != 0 or idx[-1] != raw.shape[0] - 1:
        viol('stabilize-first-last', 'first / last row not kept', small, full)
    judge_density(ctx, viol, out, small, full)


def judge_density(ctx, viol, out, small, full):
    """potential density of the stored rows must not decrease with depth"""
    rho = sigma_theta(out[:, 1], out[:, 2])
    dec = np.nonzero(rho[1:] < rho[:-1])[0]
    for i in dec:
        if i + 1 == len(rho) - 1:
            ctx.count('found:stabilize-last-row')
            viol('stabilize-last-row', 'potential density decreases at the deepest stored level: stabilize never tests the last row',
                 dict(small, levels=int(out.shape[0]), rho_above=float(rho[i]), rho_deepest=float(rho[i + 1]),
                      last_rows=out[-3:, :4].tolist()), full)
        else:
            viol('stabilize-not-monotone', 'potential density decreases with depth above the deepest level',
                 dict(small, row=int(i + 1), rho_above=float(rho[i]), rho=float(rho[i + 1])), full)


def phys_order(z, T, S, P, combo):
    """(depth>=0 ascending, T, S, P) in physical order from the surface down"""
    if combo in ('pos-asc',):
        return z, T, S, P
    if combo == 'pos-desc':
        return z[::-1], T[::-1], S[::-1], P[::-1]
    if combo == 'neg-asc':          # -1500 … 0
        return -z[::-1], T[::-1], S[::-1], P[::-1]
    return -z, T, S, P              # neg-desc: 0 … -1500


def hydro_from_surface(d, Tp, Sp):
    """independent oracle: atmospheric pressure plus the weight of the slab above the FIRST (shallowest) level,
    evaluated with that level's own T and S, then the recurrence — in physical order (d >= 0 ascending)"""
    return sp.hydrostatic(np.asarray(d, dtype=float), np.asarray(Tp, dtype=float), np.asarray(Sp, dtype=float))


def bottom_first_values(z, T, S):
    """exact signature of the recorded finding `pressure-bottom-first`: positive depths stored bottom-first, fs_loc=-1.
    The loop reads P[i-1] while it is still 0: P[i] = 0 + rho(T[i-1],S[i-1],0) g (z[i]-z[i-1]) for 1 <= i <= n-2,
    the last entry is the surface value, and P[0] wraps around to it."""
    from tamoc import seawater
    n = len(z)
    if n < 3 or not np.all(np.diff(z) < 0) or not z[-1] >= 0:
        return None
    want = np.zeros(n)
    want[n - 1] = P_ATM + float(seawater.density(T[0], S[0], P_ATM)) * G * z[n - 1]
    for i in range(n - 2, 0, -1):
        want[i] = float(seawater.density(T[i - 1], S[i - 1], 0.0)) * G * (z[i] - z[i - 1])
    want[0] = want[n - 1] + float(seawater.density(T[n - 1], S[n - 1], want[n - 1])) * G * (z[0] - z[n - 1])
    return want


def sig_bottom_first(z, T, S, P):
    want = bottom_first_values(z, T, S)
    return want is not None and close_arr(P, want)


def sig_deepest_sample_slab(z, T, S, P):
    """exact signature of `pressure-surface-slab-uses-deepest-sample`: negative depths ascending, fs_loc=-1, shallowest level
    not at 0: everything is the hydrostatic recurrence except that the slab above the shallowest level is weighed with
    rho(T[0], S[0]) — index 0 is the DEEPEST sample"""
    from tamoc import seawater
    d, Tp, Sp, Pp = -z[::-1], T[::-1], S[::-1], P[::-1]
    if d[0] == 0.0:
        return False
    want = np.zeros(len(d))
    want[0] = P_ATM + float(seawater.density(T[0], S[0], P_ATM)) * G * d[0]
    for i in range(1, len(d)):
        want[i] = want[i - 1] + float(seawater.density(Tp[i - 1], Sp[i - 1], want[i - 1])) * G * (d[i] - d[i - 1])
    return close_arr(Pp, want)


def pred_pressure(ctx, viol, z, T, S, fs, combo, P, raised, origin):
    ctx.count('pred:pressure:' + combo)
    ctx.evaluations += len(z)
    small = {'function': 'ambient.compute_pressure', 'convention': combo, 'fs_loc': fs, 'levels': len(z), 'origin': origin}
    full = lambda: {'z': tab(z), 'T': tab(T), 'S': tab(S), 'returned': None if P is None else tab(P)}
    if raised is not None:
        # recorded finding: exactly IndexError for negative depths with the free surface first
        key = 'pressure-negative-surface-first' if (combo == 'neg-desc' and fs == 0 and raised == 'IndexError') \
            else 'compute-pressure-raised:%s:%s' % (combo, raised)
        viol(key, 'compute_pressure raised %s for a documented (depth sign, fs_loc) combination' % raised, small, full)
        return
    d, Tp, Sp, Pp = phys_order(z, T, S, P, combo)
    want = hydro_from_surface(d, Tp, Sp)
    if close_arr(Pp, want) and (d[0] != 0.0 or Pp[0] == P_ATM) and np.all(np.diff(Pp) > 0):
        return
    bad = np.nonzero([not close(float(a), float(b), TOL['gen_vs_source']) for a, b in zip(Pp, want)])[0]
    i = int(bad[0]) if len(bad) else 0
    detail = dict(small, first_bad_level=i, depth=float(d[i]), pressure=float(Pp[i]), hydrostatic=float(want[i]))
    if combo == 'pos-desc' and sig_bottom_first(z, T, S, P):
        viol('pressure-bottom-first', 'positive depths stored bottom-first (fs_loc=-1): entries are read before they are computed', detail, full)
    elif combo == 'neg-asc' and sig_deepest_sample_slab(z, T, S, P):
        viol('pressure-surface-slab-uses-deepest-sample',
             'negative depths, shallowest level below the surface: the water above it is weighed with the density of the DEEPEST sample (T[0], S[0])',
             dict(detail, slip_Pa=float(Pp[0] - want[0])), full)
    else:
        viol('pressure-not-hydrostatic', 'pressure is not atmospheric pressure at the surface followed by P[i+1] = P[i] + rho(T[i],S[i],P[i]) g dz',
             detail, full)


def pred_extract(ctx, viol, raw, zc, zstart, pc, out, raised, origin):
    ctx.count('pred:extract')
    small = {'function': 'ambient.extract_profile', 'z_col': zc, 'z_start': zstart, 'p_col': pc, 'samples': int(raw.shape[0]), 'origin': origin}
    full = lambda: {'data': tab(raw), 'returned': None if out is None else tab(out)}
    if raised is not None:
        ctx.count('extract-raised:' + raised)
        zz = raw[:, zc]
        if raised == 'IndexError' and np.all(zz[1:] < zstart):
            # exact signature: every sample after the first is shallower than z_start, the first `while` runs off the end
            viol('extract-profile-indexerror-all-above-z-start', 'extract_profile raises IndexError when the whole record is shallower than z_start',
                 dict(small, deepest_sample=float(np.max(zz))), full)
        else:
            viol('extract-profile-raised:' + raised, 'extract_profile raised %s on a valid record' % raised, small, full)
        return
    z = out[:, zc]
    if not np.all(np.diff(z) > 0):
        pos = np.nonzero(~(np.diff(z) > 0))[0]
        i = int(pos[0])
        if len(pos) == 1 and i == len(z) - 2:
            # the recorded finding: exactly the LAST returned row is a sample of the up-cast
            viol('extract-profile-keeps-reversed-row', 'depths returned by extract_profile are not strictly increasing: the last returned row is a sample of the up-cast',
                 dict(small, returned_depths_around=z[max(0, i - 2):i + 3].tolist(), position=i + 1, returned_levels=int(len(z))), full)
        else:
            viol('extract-profile-not-monotone', 'depths returned by extract_profile are not strictly increasing (other than at the last row)',
                 dict(small, returned_depths_around=z[max(0, i - 2):i + 3].tolist(), positions=[int(x) + 1 for x in pos[:5]], returned_levels=int(len(z))), full)
    if out.shape[0] > 1 and z[0] == 0.0 and not any(same(out[0], r) for r in raw):
        # synthetic surface row: depth 0, atmospheric pressure, everything else copied from the next row
        want = out[1].copy()
        want[zc] = 0.0
        if pc is not None:
            want[pc] = P_ATM
        ctx.count('pred:extract-surface-row')
        if not same(out[0], want):
            viol('extract-profile-surface-row', 'the row added at the free surface is not (depth 0, atmospheric pressure, values of the first sample)',
                 dict(small, surface_row=out[0].tolist(), first_sample=out[1].tolist()), full)
    def block(body):
        m = body.shape[0]
        return any(same(raw[s0:s0 + m], body) for s0 in range(raw.shape[0] - m + 1))
    if not (block(out) or (out.shape[0] > 1 and z[0] == 0.0 and block(out[1:]))):
        viol('extract-profile-rows-not-input', 'rows returned by extract_profile are not a contiguous block of the input (plus at most one surface row)', small, full)


# ---------------------------------------------------------------------------------------------
# cases
# ---------------------------------------------------------------------------------------------

def std_with_p(cast):
    data, names, _u = sp.standard_table(cast)
    if cast['P'] is None:
        P = sp.hydrostatic(cast['z'], cast['T'], cast['S'])
        data = np.column_stack([data[:, :3], P, data[:, 3:]])
        names = names[:3] + ['pressure'] + names[3:]
    return data, names


def pick_err(rng):
    return rng.choice([0.0, 0.01, 0.01, 0.5, 10 ** rng.uniform(-6, math.log10(0.5)), rng.uniform(0.0, 0.5)])


D5_CAST = np.array([[0.0, 290.0, 34.5, 101325.0], [50.0, 285.0, 35.0, 604000.0],
                    [100.0, 280.0, 35.2, 1107000.0], [150.0, 290.0, 30.0, 1609000.0]])


class Batch:
    def __init__(self, ctx, lean_ok):
        self.ctx, self.lean_ok = ctx, lean_ok
        self.lines, self.pending = [], []
        self.stats = {}

    def add(self, kind, line, info):
        self.lines.append(line)
        self.pending.append((kind, info))
        if len(self.lines) >= 250:
            self.flush()

    def bad(self, kind, name, detail):
        st = self.stats.setdefault(kind, [0, 0])
        st[1] += 1
        if st[1] <= 3:
            self.ctx.broken.append(('correspondence', name, detail))

    def flush(self):
        lines, pending = self.lines, self.pending
        self.lines, self.pending = [], []
        if not lines or not self.lean_ok:
            return
        out = run_driver(self.ctx, 'C14', lines)
        if out is None:
            return
        for (kind, info), o in zip(pending, out):
            self.stats.setdefault(kind, [0, 0])[0] += 1
            if not isinstance(o, list):
                self.bad(kind, kind, 'driver: %r' % (o,))
                continue
            judge_model(self, kind, info, o)


def judge_model(b, kind, info, o):
    ctx = b.ctx
    if kind == 'coarsen':
        m = np.array(o[0], dtype=float).reshape(-1, info['k'])
        if not same(m, info['real']):
            b.bad(kind, 'Model.coarsen vs ambient.coarsen', 'err=%r shape=%r model rows %d real rows %d (%s)'
                  % (info['err'], info['shape'], m.shape[0], info['real'].shape[0], info['origin']))
    elif kind == 'stabilize':
        m = np.array(o[0], dtype=float).reshape(-1, info['k'])
        if not close_arr(m, info['real']):
            if m.shape != info['real'].shape and info['near_tie']:
                ctx.count('stabilize:selection-differs-at-a-density-tie(not judged)')
            else:
                b.bad(kind, 'Model.stabilize vs ambient.stabilize', 'shape=%r model rows %d real rows %d (%s)'
                      % (info['shape'], m.shape[0], info['real'].shape[0], info['origin']))
    elif kind == 'pressure':
        if o[0] == 'raise':
            if info['raised'] is None:
                b.bad(kind, 'Model.computePressure vs ambient.compute_pressure', 'model raises, code returns (%s, %s)' % (info['combo'], info['origin']))
        elif info['raised'] is not None or not close_arr(np.array(o[1]), info['real']):
            b.bad(kind, 'Model.computePressure vs ambient.compute_pressure', '%s levels=%d code %s (%s)'
                  % (info['combo'], info['n'], 'raised ' + info['raised'] if info['raised'] else 'differs', info['origin']))
    elif kind == 'extract':
        if o[0] == 'raise':
            if info['raised'] is None:
                b.bad(kind, 'Model.extractProfile vs ambient.extract_profile', 'model raises, code returns (%s)' % info['origin'])
        else:
            m = np.array(o[1], dtype=float).reshape(-1, info['k'])
            if info['raised'] is not None or not same(m, info['real']):
                b.bad(kind, 'Model.extractProfile vs ambient.extract_profile', 'z_col=%r z_start=%r p_col=%r code %s (%s)'
                      % (info['zc'], info['zstart'], info['pc'], 'raised ' + info['raised'] if info['raised'] else 'differs', info['origin']))
    elif kind == 'construct':
        if o[0] == 'raise':
            if info['raised'] is None:
                b.bad(kind, 'Model.construct vs ambient.Profile', 'model raises, code constructs (%s)' % info['origin'])
            return
        if info['raised'] is not None:
            b.bad(kind, 'Model.construct vs ambient.Profile', 'code raised %s, model constructs (%s)' % (info['raised'], info['origin']))
            return
        _ok, k, rows, names, zmin, zmax, _crows, cnames = o
        m = np.array(rows, dtype=float).reshape(-1, k)
        good = (names.split(',') if names else []) == info['names'] and close_arr(m, info['real']) \
            and zmin == info['zmin'] and zmax == info['zmax'] and cnames == names
        if not good:
            if m.shape != info['real'].shape and info['near_tie']:
                ctx.count('construct:selection-differs-at-a-density-tie(not judged)')
            else:
                b.bad(kind, 'Model.construct vs ambient.Profile', 'model %r rows %r, real %r rows %r; z-range %r vs %r (%s)'
                      % (names, m.shape, info['names'], info['real'].shape, (zmin, zmax), (info['zmin'], info['zmax']), info['origin']))


def near_tie(T, S):
    rho = sigma_theta(T, S)
    run_max = np.maximum.accumulate(rho)
    d = np.abs(rho[1:] - run_max[:-1]) / rho[1:]
    return bool(np.any((d > 0) & (d < 1e-11)))


def function_cases(ctx, rng, b, viol, cast, origin):
    from tamoc import ambient
    data, names = std_with_p(cast)
    n, k = data.shape
    # ---- coarsen -----------------------------------------------------------------------------
    err = pick_err(rng)
    with quiet():
        out = ambient.coarsen(data.copy(), err)
    ctx.count('coarsen:err=0' if err == 0 else 'coarsen:err>0')
    ctx.count('coarsen:kept-all' if out.shape[0] == n else 'coarsen:dropped-rows')
    ctx.evaluations += 1
    ctx.nontrivial.add(('coarsen', n, k, round(err, 6)))
    pred_coarsen(ctx, viol, data, err, out, origin)
    b.add('coarsen', req('Profile.coarsen', k, data, err), {'k': k, 'err': err, 'shape': (n, k), 'real': out, 'origin': origin})
    # ---- stabilize (on the coarsened table, as the pipeline does, or on the full one) ---------
    sin = out if rng.random() < 0.6 else data
    with quiet():
        try:
            sout = ambient.stabilize(sin.copy())
            sraised = None
        except Exception as e:
            sraised = type(e).__name__
    ctx.evaluations += 1
    if sraised is not None:
        ctx.count('stabilize-raised:' + sraised)
        viol('stabilize-raised:' + sraised, 'stabilize raised %s on a table with non-negative increasing depths' % sraised,
             {'function': 'ambient.stabilize', 'shape': list(sin.shape), 'origin': origin}, lambda: {'raw': tab(sin)})
    else:
        ctx.count('stabilize:dropped-rows' if sout.shape[0] < sin.shape[0] else 'stabilize:kept-all')
        ctx.nontrivial.add(('stabilize', sin.shape[0], k, cast['meta']['inverted_last']))
        pred_stabilize(ctx, viol, sin, sout, origin)
        b.add('stabilize', req('Profile.stabilize', k, sin), {'k': k, 'shape': sin.shape, 'real': sout, 'origin': origin,
                                                             'near_tie': near_tie(sin[:, 1], sin[:, 2])})
    # ---- compute_pressure, the four documented conventions -------------------------------------
    z, T, S = cast['z'], cast['T'], cast['S']
    combos = {'pos-asc': (z, T, S, 0), 'neg-asc': (-z[::-1], T[::-1], S[::-1], -1),
              'pos-desc': (z[::-1], T[::-1], S[::-1], -1), 'neg-desc': (-z, T, S, 0)}
    for combo in (['pos-asc', 'neg-asc'] + ([rng.choice(['pos-desc', 'neg-desc'])] if rng.random() < 0.5 else [])):
        zz, TT, SS, fs = [np.array(x, dtype=float) if not isinstance(x, int) else x for x in combos[combo]]
        with quiet():
            try:
                P = ambient.compute_pressure(zz.copy(), TT.copy(), SS.copy(), fs)
                raised = None
            except Exception as e:
                P, raised = None, type(e).__name__
        ctx.evaluations += 1
        ctx.nontrivial.add(('pressure', combo, n))
        pred_pressure(ctx, viol, zz, TT, SS, fs, combo, P, raised, origin)
        b.add('pressure', req('Profile.computePressure', zz, TT, SS, 1 if fs == -1 else 0),
              {'combo': combo, 'n': n, 'real': P, 'raised': raised, 'origin': origin})
    # ---- extract_profile on a raw record -------------------------------------------------------
    raw, rnames, rdesc = sp.add_reversals(rng, cast)
    kk = raw.shape[1]
    zc = rng.choice([0, 0, rng.randrange(kk)])
    perm = list(range(1, kk))
    perm.insert(zc, 0)
    rawp = raw[:, perm]
    pc = None
    if 'pressure' in rnames and rng.random() < 0.5:
        pc = perm.index(rnames.index('pressure'))
    zstart = rng.choice([50.0, 50.0, rng.uniform(0.0, 1.2) * float(np.max(raw[:, 0])), float(raw[0, 0])])
    with quiet():
        try:
            eout = np.array(ambient.extract_profile(rawp.copy(), z_col=zc, z_start=zstart, p_col=pc, P_atm=P_ATM), dtype=float)
            eraised = None
        except Exception as e:
            eout, eraised = None, type(e).__name__
    ctx.evaluations += 1
    ctx.count('extract:' + ('top-yoyo' if rdesc['top_yoyo'] else 'no-yoyo') + '+' + ('upcast' if rdesc['upcast'] else 'no-upcast'))
    ctx.nontrivial.add(('extract', raw.shape[0], kk, zc, pc is None, bool(rdesc['top_yoyo']), bool(rdesc['upcast'])))
    pred_extract(ctx, viol, rawp, zc, zstart, pc, eout, eraised, dict(origin, record=rdesc))
    b.add('extract', req('Profile.extractProfile', kk, rawp, zc, zstart, 0 if pc is None else pc + 1, P_ATM),
          {'k': kk, 'zc': zc, 'zstart': zstart, 'pc': pc, 'real': eout, 'raised': eraised, 'origin': origin})


def expected_units(cast):
    """independent oracle for the unit labels: the standard unit of the unit each variable was supplied in"""
    u = cast['units']
    out = {'temperature': sp.STANDARD[u['T']], 'salinity': sp.STANDARD[u['S']], 'pressure': 'Pa'}
    for name, _su, _v in cast['extra']:
        out[name] = sp.STANDARD[u[name]]
    return out


def judge_profile(ctx, viol, p, route, cast, std, names, err, stab, origin):
    """the property predicates on ONE constructed profile; std/names = the unit-converted input in the order this
    input form stores it"""
    ctx.count('pred:profile')
    idata = np.array(p.interp_data, dtype=float)
    fnames = [str(x) for x in p.f_names]
    small = {'function': 'ambient.BaseProfile' if route == 'baseprofile' else 'ambient.Profile', 'route': route, 'err': err,
             'stabilize_profile': stab, 'variable_order': names[1:], 'origin': origin}
    full = lambda: {'data_in_standard_units': tab(std), 'names': names, 'interp_data': tab(idata), 'f_names': fnames}
    if not np.all(np.diff(idata[:, 0]) > 0):
        viol('profile-depths-not-increasing', 'stored depths are not strictly increasing', small, full)
    missing = [nm for nm in names[1:] if nm not in fnames]
    if missing:
        viol('profile-variable-lost', 'a requested variable is not stored', dict(small, missing=missing), full)
        return
    cols = [0] + [1 + fnames.index(nm) for nm in names[1:]]
    idx = match_rows(idata[:, cols], std)
    if idx is None:
        viol('profile-row-not-in-input', 'a stored row is not a row of the (unit-converted) input', small, full)
    elif idx[0] != 0 or idx[-1] != std.shape[0] - 1:
        viol('profile-first-last', 'first / last input row not stored', small, full)
    if cast['P'] is None:
        if 'pressure' not in fnames:
            viol('pressure-not-integrated', 'no pressure was supplied and none was computed', small, full)
        elif idx is not None:
            want = sp.hydrostatic(cast['z'], cast['T'], cast['S'])[idx]
            got = idata[:, 1 + fnames.index('pressure')]
            if not close_arr(got, want):
                viol('pressure-not-hydrostatic', 'integrated pressure of the constructed profile is not the hydrostatic integral from atmospheric pressure',
                     dict(small, got_first=got[:3].tolist(), expected_first=want[:3].tolist()), full)
    if stab and 'pressure' in fnames:
        iT, iS = 1 + fnames.index('temperature'), 1 + fnames.index('salinity')
        judge_density(ctx, viol, np.column_stack([idata[:, 0], idata[:, iT], idata[:, iS]]), small, full)
    # ---- unit labels ----------------------------------------------------------------------------------
    ctx.count('pred:units')
    want_u = expected_units(cast)
    got_u = dict(zip(fnames, [str(x) for x in p.f_units]))
    wrong = {nm: (got_u.get(nm), want_u[nm]) for nm in fnames if nm in want_u and got_u.get(nm) != want_u[nm]}
    if wrong:
        before = names[1:] + ([] if 'pressure' in names else ['pressure'])      # variable order before xr_stabilize_dataset
        unpermuted = [want_u[nm] for nm in before]
        if stab and fnames != before and [str(x) for x in p.f_units] == unpermuted:
            viol('stabilize-units-not-permuted', 'after stabilisation the unit labels are those of the variable order BEFORE the columns were reordered',
                 dict(small, f_names=fnames, f_units=[str(x) for x in p.f_units], order_before=before, wrong=wrong), full)
        else:
            viol('profile-units-wrong', 'a stored variable carries the wrong unit label', dict(small, wrong=wrong, f_names=fnames), full)
    return idata, fnames


def profile_cases(ctx, rng, b, viol, cast, origin, workdir):
    """real Profile construction through every input form that can express the cast: the predicates, the Lean
    pipeline, and the adapters TEST"""
    err = pick_err(rng)
    stab = rng.random() < 0.6
    canonical = cast['order'] == sp.cast_table(cast)[1][1:]
    ctx.count('order:canonical' if canonical else 'order:non-canonical')
    if cast['P'] is None:
        ctx.count('cast:no-pressure' + ('+extras' if cast['extra'] else ''))
    good = {}
    sent = set()
    for route in sp.all_routes(cast):
        ctx.evaluations += 1
        with quiet():
            try:
                bt = sp.build_profile(cast, route, workdir, err=err, stabilize=stab)
                exc = None
            except sp.NotApplicable:
                continue
            except Exception as e:
                bt, exc = None, e
        ctx.count('route:' + route)
        std, names, _u = sp.standard_table(cast, dataset_order=(route != 'array'))
        o2 = dict(origin, route=route, err=err, stab=stab)
        if exc is not None:
            ctx.count('construct-raised:%s:%s' % (route, type(exc).__name__))
            small = {'function': 'ambient.Profile', 'route': route, 'err': err, 'stabilize_profile': stab, 'variable_order': names[1:],
                     'raised': '%s: %s' % (type(exc).__name__, str(exc)[:200]), 'origin': origin}
            full = lambda: {'data_in_standard_units': tab(std), 'names': names}
            if cast['P'] is None and route in ('xarray', 'ncfile', 'ncdataset') and isinstance(exc, KeyError) and 'pressure' in str(exc):
                viol('missing-pressure-keyerror', 'Profile(%s without a pressure variable) raises KeyError instead of integrating the pressure '
                     '(BaseProfile on the same dataset integrates it)' % route, small, full)
            else:
                viol('construct-raised:%s:%s' % (route, type(exc).__name__), 'constructing a profile from a valid cast raised', small, full)
            continue
        res = judge_profile(ctx, viol, bt.profile, route, cast, std, names, err, stab, origin)
        if res is not None:
            good[route] = (res[0], res[1], float(bt.profile.z_min), float(bt.profile.z_max))
            # ---- Lean pipeline on the same (unit-converted) table, once per distinct variable order ----------
            if tuple(names) not in sent:
                sent.add(tuple(names))
                ctx.nontrivial.add(('construct', std.shape, tuple(names), round(err, 6), stab))
                b.add('construct', req('Profile.construct', std.shape[1], std, ','.join(names[1:]), err, 1 if stab else 0),
                      {'real': res[0], 'names': res[1], 'zmin': float(bt.profile.z_min), 'zmax': float(bt.profile.z_max), 'raised': None,
                       'origin': o2, 'near_tie': near_tie(std[:, 1 + names[1:].index('temperature')], std[:, 1 + names[1:].index('salinity')])})
        bt.close()
    # ---- adapters TEST: every pair of input forms stores bit-for-bit the same columns (compared BY NAME) ----
    rs = list(good)
    for r in rs[1:]:
        ctx.count('pred:adapters')
        d0, n0, zmin0, zmax0 = good[rs[0]]
        d1, n1, zmin1, zmax1 = good[r]
        ok = sorted(n0) == sorted(n1) and d0.shape == d1.shape and same(d0[:, 0], d1[:, 0]) and zmin0 == zmin1 and zmax0 == zmax1 \
            and all(same(d0[:, 1 + n0.index(nm)], d1[:, 1 + n1.index(nm)]) for nm in n0)
        if not ok:
            viol('adapter-mismatch:%s-vs-%s' % (r, rs[0]), 'the same cast supplied in two input forms gives different profiles',
                 {'routes': [rs[0], r], 'err': err, 'stabilize_profile': stab, 'origin': origin, 'names': [n0, n1],
                  'shapes': [list(d0.shape), list(d1.shape)]}, lambda: {'first': tab(d0), 'second': tab(d1)})


def dataset_meaning(ds, names):
    """the values a Dataset stands for, in standard units: value * factor + offset under the label each variable carries NOW"""
    cols = [sp.from_units(np.array(ds.coords[names[0]].values, dtype=float), str(ds.coords[names[0]].attrs['units']))]
    for nm in names[1:]:
        cols.append(sp.from_units(np.array(ds[nm].values, dtype=float), str(ds[nm].attrs['units'])))
    return np.column_stack(cols)


def same_object_case(ctx, rng, b, viol, origin, workdir):
    """the way a user script does it: ONE numpy table (in units that need converting) and ONE xarray Dataset built from it
    (views, no copies) are handed to Profile() through every input form, in random order, some forms twice — nothing is
    copied between the constructions.  (1) the caller's data must be unchanged after every construction, (2) all forms and
    (3) repeated constructions must give the same profile, which (4) must hold rows of the (independently converted) input."""
    cast = sp.make_cast(rng, 3, 400, with_pressure=True, n_extra=rng.choice([1, 1, 2, 3]), convert=True, shuffle_order=0.0)
    err = pick_err(rng)
    stab = rng.random() < 0.6
    data, names, units = sp.cast_table(cast)              # the caller's table
    data0 = data.copy()                                   # (kept by the harness only to judge)
    std0 = np.column_stack([sp.from_units(data0[:, j], units[j]) for j in range(data0.shape[1])])
    ds = sp.make_xarray(data, names, units, copy=False)   # the caller's Dataset: views of the same table
    seq = ['array', 'xarray', 'ncdataset', 'ncfile', 'array', 'xarray']
    rng.shuffle(seq)
    ctx.count('pred:same-object')
    small = {'function': 'ambient.Profile', 'sequence': seq, 'units': units, 'err': err, 'stabilize_profile': stab,
             'origin': dict(origin, cast=cast['meta'])}
    full = lambda: {'caller_table_before': tab(data0), 'names': names}
    first = None
    for k, route in enumerate(seq):
        ctx.evaluations += 1
        ctx.count('same-object:' + route)
        with quiet():
            try:
                bt = sp.build_from_object(ds if route == 'xarray' else data, names, units, route, workdir, err=err, stabilize=stab)
            except Exception as e:
                viol('construct-raised:same-object:%s:%s' % (route, type(e).__name__), 'constructing a profile from the caller\'s own object raised',
                     dict(small, position=k, raised='%s: %s' % (type(e).__name__, str(e)[:160])), full)
                continue
        p = bt.profile
        idata, fnames = np.array(p.interp_data, dtype=float), [str(x) for x in p.f_names]
        zr = (float(p.z_min), float(p.z_max))
        bt.close()
        # (1) the caller's table, bit for bit; the caller's Dataset: what it MEANS (tamoc converts the Dataset it is handed in
        #     place, values and labels together — counted, reported separately)
        if not same(data, data0):
            j = int(np.argwhere(~((data == data0) | (np.isnan(data) & np.isnan(data0))))[0][1])
            viol('construction-mutates-input:' + route, 'constructing a profile changed the caller\'s numpy table (its units list still names the old units)',
                 dict(small, position=k, column=names[j], unit=units[j], before=float(data0[0, j]), after=float(data[0, j])), full)
            data[:] = data0          # restore, so that every later form is judged on its own
        mean = dataset_meaning(ds, names)
        if not close_arr(mean, std0):
            viol('construction-mutates-input:%s:dataset' % route, 'constructing a profile changed what the caller\'s Dataset stands for (values no longer match their unit labels)',
                 dict(small, position=k), full)
        elif str(ds[names[1]].attrs['units']) != units[1]:
            ctx.count('observed:dataset-converted-in-place(values+labels)')
        # (4) rows of the independently converted input
        cols = [0] + [1 + fnames.index(nm) for nm in names[1:] if nm in fnames]
        if len(cols) != len(names) or match_rows(idata[:, cols], std0) is None:
            viol('profile-row-not-in-input', 'a stored row is not a row of the (unit-converted) input',
                 dict(small, position=k, route=route, first_stored_row=idata[0].tolist(), first_input_row=std0[0].tolist()), full)
        # (2), (3)
        if first is None:
            first = (route, idata, fnames, zr)
        else:
            r0, d0, n0, zr0 = first
            ok = sorted(n0) == sorted(fnames) and d0.shape == idata.shape and same(d0[:, 0], idata[:, 0]) and zr0 == zr \
                and all(same(d0[:, 1 + n0.index(nm)], idata[:, 1 + fnames.index(nm)]) for nm in n0)
            if not ok:
                viol(('rebuild-differs:' + route) if route == r0 else 'adapter-mismatch:%s-vs-%s' % (route, r0),
                     'the same object handed to Profile() again / in another input form gives a different profile',
                     dict(small, position=k, routes=[r0, route], first_rows=[d0[0].tolist(), idata[0].tolist()]), full)


def raw_record_profile(ctx, rng, viol, cast, origin):
    """raw record -> extract_profile -> Profile: stored depths must be strictly increasing"""
    from tamoc import ambient
    if cast['P'] is None:
        return
    raw, rnames, rdesc = sp.add_reversals(rng, cast, bottom=True)
    if raw.shape[0] < 4:
        return
    zstart = float(raw[0, 0]) + 1e-9
    with quiet():
        try:
            ctd = ambient.extract_profile(raw.copy(), z_col=0, z_start=zstart, p_col=3)
            p = ambient.Profile(np.array(ctd[:, :4]), err=0.0, stabilize_profile=False)
        except Exception as e:
            ctx.count('raw-record-raised:' + type(e).__name__)
            viol('raw-record-raised:' + type(e).__name__, 'extract_profile -> Profile raised on a valid raw record',
                 {'raised': '%s: %s' % (type(e).__name__, e), 'z_start': zstart, 'origin': dict(origin, record=rdesc)}, lambda: {'data': tab(raw)})
            return
    ctx.evaluations += 1
    ctx.count('pred:raw-record-profile')
    z = np.array(p.interp_data[:, 0])
    if not np.all(np.diff(z) > 0):
        pos = np.nonzero(~(np.diff(z) > 0))[0]
        i = int(pos[0])
        viol('extract-profile-keeps-reversed-row' if (len(pos) == 1 and i == len(z) - 2) else 'profile-depths-not-increasing',
             'stored depths of a profile built from extract_profile output are not strictly increasing: the last row is a sample of the up-cast',
             {'function': 'ambient.extract_profile -> ambient.Profile', 'stored_depths_around': z[max(0, i - 2):i + 3].tolist(),
              'position': i + 1, 'origin': dict(origin, record=rdesc)}, lambda: {'data': tab(raw)})


def negative_from_bottom_values(z, T, S):
    """exact signature of `profile-negative-surface-first-pressure`: negative depths stored surface-first; fs_loc is taken from
    argmin(z) = the DEEPEST level, so the recurrence starts at the bottom with P_atm + rho(T[0],S[0]) g |z_bottom| and
    subtracts on the way up"""
    from tamoc import seawater
    n = len(z)
    want = np.zeros(n)
    want[n - 1] = P_ATM + float(seawater.density(T[0], S[0], P_ATM)) * G * (-1) * z[n - 1]
    for i in range(n - 2, -1, -1):
        want[i] = want[i + 1] + float(seawater.density(T[i + 1], S[i + 1], want[i + 1])) * G * (z[i] - z[i + 1]) * (-1)
    return want


def convention_profile(ctx, rng, viol, cast, origin):
    """the other depth conventions THROUGH Profile(): negative depths (surface first / bottom first) and positive depths
    stored bottom-first, with and without a pressure column, stabilisation on/off"""
    from tamoc import ambient
    combo = rng.choice(['neg-surface-first', 'neg-bottom-first', 'pos-bottom-first'])
    with_p = rng.random() < 0.4
    stab = rng.random() < 0.35
    z, T, S = cast['z'], cast['T'], cast['S']
    Pphys = sp.hydrostatic(z, T, S)
    if combo == 'neg-surface-first':
        zz, TT, SS, PP = -z, T, S, Pphys
    elif combo == 'neg-bottom-first':
        zz, TT, SS, PP = -z[::-1], T[::-1], S[::-1], Pphys[::-1]
    else:
        zz, TT, SS, PP = z[::-1], T[::-1], S[::-1], Pphys[::-1]
    if zz[0] == 0.0:
        zz = zz + 0.0          # (no negative zero)
    data = np.column_stack([zz, TT, SS] + ([PP] if with_p else []))
    label = '%s/%s/%s' % (combo, 'with-P' if with_p else 'no-P', 'stab' if stab else 'no-stab')
    ctx.count('convention:' + label)
    ctx.count('pred:convention')
    ctx.evaluations += 1
    small = {'function': 'ambient.Profile', 'convention': combo, 'pressure_supplied': with_p, 'stabilize_profile': stab,
             'levels': len(z), 'origin': origin}
    full = lambda: {'data': tab(data)}
    with quiet():
        try:
            p = ambient.Profile(np.array(data), err=0.0, stabilize_profile=stab)
            exc = None
        except Exception as e:
            p, exc = None, e
    if exc is not None:
        what = '%s: %s' % (type(exc).__name__, str(exc)[:160])
        without_stab = None
        if stab and np.any(zz < 0) and isinstance(exc, ValueError):
            with quiet():
                try:
                    ambient.Profile(np.array(data), err=0.0, stabilize_profile=False)
                    without_stab = 'constructs'
                except Exception as e2:
                    without_stab = type(e2).__name__
        if without_stab == 'constructs':
            # exact mechanism: only the stabilisation step fails, because stabilize() masks the rows with z < 0
            viol('stabilize-negative-depths-valueerror', 'Profile(negative depths, stabilize_profile=True) raises ValueError (the same data construct with '
                 'stabilize_profile=False): stabilize masks every row with z < 0 and then interpolates on / at the remaining depths', dict(small, raised=what), full)
        elif combo == 'neg-bottom-first' and not with_p and isinstance(exc, IndexError):
            viol('profile-negative-bottom-first-indexerror', 'Profile(negative depths stored bottom-first, no pressure) raises IndexError: fs_loc is taken '
                 'from argmin(z) (the deepest level) and compute_pressure(z<0, fs_loc=0) runs off the end', dict(small, raised=what), full)
        else:
            viol('construct-raised:convention:%s:%s' % (label, type(exc).__name__), 'constructing a profile in a documented depth convention raised',
                 dict(small, raised=what), full)
        return
    idata = np.array(p.interp_data, dtype=float)
    zs = idata[:, 0]
    where = {float(v): i for i, v in enumerate(zz)}
    idx = [where.get(float(v)) for v in zs]
    if None in idx:
        viol('profile-row-not-in-input', 'a stored depth is not a depth of the input', small, full)
        return
    if not with_p:
        got = idata[:, 3]
        if not close_arr(got, PP[idx]):
            detail = dict(small, stored_pressure_first_rows=got[:4].tolist(), hydrostatic_first_rows=PP[idx][:4].tolist())
            bf = bottom_first_values(zz, TT, SS) if combo == 'pos-bottom-first' else None
            nb = negative_from_bottom_values(zz, TT, SS) if combo == 'neg-surface-first' else None
            if bf is not None and close_arr(got, bf[idx]):
                viol('pressure-bottom-first', 'positive depths stored bottom-first (fs_loc=-1): entries are read before they are computed', detail, full)
            elif nb is not None and close_arr(got, nb[idx]):
                viol('profile-negative-surface-first-pressure', 'Profile(negative depths stored surface-first, no pressure): fs_loc is taken from argmin(z), '
                     'the integration starts at the bottom; the surface pressure is not atmospheric', dict(detail, surface_pressure=float(got[0])), full)
            else:
                viol('pressure-not-hydrostatic', 'integrated pressure of the constructed profile is not the hydrostatic integral from atmospheric pressure',
                     detail, full)
    if not np.all(np.diff(zs) > 0):
        if np.all(np.diff(zs) < 0) and np.all(np.diff(zz) < 0) and idx == sorted(idx):
            viol('profile-keeps-descending-input-order', 'a cast supplied from the surface down in negative depths / from the bottom up in positive depths '
                 'is stored in that order: the stored depths are strictly DEcreasing', dict(small, stored_depths_first=zs[:3].tolist()), full)
        else:
            viol('profile-depths-not-increasing', 'stored depths are not strictly increasing', small, full)


def run(ctx, lean_ok):
    os.makedirs(SCRATCH, exist_ok=True)
    workdir = tempfile.mkdtemp(prefix='c14_', dir=SCRATCH)
    try:
        _run(ctx, lean_ok, workdir)
    finally:
        shutil.rmtree(workdir, ignore_errors=True)


def _run(ctx, lean_ok, workdir):
    from tamoc import ambient
    viol = V(ctx)
    b = Batch(ctx, lean_ok)
    # the reproduced 4-level cast of DESIGN §5-D5 (light deepest level) is always part of the run
    with quiet():
        s = ambient.stabilize(D5_CAST.copy())
    pred_stabilize(ctx, viol, D5_CAST, s, {'cast': 'fixed 4-level cast with a light deepest level'})
    b.add('stabilize', req('Profile.stabilize', 4, D5_CAST), {'k': 4, 'shape': D5_CAST.shape, 'real': s,
                                                             'origin': 'fixed 4-level cast', 'near_tie': False})
    ncast = ctx.n(60, 700)
    for ci in range(ncast):
        rng = random.Random(ctx.rng.getrandbits(60))
        # the first casts force the rarer configurations so that every quick run meets the floors
        force = {0: dict(with_pressure=False, n_extra=2, shuffle_order=1.0), 1: dict(with_pressure=True, n_extra=3, shuffle_order=1.0),
                 2: dict(with_pressure=False, n_extra=0), 3: dict(with_pressure=True, n_extra=2, shuffle_order=1.0, z_top=7.5)}.get(ci, {})
        cast = sp.make_cast(rng, 3, 2000, nop_extras=True, shuffle_order=force.pop('shuffle_order', 0.5), **force)
        origin = {'cast': cast['meta']}
        ctx.count('levels:%s' % ('3-9' if len(cast['z']) < 10 else '10-99' if len(cast['z']) < 100 else '100-999' if len(cast['z']) < 1000 else '1000-2000'))
        function_cases(ctx, rng, b, viol, cast, origin)
        profile_cases(ctx, rng, b, viol, cast, origin, workdir)
        if ci % 3 == 0:
            same_object_case(ctx, rng, b, viol, origin, workdir)
        if rng.random() < 0.5:
            raw_record_profile(ctx, rng, viol, cast, origin)
        if rng.random() < 0.5 or ci < 12:
            convention_profile(ctx, rng, viol, cast, origin)
        if ci < 4:
            ctx.sample({'levels': cast['meta']['levels'], 'extra': cast['meta']['extra'], 'units': cast['meta']['units'],
                        'variable_order': cast['meta']['variable_order'], 'inversion_rows': cast['meta']['inversion_rows'][:6],
                        'with_pressure': cast['meta']['with_pressure']})
    b.flush()
    if lean_ok:
        names = {'coarsen': 'Model.Profile.coarsen == ambient.coarsen (rows bit for bit)',
                 'stabilize': 'Model.Profile.stabilize == ambient.stabilize (row selection exact, rel %g)' % TOL['gen_vs_source'],
                 'pressure': 'Model.Profile.computePressure == ambient.compute_pressure (all four conventions, incl. raising; rel %g)' % TOL['gen_vs_source'],
                 'extract': 'Model.Profile.extractProfile == ambient.extract_profile (rows bit for bit, incl. raising)',
                 'construct': 'Model.Profile.construct == ambient.Profile(...).interp_data / f_names / z_min / z_max, canonical and non-canonical variable order, with and without pressure (rel %g)' % TOL['gen_vs_source']}
        for kind, nm in names.items():
            n, bad = b.stats.get(kind, [0, 0])
            ctx.oblige('correspondence %s on %d cases' % (nm, n), bad == 0 and n > 0, '%d disagreements' % bad)
    ctx.oblige('TEST input adapters: same cast through array / xarray / netCDF file / open netCDF dataset (/ BaseProfile) stores bit-identical columns by name, depths, z-range (%d comparisons)'
               % ctx.hist.get('pred:adapters', 0),
               not any(v['key'].startswith('adapter-mismatch') for v in ctx.violations) and ctx.hist.get('pred:adapters', 0) > 0,
               'see violations')
    # ---- floors: the run must have exercised every function, input form, convention and the rarer configurations ----
    h = ctx.hist
    floors = [('pred:coarsen', 40), ('pred:stabilize', 40), ('pred:pressure:pos-asc', 40), ('pred:pressure:neg-asc', 40),
              ('pred:pressure:pos-desc', 3), ('pred:pressure:neg-desc', 3), ('pred:extract', 40), ('pred:extract-surface-row', 3),
              ('pred:profile', 100), ('pred:units', 100), ('pred:adapters', 60), ('pred:convention', 20), ('pred:raw-record-profile', 5),
              ('coarsen:dropped-rows', 8), ('stabilize:dropped-rows', 8), ('order:non-canonical', 8), ('cast:no-pressure+extras', 1),
              ('cast:no-pressure', 3), ('pred:same-object', max(1, (ncast + 2) // 3)), ('same-object:array', 30), ('same-object:xarray', 30),
              ('same-object:ncfile', 15), ('same-object:ncdataset', 15)] + [('route:' + r, 15) for r in ('array', 'xarray', 'ncfile', 'ncdataset', 'baseprofile')]
    low = [(k, h.get(k, 0), f) for k, f in floors if h.get(k, 0) < f]
    ctx.oblige('coverage floors: every function, input form, depth convention and rare configuration exercised (%d counters)' % len(floors),
               not low, 'below floor (counter, seen, floor): %r' % low)
