"""
C14 — Profile construction gives a monotone, hydrostatic, stable column.

proof        : TamocV/Props/C14.lean over TamocV/Model/Profile.lean (coarsen, stabilize, computePressure,
               extractProfile, construct)
tie          : (H) real ambient.coarsen / stabilize / compute_pressure / extract_profile and real
               ambient.Profile(...) construction against the Lean model through the driver on the same
               arrays (row selection exact, floats 1e-11); seawater density in the model is the definition
               regenerated from seawater.py
real code    : the property predicates on the real outputs (sub-list, first/last kept, strict increase,
               error bound with the code's zero rule, potential density non-decreasing, hydrostatic
               recurrence, atmospheric surface value) + TEST of the four input adapters (same cast through
               array / xarray / netCDF file / open netCDF dataset, interp_data compared bit for bit)
"""
import io
import os
import math
import random
import shutil
import tempfile
import contextlib
import numpy as np
from common import req, close, TOL, run_driver
import scen_profile as sp

META = {
    'text': 'Theorems (Lean 4, over the reals, all inputs, every seawater-density function): coarsen output = the kept rows, each followed in the input by a run of dropped rows that are within err of it in every variable (relative to the dropped value, exactly-zero entries exempt as in the code), it is a sub-list, keeps first and last row and preserves strict increase of depth; in its domain stabilize returns exactly the rows selected by its mask (re-interpolating T,S of kept rows from kept rows changes nothing, by the C07 node theorem), keeps first and last row, and the potential density of all kept rows EXCEPT THE LAST is non-decreasing; compute_pressure returns atmospheric pressure (plus the weight above the first level) at the surface and the recurrence P[i+1]=P[i]+rho(T[i],S[i],P[i])*g*dz, increasing when rho>0, for positive depths/surface first and for negative depths/surface last; extract_profile returns a contiguous block of input rows plus at most one surface row. Proved counterexamples: stabilize does not test the deepest row; extract_profile keeps the first reversed sample; compute_pressure is wrong/raises for the two other documented (sign, fs_loc) combinations. The model is tied to the real functions and to real Profile construction by differential execution; the predicates are evaluated on the real outputs.',
    'note': 'Trusted: Lean kernel + 3 standard axioms; Model/Profile.lean is a hand transcription tied by differential execution (tolerance 1e-11, row selection exact; a selection that differs only because two densities are equal to 1e-11 is counted, not judged); seawater density in the model = Gen.SeawaterPy regenerated from seawater.py; real arithmetic as stand-in for doubles. The four input adapters are I/O glue: NOT modelled, checked by a TEST (same synthetic cast through all four forms, interp_data bit for bit). Unit conversion itself belongs to C15; here the harness applies value*factor+offset. stabilize_monotone is PARTIAL (all but the deepest row) because the full statement is false of model and code.',
    'technique': 'Lean 4 proof over a hand model + differential execution against the real functions and real Profile construction; adapters by test',
}
GEN = ['seawater']
MODULES = ['TamocV.Props.C14', 'TamocV.Gen.SeawaterPy', 'TamocV.Model.Profile']
RULE = ('synthetic casts of 3-2000 levels (log-uniform + edge sizes), thermocline/halocline shapes with noise 0-5%, 0-5 warm/fresh parcels anywhere and (25%) a light deepest level, '
        '0-6 extra variables with exact zeros, pressure supplied or not, recognised unit systems; err in {0} U [1e-6,0.5]; stabilisation on/off; coarsen / stabilize / compute_pressure '
        '(all four documented (sign of depth, fs_loc) combinations) / extract_profile (raw records with a surface yo-yo and an up-cast, any depth column, p_col or None, z_start) called '
        'directly, and Profile(...) built through array / xarray / netCDF file / open netCDF dataset; a case is non-trivial when (function, levels, columns, err, options) is new')
LEVEL_NOTE = ('theorems over the reals about a hand-written model of coarsen / stabilize / compute_pressure / extract_profile, tied to the real code by differential execution '
              '(tolerance 1e-11, exact row selection); the format adapters are covered by a test only')
SCRATCH = '/root/scratch/c07'
P_ATM = 101325.0
G = 9.81


def audit_files():
    return ['TamocV/Num.lean', 'TamocV/Real.lean', 'TamocV/Model/Profile.lean', 'TamocV/Lemmas/C07.lean',
            'TamocV/Lemmas/C14.lean', 'TamocV/Props/C07.lean', 'TamocV/Props/C14.lean', 'TamocV/Gen/SeawaterPy.lean']


@contextlib.contextmanager
def quiet():
    import warnings
    with contextlib.redirect_stdout(io.StringIO()), warnings.catch_warnings(), np.errstate(all='ignore'):
        warnings.simplefilter('ignore')
        yield


def same(a, b):
    a, b = np.asarray(a, dtype=float), np.asarray(b, dtype=float)
    return a.shape == b.shape and bool(np.all((a == b) | (np.isnan(a) & np.isnan(b))))


def close_arr(a, b):
    a, b = np.asarray(a, dtype=float), np.asarray(b, dtype=float)
    if a.shape != b.shape:
        return False
    if same(a, b):
        return True
    return all(close(float(x), float(y), TOL['gen_vs_source']) for x, y in zip(a.ravel(), b.ravel()))


def sigma_theta(T, S):
    from tamoc import seawater
    return np.array([float(seawater.density(t, s, P_ATM)) for t, s in zip(T, S)])


class V:
    """violations: the full arrays go only into the first case of each key (the one that is replayed)"""
    def __init__(self, ctx):
        self.ctx = ctx
        self.seen = set()

    def __call__(self, key, what, small, full=None):
        case = dict(small)
        if key not in self.seen:
            self.seen.add(key)
            if full:
                case.update(full() if callable(full) else full)
        self.ctx.violation(key, what, case)


def tab(a, cap=400):
    a = np.asarray(a, dtype=float)
    return a.tolist() if a.shape[0] <= cap else {'first_rows': a[:5].tolist(), 'last_rows': a[-5:].tolist(), 'shape': list(a.shape)}


# ---------------------------------------------------------------------------------------------
# predicates on real outputs
# ---------------------------------------------------------------------------------------------

def match_rows(out, inp):
    """indices of the input rows the output rows are (in order), or None"""
    idx = []
    j = 0
    n = inp.shape[0]
    for r in out:
        while j < n and not same(inp[j], r):
            j += 1
        if j >= n:
            return None
        idx.append(j)
        j += 1
    return idx


def pred_coarsen(ctx, viol, raw, err, out, origin):
    ctx.count('pred:coarsen')
    ctx.evaluations += int(raw.shape[0])          # every row is judged (kept / dropped-within-err)
    small = {'function': 'ambient.coarsen', 'err': err, 'shape': list(raw.shape), 'origin': origin}
    full = lambda: {'raw': tab(raw), 'returned': tab(out)}
    idx = match_rows(out, raw)
    if idx is None:
        viol('coarsen-row-not-in-input', 'a retained row is not a row of the input (or rows were reordered)', small, full)
        return
    n = raw.shape[0]
    if not idx or idx[0] != 0 or idx[-1] != n - 1:
        viol('coarsen-first-last', 'first / last input row not kept', dict(small, kept_first_last=[idx[0] if idx else None, idx[-1] if idx else None]), full)
    if np.all(np.diff(raw[:, 0]) > 0) and not np.all(np.diff(out[:, 0]) > 0):
        viol('coarsen-depth-order', 'strictly increasing depths not preserved', small, full)
    # every dropped row within err of the preceding kept row (relative to the dropped value; zeros exempt)
    base = np.zeros(n, dtype=int)
    kept = np.zeros(n, dtype=bool)
    kept[idx] = True
    last = 0
    for i in range(n):
        if kept[i]:
            last = i
        base[i] = last
    d = raw[:, 1:]
    b = raw[base][:, 1:]
    with np.errstate(all='ignore'):
        ea = np.abs((d - b) / d)
    bad = (~kept)[:, None] & (d != 0.0) & ~(ea <= err)
    if bad.any():
        i, k = [int(x) for x in np.argwhere(bad)[0]]
        viol('coarsen-error-bound', 'a dropped row differs from the preceding kept row by more than err',
             dict(small, dropped_row=i, kept_row=int(base[i]), column=k + 1, value=float(raw[i, k + 1]),
                  kept_value=float(raw[base[i], k + 1]), relative=float(ea[i, k])), full)


def pred_stabilize(ctx, viol, raw, out, origin):
    ctx.count('pred:stabilize')
    ctx.evaluations += int(raw.shape[0])
    small = {'function': 'ambient.stabilize', 'shape': list(raw.shape), 'origin': origin}
    full = lambda: {'raw': tab(raw), 'returned': tab(out)}
    idx = match_rows(out, raw)
    if idx is None:
        viol('stabilize-row-not-in-input', 'a retained row is not a row of the input', small, full)
    elif not idx or idx[0] != 0 or idx[-1] != raw.shape[0] - 1:
        viol('stabilize-first-last', 'first / last row not kept', small, full)
    judge_density(ctx, viol, out, small, full)


def judge_density(ctx, viol, out, small, full):
    """potential density of the stored rows must not decrease with depth"""
    rho = sigma_theta(out[:, 1], out[:, 2])
    dec = np.nonzero(rho[1:] < rho[:-1])[0]
    for i in dec:
        if i + 1 == len(rho) - 1:
            ctx.count('found:stabilize-last-row')
            viol('stabilize-last-row', 'potential density decreases at the deepest stored level: stabilize never tests the last row',
                 dict(small, levels=int(out.shape[0]), rho_above=float(rho[i]), rho_deepest=float(rho[i + 1]),
                      last_rows=out[-3:, :4].tolist()), full)
        else:
            viol('stabilize-not-monotone', 'potential density decreases with depth above the deepest level',
                 dict(small, row=int(i + 1), rho_above=float(rho[i]), rho=float(rho[i + 1])), full)


def phys_order(z, T, S, P, combo):
    """(depth>=0 ascending, T, S, P) in physical order from the surface down"""
    if combo in ('pos-asc',):
        return z, T, S, P
    if combo == 'pos-desc':
        return z[::-1], T[::-1], S[::-1], P[::-1]
    if combo == 'neg-asc':          # -1500 … 0
        return -z[::-1], T[::-1], S[::-1], P[::-1]
    return -z, T, S, P              # neg-desc: 0 … -1500


def pred_pressure(ctx, viol, z, T, S, fs, combo, P, raised, origin):
    from tamoc import seawater
    ctx.count('pred:pressure:' + combo)
    ctx.evaluations += len(z)
    small = {'function': 'ambient.compute_pressure', 'convention': combo, 'fs_loc': fs, 'levels': len(z), 'origin': origin}
    full = lambda: {'z': tab(z), 'T': tab(T), 'S': tab(S), 'returned': None if P is None else tab(P)}
    key = {'pos-desc': 'pressure-bottom-first', 'neg-desc': 'pressure-negative-surface-first'}.get(combo, 'pressure-not-hydrostatic')
    if raised is not None:
        viol(key, 'compute_pressure raised %s for a documented (depth sign, fs_loc) combination' % raised, small, full)
        return
    d, Tp, Sp, Pp = phys_order(z, T, S, P, combo)
    n = len(d)
    if d[0] == 0.0:
        if Pp[0] != P_ATM:
            viol(key, 'surface pressure is not atmospheric', dict(small, surface_pressure=float(Pp[0])), full)
            return
    else:
        rho0 = sigma_theta(Tp, Sp)
        lo, hi = P_ATM + 0.99 * rho0.min() * G * d[0], P_ATM + 1.01 * rho0.max() * G * d[0]
        if not (lo <= Pp[0] <= hi):
            viol(key, 'pressure at the first level is not atmospheric pressure plus the weight of the water above it',
                 dict(small, first_level=float(d[0]), pressure=float(Pp[0]), admissible=[lo, hi]), full)
            return
    for i in range(n - 1):
        want = Pp[i] + float(seawater.density(Tp[i], Sp[i], Pp[i])) * G * (d[i + 1] - d[i])
        if not close(float(Pp[i + 1]), float(want), TOL['gen_vs_source']):
            viol(key, 'pressure is not the hydrostatic recurrence P[i+1] = P[i] + rho(T[i],S[i],P[i]) g dz',
                 dict(small, level=i + 1, depth=float(d[i + 1]), pressure=float(Pp[i + 1]), expected=float(want)), full)
            return
        if not Pp[i + 1] > Pp[i]:
            viol(key, 'pressure does not increase with depth', dict(small, level=i + 1), full)
            return


def pred_extract(ctx, viol, raw, zc, zstart, pc, out, raised, origin):
    ctx.count('pred:extract')
    small = {'function': 'ambient.extract_profile', 'z_col': zc, 'z_start': zstart, 'p_col': pc, 'samples': int(raw.shape[0]), 'origin': origin}
    full = lambda: {'data': tab(raw), 'returned': None if out is None else tab(out)}
    if raised is not None:
        ctx.count('extract-raised:' + raised)
        return
    z = out[:, zc]
    if not np.all(np.diff(z) > 0):
        pos = np.nonzero(~(np.diff(z) > 0))[0]
        i = int(pos[0])
        if len(pos) == 1 and i == len(z) - 2:
            # the recorded finding: exactly the LAST returned row is a sample of the up-cast
            viol('extract-profile-keeps-reversed-row', 'depths returned by extract_profile are not strictly increasing: the last returned row is a sample of the up-cast',
                 dict(small, returned_depths_around=z[max(0, i - 2):i + 3].tolist(), position=i + 1, returned_levels=int(len(z))), full)
        else:
            viol('extract-profile-not-monotone', 'depths returned by extract_profile are not strictly increasing (other than at the last row)',
                 dict(small, returned_depths_around=z[max(0, i - 2):i + 3].tolist(), positions=[int(x) + 1 for x in pos[:5]], returned_levels=int(len(z))), full)
    if out.shape[0] > 1 and z[0] == 0.0 and not any(same(out[0], r) for r in raw):
        # synthetic surface row: depth 0, atmospheric pressure, everything else copied from the next row
        want = out[1].copy()
        want[zc] = 0.0
        if pc is not None:
            want[pc] = P_ATM
        ctx.count('pred:extract-surface-row')
        if not same(out[0], want):
            viol('extract-profile-surface-row', 'the row added at the free surface is not (depth 0, atmospheric pressure, values of the first sample)',
                 dict(small, surface_row=out[0].tolist(), first_sample=out[1].tolist()), full)
    def block(body):
        m = body.shape[0]
        return any(same(raw[s0:s0 + m], body) for s0 in range(raw.shape[0] - m + 1))
    if not (block(out) or (out.shape[0] > 1 and z[0] == 0.0 and block(out[1:]))):
        viol('extract-profile-rows-not-input', 'rows returned by extract_profile are not a contiguous block of the input (plus at most one surface row)', small, full)


# ---------------------------------------------------------------------------------------------
# cases
# ---------------------------------------------------------------------------------------------

def std_with_p(cast):
    data, names, _u = sp.standard_table(cast)
    if cast['P'] is None:
        P = sp.hydrostatic(cast['z'], cast['T'], cast['S'])
        data = np.column_stack([data[:, :3], P, data[:, 3:]])
        names = names[:3] + ['pressure'] + names[3:]
    return data, names


def pick_err(rng):
    return rng.choice([0.0, 0.01, 0.01, 0.5, 10 ** rng.uniform(-6, math.log10(0.5)), rng.uniform(0.0, 0.5)])


D5_CAST = np.array([[0.0, 290.0, 34.5, 101325.0], [50.0, 285.0, 35.0, 604000.0],
                    [100.0, 280.0, 35.2, 1107000.0], [150.0, 290.0, 30.0, 1609000.0]])


class Batch:
    def __init__(self, ctx, lean_ok):
        self.ctx, self.lean_ok = ctx, lean_ok
        self.lines, self.pending = [], []
        self.stats = {}

    def add(self, kind, line, info):
        self.lines.append(line)
        self.pending.append((kind, info))
        if len(self.lines) >= 250:
            self.flush()

    def bad(self, kind, name, detail):
        st = self.stats.setdefault(kind, [0, 0])
        st[1] += 1
        if st[1] <= 3:
            self.ctx.broken.append(('correspondence', name, detail))

    def flush(self):
        lines, pending = self.lines, self.pending
        self.lines, self.pending = [], []
        if not lines or not self.lean_ok:
            return
        out = run_driver(self.ctx, 'C14', lines)
        if out is None:
            return
        for (kind, info), o in zip(pending, out):
            self.stats.setdefault(kind, [0, 0])[0] += 1
            if not isinstance(o, list):
                self.bad(kind, kind, 'driver: %r' % (o,))
                continue
            judge_model(self, kind, info, o)


def judge_model(b, kind, info, o):
    ctx = b.ctx
    if kind == 'coarsen':
        m = np.array(o[0], dtype=float).reshape(-1, info['k'])
        if not same(m, info['real']):
            b.bad(kind, 'Model.coarsen vs ambient.coarsen', 'err=%r shape=%r model rows %d real rows %d (%s)'
                  % (info['err'], info['shape'], m.shape[0], info['real'].shape[0], info['origin']))
    elif kind == 'stabilize':
        m = np.array(o[0], dtype=float).reshape(-1, info['k'])
        if not close_arr(m, info['real']):
            if m.shape != info['real'].shape and info['near_tie']:
                ctx.count('stabilize:selection-differs-at-a-density-tie(not judged)')
            else:
                b.bad(kind, 'Model.stabilize vs ambient.stabilize', 'shape=%r model rows %d real rows %d (%s)'
                      % (info['shape'], m.shape[0], info['real'].shape[0], info['origin']))
    elif kind == 'pressure':
        if o[0] == 'raise':
            if info['raised'] is None:
                b.bad(kind, 'Model.computePressure vs ambient.compute_pressure', 'model raises, code returns (%s, %s)' % (info['combo'], info['origin']))
        elif info['raised'] is not None or not close_arr(np.array(o[1]), info['real']):
            b.bad(kind, 'Model.computePressure vs ambient.compute_pressure', '%s levels=%d code %s (%s)'
                  % (info['combo'], info['n'], 'raised ' + info['raised'] if info['raised'] else 'differs', info['origin']))
    elif kind == 'extract':
        if o[0] == 'raise':
            if info['raised'] is None:
                b.bad(kind, 'Model.extractProfile vs ambient.extract_profile', 'model raises, code returns (%s)' % info['origin'])
        else:
            m = np.array(o[1], dtype=float).reshape(-1, info['k'])
            if info['raised'] is not None or not same(m, info['real']):
                b.bad(kind, 'Model.extractProfile vs ambient.extract_profile', 'z_col=%r z_start=%r p_col=%r code %s (%s)'
                      % (info['zc'], info['zstart'], info['pc'], 'raised ' + info['raised'] if info['raised'] else 'differs', info['origin']))
    elif kind == 'construct':
        if o[0] == 'raise':
            if info['raised'] is None:
                b.bad(kind, 'Model.construct vs ambient.Profile', 'model raises, code constructs (%s)' % info['origin'])
            return
        if info['raised'] is not None:
            b.bad(kind, 'Model.construct vs ambient.Profile', 'code raised %s, model constructs (%s)' % (info['raised'], info['origin']))
            return
        _ok, k, rows, names, zmin, zmax, _crows, cnames = o
        m = np.array(rows, dtype=float).reshape(-1, k)
        good = (names.split(',') if names else []) == info['names'] and close_arr(m, info['real']) \
            and zmin == info['zmin'] and zmax == info['zmax'] and cnames == names
        if not good:
            if m.shape != info['real'].shape and info['near_tie']:
                ctx.count('construct:selection-differs-at-a-density-tie(not judged)')
            else:
                b.bad(kind, 'Model.construct vs ambient.Profile', 'model %r rows %r, real %r rows %r; z-range %r vs %r (%s)'
                      % (names, m.shape, info['names'], info['real'].shape, (zmin, zmax), (info['zmin'], info['zmax']), info['origin']))


def near_tie(T, S):
    rho = sigma_theta(T, S)
    run_max = np.maximum.accumulate(rho)
    d = np.abs(rho[1:] - run_max[:-1]) / rho[1:]
    return bool(np.any((d > 0) & (d < 1e-11)))


def function_cases(ctx, rng, b, viol, cast, origin):
    from tamoc import ambient
    data, names = std_with_p(cast)
    n, k = data.shape
    # ---- coarsen -----------------------------------------------------------------------------
    err = pick_err(rng)
    with quiet():
        out = ambient.coarsen(data.copy(), err)
    ctx.count('coarsen:err=0' if err == 0 else 'coarsen:err>0')
    ctx.count('coarsen:kept-all' if out.shape[0] == n else 'coarsen:dropped-rows')
    ctx.evaluations += 1
    ctx.nontrivial.add(('coarsen', n, k, round(err, 6)))
    pred_coarsen(ctx, viol, data, err, out, origin)
    b.add('coarsen', req('Profile.coarsen', k, data, err), {'k': k, 'err': err, 'shape': (n, k), 'real': out, 'origin': origin})
    # ---- stabilize (on the coarsened table, as the pipeline does, or on the full one) ---------
    sin = out if rng.random() < 0.6 else data
    with quiet():
        try:
            sout = ambient.stabilize(sin.copy())
            sraised = None
        except Exception as e:
            sraised = type(e).__name__
    ctx.evaluations += 1
    if sraised is not None:
        ctx.count('stabilize-raised:' + sraised)
    else:
        ctx.count('stabilize:dropped-rows' if sout.shape[0] < sin.shape[0] else 'stabilize:kept-all')
        ctx.nontrivial.add(('stabilize', sin.shape[0], k, cast['meta']['inverted_last']))
        pred_stabilize(ctx, viol, sin, sout, origin)
        b.add('stabilize', req('Profile.stabilize', k, sin), {'k': k, 'shape': sin.shape, 'real': sout, 'origin': origin,
                                                             'near_tie': near_tie(sin[:, 1], sin[:, 2])})
    # ---- compute_pressure, the four documented conventions -------------------------------------
    z, T, S = cast['z'], cast['T'], cast['S']
    combos = {'pos-asc': (z, T, S, 0), 'neg-asc': (-z[::-1], T[::-1], S[::-1], -1),
              'pos-desc': (z[::-1], T[::-1], S[::-1], -1), 'neg-desc': (-z, T, S, 0)}
    for combo in (['pos-asc', 'neg-asc'] + ([rng.choice(['pos-desc', 'neg-desc'])] if rng.random() < 0.5 else [])):
        zz, TT, SS, fs = [np.array(x, dtype=float) if not isinstance(x, int) else x for x in combos[combo]]
        with quiet():
            try:
                P = ambient.compute_pressure(zz.copy(), TT.copy(), SS.copy(), fs)
                raised = None
            except Exception as e:
                P, raised = None, type(e).__name__
        ctx.evaluations += 1
        ctx.nontrivial.add(('pressure', combo, n))
        pred_pressure(ctx, viol, zz, TT, SS, fs, combo, P, raised, origin)
        b.add('pressure', req('Profile.computePressure', zz, TT, SS, 1 if fs == -1 else 0),
              {'combo': combo, 'n': n, 'real': P, 'raised': raised, 'origin': origin})
    # ---- extract_profile on a raw record -------------------------------------------------------
    raw, rnames, rdesc = sp.add_reversals(rng, cast)
    kk = raw.shape[1]
    zc = rng.choice([0, 0, rng.randrange(kk)])
    perm = list(range(1, kk))
    perm.insert(zc, 0)
    rawp = raw[:, perm]
    pc = None
    if 'pressure' in rnames and rng.random() < 0.5:
        pc = perm.index(rnames.index('pressure'))
    zstart = rng.choice([50.0, 50.0, rng.uniform(0.0, 1.2) * float(np.max(raw[:, 0])), float(raw[0, 0])])
    with quiet():
        try:
            eout = np.array(ambient.extract_profile(rawp.copy(), z_col=zc, z_start=zstart, p_col=pc, P_atm=P_ATM), dtype=float)
            eraised = None
        except Exception as e:
            eout, eraised = None, type(e).__name__
    ctx.evaluations += 1
    ctx.count('extract:' + ('top-yoyo' if rdesc['top_yoyo'] else 'no-yoyo') + '+' + ('upcast' if rdesc['upcast'] else 'no-upcast'))
    ctx.nontrivial.add(('extract', raw.shape[0], kk, zc, pc is None, bool(rdesc['top_yoyo']), bool(rdesc['upcast'])))
    pred_extract(ctx, viol, rawp, zc, zstart, pc, eout, eraised, dict(origin, record=rdesc))
    b.add('extract', req('Profile.extractProfile', kk, rawp, zc, zstart, 0 if pc is None else pc + 1, P_ATM),
          {'k': kk, 'zc': zc, 'zstart': zstart, 'pc': pc, 'real': eout, 'raised': eraised, 'origin': origin})


def profile_cases(ctx, rng, b, viol, cast, origin, workdir):
    """real Profile construction: against the Lean pipeline, the predicates, and the adapters test"""
    err = pick_err(rng)
    stab = rng.random() < 0.6
    routes = sp.routes_for(cast)
    std, names, _units = sp.standard_table(cast)
    built = {}
    for route in routes:
        with quiet():
            try:
                built[route] = sp.build_profile(cast, route, workdir, err=err, stabilize=stab)
            except Exception as e:
                built[route] = e
    ctx.evaluations += len(routes)
    first = None
    for route in routes:
        bt = built[route]
        ctx.count('route:' + route)
        if isinstance(bt, Exception):
            ctx.count('construct-raised:%s:%s' % (route, type(bt).__name__))
            continue
        p = bt.profile
        idata = np.array(p.interp_data, dtype=float)
        if first is None:
            first = (route, idata, list(p.f_names), list(p.f_units), float(p.z_min), float(p.z_max))
            small = {'function': 'ambient.Profile', 'route': route, 'err': err, 'stabilize_profile': stab, 'origin': origin}
            full = lambda: {'data_in_standard_units': tab(std), 'names': names, 'interp_data': tab(idata)}
            # ---- predicates on the constructed profile ------------------------------------------
            ctx.count('pred:profile')
            if not np.all(np.diff(idata[:, 0]) > 0):
                viol('profile-depths-not-increasing', 'stored depths are not strictly increasing', small, full)
            cols = [0] + [1 + p.f_names.index(nm) for nm in names[1:]]
            sub = idata[:, cols]
            idx = match_rows(sub, std)
            if idx is None:
                viol('profile-row-not-in-input', 'a stored row is not a row of the (unit-converted) input', small, full)
            elif idx[0] != 0 or idx[-1] != std.shape[0] - 1:
                viol('profile-first-last', 'first / last input row not stored', small, full)
            if cast['P'] is None and idx is not None:
                want = sp.hydrostatic(cast['z'], cast['T'], cast['S'])[idx]
                got = idata[:, 1 + p.f_names.index('pressure')]
                if not close_arr(got, want):
                    viol('pressure-not-hydrostatic', 'integrated pressure of the constructed profile is not the hydrostatic integral from atmospheric pressure',
                         dict(small, got_first=got[:3].tolist(), expected_first=want[:3].tolist()), full)
            if stab:
                iT, iS = 1 + p.f_names.index('temperature'), 1 + p.f_names.index('salinity')
                judge_density(ctx, viol, np.column_stack([idata[:, 0], idata[:, iT], idata[:, iS]]), small, full)
            # ---- Lean pipeline on the same (unit-converted) table --------------------------------
            ctx.nontrivial.add(('construct', std.shape, round(err, 6), stab, cast['P'] is None))
            b.add('construct', req('Profile.construct', std.shape[1], std, ','.join(names[1:]), err, 1 if stab else 0),
                  {'real': idata, 'names': list(p.f_names), 'zmin': float(p.z_min), 'zmax': float(p.z_max), 'raised': None,
                   'origin': dict(origin, route=route, err=err, stab=stab), 'near_tie': near_tie(std[:, 1], std[:, 2])})
        else:
            # ---- adapters TEST: bit-for-bit the same profile ---------------------------------------
            ctx.count('pred:adapters')
            r0, d0, n0, u0, zmin0, zmax0 = first
            if not (same(d0, idata) and n0 == list(p.f_names) and u0 == list(p.f_units)
                    and zmin0 == float(p.z_min) and zmax0 == float(p.z_max)):
                viol('adapter-mismatch:%s-vs-%s' % (route, r0), 'the same cast supplied in two input forms gives different profiles',
                     {'routes': [r0, route], 'err': err, 'stabilize_profile': stab, 'origin': origin,
                      'names': [n0, list(p.f_names)], 'units': [u0, list(p.f_units)], 'shapes': [list(d0.shape), list(idata.shape)]},
                     lambda: {'data_in_standard_units': tab(std), 'names_in': names})
    if all(isinstance(built[r], Exception) for r in routes):
        # every form raised: compare with the model (which must raise too)
        b.add('construct', req('Profile.construct', std.shape[1], std, ','.join(names[1:]), err, 1 if stab else 0),
              {'real': None, 'names': None, 'zmin': None, 'zmax': None, 'raised': type(built[routes[0]]).__name__,
               'origin': dict(origin, err=err, stab=stab), 'near_tie': False})
    for bt in built.values():
        if not isinstance(bt, Exception):
            bt.close()


def raw_record_profile(ctx, rng, viol, cast, origin):
    """raw record -> extract_profile -> Profile: stored depths must be strictly increasing"""
    from tamoc import ambient
    raw, rnames, rdesc = sp.add_reversals(rng, cast, bottom=True)
    if 'pressure' not in rnames or raw.shape[0] < 4:
        return
    with quiet():
        try:
            ctd = ambient.extract_profile(raw.copy(), z_col=0, z_start=float(raw[0, 0]) + 1e-9, p_col=3)
            p = ambient.Profile(np.array(ctd[:, :4]), err=0.0, stabilize_profile=False)
        except Exception as e:
            ctx.count('raw-record-raised:' + type(e).__name__)
            return
    ctx.evaluations += 1
    ctx.count('pred:raw-record-profile')
    z = np.array(p.interp_data[:, 0])
    if not np.all(np.diff(z) > 0):
        pos = np.nonzero(~(np.diff(z) > 0))[0]
        i = int(pos[0])
        viol('extract-profile-keeps-reversed-row' if (len(pos) == 1 and i == len(z) - 2) else 'profile-depths-not-increasing',
             'stored depths of a profile built from extract_profile output are not strictly increasing: the last row is a sample of the up-cast',
             {'function': 'ambient.extract_profile -> ambient.Profile', 'stored_depths_around': z[max(0, i - 2):i + 3].tolist(),
              'position': i + 1, 'origin': dict(origin, record=rdesc)}, lambda: {'data': tab(raw)})


def bottom_first_profile(ctx, rng, viol, cast, origin):
    """positive depths stored bottom-first without pressure: _create_profile_from_xarray passes fs_loc=-1"""
    from tamoc import ambient
    z, T, S = cast['z'][::-1], cast['T'][::-1], cast['S'][::-1]
    with quiet():
        try:
            p = ambient.Profile(np.column_stack([z, T, S]), err=0.0, stabilize_profile=False)
        except Exception as e:
            ctx.count('bottom-first-raised:' + type(e).__name__)
            return
    ctx.evaluations += 1
    ctx.count('pred:bottom-first-profile')
    P = np.array(p.interp_data[:, 3])
    want = sp.hydrostatic(cast['z'], cast['T'], cast['S'])[::-1]
    if not close_arr(P, want):
        viol('pressure-bottom-first', 'Profile built from positive depths stored bottom-first: integrated pressure is not hydrostatic',
             {'function': 'ambient.Profile', 'levels': len(z), 'pressure_first_rows': P[:4].tolist(), 'expected_first_rows': want[:4].tolist(),
              'origin': origin}, lambda: {'z': tab(z), 'T': tab(T), 'S': tab(S)})


def run(ctx, lean_ok):
    os.makedirs(SCRATCH, exist_ok=True)
    workdir = tempfile.mkdtemp(prefix='c14_', dir=SCRATCH)
    try:
        _run(ctx, lean_ok, workdir)
    finally:
        shutil.rmtree(workdir, ignore_errors=True)


def _run(ctx, lean_ok, workdir):
    from tamoc import ambient
    viol = V(ctx)
    b = Batch(ctx, lean_ok)
    # the reproduced 4-level cast of DESIGN §5-D5 (light deepest level) is always part of the run
    with quiet():
        s = ambient.stabilize(D5_CAST.copy())
    pred_stabilize(ctx, viol, D5_CAST, s, {'cast': 'fixed 4-level cast with a light deepest level'})
    b.add('stabilize', req('Profile.stabilize', 4, D5_CAST), {'k': 4, 'shape': D5_CAST.shape, 'real': s,
                                                             'origin': 'fixed 4-level cast', 'near_tie': False})
    ncast = ctx.n(60, 700)
    for ci in range(ncast):
        rng = random.Random(ctx.rng.getrandbits(60))
        cast = sp.make_cast(rng, 3, 2000)
        origin = {'cast': cast['meta']}
        ctx.count('levels:%s' % ('3-9' if len(cast['z']) < 10 else '10-99' if len(cast['z']) < 100 else '100-999' if len(cast['z']) < 1000 else '1000-2000'))
        function_cases(ctx, rng, b, viol, cast, origin)
        profile_cases(ctx, rng, b, viol, cast, origin, workdir)
        if rng.random() < 0.5:
            raw_record_profile(ctx, rng, viol, cast, origin)
        if rng.random() < 0.15:
            bottom_first_profile(ctx, rng, viol, cast, origin)
        if ci < 4:
            ctx.sample({'levels': cast['meta']['levels'], 'extra': cast['meta']['extra'], 'units': cast['meta']['units'],
                        'inversion_rows': cast['meta']['inversion_rows'][:6], 'with_pressure': cast['meta']['with_pressure']})
    b.flush()
    if lean_ok:
        names = {'coarsen': 'Model.Profile.coarsen == ambient.coarsen (rows bit for bit)',
                 'stabilize': 'Model.Profile.stabilize == ambient.stabilize (row selection exact, rel %g)' % TOL['gen_vs_source'],
                 'pressure': 'Model.Profile.computePressure == ambient.compute_pressure (all four conventions, incl. raising; rel %g)' % TOL['gen_vs_source'],
                 'extract': 'Model.Profile.extractProfile == ambient.extract_profile (rows bit for bit, incl. raising)',
                 'construct': 'Model.Profile.construct == ambient.Profile(...).interp_data / f_names / z_min / z_max (rel %g)' % TOL['gen_vs_source']}
        for kind, nm in names.items():
            n, bad = b.stats.get(kind, [0, 0])
            ctx.oblige('correspondence %s on %d cases' % (nm, n), bad == 0 and n > 0, '%d disagreements' % bad)
    ctx.oblige('TEST input adapters: same cast through array / xarray / netCDF file / open netCDF dataset gives bit-identical interp_data, names, units, z-range (%d comparisons)'
               % ctx.hist.get('pred:adapters', 0),
               not any(v['key'].startswith('adapter-mismatch') for v in ctx.violations) and ctx.hist.get('pred:adapters', 0) > 0,
               'see violations')
    raised = {k: v for k, v in ctx.hist.items() if 'raised' in k}
    if raised:
        ctx.notes.append('calls that raised on the real code (counted; completion on valid input is C20): %r' % raised)
