"""
Seeded builders of stratified-plume scenarios for the checks that exercise
`tamoc.stratified_plume_model` / `tamoc.smp` (C06; importable by others).

Everything is described by a JSON-able *spec* (dict of plain floats / lists / strings) so
that a failing case can be written to a replay file and rebuilt exactly:

    spec = random_spec(rng, n_sol=1, n_inert=1, background=True)
    scen = build(spec)                      # Scenario: profile, particles, p, chem_names
    zi, yi, zo, yo = simulate(scen, maxit=1, delta_z=4.)     # short REAL simulation
    yi_obj, yo_obj = plume_objects(scen)    # real InnerPlume / OuterPlume objects
    nb = const_neighbor(z, y)               # interp1d that returns y at depth z

Nothing here edits /repo; the real code is imported from PYTHONPATH.
"""
import io
import copy
import contextlib
import warnings

import numpy as np

# compositions every soluble particle of one scenario shares (TAMOC's stratified plume model
# indexes `beta[j]`, `Cs[j]` of every soluble particle with the index of the common chemical list)
COMPOSITIONS = [
    ['methane'],
    ['methane', 'ethane'],
    ['methane', 'ethane', 'propane'],
    ['oxygen', 'nitrogen'],
    ['methane', 'carbon_dioxide'],
]

# compositions used for the classes that LIST a tracked compound they are released without (m0[j] == 0,
# `diss_indices[j]` False): e.g. the package's own oxygen bubble ['oxygen','nitrogen','argon'] with yk = [1,0,0]
STRIP_COMPOSITIONS = [
    ['oxygen', 'nitrogen', 'argon'],
    ['oxygen', 'nitrogen'],
    ['methane', 'ethane'],
    ['methane', 'ethane', 'propane'],
    ['methane', 'carbon_dioxide'],
]


# ---------------------------------------------------------------------------
# specs
# ---------------------------------------------------------------------------

def random_profile_spec(rng, chem_names, background, lack_ok=False):
    H = rng.choice([400., 800., 1500., 2000.])
    n = rng.choice([12, 25, 40])
    spec = {
        'H': H, 'n': n,
        'T_bot': 273.15 + rng.uniform(2., 6.), 'dT': rng.uniform(5., 20.), 'hT': rng.uniform(100., 500.),
        'S0': rng.uniform(33., 35.), 'dS': rng.uniform(0.2, 1.5), 'hS': rng.uniform(200., 800.),
        'background': {},
    }
    if background:
        # the profile stores its chemical columns in ITS OWN order: a permutation of the requested names that differs
        # from the request order whenever there are two or more, often a superset (a compound no particle contains),
        # sometimes lacking a requested name (`lack_ok`; tamoc then returns 0 for it)
        order = list(chem_names)
        if len(order) >= 2:
            while order == list(chem_names):
                rng.shuffle(order)
        if lack_ok and len(order) >= 2 and rng.random() < 0.3:
            order.pop(rng.randrange(len(order)))
        if rng.random() < 0.6:
            spare = [x for x in ('argon', 'propane', 'carbon_dioxide', 'nitrogen') if x not in chem_names]
            order.insert(rng.randrange(len(order) + 1), rng.choice(spare))
        for name in order:
            # kg/m^3; a surface value, a bottom value, linear in between
            spec['background'][name] = [10 ** rng.uniform(-6, -3), 10 ** rng.uniform(-6, -3)]
    return spec


def random_particle_spec(rng, soluble, composition, zero=()):
    """`zero`: indices of listed compounds the class is released without (mole fraction exactly 0)"""
    if soluble:
        nc = len(composition)
        yk = [0. if k in zero else rng.uniform(0.1, 1.) for k in range(nc)]
        tot = sum(yk)
        return {
            'soluble': True, 'composition': list(composition), 'fp_type': rng.choice([0, 0, 1]) if composition[0] != 'oxygen' else 0,
            'yk': [v / tot for v in yk], 'mb0': 10 ** rng.uniform(-2, -0.3), 'de': rng.uniform(0.001, 0.01),
            'lambda_1': rng.uniform(0.7, 1.0), 'K': rng.choice([1., 1., 0.5]), 'K_T': 1.,
            'fdis': 1e-6, 't_hyd': rng.choice([0., 0., 50.]), 'dT0': rng.choice([0., rng.uniform(-3., 8.)]),
        }
    return {
        'soluble': False, 'rho_p': rng.uniform(820., 950.), 'gamma': 30., 'beta': 0.0007, 'co': 2.9e-9,
        'isfluid': True, 'iscompressible': True,
        'mb0': 10 ** rng.uniform(-2, -0.3), 'de': rng.uniform(0.0005, 0.005), 'lambda_1': rng.uniform(0.7, 1.0),
        'K_T': 1., 'dT0': rng.choice([0., rng.uniform(-3., 8.)]),
    }


def random_spec(rng, n_sol, n_inert, background, composition=None, strip=None):
    """a scenario with `n_sol` soluble and `n_inert` inert particle classes in random order.

    strip = 'alone' | 'mixed': the first soluble class LISTS one or more tracked compounds it is released without
    (yk = 0, so m0[j] == 0 and `diss_indices[j]` is False) — it strips those gases from the plume water.  With
    'alone' it is the only soluble class; with 'mixed' (n_sol >= 2) the other soluble classes contain every
    compound, so one of them dissolves what the first one strips.  Recorded in spec['strip']."""
    if composition is None:
        composition = rng.choice(STRIP_COMPOSITIONS if strip else COMPOSITIONS)
    kinds = [True] * n_sol + [False] * n_inert
    rng.shuffle(kinds)
    chem_names = list(composition) if n_sol else []
    prof = random_profile_spec(rng, chem_names, background, lack_ok=not strip)
    z0 = rng.uniform(0.25, 0.8) * prof['H']
    zero = ()
    if strip:
        nc = len(composition)
        nz = rng.randint(1, nc - 1)
        zero = tuple(sorted(rng.sample(range(nc), nz)))
    particles = []
    first_sol = None
    for i, k in enumerate(kinds):
        if k and strip and first_sol is None:
            first_sol = i
            particles.append(random_particle_spec(rng, True, composition, zero=zero))
        else:
            particles.append(random_particle_spec(rng, k, composition))
    spec = {
        'profile': prof,
        'z0': z0,
        'R': rng.uniform(0.05, 0.3),
        'particles': particles,
    }
    if strip:
        spec['strip'] = {'mode': strip, 'class': first_sol, 'zero': list(zero)}
    return spec


# ---------------------------------------------------------------------------
# real objects from specs
# ---------------------------------------------------------------------------

class Scenario(object):
    """profile, particles (list of real PlumeParticle), p (real ModelParams), chem_names, K_T0"""
    pass


def profile_table(ps):
    """the raw table the harness hands to ambient.Profile, by name: {'z': nodes, 'temperature', 'salinity', 'pressure',
    <chemical>: column} — the reference for ambient values that does not go through the profile object's own name ->
    column bookkeeping.  The pressure column is the harness's own hydrostatic integration (explicit, from 1 atm at the
    surface, density of the layer above)."""
    from tamoc import seawater
    z = np.linspace(0., ps['H'], int(ps['n']))
    T = ps['T_bot'] + ps['dT'] * np.exp(-z / ps['hT'])
    Sal = ps['S0'] + ps['dS'] * (1. - np.exp(-z / ps['hS']))
    P = np.zeros(len(z))
    P[0] = 101325.0
    for i in range(1, len(z)):
        P[i] = P[i - 1] + float(seawater.density(T[i - 1], Sal[i - 1], P[i - 1])) * 9.81 * (z[i] - z[i - 1])
    tab = {'z': z, 'temperature': T, 'salinity': Sal, 'pressure': P}
    for name, (c_top, c_bot) in ps.get('background', {}).items():
        tab[name] = c_top + (c_bot - c_top) * z / ps['H']
    return tab


def table_value(tab, z, name):
    """linear interpolation of column `name` of the raw table at depth z (clamped to the table); 0 for a name the
    table lacks (what tamoc documents for unknown names)"""
    if name not in tab:
        return 0.
    zz = min(max(float(z), float(tab['z'][0])), float(tab['z'][-1]))
    return float(np.interp(zz, tab['z'], tab[name]))


def profile_from_spec(ps):
    """real ambient.Profile built from the raw table of `profile_table` (all four z,T,S,P columns handed in).  Built with
    err=0 and stabilize_profile=False so that the object interpolates exactly the nodes it was given (the generated
    casts are stably stratified: T decreases and S increases with depth), which lets the harness compare the object's
    look-ups with its own interpolation of the same table."""
    from tamoc import ambient
    tab = profile_table(ps)
    cols = [tab['z'], tab['temperature'], tab['salinity'], tab['pressure']]
    names, units = [], []
    for name in ps.get('background', {}):
        cols.append(tab[name])
        names.append(name)
        units.append('kg/m^3')
    data = np.vstack(cols).T
    with warnings.catch_warnings():
        warnings.simplefilter('ignore')
        if names:
            return ambient.Profile(data, ztsp=['z', 'temperature', 'salinity', 'pressure'],
                                   ztsp_units=['m', 'K', 'psu', 'Pa'], chem_names=names, chem_units=units,
                                   err=0., stabilize_profile=False)
        return ambient.Profile(data, ztsp=['z', 'temperature', 'salinity', 'pressure'],
                               ztsp_units=['m', 'K', 'psu', 'Pa'], err=0., stabilize_profile=False)


def particle_from_spec(profile, z0, s):
    from tamoc import dbm, stratified_plume_model
    T0 = float(profile.get_values(z0, 'temperature')[0]) + s.get('dT0', 0.)
    if s['soluble']:
        obj = dbm.FluidParticle(list(s['composition']), fp_type=int(s['fp_type']))
        return stratified_plume_model.particle_from_mb0(
            profile, z0, obj, np.array(s['yk'], dtype=float), s['mb0'], s['de'], s['lambda_1'], T0,
            K=s['K'], K_T=s['K_T'], fdis=s['fdis'], t_hyd=s['t_hyd'])
    obj = dbm.InsolubleParticle(bool(s['isfluid']), bool(s['iscompressible']), rho_p=s['rho_p'],
                                gamma=s['gamma'], beta=s['beta'], co=s['co'])
    return stratified_plume_model.particle_from_mb0(
        profile, z0, obj, np.array([1.]), s['mb0'], s['de'], s['lambda_1'], T0, K_T=s['K_T'])


def build(spec):
    from tamoc import stratified_plume_model, dispersed_phases
    sc = Scenario()
    sc.spec = spec
    sc.profile = profile_from_spec(spec['profile'])
    sc.table = profile_table(spec['profile'])
    sc.z0 = float(spec['z0'])
    sc.R = float(spec['R'])
    with warnings.catch_warnings():
        warnings.simplefilter('ignore')
        sc.particles = [particle_from_spec(sc.profile, sc.z0, s) for s in spec['particles']]
    sc.K_T0 = [pt.K_T for pt in sc.particles]
    sc.p = stratified_plume_model.ModelParams(sc.profile)
    sc.chem_names = dispersed_phases.get_chem_names(sc.particles)
    return sc


def reset_heat_transfer(sc):
    """`PlumeParticle.properties` switches `K_T` to 0 persistently once |Ta - T| < 0.5 K; the model
    restores it at the end of each iteration (`Model.simulate` l.249) — do the same between cases"""
    for pt, k in zip(sc.particles, sc.K_T0):
        pt.K_T = k


def quiet():
    return contextlib.redirect_stdout(io.StringIO())


class SimulationTimeout(Exception):
    pass


def simulate(sc, maxit=1, delta_z=4., toler=0.2, time_limit=None):
    """short REAL simulation; returns (zi, yi, zo, yo) and leaves the Model in sc.model.  `time_limit` (s, main thread
    only): raise SimulationTimeout when the integration does not finish (a simulation is only a source of states)"""
    import signal
    from tamoc import stratified_plume_model
    m = stratified_plume_model.Model(sc.profile)

    def on_alarm(signum, frame):
        raise SimulationTimeout('stratified plume simulation exceeded %g s' % time_limit)
    old_handler = None
    if time_limit:
        old_handler = signal.signal(signal.SIGALRM, on_alarm)
        signal.setitimer(signal.ITIMER_REAL, float(time_limit))
    try:
        with quiet(), warnings.catch_warnings(), np.errstate(all='ignore'):
            warnings.simplefilter('ignore')
            m.simulate(sc.particles, sc.z0, sc.R, maxit=maxit, toler=toler, delta_z=delta_z, plots=False)
    finally:
        if time_limit:
            signal.setitimer(signal.ITIMER_REAL, 0.)
            signal.signal(signal.SIGALRM, old_handler)
    sc.model = m
    reset_heat_transfer(sc)
    return m.zi, m.yi, m.zo, m.yo


def initial_inner_state(sc):
    """(z0, y0) of `smp.main_ic` — an inner state without running a simulation"""
    from tamoc import smp
    with quiet(), warnings.catch_warnings(), np.errstate(all='ignore'):
        warnings.simplefilter('ignore')
        z0, y0, chem_names = smp.main_ic(sc.profile, sc.particles, sc.p, sc.z0, sc.R)
    reset_heat_transfer(sc)
    return float(z0), np.array(y0, dtype=float)


def plume_objects(sc, z, y_inner, p=None):
    """real InnerPlume / OuterPlume objects the way `Model.simulate` l.191-196 builds them"""
    from tamoc import stratified_plume_model as spm
    p = sc.p if p is None else p
    with warnings.catch_warnings(), np.errstate(all='ignore'):
        warnings.simplefilter('ignore')
        yi = spm.InnerPlume(z, np.array(y_inner, dtype=float), sc.profile, sc.particles, p, sc.chem_names)
        yo = spm.OuterPlume(z, np.zeros(4 + yi.nchems), sc.profile, p, sc.chem_names, yi.b)
    reset_heat_transfer(sc)
    return yi, yo


def const_neighbor(z, y, above=False, span=1., below=False):
    """`interp1d` carrying the neighbour's solution, as `inner_main` / `outer_main` build it
    (l.1607, 1753): returns exactly `y` at depth `z`.  With `above=True` the tabulated depths lie
    entirely below `z`, so that `derivs_inner` takes its `z < min(neighbor.x)` branch."""
    from scipy.interpolate import interp1d
    y = np.asarray(y, dtype=float)
    if above:
        x = np.array([z + span, z + 2. * span])
    elif below:
        # tabulated depths entirely above z: `derivs_outer` takes its `z > max(neighbor.x)` branch (no inner plume)
        x = np.array([z - 2. * span, z - span])
    else:
        # z is the first node: the interpolation weight is exactly 0 and interp1d returns y bit for bit
        # (with z strictly inside the interval scipy's linear formula can be off by one ulp)
        x = np.array([z, z + span])
    return interp1d(x, np.vstack((y, y)).transpose())


def sim_neighbor(zs, ys):
    """`interp1d` over a simulated solution (depth-increasing order, duplicates removed)"""
    from scipy.interpolate import interp1d
    zs = np.asarray(zs, dtype=float)
    ys = np.asarray(ys, dtype=float)
    if zs[0] > zs[-1]:
        zs, ys = np.flipud(zs), np.flipud(ys)
    keep = np.concatenate(([True], np.diff(zs) > 0))
    return interp1d(zs[keep], ys[keep].transpose())


def copy_params(p, **changes):
    q = copy.copy(p)
    for k, v in changes.items():
        setattr(q, k, v)
    return q


# ---------------------------------------------------------------------------
# state-space layout (the index walk of InnerPlume.update l.1290-1309)
# ---------------------------------------------------------------------------

def inner_layout(particles, nchems):
    """list per particle of (mass slice start, nc, heat idx, age idx, pos idx) and the index of the
    first dissolved slot, following `InnerPlume.update`"""
    idx = 4
    out = []
    for pt in particles:
        nc = pt.particle.nc
        out.append({'m0': idx, 'nc': nc, 'heat': idx + nc, 'age': idx + nc + 1, 'pos': idx + nc + 2})
        idx += nc + 5
    return out, idx


def perturb_inner(rng, sc, y, strength=1.):
    """a perturbed copy of an inner-plume state: fluxes, salinity, temperature, dissolved
    concentrations, particle masses / temperatures / ages are moved independently, keeping
    Q > 0, J > 0 and particle masses >= 0"""
    from tamoc import seawater
    y = np.array(y, dtype=float).copy()
    lay, idiss = inner_layout(sc.particles, len(sc.chem_names))
    Q, J = y[0], y[1]
    if not (Q > 0 and J > 0):
        return y
    s = y[2] / Q
    T = y[3] / (sc.p.rho_r * seawater.cp() * Q)
    c = y[idiss:] / Q
    Qn = Q * np.exp(rng.gauss(0., 0.3 * strength))
    Jn = J * np.exp(rng.gauss(0., 0.4 * strength))
    if strength > 0 and rng.random() < 0.25:
        # a thin plume carrying the same particle load: the particle terms weigh more in the budgets
        f = 10 ** -rng.uniform(1., 4.)
        Qn, Jn = Qn * f, Jn * f
    sn = min(max(s + rng.gauss(0., 0.3 * strength), 0.), 42.)
    Tn = min(max(T + rng.gauss(0., 1.5 * strength), 271.5), 310.)
    y[0], y[1], y[2], y[3] = Qn, Jn, sn * Qn, Tn * sc.p.rho_r * seawater.cp() * Qn
    for k in range(len(c)):
        ck = c[k] * np.exp(rng.gauss(0., 1.0 * strength)) + (10 ** rng.uniform(-7, -3) if rng.random() < 0.3 else 0.)
        y[idiss + k] = ck * Qn
    for pt, l in zip(sc.particles, lay):
        m = y[l['m0']:l['m0'] + l['nc']].copy()
        if np.sum(m) > 0:
            Tp = y[l['heat']] / (np.sum(m) * pt.cp)
            f = np.exp(-abs(rng.gauss(0., 0.7 * strength)))
            for k in range(l['nc']):
                m[k] *= f * np.exp(rng.gauss(0., 0.3 * strength))
            Tp = min(max(Tp + rng.gauss(0., 2.0 * strength), 271.5), 320.)
            y[l['m0']:l['m0'] + l['nc']] = m
            y[l['heat']] = np.sum(m) * pt.cp * Tp
        y[l['age']] = abs(y[l['age']] + rng.gauss(0., 60. * strength))
    return y
