"""
C09 — Bundled and individual particle property calls agree.

proof     : TamocV/Props/C09.lean over the hand model TamocV/Model/Particle09.lean (call structure of
            FluidParticle.* / InsolubleParticle.* and of the two return_all methods over an abstract
            library; generic in the monad the library answers in)
tie       : (H) oracle-table correspondence: dbm.dbm_f.*, dbm.seawater.* and FluidMixture.equilibrium
            are wrapped by recorders from this process (no edit in /repo); return_all and every
            individual method run on the real objects; the recorded call table of each method call is
            handed to the Lean model as its library; the model must ask the questions the code asked
            (all of them, no others) and return the same outputs and the same cache K
real code : the two REAL tuples (return_all vs the tuple assembled from the individual methods) are
            compared for every generated particle / state; the particle properties return_all computes but
            does not return (viscosity, interfacial tension, fugacities) are compared with the individual
            methods at the library boundary
variant   : the model carries the CODE VARIANT of the two former defect sites (Model/Particle09.lean `Code`);
            detect_code_variant() replays the two Lean witnesses on the real code on every run, the driver is
            run with the detected variant, the evidence records it (`code_variant`, `claimed_theorem`) and an
            obligation requires the repaired variant (for which the full statement is proved)
"""
import math
import time
import copy
import signal
import contextlib
import inspect
import numpy as np
from common import req, close, relerr, TOL, run_driver
import scen_sbm as S
import mixgen

META = {
    'text': 'Theorems (Lean 4, for EVERY library, particle and input; the model carries the code variant of the two former defect sites, the harness determines on every run which variant the tree under test is — evidence field code_variant; since commit eece3d5 it is the REPAIRED one, for which the claimed theorem is the FULL statement return_all_eq_individual): over a model of the call structure of dbm.FluidParticle / dbm.InsolubleParticle (which library routine each method calls with which arguments and how the answers are combined) return_all equals the tuple assembled from the individual methods for gas and liquid particles and for inert particles unconditionally, and for mixed-phase particles under the stated hypotheses (flash result independent of the warm-start K; the two defect conditions excluded); for the REPAIRED text of the two sites the full statement (single hypothesis: flash independent of K) is proved; for the code as first read the full statement is REFUTED in Lean by concrete libraries (individual methods test the number of zero entries of the liquid row instead of the liquid total; the single-phase-gas viscosity branch reads the liquid row). The model is tied to the real code by oracle-table correspondence (recorded dbm_f / seawater / flash calls replayed through the model: same questions, same outputs, same cache) and the two real tuples are compared directly on every generated case.',
    'note': 'Trusted: Lean kernel + 3 standard axioms; the hand transcription Model/Particle09.lean (validated each run by the oracle-table correspondence on every generated case); recorders installed by monkeypatching dbm.dbm_f / dbm.seawater / FluidMixture.equilibrium. NOT modelled: the equations of state, the flash and the particle correlations themselves (library parameters of the model); fp_type > 2. The hypothesis "flash result independent of the warm-start K" is tested on every run (the same mixed-phase query with an empty and with a different cached K, bit-wise): while the warm start is DEAD (upstream: equil_MM never uses K_0) it holds exactly and mixed-phase tuples are compared at 1e-12; only if it is found LIVE the flash tolerance TOL[flash_fugacity] is used (evidence fields flash_warm_start, mixed_phase_tolerance). 5 of the 10 pinned theorems concern the former (defective) text of the two sites, which no longer exists in /repo: they document the refutation and keep the detector meaningful if the old lines return.',
    'technique': 'Lean 4 proof over a hand-written model of the call structure, generic in the library and in the monad + oracle-table correspondence on recorded library calls + direct comparison of the two real tuples',
}
GEN = []
MODULES = ['TamocV.Props.C09', 'TamocV.Model.Particle09']
RULE = ('fluid particles of 1-5 database compounds (70 % phase-appropriate gas / liquid / gas+liquid lists, 30 % any database '
        'compounds), fp_type 0/1/2, 35 % with 1..n-1 exactly-zero-mass components, binary interaction zero / constant / '
        'group-contribution, isair 10 %, sigma_correction 1 or U(0.5,1.5); inert particles fluid/solid x compressible or not x '
        'fp_type 0/1; equivalent diameter from three bands 50-500 um, 0.5-10 mm, 1-5 cm (all three shape regimes counted in the '
        'branch histogram); T, Ta 273.15-320 K; P log-uniform 1e5-4e7 Pa; S in {0, 36, U(0,36)}; status +-1. A case is '
        'non-trivial when its (particle kind, fp_type, flash outcome, shape, zero-mass pattern, status) combination or its rounded state is new')
LEVEL_NOTE = ('theorems over the reals / any library about the hand-written model of the call structure; the model is tied to /repo by '
              'oracle-table correspondence on every generated case (sampled); the library routines (EOS, flash, correlations) are '
              'parameters; floating point is trusted')

FLUID_METHODS = ['return_all', 'particle_shape', 'diameter', 'density', 'slip_velocity', 'surface_area', 'solubility',
                 'mass_transfer', 'heat_transfer', 'viscosity', 'interface_tension', 'fugacity']
BUNDLE = ['particle_shape', 'diameter', 'density', 'slip_velocity', 'surface_area', 'solubility', 'mass_transfer', 'heat_transfer']
INERT_METHODS = ['return_all', 'particle_shape', 'diameter', 'density', 'slip_velocity', 'surface_area', 'heat_transfer',
                 'viscosity', 'interface_tension']
IBUNDLE = ['particle_shape', 'diameter', 'density', 'slip_velocity', 'surface_area', 'heat_transfer']
FIELDS = ['shape', 'de', 'rho_p', 'us', 'A', 'Cs', 'beta', 'beta_T']
IFIELDS = ['shape', 'de', 'rho_p', 'us', 'A', 'beta_T']


def extra(ctx):
    v = getattr(ctx, 'code_variant', None)
    if v is None:
        return None
    rep = not v['zeroEntryTest'] and not v['gasViscLiquidRow']
    return {'code_variant': {'zeroEntryTest': bool(v['zeroEntryTest']), 'gasViscLiquidRow': bool(v['gasViscLiquidRow']),
                             'name': 'repaired' if rep else 'as first read (defect present)'},
            'flash_warm_start': 'live' if WARM['live'] else 'dead',
            'mixed_phase_tolerance': mixed_tol(),
            'pinned_theorems_about_former_variants': '5 of 10 (not_return_all_eq_individual, zero_entry_density, zero_entry_hyps, '
                                                     'viscosity_row_witness, viscosity_row_reaches_tuple refute the statement for the text as first read)',
            'claimed_theorem': ('TamocV.Props.C09.return_all_eq_individual (FULL statement: every library with the shape contract, every '
                                'particle, cache and input; single hypothesis FlashStable for mixed-phase particles) + '
                                'inert_return_all_eq_individual (full, unconditional)') if rep else
                               ('TamocV.Props.C09.return_all_eq_individual_partial (defect conditions excluded by hypothesis) + '
                                'not_return_all_eq_individual (the full statement is refuted for this tree)')}


def audit_files():
    return ['TamocV/Num.lean', 'TamocV/Real.lean', 'TamocV/Proto.lean', 'TamocV/Lemmas/Basic.lean',
            'TamocV/Lemmas/C09.lean', 'TamocV/Model/Particle09.lean', 'TamocV/Props/C09.lean']


# ---------------------------------------------------------------------------
# recorder of the library calls (monkeypatch from this process; /repo untouched)
# ---------------------------------------------------------------------------

def flat(x):
    if x is None:
        return []
    if isinstance(x, (tuple, list)):
        out = []
        for y in x:
            out.extend(flat(y))
        return out
    return _real(x)


def _real(x):
    """flattened float list; a complex value with a non-zero imaginary part (a negative Morton number raised
    to a fractional power in pure-Python arithmetic) is no physical answer: it is mapped to NaN"""
    a = np.asarray(x).ravel()
    if np.iscomplexobj(a):
        return [float(v.real) if v.imag == 0. else float('nan') for v in a]
    return [float(v) for v in a.astype(float)]


EOS_KEEP = {'density': 3, 'viscosity': 3, 'fugacity': 3, 'mole_fraction': 1, 'kh_insitu': 3, 'sw_solubility': 2,
            'diffusivity': 1}
PHYS = ['particle_shape', 'us_sphere', 'us_ellipsoid', 'us_spherical_cap', 'theta_w_sc', 'surface_area_sc',
        'xfer_sphere', 'xfer_ellipsoid', 'xfer_spherical_cap']
SW = {'density': 'sw_density', 'mu': 'sw_mu', 'k': 'sw_k', 'cp': 'sw_cp', 'sigma': 'sw_sigma'}
ATTR = {'Mol_wt': 'M', 'Pc': 'Pc', 'Tc': 'Tc', 'Vc': 'Vc', 'omega': 'omega', 'delta': 'delta', 'Aij': 'Aij',
        'Bij': 'Bij', 'delta_groups': 'delta_groups', 'calc_delta': 'calc_delta', 'C_pen': 'C_pen',
        'C_pen_T': 'C_pen_T', 'kh_0': 'kh_0', 'dH_solR': 'neg_dH_solR', 'nu_bar': 'nu_bar', 'K_salt': 'K_salt',
        'Vb': 'Vb'}


class _Proxy(object):
    """stands in for a module: recorded wrappers for the listed names, everything else passes through"""

    def __init__(self, real, wrappers):
        self.__dict__['_real'] = real
        self.__dict__['_wrappers'] = wrappers

    def __getattr__(self, name):
        w = self.__dict__['_wrappers'].get(name)
        if w is not None:
            return w
        return getattr(self.__dict__['_real'], name)


class LibRecorder(object):
    """`with LibRecorder() as rec:` replaces dbm.dbm_f and dbm.seawater (the names the particle classes
    resolve at call time) by recording proxies and FluidMixture.equilibrium by a recording wrapper.
    Calls issued from INSIDE the flash are not recorded (the flash is one library routine)."""

    def __init__(self):
        from tamoc import dbm
        self.dbm = dbm
        self.table = None
        self.obj = None
        self.depth = 0
        self.param_bad = []

    def _wrap(self, fn, name, keep):
        params = list(inspect.signature(fn).parameters)
        rec = self

        def wrapper(*args, **kw):
            res = fn(*args, **kw)
            if rec.table is not None and rec.depth == 0:
                k = len(args) if keep is None else keep
                rec.table.append((name, flat(tuple(args[:k])), flat(res)))
                if rec.obj is not None:
                    for pn, a in zip(params[k:], args[k:]):
                        at = ATTR.get(pn)
                        if at is not None and not np.array_equal(np.asarray(a, dtype=float), np.asarray(getattr(rec.obj, at), dtype=float), equal_nan=True):
                            rec.param_bad.append((name, pn))
            return res
        return wrapper

    def __enter__(self):
        dbm = self.dbm
        self._dbm_f, self._sw, self._eq = dbm.dbm_f, dbm.seawater, dbm.FluidMixture.equilibrium
        wf = {}
        for n, k in EOS_KEEP.items():
            wf[n] = self._wrap(getattr(self._dbm_f, n), n, k)
        for n in PHYS:
            wf[n] = self._wrap(getattr(self._dbm_f, n), n, None)
        ws = {n: self._wrap(getattr(self._sw, n), nm, None) for n, nm in SW.items()}
        dbm.dbm_f = _Proxy(self._dbm_f, wf)
        dbm.seawater = _Proxy(self._sw, ws)
        rec = self
        orig_eq = self._eq

        def equilibrium(self_, m, T, P, K=None, replace_zeros=True):
            m_in = np.array(m, dtype=float, copy=True)
            K_in = None if K is None else np.array(K, dtype=float, copy=True)
            rec.depth += 1
            try:
                res = orig_eq(self_, m, T, P, K, replace_zeros)
            finally:
                rec.depth -= 1
            if rec.table is not None and rec.depth == 0:
                args = flat(m_in) + [float(T), float(P)] + ([0.0] if K_in is None else [1.0] + flat(K_in))
                rec.table.append(('equilibrium', args, flat(res[0][0]) + flat(res[0][1]) + flat(res[2])))
            return res
        dbm.FluidMixture.equilibrium = equilibrium
        return self

    def __exit__(self, *a):
        self.dbm.dbm_f, self.dbm.seawater = self._dbm_f, self._sw
        self.dbm.FluidMixture.equilibrium = self._eq

    def start(self, obj):
        self.table = []
        self.obj = obj

    def stop(self):
        t, self.table = self.table, None
        return t


# ---------------------------------------------------------------------------
# generators
# ---------------------------------------------------------------------------

def lu(r, lo, hi):
    return math.exp(r.uniform(math.log(lo), math.log(hi)))


def gen_state(r):
    T = r.choice([273.15, 320., r.uniform(273.15, 320.), r.uniform(273.15, 320.)])
    Ta = r.choice([T, r.uniform(273.15, 320.), r.uniform(273.15, 303.15)])
    P = r.choice([1e5, 4e7, lu(r, 1e5, 4e7), lu(r, 1e5, 4e7), lu(r, 1e5, 4e7)])
    Sa = r.choice([0., 36., r.uniform(0., 36.), r.uniform(30., 36.)])
    band = r.choice(['small', 'mid', 'mid', 'large'])
    if band == 'small':
        de = lu(r, 50e-6, 500e-6)
    elif band == 'mid':
        de = lu(r, 0.5e-3, 10e-3)
    else:
        de = lu(r, 1e-2, 5e-2)
    if r.random() < 0.05:
        de = r.choice([50e-6, 5e-2])
    status = r.choice([1, -1])
    return dict(T=T, Ta=Ta, P=P, Sa=Sa, de=de, status=status, band=band)


def gen_fluid(r, fp_type=None):
    """-> (FluidParticle, descr, yk)"""
    from tamoc import dbm
    fp_type = r.choice([0, 1, 2, 2]) if fp_type is None else fp_type
    n = r.randint(1, 5)
    anydb = r.random() < 0.3
    if anydb:
        comp = mixgen.composition(r, n, n)
    elif fp_type == 0:
        first = r.choice(S.GAS_MAIN)
        comp = [first] + r.sample([c for c in S.GAS if c != first], n - 1)
    elif fp_type == 1:
        comp = r.sample(S.LIQ, n)
    else:
        ng = r.randint(1, max(1, n - 1)) if n > 1 else r.choice([0, 1])
        comp = r.sample(S.GAS, ng) + r.sample(S.LIQ, n - ng)
        r.shuffle(comp)
    yk = S.random_yk(r, n)
    zero = []
    if n > 1 and r.random() < 0.35:
        zero = sorted(r.sample(range(n), r.randint(1, n - 1)))
        for i in zero:
            yk[i] = 0.
        yk = yk / yk.sum()
    dm = r.choice(['zero'] * 5 + ['groups', 'const'])
    kw = {}
    if dm == 'groups':
        kw['delta_groups'] = {}
    elif dm == 'const':
        d = np.zeros((n, n))
        for i in range(n):
            for j in range(i + 1, n):
                d[i, j] = d[j, i] = r.uniform(-0.05, 0.15)
        kw['delta'] = d
    isair = r.random() < 0.1
    sc = r.choice([1., 1., r.uniform(0.5, 1.5)])
    with S.quiet():
        fp = dbm.FluidParticle(list(comp), fp_type=fp_type, isair=isair, sigma_correction=sc, **kw)
    descr = dict(kind='fluid', composition=list(comp), fp_type=fp_type, yk=[float(v) for v in yk], zero=zero,
                 delta_mode=dm, delta=(kw['delta'].tolist() if dm == 'const' else None), isair=isair, sigma_correction=sc)
    return fp, descr, yk


class FlashTimeout(Exception):
    pass


@contextlib.contextmanager
def time_limit(sec):
    """abort a library call that runs longer than `sec` seconds (a flash whose stability analysis runs into its
    iteration limit can take more than 10 s; such states are skipped, not waited for)"""
    def handler(signum, frame):
        raise FlashTimeout()
    old = signal.signal(signal.SIGALRM, handler)
    signal.setitimer(signal.ITIMER_REAL, sec)
    try:
        yield
    finally:
        signal.setitimer(signal.ITIMER_REAL, 0.)
        signal.signal(signal.SIGALRM, old)


def fluid_masses(fp, yk, st, fp_type):
    """masses of a particle with equivalent diameter st['de']; falls back to a nominal density when the
    library cannot produce a finite density for this state"""
    m = None
    t0 = time.time()
    timed_out = False
    try:
        with S.quiet(), time_limit(1.0):
            m = np.array(fp.masses_by_diameter(st['de'], st['T'], st['P'], yk), dtype=float)
    except FlashTimeout:
        m = None
        timed_out = True
    except Exception:
        m = None
    st['t_flash'] = float('inf') if timed_out else time.time() - t0          # contains one flash for a mixed-phase particle
    fp.K = None
    if m is None or not np.all(np.isfinite(m)) or not np.sum(m) > 0.:
        rho = 100. if fp_type == 0 else 700.
        w = yk * fp.M
        m = w / w.sum() * rho * math.pi / 6. * st['de'] ** 3
    return m


# minimised past findings, replayed first in every run (DESIGN §2.2): (composition, fp_type, masses, T, P, Sa, Ta, status)
CORPUS = [
    # two-phase flash, third component has zero mass: liquid row has a zero ENTRY but a non-zero total
    (['methane', 'n-decane', 'ethane'], 2, [0.6e-6, 0.4e-6, 0.0], 290., 5e6, 35., 285., -1),
    # flash returns gas only and the Peng-Robinson cubic has three roots: viscosity rows differ
    (['hydrogen_sulfide', 'argon'], 2, [9.96240066e-07, 3.75993353e-09], 299.8267317031541, 381642.37438661075, 35., 290., -1),
    # same particle as the first, no zero-mass component: must agree
    (['methane', 'n-decane'], 2, [0.6e-6, 0.4e-6], 290., 5e6, 35., 285., -1),
]


# code variant of the tree under test (see Model/Particle09.lean `Code`); set by detect_code_variant()
CODE = {'zeroEntryTest': 1, 'gasViscLiquidRow': 1}


def detect_code_variant(ctx=None):
    """replays the two Lean witnesses (CORPUS[0], CORPUS[1]) on the real code to find out which text of the two
    defect sites the tree under test has: as first read (1) or repaired (0)"""
    from tamoc import dbm
    comp, fpt, m, T, P, Sa, Ta, st = CORPUS[0]
    with S.quiet():
        fp = dbm.FluidParticle(list(comp), fp_type=fpt)
        ra = fp.return_all(np.array(m), T, P, Sa, Ta, st)
        fp.K = None
        rho = fp.density(np.array(m), T, P)
    CODE['zeroEntryTest'] = int(not close(scal(rho), scal(ra[2]), TOL['flash_fugacity']))
    comp, fpt, m, T, P, Sa, Ta, st = CORPUS[1]
    with S.quiet():
        fp = dbm.FluidParticle(list(comp), fp_type=fpt)
        mi, _xi, _K = fp.equilibrium(np.array(m), T, P)
        rows = dbm.FluidMixture.viscosity(fp, mi[0, :], T, P)
        fp.K = None
        v = fp.viscosity(np.array(m), T, P)
    g, l = scal(rows[0, 0]), scal(rows[1, 0])
    if close(g, l, 1e-9) or np.sum(mi[1, :]) != 0.:
        CODE['gasViscLiquidRow'] = 1        # witness lost its discriminating power: keep the transcription as first read
        if ctx is not None:
            ctx.notes.append('viscosity-row witness no longer discriminates (rows %r, liquid total %r)' % ((g, l), float(np.sum(mi[1, :]))))
    else:
        CODE['gasViscLiquidRow'] = int(close(scal(v), l, 1e-12))
    if ctx is not None:
        ctx.notes.append('code variant of the tree under test (witnesses replayed on the real code): individual methods test %s; '
                         'single-phase-gas viscosity reads the %s row' %
                         ('the NUMBER OF ZERO ENTRIES of the liquid row (as first read, defect (a))' if CODE['zeroEntryTest'] else 'the liquid total (repaired)',
                          'LIQUID (as first read, defect (b))' if CODE['gasViscLiquidRow'] else 'gas (repaired)'))
    return dict(CODE)


# is the warm start of the flash LIVE in the tree under test?  (upstream it is dead: the guard of dbm.equil_MM,
# isinstance(np.sum(K_0), type(np.nan)), is always true, so the cached K is never used as initial guess)
WARM = {'live': None}


def detect_warm_start(ctx=None):
    """runs the flash of three two-phase mixtures twice, once without and once with a deliberately different initial
    guess K, and compares the phase splits BIT-WISE"""
    from tamoc import dbm
    live = False
    probes = [(['methane', 'n-decane'], [0.6e-6, 0.4e-6], 290., 5e6),
              (['methane', 'ethane', 'n-hexane', 'toluene'], [0.5e-6, 0.1e-6, 0.3e-6, 0.2e-6], 288.15, 2e6),
              (['carbon_dioxide', 'propane', 'benzene'], [0.3e-6, 0.3e-6, 0.4e-6], 300., 1.5e6)]
    for comp, m, T, P in probes:
        with S.quiet():
            fp = dbm.FluidParticle(list(comp), fp_type=2)
            m = np.array(m)
            mi0, _x, K = fp.equilibrium(m, T, P)
            Kp = np.array(K, dtype=float) * np.array([3., 0.3, 2., 0.5][:len(comp)])
            mi1, _x, _K = fp.equilibrium(m, T, P, Kp)
        # liveness is a property of the FLASH alone (the only consumer of the cached K): a particle method whose answer
        # depends on the cache although the flash does not is a leak, to be judged at 1e-12, not a live warm start
        if not np.array_equal(mi0, mi1, equal_nan=True):
            live = True
    WARM['live'] = live
    if ctx is not None:
        ctx.notes.append('warm start of the flash from the cached FluidParticle.K: %s -> mixed-phase results are compared at %s'
                         % ('LIVE (answers depend on the cached K)' if live else 'DEAD (bit-identical answers whatever K is cached)',
                            'the flash tolerance %g' % TOL['flash_fugacity'] if live else 'relative 1e-12'))
    return live


def mixed_tol():
    """tolerance for mixed-phase comparisons: the solver tolerance only if the warm start is live"""
    return TOL['flash_fugacity'] if WARM['live'] or WARM['live'] is None else 1e-12


def corpus_case(k):
    from tamoc import dbm
    comp, fpt, m, T, P, Sa, Ta, status = CORPUS[k]
    with S.quiet():
        fp = dbm.FluidParticle(list(comp), fp_type=fpt)
    descr = dict(kind='fluid', composition=list(comp), fp_type=fpt, yk=None, zero=[j for j, v in enumerate(m) if v == 0.],
                 delta_mode='zero', delta=None, isair=False, sigma_correction=1., corpus=k)
    x = dict(m=[float(v) for v in m], T=T, P=P, Sa=Sa, Ta=Ta, status=status)
    return fp, descr, x, dict(de=float('nan'), band='corpus')


def gen_inert(r):
    from tamoc import dbm
    p = dict(isfluid=r.random() < 0.7, iscompressible=r.random() < 0.6, rho_p=r.uniform(600., 1500.),
             gamma=r.uniform(10., 50.), beta=r.uniform(3e-4, 1e-3), co=r.uniform(1e-9, 5e-9), fp_type=r.choice([1, 1, 0]))
    obj = dbm.InsolubleParticle(p['isfluid'], p['iscompressible'], rho_p=p['rho_p'], gamma=p['gamma'], beta=p['beta'],
                                co=p['co'], fp_type=p['fp_type'])
    return obj, dict(kind='inert', **p)


# ---------------------------------------------------------------------------
# running the REAL methods under the recorder
# ---------------------------------------------------------------------------

class Raised(object):
    def __init__(self, e):
        self.text = '%s: %s' % (type(e).__name__, str(e)[:160])


def call_fluid(fp, method, x):
    m, T, P, Sa, Ta, st = np.array(x['m'], dtype=float), x['T'], x['P'], x['Sa'], x['Ta'], x['status']
    if method in ('density', 'viscosity', 'fugacity', 'diameter'):
        return getattr(fp, method)(m, T, P)
    if method == 'interface_tension':
        return fp.interface_tension(m, T, Sa, P)
    if method == 'solubility':
        return fp.solubility(m, T, P, Sa)
    if method in ('particle_shape', 'surface_area'):
        return getattr(fp, method)(m, T, P, Sa, Ta)
    return getattr(fp, method)(m, T, P, Sa, Ta, st)


def call_inert(ip, method, x):
    m, T, P, Sa, Ta, st = x['m'], x['T'], x['P'], x['Sa'], x['Ta'], x['status']
    if method == 'density':
        return ip.density(T, P, Sa, Ta)
    if method in ('viscosity', 'interface_tension'):
        return getattr(ip, method)(T)
    if method in ('diameter', 'particle_shape', 'surface_area'):
        return getattr(ip, method)(m, T, P, Sa, Ta)
    return getattr(ip, method)(m, T, P, Sa, Ta, st)


def scal(v):
    a = _real(v)
    return a[0] if len(a) == 1 else float('nan')


def vec(v):
    return _real(v)


def norm_out(kind, method, o):
    """real output -> list of protocol-shaped values (ints, floats, float lists)"""
    if method == 'return_all':
        if kind == 'fluid':
            return [int(o[0]), scal(o[1]), scal(o[2]), scal(o[3]), scal(o[4]), vec(o[5]), vec(o[6]), scal(o[7])]
        return [int(o[0]), scal(o[1]), scal(o[2]), scal(o[3]), scal(o[4]), scal(o[5])]
    if method == 'particle_shape':
        return [int(o[0])] + [scal(v) for v in o[1:]]
    if method in ('fugacity', 'solubility', 'mass_transfer', 'heat_transfer'):
        return [vec(o)]
    return [scal(o)]


def run_real(rec, obj, kind, x, slow_ok=True, cap=0.25):
    """run return_all and every individual method on the real object; one record per method.
    returns None when the first call (return_all: one flash) took longer than 60 ms and slow_ok is False, or
    longer than `cap` seconds in any case (the individual methods repeat that flash about 40 times)"""
    methods = FLUID_METHODS if kind == 'fluid' else INERT_METHODS
    call = call_fluid if kind == 'fluid' else call_inert
    res = {}
    for mth in methods:
        if kind == 'fluid' and mth in ('return_all', 'particle_shape'):
            obj.K = None            # return_all from a fresh cache; the individual methods thread it from a fresh cache
        K0 = None if kind != 'fluid' or obj.K is None else np.array(obj.K, dtype=float, copy=True)
        rec.start(obj)
        t0 = time.time()
        try:
            with S.quiet():
                o = call(obj, mth, x)
            out = norm_out(kind, mth, o)
        except Exception as e:          # a method that raises for valid input belongs to C20
            out = Raised(e)
        table = rec.stop()
        if mth == 'return_all' and (time.time() - t0 > cap or (not slow_ok and time.time() - t0 > 0.06)):
            return None
        K1 = None if kind != 'fluid' or obj.K is None else np.array(obj.K, dtype=float, copy=True)
        res[mth] = dict(K0=K0, K1=K1, out=out, table=table, slow=(time.time() - t0 > 0.06))
    return res


# ---------------------------------------------------------------------------
# correspondence lines / comparison
# ---------------------------------------------------------------------------

def table_args(table):
    a = []
    for name, args, resv in table:
        a += [name, np.array(args, dtype=float), np.array(resv, dtype=float)]
    return a


def fluid_line(descr, fp, x, method, K0, table):
    return req('P09.fluid', method, int(descr['fp_type']), int(descr['isair']), int(CODE['zeroEntryTest']),
               int(CODE['gasViscLiquidRow']), float(descr['sigma_correction']),
               np.array(fp.Tc, dtype=float), np.array(x['m'], dtype=float), x['T'], x['P'], x['Sa'], x['Ta'],
               int(x['status'] == 1), int(K0 is not None), np.array([] if K0 is None else K0, dtype=float),
               *table_args(table))


def inert_line(descr, x, method, table):
    return req('P09.inert', method, int(descr['isfluid']), int(descr['iscompressible']), descr['rho_p'], descr['gamma'],
               descr['beta'], descr['co'], int(descr['fp_type']), float(x['m']), x['T'], x['P'], x['Sa'], x['Ta'],
               int(x['status'] == 1), *table_args(table))


def groups_of(table, tol=1e-9):
    """indices of the table grouped by (name, arguments within tol): repeated questions are one question"""
    groups = []
    for i, (name, args, _r) in enumerate(table):
        for g in groups:
            n2, a2, _ = table[g[0]]
            if n2 == name and len(a2) == len(args) and close(list(a2), list(args), tol):
                g.append(i)
                break
        else:
            groups.append([i])
    return groups


def compare_call(kind, method, rr, resp, worst):
    """model response vs the real call; returns list of disagreement strings"""
    bad = []
    if not isinstance(resp, list):
        return ['driver answered %r' % (resp,)]
    real = rr['out']
    nout = len(real)
    extra = 2 if kind == 'fluid' else 0
    if len(resp) != nout + extra + 3:
        return ['driver answered %d values, expected %d' % (len(resp), nout + extra + 3)]
    tol = TOL['gen_vs_source']
    for j, (a, b) in enumerate(zip(resp[:nout], real)):
        if isinstance(b, int):
            if a != b:
                bad.append('%s out[%d]: model=%r code=%r' % (method, j, a, b))
        elif not close(a, b, tol):
            bad.append('%s out[%d]: model=%r code=%r' % (method, j, a, b))
        else:
            for u, v in zip(a if isinstance(a, list) else [a], b if isinstance(b, list) else [b]):
                if math.isfinite(u) and math.isfinite(v):
                    worst[0] = max(worst[0], relerr(u, v))
    if kind == 'fluid':
        hasK, K = resp[nout], resp[nout + 1]
        K1 = rr['K1']
        if bool(hasK) != (K1 is not None) or (K1 is not None and not close(list(K), [float(v) for v in K1], 0.)):
            bad.append('%s cache K after the call: model=%r code=%r' % (method, (hasK, K), None if K1 is None else list(K1)))
    asked, nmiss, missed = resp[-3], resp[-2], resp[-1]
    if nmiss:
        bad.append('%s: the model asked %d question(s) the code never asked: %s' % (method, nmiss, missed))
    asked = set(int(v) for v in asked)
    for g in groups_of(rr['table']):
        if not (asked & set(g)):
            nm, ar, _ = rr['table'][g[0]]
            bad.append('%s: the code asked %s%r, the model did not' % (method, nm, tuple(float('%.6g' % v) for v in ar[:6])))
    return bad


# ---------------------------------------------------------------------------
# property predicate: the two REAL tuples
# ---------------------------------------------------------------------------

def flash_outcome(res):
    """'liq' | 'gas' | 'mix' and the liquid row, from the flash recorded inside return_all"""
    for name, args, r in res['return_all']['table']:
        if name == 'equilibrium':
            n = len(r) // 3
            mi0, mi1 = r[:n], r[n:2 * n]
            g, l = sum(mi0), sum(mi1)
            kind = 'liq' if g == 0. else ('gas' if l == 0. else 'mix')
            return kind, mi0, mi1
    return None, None, None


def cmp_tuples(ra, ind, tol):
    """field-wise comparison; returns list of (field index, a, b)"""
    diffs = []
    for j, (a, b) in enumerate(zip(ra, ind)):
        if isinstance(a, int) or isinstance(b, int):
            if a != b:
                diffs.append((j, a, b))
        elif not close(a, b, tol):
            diffs.append((j, a, b))
    return diffs


def mu_p_of_return_all(table):
    """the particle viscosity return_all handed to the library (None when the shape needs none)"""
    for name, args, _r in table:
        if name == 'us_ellipsoid':
            return args[3]
        if name in ('xfer_sphere', 'xfer_ellipsoid'):
            return args[-3]
    return None


def intermediate_check(ctx, cases):
    """the particle properties return_all computes but does not return (particle viscosity, interfacial tension,
    fugacities) are visible at the library boundary: they are the arguments return_all hands to us_ellipsoid /
    xfer_* / particle_shape / sw_solubility.  The individual methods `viscosity`, `interface_tension`, `fugacity`
    (named in the property's anchors) must return the same values.  This is where defect (b) — the single-phase-gas
    viscosity branch reading the liquid row — is visible; with the present correlations it does not reach the
    returned tuple (fp_type 2 forces status -1, for which the correlations ignore mu_p)."""
    n = 0
    for c in cases:
        if c['kind'] != 'fluid':
            continue
        res = c['res']
        tab = res['return_all']['table']
        if isinstance(res['return_all']['out'], Raised):
            continue
        mixed = c['descr']['fp_type'] == 2
        tol = mixed_tol() if mixed else 1e-12
        fo, mi0, mi1 = flash_outcome(res) if mixed else (None, None, None)
        nc = len(c['x']['m'])
        inter = {}
        mu_ra = mu_p_of_return_all(tab)
        if mu_ra is not None:
            inter['viscosity'] = mu_ra
        for name, args, _r in tab:
            if name == 'particle_shape':
                inter['interface_tension'] = args[4]
            elif name == 'sw_solubility':
                inter['fugacity'] = list(args[:nc])
        for prop, v_ra in inter.items():
            o = res[prop]['out']
            if isinstance(o, Raised):
                continue
            n += 1
            if not close(o[0], v_ra, tol):
                if prop == 'viscosity' and fo == 'gas' and CODE['gasViscLiquidRow']:
                    key = 'single-phase-gas-viscosity-row'
                    what = ('mixed-phase particle whose flash returns gas only: FluidParticle.viscosity returns the LIQUID-row viscosity '
                            '(row [1,0]) while return_all uses the gas row')
                elif CODE['zeroEntryTest'] and fo == 'mix' and any(v == 0. for v in mi1):
                    key = 'mixed-phase-zero-entry-branch'
                    what = ('mixed-phase particle with a zero-mass component: the individual methods take the single-phase-gas branch '
                            '(np.sum(mi[1,:] == 0) counts zero entries) and disagree with return_all')
                else:
                    key = 'bundle-ne-individual:fluid:' + prop
                    what = 'FluidParticle.%s returns a value different from the one return_all computes and hands to the library' % prop
                ctx.violation(key, what, {'particle': c['descr'], 'inputs': c['x'], 'flash': fo, 'property': prop,
                                          'individual_method': o[0], 'used_inside_return_all': v_ra})
    ctx.count('intermediate properties compared (viscosity / interface_tension / fugacity vs the values inside return_all)', n)


def library_contracts(ctx, cases, r, acc):
    """the two library contracts the theorems assume, checked on the real library (accumulated over the batches):
    ShapeContract (particle_shape answers 1, 2 or 3) on every recorded call;
    DirtyIgnoresMuP (us_ellipsoid / xfer_sphere / xfer_ellipsoid ignore mu_p for status = -1) by re-calling the
    recorded dirty calls with a different particle viscosity"""
    from tamoc import dbm
    lib = dbm.dbm_f
    for c in cases:
        for mth, rr in c['res'].items():
            for name, args, resv in rr['table']:
                if name == 'particle_shape':
                    acc['nshape'] += 1
                    if resv not in ([1.0], [2.0], [3.0]):
                        acc['bad_shape'].append((args, resv))
                elif name == 'us_ellipsoid' and args[-1] == -1.0 and acc['ndirty'] < 400 and all(math.isfinite(a) for a in args):
                    acc['ndirty'] += 1
                    a2 = list(args)
                    a2[3] = a2[3] * r.uniform(2., 50.)
                    with S.quiet():
                        v = _real(lib.us_ellipsoid(*a2[:6], -1))
                    if not close(v, resv, 0.):
                        acc['bad_dirty'].append((name, args, resv, v))
                elif name in ('xfer_sphere', 'xfer_ellipsoid') and args[-1] == -1.0 and acc['ndirty'] < 400 \
                        and all(math.isfinite(a) for a in args):
                    acc['ndirty'] += 1
                    nD = len(args) - 8
                    a2 = list(args)
                    a2[-3] = a2[-3] * r.uniform(2., 50.)
                    with S.quiet():
                        v = _real(getattr(lib, name)(a2[0], a2[1], a2[2], a2[3], np.array(a2[4:4 + nD]), a2[-4], a2[-3],
                                                    int(a2[-2]), -1))
                    if not close(v, resv, 0.):
                        acc['bad_dirty'].append((name, args, resv, v))


BAND_OF_SHAPE = {1: 'small', 2: 'mid', 3: 'large'}
BAND_DE = {'small': (50e-6, 300e-6), 'mid': (1e-3, 6e-3), 'large': (2e-2, 5e-2)}
TARGET_GAS = ['methane', 'ethane', 'propane', 'carbon_dioxide', 'nitrogen']
TARGET_LIQ = ['n-hexane', 'toluene', 'benzene', 'n-heptane', 'n-decane', 'n-pentane']


def targets():
    """the regimes every run must contain (floors, checked as obligations): each phase type x each shape regime, the
    three flash outcomes of a mixed-phase particle incl. two-phase with a zero-mass component, each inert shape"""
    t = [('shape', fpt, sh) for sh in (1, 2, 3) for fpt in (0, 1, 2)]
    t += [('flash', w, None) for w in ('mixzero', 'gas', 'liq') for _ in range(3)]
    t += [('ishape', None, sh) for sh in (1, 2, 3, 4)]
    return t


def quick_flash(fp, m, T, P):
    """('mix'|'gas'|'liq', seconds) of a cold flash, None if it raised / ran into the 1 s limit"""
    t0 = time.time()
    try:
        with S.quiet(), time_limit(1.0):
            mi, _x, _K = fp.equilibrium(np.array(m, dtype=float), T, P)
    except Exception:
        return None, float('inf')
    g, l = float(np.sum(mi[0, :])), float(np.sum(mi[1, :]))
    return ('liq' if g == 0. else ('gas' if l == 0. else 'mix')), time.time() - t0


def gen_target(ctx, r, spec, state):
    """draw particles / states until the pre-screen (one cheap call on the real code) shows the wanted regime"""
    from tamoc import dbm
    what, fpt, sh = spec
    for _try in range(60):
        st = gen_state(r)
        if what == 'ishape':
            obj, descr = gen_inert(r)
            if (sh == 4) != (not descr['isfluid']):
                continue
            if sh != 4:
                st['band'] = BAND_OF_SHAPE[sh]
                st['de'] = lu(r, *BAND_DE[st['band']])
            with S.quiet():
                m = float(obj.mass_by_diameter(st['de'], st['T'], st['P'], st['Sa'], st['Ta']))
                got = obj.return_all(m, st['T'], st['P'], st['Sa'], st['Ta'], st['status'])[0]
            if int(got) != sh:
                continue
            return obj, 'inert', descr, dict(m=m, T=st['T'], P=st['P'], Sa=st['Sa'], Ta=st['Ta'], status=st['status']), st
        if what == 'shape':
            obj, descr, yk = gen_fluid(r, fpt)
            st['band'] = BAND_OF_SHAPE[sh]
            st['de'] = lu(r, *BAND_DE[st['band']])
            m = fluid_masses(obj, yk, st, fpt)
            if fpt == 2 and st['t_flash'] > 0.06:
                continue
            try:
                with S.quiet(), time_limit(2.0):
                    got = obj.return_all(np.array(m), st['T'], st['P'], st['Sa'], st['Ta'], st['status'])[0]
            except Exception:
                continue
            obj.K = None
            if int(got) != sh:
                continue
            descr['target'] = 'fp_type %d x shape %d' % (fpt, sh)
            return obj, 'fluid', descr, dict(m=[float(v) for v in m], T=st['T'], P=st['P'], Sa=st['Sa'], Ta=st['Ta'], status=st['status']), st
        # flash outcomes of a mixed-phase particle
        n = r.randint(3, 5) if fpt is None else 3
        ng = r.randint(1, n - 1)
        comp = r.sample(TARGET_GAS, min(ng, len(TARGET_GAS))) + r.sample(TARGET_LIQ, n - ng)
        r.shuffle(comp)
        yk = S.random_yk(r, n)
        zero = []
        if sh is None and spec[1] == 'mixzero':
            zero = sorted(r.sample(range(n), r.randint(1, n - 2)))
            yk[zero] = 0.
            yk = yk / yk.sum()
            if not any(c in TARGET_GAS for i, c in enumerate(comp) if i not in zero) or \
                    not any(c in TARGET_LIQ for i, c in enumerate(comp) if i not in zero):
                continue
        want = spec[1]
        if want == 'gas':
            st['P'] = lu(r, 1e5, 4e5)
            st['T'] = r.uniform(300., 320.)
        elif want == 'liq':
            st['P'] = lu(r, 1.5e7, 4e7)
        else:
            st['P'] = lu(r, 3e5, 8e6)
        with S.quiet():
            obj = dbm.FluidParticle(list(comp), fp_type=2)
        out, dt = quick_flash(obj, yk * obj.M, st['T'], st['P'])
        if out != ('mix' if want == 'mixzero' else want) or dt > 0.06:
            continue
        descr = dict(kind='fluid', composition=list(comp), fp_type=2, yk=[float(v) for v in yk], zero=zero, delta_mode='zero',
                     delta=None, isair=False, sigma_correction=1., target='flash ' + want)
        m = fluid_masses(obj, yk, st, 2)
        if st['t_flash'] > 0.06:
            continue
        return obj, 'fluid', descr, dict(m=[float(v) for v in m], T=st['T'], P=st['P'], Sa=st['Sa'], Ta=st['Ta'], status=st['status']), st
    ctx.count('target regime not reached in 60 draws: %r' % (spec,))
    return None


def gen_case(ctx, r, i, kind, ck, state):
    """one generated particle + state; returns (obj, kind, descr, x, st) or None when the state is skipped"""
    st = gen_state(r)
    if kind == 'corpus':
        obj, descr, x, st = corpus_case(ck)
        return obj, 'fluid', descr, x, st
    if kind == 'target':
        return gen_target(ctx, r, ck, state)
    if kind == 'fluid':
        obj, descr, yk = gen_fluid(r, None)
        # a mixed-phase state whose flash is slow (the stability analysis at its iteration limit: a borderline split) is
        # not dropped at once: up to 4 further states are pre-screened for the same particle
        for k in range(5):
            m = fluid_masses(obj, yk, st, descr['fp_type'])
            slow = descr['fp_type'] == 2 and (st['t_flash'] > 0.25 or (state['slow_budget'] <= 0 and st['t_flash'] > 0.06))
            if not slow:
                break
            ctx.count('mixed-phase candidate state with a slow flash (another state pre-screened)')
            st = gen_state(r)
        if slow:
            ctx.count('mixed-phase state skipped (flash slower than 60 ms)')
            return None
        x = dict(m=[float(v) for v in m], T=st['T'], P=st['P'], Sa=st['Sa'], Ta=st['Ta'], status=st['status'])
        return obj, kind, descr, x, st
    obj, descr = gen_inert(r)
    with S.quiet():
        m = float(obj.mass_by_diameter(st['de'], st['T'], st['P'], st['Sa'], st['Ta']))
    x = dict(m=m, T=st['T'], P=st['P'], Sa=st['Sa'], Ta=st['Ta'], status=st['status'])
    return obj, kind, descr, x, st


def predicate(ctx, c, state):
    """the property predicate on the two REAL tuples of one case (+ branch counters)"""
    res, kind = c['res'], c['kind']
    bundle = BUNDLE if kind == 'fluid' else IBUNDLE
    fields = FIELDS if kind == 'fluid' else IFIELDS
    ra = res['return_all']['out']
    parts = [res[mth]['out'] for mth in bundle]
    fo, mi0, mi1 = (None, None, None)
    if kind == 'fluid' and c['descr']['fp_type'] == 2:
        fo, mi0, mi1 = flash_outcome(res)
    zero_entry = bool(mi1 is not None and fo == 'mix' and any(v == 0. for v in mi1))
    shape = ra[0] if not isinstance(ra, Raised) else None
    key = (kind, c['descr'].get('fp_type'), fo, shape, tuple(c['descr'].get('zero', [])) != (), c['x']['status'],
           c['descr'].get('isfluid'), c['descr'].get('iscompressible'))
    ctx.nontrivial.add(key + (float('%.3g' % c['de']), float('%.4g' % c['x']['T']), float('%.3g' % c['x']['P'])))
    ctx.count('%s fp_type=%s%s' % (kind, c['descr'].get('fp_type'), (' flash:' + fo) if fo else ''))
    ctx.count('shape %s (%s)' % (shape, kind))
    ctx.count('band ' + c['band'])
    if zero_entry:
        ctx.count('mixed-phase with a zero entry in the liquid row')
    if mi0 is not None and fo == 'mix' and any(v == 0. for v in mi0):
        ctx.count('mixed-phase with a zero entry in the gas row')
    if shape is not None:
        ctx.count('regime fp_type=%s x shape %s (%s)' % (c['descr'].get('fp_type'), shape, kind))
    if c['descr'].get('zero'):
        ctx.count('zero-mass component(s)')
    if isinstance(ra, Raised) or any(isinstance(p, Raised) for p in parts):
        ctx.count('tuple incomplete (a method raised)')
        case = {'particle': c['descr'], 'inputs': c['x'], 'flash': fo}
        if not isinstance(ra, Raised):
            # the bundled call returns, an individual method raises on the same arguments: the two paths disagree
            for mth, p in zip(bundle, parts):
                if isinstance(p, Raised):
                    ctx.violation('individual-raised:%s:%s' % (mth, p.text.split(':')[0]),
                                  'the individual method raises on arguments for which return_all returns a tuple',
                                  dict(case, method=mth, exception=p.text, return_all=ra))
        elif not any(isinstance(p, Raised) for p in parts):
            ctx.violation('return_all-raised:%s' % ra.text.split(':')[0],
                          'return_all raises on arguments for which every individual method returns',
                          dict(case, exception=ra.text, individual=[p for p in parts]))
        else:
            state['both_raised'] = state.get('both_raised', 0) + 1
            ctx.count('both paths raised (state not valid for this particle)')
        return
    if kind == 'fluid':
        ind = [parts[0][0], parts[1][0], parts[2][0], parts[3][0], parts[4][0], parts[5][0], parts[6][0],
               parts[7][0][0] if len(parts[7][0]) == 1 else float('nan')]
    else:
        ind = [parts[0][0], parts[1][0], parts[2][0], parts[3][0], parts[4][0],
               parts[5][0][0] if len(parts[5][0]) == 1 else float('nan')]
    c['ind'] = ind
    mixed = fo is not None
    tol = mixed_tol() if mixed else 1e-12
    diffs = cmp_tuples(ra, ind, tol)
    if len(ctx.samples) < 6 and (c['idx'] % 7 == 0):
        ctx.sample({'particle': c['descr'], 'inputs': c['x'], 'return_all': ra, 'individual': ind})
    if diffs:
        state['nviol'] += 1
        dfields = set(fields[j] for j, _a, _b in diffs)
        # signature of defect (a): the individual density is the GAS-ROW density of the gas phase alone, the
        # solubilities (gas-phase fugacities in both paths) agree
        sig_a = False
        if CODE['zeroEntryTest'] and zero_entry and 'Cs' not in dfields:
            for name, args, rv in res['density']['table']:
                if name == 'density' and close(list(args[2:]), list(mi0), TOL['flash_fugacity']):
                    sig_a = close(ind[2], rv[0], 1e-12)
        # signature of defect (b): only quantities the library derives from the particle viscosity differ
        sig_b = bool(CODE['gasViscLiquidRow']) and fo == 'gas' and dfields <= {'us', 'beta', 'beta_T'}
        if sig_a:
            vkey = 'mixed-phase-zero-entry-branch'
            what = ('mixed-phase particle with a zero-mass component: the individual methods take the single-phase-gas branch '
                    '(np.sum(mi[1,:] == 0) counts zero entries) and disagree with return_all')
        elif sig_b:
            vkey = 'single-phase-gas-viscosity-row'
            what = ('mixed-phase particle whose flash returns gas only: the individual methods use the liquid-row viscosity '
                    '(FluidParticle.viscosity reads [1,0]) and disagree with return_all')
        else:
            vkey = 'bundle-ne-individual:%s:%s' % (kind, fields[diffs[0][0]])
            what = 'return_all and the tuple assembled from the individual methods differ'
        ctx.violation(vkey, what, {'particle': c['descr'], 'inputs': c['x'], 'flash': fo, 'liquid_row': mi1,
                                   'return_all': ra, 'individual': ind,
                                   'differing': [(fields[j], a, b) for j, a, b in diffs]})


def run(ctx, lean_ok):
    r = ctx.rng
    detect_code_variant(ctx)
    detect_warm_start(ctx)
    repaired = not CODE['zeroEntryTest'] and not CODE['gasViscLiquidRow']
    ctx.code_variant = dict(CODE)
    ctx.oblige('the tree under test has the REPAIRED text of both defect sites (liquid-total test; gas-row viscosity): the '
               'full-strength theorem TamocV.Props.C09.return_all_eq_individual is the one that applies to it', repaired,
               'detected variant %r: the witnesses of TamocV.Props.C09.zero_entry_density / viscosity_row_witness reproduce on the real code' % (CODE,))
    nfl = ctx.n(130, 2500)
    nin = ctx.n(60, 1200)
    # mixed-phase states whose flash takes 60-250 ms (stability analysis at its iteration limit)
    state = dict(slow_budget=ctx.n(0, 20), nviol=0, ncases=0, nlines=0, nbad=0, worst=[0.], contracts=dict(nshape=0, ndirty=0, bad_shape=[], bad_dirty=[]))
    raises = {}
    todo = [('corpus', k) for k in range(len(CORPUS))] + [('target', t) for t in targets()] + [('fluid', None)] * nfl + [('inert', None)] * nin
    BATCH = 200            # cases per driver run: bounds the memory taken by the recorded tables
    driver_ok = lean_ok
    with LibRecorder() as rec:
        for b0 in range(0, len(todo), BATCH):
            cases, lines, owners = [], [], []
            for i in range(b0, min(b0 + BATCH, len(todo))):
                kind, ck = todo[i]
                g = gen_case(ctx, r, i, kind, ck, state)
                if g is None:
                    continue
                obj, kind, descr, x, st = g
                res = run_real(rec, obj, kind, x, slow_ok=(state['slow_budget'] > 0 or descr.get('fp_type') != 2 or 'corpus' in descr))
                if res is None:
                    ctx.count('mixed-phase state skipped (flash slower than 60 ms)')
                    continue
                if descr.get('fp_type') == 2 and res['return_all'].get('slow'):
                    state['slow_budget'] -= 1
                    ctx.count('mixed-phase state with a slow flash kept')
                c = dict(idx=state['ncases'], kind=kind, descr=descr, x=x, de=st['de'], band=st['band'], res=res)
                j = len(cases)
                cases.append(c)
                state['ncases'] += 1
                for mth, rr in res.items():
                    if isinstance(rr['out'], Raised):
                        raises.setdefault(mth + ':' + kind, []).append((descr, x, rr['out'].text))
                        ctx.count('raised:%s.%s' % (kind, mth))
                        continue
                    if kind == 'fluid':
                        lines.append(fluid_line(descr, obj, x, mth, rr['K0'], rr['table']))
                    else:
                        lines.append(inert_line(descr, x, mth, rr['table']))
                    owners.append((j, mth))
                # the assembled tuple as ONE model run over the concatenated table (validates `individual`)
                bundle = BUNDLE if kind == 'fluid' else IBUNDLE
                if not any(isinstance(res[mth]['out'], Raised) for mth in bundle):
                    table = []
                    for mth in bundle:
                        table += res[mth]['table']
                    if kind == 'fluid':
                        lines.append(fluid_line(descr, obj, x, 'individual', None, table))
                    else:
                        lines.append(inert_line(descr, x, 'individual', table))
                    owners.append((j, 'individual'))
                    c['individual_table'] = table
            # ---- the property predicate on the REAL outputs, the intermediate properties, the library contracts
            for c in cases:
                predicate(ctx, c, state)
            intermediate_check(ctx, cases)
            library_contracts(ctx, cases, r, state['contracts'])
            # ---- oracle-table correspondence through the driver
            state['nlines'] += len(lines)
            out = run_driver(ctx, 'C09', lines) if driver_ok else None
            if out is None:
                driver_ok = False
                continue
            for (j, mth), resp in zip(owners, out):
                c = cases[j]
                if mth == 'individual':
                    bundle = BUNDLE if c['kind'] == 'fluid' else IBUNDLE
                    rr = dict(out=c.get('ind'), table=c['individual_table'], K1=c['res'][bundle[-1]]['K1'])
                    if rr['out'] is None:
                        continue
                else:
                    rr = c['res'][mth]
                bad = compare_call(c['kind'], mth, rr, resp, state['worst'])
                if bad:
                    state['nbad'] += 1
                    if state['nbad'] <= 4:
                        ctx.broken.append(('correspondence', 'Model.Particle09 %s.%s vs dbm' % (c['kind'], mth),
                                           '; '.join(bad[:4]) + ' | particle=%r inputs=%r' % (c['descr'], c['x'])))
        ctx.oblige('library calls receive the object\'s own chemical parameters', not rec.param_bad, str(rec.param_bad[:5]))
    ctx.evaluations = state['ncases']
    k = state['contracts']
    ctx.oblige('library contract ShapeContract: particle_shape answered 1, 2 or 3 on %d recorded calls' % k['nshape'],
               not k['bad_shape'], str(k['bad_shape'][:3]))
    ctx.oblige('library contract DirtyIgnoresMuP: %d recorded dirty us_ellipsoid/xfer_sphere/xfer_ellipsoid calls repeated '
               'with another particle viscosity give the identical answer' % k['ndirty'], not k['bad_dirty'], str(k['bad_dirty'][:3]))
    nraised = sum(len(v) for v in raises.values())
    ctx.oblige('method calls that raised: %d of %d (ceiling 2 %%); cases in which BOTH paths raised: %d of %d (ceiling 2 %%) — a raise of one '
               'path only is a keyed violation' % (nraised, state['nlines'] + nraised, state.get('both_raised', 0), state['ncases']),
               nraised <= 0.02 * max(state['nlines'] + nraised, 1) and state.get('both_raised', 0) <= 0.02 * max(state['ncases'], 1),
               str(sorted(raises))[:400])
    nskip = ctx.hist.get('mixed-phase state skipped (flash slower than 60 ms)', 0)
    nmixed = sum(v for k, v in ctx.hist.items() if k.startswith('fluid fp_type=2'))
    ctx.oblige('mixed-phase states skipped because every one of 5 pre-screened states had a slow flash: %d against %d mixed-phase cases run '
               '(ceiling 10 %%)' % (nskip, nmixed), nskip <= 0.10 * max(nmixed + nskip, 1),
               'too many generated cases were skipped: the sample no longer covers the quantifier')
    H = ctx.hist
    floors = [('mixed-phase with a zero entry in the liquid row', 3), ('mixed-phase with a zero entry in the gas row', 3),
              ('fluid fp_type=2 flash:gas', 3), ('fluid fp_type=2 flash:liq', 3), ('fluid fp_type=2 flash:mix', 5)]
    floors += [('regime fp_type=%d x shape %d (fluid)' % (f, sh), 1) for f in (0, 1, 2) for sh in (1, 2, 3)]
    floors += [('shape %d (inert)' % sh, 1) for sh in (1, 2, 3, 4)]
    short = [(k, H.get(k, 0), n) for k, n in floors if H.get(k, 0) < n]
    ctx.oblige('generator floors: zero-entry two-phase (liquid row, gas row) >= 3, gas-only / liquid-only flash of a mixed-phase particle >= 3, '
               'two-phase >= 5, every phase type x shape regime and every inert shape >= 1', not short, 'below floor: %r' % (short,))
    ctx.notes.append('%d of %d cases with differing tuples' % (state['nviol'], state['ncases']))
    for kk, lst in sorted(raises.items()):
        d, x, text = lst[0]
        ctx.notes.append('C20 finding candidate key=raises:%s (%d cases) first: %s on %r inputs %r' % (kk, len(lst), text, d, x))
    if lean_ok and driver_ok:
        ctx.oblige('oracle-table correspondence Model.Particle09 == dbm.FluidParticle/InsolubleParticle on %d method calls '
                   '(same questions, same outputs, same cache; rel %g)' % (state['nlines'], TOL['gen_vs_source']), state['nbad'] == 0,
                   '%d method calls disagree' % state['nbad'])
        ctx.notes.append('worst relative difference model vs code over all outputs: %.3g' % state['worst'][0])
