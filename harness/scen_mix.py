"""
scen_mix — seeded generators of database-compound mixtures, feeds and states.

Shared by the checks that need "a feed of database compounds at a state" (C02 and others).
Everything is drawn from the `random.Random` handed in (ctx.rng): same seed, same cases.
Compounds come from `tamoc.chemical_properties.tamoc_data()` (the database the real code
reads); "non-aqueous" = everything except water.  No tolerances, no comparisons here.

    compounds()                       sorted names of all database compounds
    nonaqueous(exclude=())            the same without water (and without `exclude`)
    pick_mixture(rng, ...)            1..7 distinct compound names
    dirichlet(rng, n, alpha)          point of the simplex (list of n floats summing to 1)
    log_uniform(rng, lo, hi)          exp(U(log lo, log hi))
    feed_masses(rng, n, ...)          masses (kg) with prescribed total and optional exact zeros
    state(rng, ...)                   (T, P)
    flash_case(rng, ...)              dict(composition, m, T, P, K0)    one equilibrium() call
    rr_case(rng, n, kind)             (z, K) for the Rachford-Rice solve
"""
import math

_CACHE = {}

# light gases in the data base (used to build feeds that do flash)
LIGHT = ('methane', 'ethane', 'propane', 'nitrogen', 'carbon_dioxide', 'oxygen', 'argon', 'carbon_monoxide',
         'hydrogen_sulfide', 'hydrogen')


def compounds():
    """sorted names of all compounds of the default TAMOC data base"""
    if 'all' not in _CACHE:
        from tamoc import chemical_properties
        _CACHE['all'] = sorted(chemical_properties.tamoc_data()[0].keys())
    return list(_CACHE['all'])


def nonaqueous(exclude=()):
    """data-base compounds other than water, minus `exclude`"""
    ex = set(exclude) | {'water'}
    return [c for c in compounds() if c not in ex]


def log_uniform(rng, lo, hi):
    return math.exp(rng.uniform(math.log(lo), math.log(hi)))


def dirichlet(rng, n, alpha=1.0):
    """Dirichlet(alpha,...,alpha) point; alpha < 1 gives feeds dominated by few components"""
    g = [rng.gammavariate(alpha, 1.0) for _ in range(n)]
    s = sum(g)
    if not s > 0.:
        g = [1.0] * n
        s = float(n)
    return [x / s for x in g]


def pick_mixture(rng, nmin=1, nmax=7, exclude=(), pool=None, want_light=None):
    """`n` distinct compound names (n uniform in nmin..nmax), in random order.
    want_light=True forces at least one light gas and (n >= 2) one heavier compound, which makes a
    two-phase outcome likely; None leaves the draw unconstrained."""
    pool = list(pool) if pool is not None else nonaqueous(exclude)
    n = rng.randint(nmin, min(nmax, len(pool)))
    names = rng.sample(pool, n)
    if want_light and n >= 2:
        light = [c for c in pool if c in LIGHT]
        heavy = [c for c in pool if c not in LIGHT]
        if light and heavy:
            if not any(c in LIGHT for c in names):
                names[0] = rng.choice([c for c in light if c not in names])
            if all(c in LIGHT for c in names):
                names[-1] = rng.choice([c for c in heavy if c not in names])
            rng.shuffle(names)
    return names


def feed_masses(rng, n, total_lo=1e-6, total_hi=1e2, zero_prob=0.0, alpha=None):
    """masses (kg) of n components: Dirichlet mass fractions times a log-uniform total mass in
    [total_lo, total_hi]; each component is set to EXACTLY 0 with probability zero_prob (at least one
    component stays positive).  The total of the returned vector is the drawn total."""
    if alpha is None:
        alpha = rng.choice([0.3, 1.0, 1.0, 5.0])
    w = dirichlet(rng, n, alpha)
    if zero_prob > 0. and n > 1:
        keep = [not (rng.random() < zero_prob) for _ in range(n)]
        if not any(keep):
            keep[rng.randrange(n)] = True
        w = [x if k else 0.0 for x, k in zip(w, keep)]
        s = sum(w)
        if not s > 0.:
            w = [1.0 if k else 0.0 for k in keep]
            s = sum(w)
        w = [x / s for x in w]
    total = log_uniform(rng, total_lo, total_hi)
    return [x * total for x in w]


def state(rng, T_lo=270., T_hi=420., P_lo=1e5, P_hi=5e7):
    """(T [K] uniform, P [Pa] log-uniform or uniform)"""
    T = rng.uniform(T_lo, T_hi)
    P = log_uniform(rng, P_lo, P_hi) if rng.random() < 0.7 else rng.uniform(P_lo, P_hi)
    return T, P


def flash_case(rng, nmin=1, nmax=7, exclude=(), zero_prob=0.15, total_lo=1e-6, total_hi=1e2,
               T_lo=270., T_hi=420., P_lo=1e5, P_hi=5e7, warm=False):
    """one FluidMixture.equilibrium(m, T, P, K) call; K0 is None here (a warm start is obtained by the
    caller from a neighbouring converged state — it must come from the code, not from a generator)"""
    names = pick_mixture(rng, nmin, nmax, exclude, want_light=(rng.random() < 0.6))
    m = feed_masses(rng, len(names), total_lo, total_hi, zero_prob if rng.random() < 0.5 else 0.0)
    T, P = state(rng, T_lo, T_hi, P_lo, P_hi)
    return {'composition': names, 'm': m, 'T': T, 'P': P, 'K0': None}


RR_KINDS = ('mixed', 'all>1', 'all<1', 'near1', 'wide', 'one-sided-two-phase')


def rr_case(rng, n, kind='mixed'):
    """(z, K): z Dirichlet (sometimes with exact zeros / a dominant component), K log-uniform in
    [1e-6, 1e6]^n with the structure named by `kind`"""
    alpha = rng.choice([0.2, 1.0, 1.0, 3.0])
    z = dirichlet(rng, n, alpha)
    if n > 1 and rng.random() < 0.1:
        i = rng.randrange(n)
        z[i] = 0.0
        s = sum(z)
        z = [x / s for x in z]
    if kind == 'all>1':
        K = [log_uniform(rng, 1.0 + 1e-9, 1e6) for _ in range(n)]
    elif kind == 'all<1':
        K = [log_uniform(rng, 1e-6, 1.0 - 1e-9) for _ in range(n)]
    elif kind == 'near1':
        w = 10 ** rng.uniform(-9, -1)
        K = [1.0 + w * rng.uniform(-1, 1) for _ in range(n)]
    elif kind == 'wide':
        K = [log_uniform(rng, 1e-6, 1e6) for _ in range(n)]
    elif kind == 'one-sided-two-phase':
        # few very volatile / very heavy components: solution near a bound (7)/(8)
        K = [log_uniform(rng, 1e-3, 1e3) for _ in range(n)]
        K[rng.randrange(n)] = log_uniform(rng, 1e3, 1e6)
        if n > 1:
            K[rng.randrange(n)] = log_uniform(rng, 1e-6, 1e-3)
    else:
        K = [log_uniform(rng, 1e-2, 1e2) for _ in range(n)]
    return z, K
