"""
C03 — Bent-plume element budgets close exactly at every state.

proof        : TamocV/Props/C03.lean over the hand model TamocV/Model/Lmp.lean (`derivs env ps`,
               transcription of lmp.derivs l.20-184): compound / heat / mass-salt-momentum budgets,
               out-of-plume particles contribute zeros, vector layout — for every particle list.
tie          : (H) value correspondence: REAL LagElement pairs along short real simulations and random
               perturbations of the state; the real lmp.derivs vector is compared slot by slot with the
               Lean model executed at Float on the closure values read back from the real objects and
               from the real lmp.entrainment / lmp.track_particles.
real code    : every budget identity is also evaluated directly on the real vector.
"""
import math
import copy
import warnings
import numpy as np

from common import req, close, TOL, run_driver
import scen_bpm

META = {
    'text': 'Theorems (Lean 4, reals, induction over ANY particle list and number of compounds) about a line-by-line '
            'model of lmp.derivs: for each compound the mass-slot derivatives of all particles plus the dissolved slot '
            'equal md/rho_a*ca - sum(k_bio*m*nbe*dtp) - k_bio_e*cpe; element heat slot plus particle heat slots equal '
            'md*cp*Ta plus the heat of solution; slots 0,1,3,4 are md, md*Sa, md*ua, md*va; a particle with '
            'integrate=False contributes nc+5 zeros and leaves every other slot unchanged; vector length is '
            '11+sum(nc_i+5)+nchems+ntracers. The model is tied to the code by executing it at Float on closure values '
            'read from real LagElement/Particle objects (states along real short simulations and random perturbations, '
            '0-6 particles, soluble/inert, in/out of plume, background concentrations, currents, biodegradation) and '
            'comparing all slots with the real lmp.derivs; the budget identities are additionally evaluated on the '
            'real vector for every state.',
    'note': 'Trusted: Lean kernel + 3 standard axioms; my transcription of lmp.derivs (validated by the slot-by-slot '
            'correspondence on every state); real arithmetic as stand-in for IEEE doubles; the closures (entrainment, '
            'track_particles, LagElement.update, dbm particle properties, ambient profile) are NOT modelled: the '
            'budgets hold for whatever values they return. The biodegradation sink of the dissolved pool is '
            'k_bio_e*cpe with k_bio_e the value LagElement.update leaves behind (that of the LAST particle of the '
            'list, 0 if it is insoluble) — the budget closes with that value; its order dependence is reported in '
            'evidence.notes, not judged by this property.',
    'technique': 'Lean 4 proof over a hand model of the assembly + differential execution against the real code on real states',
}
GEN = []
MODULES = ['TamocV.Props.C03', 'TamocV.Model.Lmp']
RULE = ('states = rows of short real bent_plume_model simulations (random scenario: 100-2500 m, 0-6 particles '
        'gas/liquid/inert, jet or pure multiphase, any orientation, currents none/uniform/sheared with optional wa, '
        'background concentrations none/some/all, biodegradation none/random/database, lag time on/off) taken as '
        '(previous row, current row) pairs, unperturbed and randomly perturbed (element mass/salt/heat, momentum '
        'magnitude and direction, depth, arc length incl. ds=0, particle masses, heats, positions inside and outside '
        'the half-width, dissolved pool, tracers), each with random in/out-of-plume flags given both through the '
        'integrate flag and through NaN-marked positions of a stored simulation; a state is non-trivial when its '
        '(scenario, row, perturbation, flags) key is new and md != 0')
LEVEL_NOTE = ('theorems over the reals about my transcription of lmp.derivs (Model/Lmp.lean); the transcription is tied to '
              '/repo by slot-by-slot comparison on every generated state; closures and floating point are trusted')


def audit_files():
    return ['TamocV/Num.lean', 'TamocV/Real.lean', 'TamocV/Model/Lmp.lean', 'TamocV/Lemmas/C03.lean',
            'TamocV/Props/C03.lean']


# ---------------------------------------------------------------------------------------------
# state generation
# ---------------------------------------------------------------------------------------------

def _scenario(ctx, i):
    r = ctx.rng
    npart = [0, 1, 2, 3, 4, 5, 6][i % 7] if i < 7 else r.randint(0, 6)
    mix = ['gas+inert', 'oil+inert', 'gas', 'oil', 'inert'][i % 5] if i < 10 else 'random'
    scn = scen_bpm.random_scenario(r, nparticles=npart, mix=mix)
    # LagElement.update leaves the k_bio of the LAST particle on the element: make a soluble particle the last
    # one in half of the scenarios so that the dissolved-pool biodegradation term is exercised
    sol = [j for j, sp in enumerate(scn['particles']) if sp['kind'] != 'inert']
    if sol and r.random() < 0.5:
        scn['particles'].append(scn['particles'].pop(r.choice(sol)))
    # short trajectories: a handful of stored rows is enough
    scn['release']['sd_max'] = r.uniform(3., 40.)
    scn['release']['dt_max'] = 10 ** r.uniform(0.5, 2.)
    return scn


def _perturb(r, q, lay, q_prev, b, kinds):
    """random perturbation of the packed state (quantifier of C03); returns (q', tag)"""
    q = np.array(q, dtype=float)
    tags = []
    if r.random() < 0.6:
        f = r.uniform(0.6, 1.6)                      # element mass (salt, heat, momentum follow)
        q[0:6] *= f
        tags.append('M')
    if r.random() < 0.4:
        q[1] *= r.uniform(0.97, 1.03)                # salinity
        q[2] *= 1. + r.uniform(-0.01, 0.01)          # temperature (about +-3 K)
        tags.append('ST')
    if r.random() < 0.6:
        J = np.array(q[3:6])
        mag = float(np.linalg.norm(J)) * r.uniform(0.5, 2.)
        u = r.random()
        if u < 0.15:
            d = np.array([0., 0., r.choice([-1., 1.])])              # purely vertical: hvel == 0 branch
        else:
            d = np.array([r.gauss(0, 1), r.gauss(0, 1), r.gauss(0, 1)])
            d /= np.linalg.norm(d)
        q[3:6] = mag * d
        tags.append('J')
    if r.random() < 0.3:
        q[9] = max(1., q[9] + r.uniform(-30., 30.))  # depth
        tags.append('z')
    u = r.random()
    if u < 0.15:
        q[10] = q_prev[10]                           # ds == 0 branch of track_particles
        tags.append('ds0')
    elif u < 0.4:
        q[10] = q_prev[10] + abs(q[10] - q_prev[10]) * r.uniform(0.01, 3.) + r.choice([0., 1e-6 * b])
        tags.append('s')
    for i, sl in enumerate(lay['particles']):
        a, e = sl['m']
        if r.random() < 0.6:
            oldm = float(np.sum(q[a:e]))
            if kinds[i] == 'inert':
                q[a:e] *= r.uniform(0.2, 1.5)
            else:
                q[a:e] *= np.array([r.choice([r.uniform(0.2, 1.5), r.uniform(0.2, 1.5), 1e-9, 0.]) for _ in range(e - a)])
                if float(np.sum(q[a:e])) <= 0. and r.random() < 0.7:
                    q[a] = oldm * 0.1
            newm = float(np.sum(q[a:e]))
            q[sl['H']] *= (newm / oldm) if oldm > 0 else 0.   # keep the particle temperature
            tags.append('m')
        if r.random() < 0.4:
            q[sl['H']] *= 1. + r.uniform(-0.02, 0.05)         # particle temperature
            tags.append('Hp')
        if r.random() < 0.6 and not np.isnan(q[sl['X'][0]]):
            rad = b * r.choice([r.uniform(0., 0.95), r.uniform(0., 0.95), r.uniform(1.0, 1.6)])
            ang = r.uniform(0., 2 * math.pi)
            q[sl['X'][0]] = 0.
            q[sl['X'][0] + 1] = rad * math.cos(ang)
            q[sl['X'][0] + 2] = rad * math.sin(ang)
            tags.append('X')
        if r.random() < 0.3:
            q[sl['t']] = q[sl['t']] * r.uniform(0., 3.) + r.choice([0., 20., 1e5])   # particle age (lag time, hydrate)
            tags.append('tp')
    a, e = lay['chems']
    if e > a and r.random() < 0.6:
        q[a:e] = np.array([r.choice([0., q[j] * r.uniform(0., 10.), q[0] / 1000. * 10 ** r.uniform(-7, -3)]) for j in range(a, e)])
        tags.append('c')
    a, e = lay['tracers']
    if e > a and r.random() < 0.5:
        q[a:e] *= np.array([r.uniform(0., 5.) for _ in range(e - a)])
        tags.append('tr')
    return q, '+'.join(tags) if tags else 'none'


def _read_closures(tam, q, q0l, q1l, p, particles, lay):
    """everything lmp.derivs reads, taken from the REAL objects after the real call"""
    lmp, seawater = tam['lmp'], tam['seawater']
    md = lmp.entrainment(q0l, q1l, p)
    fe, up, dtp = lmp.track_particles(q0l, q1l, md, particles)
    nch = int(q1l.nchems)
    if nch > 0:
        kb = np.asarray(q1l.k_bio, dtype=float)
        kb = np.full(nch, float(kb)) if kb.ndim == 0 else kb
    else:
        kb = np.zeros(0)
    env = {
        's': [float(md), float(q1l.Sa), float(q1l.Ta), float(q1l.ua), float(q1l.va), float(q1l.wa), float(seawater.cp()),
              float(p.g), float(p.gamma), float(p.rho_r), float(p.Ru), float(q1l.Fb), float(q1l.M), float(q1l.rho),
              float(q1l.rho_a), float(q1l.u), float(q1l.v), float(q1l.w), float(q1l.V), float(q1l.T), float(fe)],
        'nchems': nch,
        'c_chems': np.asarray(q1l.c_chems, dtype=float), 'ca_chems': np.asarray(q1l.ca_chems, dtype=float),
        'cpe': np.asarray(q1l.cpe, dtype=float), 'k_bio': kb, 'ca_tracers': np.asarray(q1l.ca_tracers, dtype=float),
    }
    ps = []
    for i, pt in enumerate(particles):
        sl = lay['particles'][i]
        sol = bool(pt.particle.issoluble)
        ps.append({
            'integrate': bool(pt.integrate), 'issoluble': sol, 'nc': int(pt.particle.nc),
            's': [float(pt.A), float(pt.nbe), float(pt.rho_p), float(pt.cp), float(pt.beta_T), float(pt.T), float(dtp[i]),
                  float(up[i, 1]), float(up[i, 2]), float(q[sl['X'][0] + 1]), float(q[sl['X'][0] + 2])],
            'beta': np.atleast_1d(np.asarray(pt.beta, dtype=float)), 'Cs': np.atleast_1d(np.asarray(pt.Cs, dtype=float)),
            'k_bio': np.atleast_1d(np.asarray(pt.k_bio, dtype=float)), 'm': np.atleast_1d(np.asarray(pt.m, dtype=float)),
            'negdH': np.asarray(pt.particle.neg_dH_solR, dtype=float) if sol else np.zeros(0),
            'M': np.asarray(pt.particle.M, dtype=float) if sol else np.zeros(0),
        })
    return env, ps


def _encode(env, ps):
    args = [env['s'], int(env['nchems']), env['c_chems'], env['ca_chems'], env['cpe'], env['k_bio'], env['ca_tracers']]
    for p in ps:
        args += [int(p['integrate']), int(p['issoluble']), int(p['nc']), p['s'], p['beta'], p['Cs'], p['k_bio'], p['m'],
                 p['negdH'], p['M']]
    return req('Lmp.derivs', *args)


# ---------------------------------------------------------------------------------------------
# the property predicates, evaluated on the REAL vector
# ---------------------------------------------------------------------------------------------

def budgets(qp, env, ps, lay):
    """list of (key, lhs, rhs, scale): lhs must equal rhs within TOL['identity']*scale"""
    s = env['s']
    md, Sa, Ta, ua, va, cpw, rho_a, Ru = s[0], s[1], s[2], s[3], s[4], s[6], s[14], s[10]
    out = []
    out.append(('mass', qp[0], md, abs(md)))
    out.append(('salt', qp[1], md * Sa, abs(md * Sa)))
    out.append(('x-momentum', qp[3], md * ua, abs(md * ua)))
    out.append(('y-momentum', qp[4], md * va, abs(md * va)))
    nch = env['nchems']
    a_c, e_c = lay['chems']
    # compounds
    for c in range(nch):
        lhs, scale = qp[a_c + c], abs(qp[a_c + c])
        ent = md / rho_a * env['ca_chems'][c]
        rhs = ent - env['k_bio'][c] * env['cpe'][c]
        scale += abs(ent) + abs(env['k_bio'][c] * env['cpe'][c])
        for i, p in enumerate(ps):
            if not p['issoluble']:
                continue
            a, _e = lay['particles'][i]['m']
            lhs += qp[a + c]
            scale += abs(qp[a + c])
            if p['integrate']:
                bio = p['k_bio'][c] * p['m'][c] * p['s'][1] * p['s'][6]
                rhs -= bio
                scale += abs(bio)
        out.append(('compound', lhs, rhs, scale))
    # heat
    lhs, scale = qp[2], abs(qp[2])
    rhs = md * cpw * Ta
    scale += abs(rhs)
    for i, p in enumerate(ps):
        h = qp[lay['particles'][i]['H']]
        lhs += h
        scale += abs(h)
        if p['integrate'] and p['issoluble']:
            A, nbe, dtp = p['s'][0], p['s'][1], p['s'][6]
            diss = A * nbe * p['beta'] * (p['Cs'] - env['c_chems']) * dtp          # mass leaving the particle per compound
            hs = float(np.sum(diss * p['negdH'] * Ru / p['M']))
            rhs += hs
            scale += float(np.sum(np.abs(diss * p['negdH'] * Ru / p['M'])))
    out.append(('heat', lhs, rhs, scale))
    # inert mass: biodegradation only
    for i, p in enumerate(ps):
        if (not p['issoluble']) and p['integrate']:
            a, _e = lay['particles'][i]['m']
            rhs = -float(np.sum(p['k_bio'] * p['m'])) * p['s'][1] * p['s'][6]
            out.append(('inert-mass', qp[a], rhs, abs(rhs)))
    # passive tracers: entrainment only
    a, e = lay['tracers']
    for j in range(e - a):
        rhs = md / rho_a * env['ca_tracers'][j]
        out.append(('tracer', qp[a + j], rhs, abs(rhs)))
    return out


def outside_nonzero(qp, ps, lay):
    bad = []
    for i, p in enumerate(ps):
        if not p['integrate']:
            a = lay['particles'][i]['m'][0]
            blk = qp[a:a + p['nc'] + 5]
            if np.any(blk != 0.):
                bad.append((i, [float(x) for x in blk]))
    return bad


def _slot_scales(env, ps, lay, qp):
    """absolute scale of the terms that are added/subtracted in each slot (for slots with cancellation)"""
    sc = np.abs(np.array(qp, dtype=float))
    s = env['s']
    heat = abs(s[0] * s[6] * s[2])
    for i, p in enumerate(ps):
        if p['integrate']:
            sl = lay['particles'][i]
            A, nbe, rho_p, cp, beta_T, T, dtp = p['s'][0:7]
            hterm = abs(A * nbe * rho_p * cp * beta_T * (T - s[19]) * dtp) + abs(T) * abs(cp) * float(np.sum(np.abs(qp[sl['m'][0]:sl['m'][1]])))
            if p['issoluble']:
                d = np.abs(A * nbe * p['beta'] * (p['Cs'] - env['c_chems']) * dtp)
                b = np.abs(p['k_bio'] * p['m'] * nbe * dtp)
                sc[sl['m'][0]:sl['m'][1]] += d + b
                hterm += abs(T) * abs(cp) * float(np.sum(d + b)) + float(np.sum(d * np.abs(p['negdH']) * s[10] / p['M']))
            else:
                hterm += abs(T) * abs(cp) * max(env['nchems'], 1) * float(np.sum(np.abs(p['k_bio'] * p['m'] * nbe * dtp)))
            sc[sl['H']] += hterm
            heat += hterm
            sc[sl['X'][0] + 1] += abs(p['s'][7] * dtp) + abs(s[20] * p['s'][9] * dtp)
            sc[sl['X'][0] + 2] += abs(p['s'][8] * dtp) + abs(s[20] * p['s'][10] * dtp)
    sc[2] += heat
    sc[5] += abs(s[7] / (s[8] * s[9]) * s[11]) + abs(s[7] / (s[8] * s[9]) * s[12] * s[14]) + abs(s[0] * s[5])
    a, e = lay['chems']
    for c in range(e - a):
        dm = 0.
        for i, p in enumerate(ps):
            if p['integrate'] and p['issoluble']:
                A, nbe, dtp = p['s'][0], p['s'][1], p['s'][6]
                dm += abs(A * nbe * p['beta'][c] * (p['Cs'][c] - env['c_chems'][c]) * dtp)
        sc[a + c] += abs(s[0] / s[14] * env['ca_chems'][c]) + dm + abs(env['k_bio'][c] * env['cpe'][c])
    return sc


# ---------------------------------------------------------------------------------------------

def _raised_in_derivs(exc):
    """True when the innermost frame of the traceback is the body of lmp.derivs itself (not a closure)"""
    import traceback
    tb = traceback.extract_tb(exc.__traceback__)
    return bool(tb) and tb[-1].name == 'derivs' and tb[-1].filename.endswith('lmp.py')


def _tamoc():
    from tamoc import lmp, seawater, bent_plume_model
    return {'lmp': lmp, 'seawater': seawater, 'bpm': bent_plume_model}


def _set_exit_record(pt):
    """a particle outside the plume carries the record written by correct_particle_tracking"""
    pt.te, pt.xe, pt.ye, pt.ze = pt.t, pt.x, pt.y, pt.z
    pt.me, pt.Te = pt.m, pt.T


def eval_state(tam, bpm, prf, parts, q_prev, t_prev, q, t, flags, mode):
    """call the REAL lmp.derivs on (q_prev -> q) with the given in/out flags; returns dict or raises"""
    q = np.array(q, dtype=float)
    lay = scen_bpm.layout(parts, len(bpm.chem_names), len(bpm.tracers))
    for i, pt in enumerate(parts):
        a = lay['particles'][i]['X'][0]
        if mode == 'stored':
            pt.sim_stored = True
            if not flags[i]:
                q[a:a + 3] = np.nan
            elif np.isnan(q[a]):
                q[a:a + 3] = 0.
        else:
            pt.sim_stored = False
            if flags[i] and np.isnan(q[a]):
                q[a:a + 3] = 0.
    # previous element (integrate flags of the previous row: all inside unless NaN-marked)
    for pt in parts:
        pt.integrate = True
    qp0 = np.array(q_prev, dtype=float)
    for i, pt in enumerate(parts):
        a = lay['particles'][i]['X'][0]
        if np.isnan(qp0[a]):
            if mode == 'stored':
                pt.integrate = False
            else:
                qp0[a:a + 3] = 0.
        if not hasattr(pt, 'te'):
            _set_exit_record(pt)
    with scen_bpm.silence():
        q0l = tam['bpm'].LagElement(t_prev, qp0, bpm.D, prf, bpm.p, parts, bpm.tracers, bpm.chem_names)
    q1l = copy.deepcopy(q0l)
    for i, pt in enumerate(parts):
        _set_exit_record(pt)
        if mode != 'stored':
            pt.integrate = bool(flags[i])
    qp = tam['lmp'].derivs(t, q, q0l, q1l, prf, bpm.p, parts)
    qp = np.array(qp, dtype=float)
    env, ps = _read_closures(tam, q, q0l, q1l, bpm.p, parts, lay)
    # the slot map used by the budgets must be the one LagElement.update unpacks with
    unpack_ok = True
    for i, sl in enumerate(lay['particles']):
        a, e = sl['m']
        unpack_ok = unpack_ok and np.array_equal(np.asarray(q1l.M_p[i]), q[a:e]) and float(q1l.H_p[i]) == float(q[sl['H']]) \
            and np.array_equal(np.asarray(q1l.X_p[i]), q[sl['X'][0]:sl['X'][1]], equal_nan=True)
    a, e = lay['chems']
    unpack_ok = unpack_ok and np.array_equal(np.asarray(q1l.cpe), q[a:e])
    a, e = lay['tracers']
    unpack_ok = unpack_ok and (e == a or np.array_equal(np.asarray(q1l.cte), q[a:e]))
    return {'q': q, 'qp': qp, 'env': env, 'ps': ps, 'lay': lay, 'unpack_ok': bool(unpack_ok)}


def _case(scn, k, q_prev, t_prev, q, t, flags, mode, tag):
    return {'scenario': scn, 'row': k, 't_prev': float(t_prev), 'q_prev': [float(x) for x in q_prev], 't': float(t),
            'q': [float(x) for x in q], 'flags': [bool(f) for f in flags], 'mode': mode, 'perturbation': tag}


def run(ctx, lean_ok):
    warnings.filterwarnings('ignore')
    tam = _tamoc()
    r = ctx.rng
    nscn = ctx.n(24, 400)
    rows_per = ctx.n(4, 6)
    pert_per = ctx.n(4, 6)
    states = []        # (case, result)
    nfail_build = 0
    for i in range(nscn):
        scn = _scenario(ctx, i)
        try:
            bpm, prf, parts = scen_bpm.simulate(scn)
        except Exception as e:                      # a scenario the simulator rejects is C20's business, not C03's
            if _raised_in_derivs(e):                # ... unless it is the assembly itself that raises
                ctx.violation('derivs-raises', 'lmp.derivs raises %s during a simulation of a valid scenario: %s' % (type(e).__name__, e),
                              {'scenario': scn})
            ctx.count('scenario-rejected:' + type(e).__name__)
            nfail_build += 1
            continue
        kinds = [sp['kind'] for sp in scn['particles']]
        ctx.count('particles=%d' % len(parts))
        ctx.count('biodeg=%s' % ('none' if not any((sp.get('k_bio') is None) or np.any(np.array(sp.get('k_bio')) > 0) for sp in scn['particles']) else 'yes'))
        ctx.count('background=%s' % ('yes' if scn['profile']['background'] else 'no'))
        ctx.count('current=%s' % ('yes' if scn['profile']['current'] else 'no'))
        nrow = len(bpm.t)
        ks = sorted(set([1, nrow - 1] + [r.randint(1, nrow - 1) for _ in range(rows_per)]))[:rows_per + 1]
        t_all, q_all = np.array(bpm.t), np.array(bpm.q)
        lay0 = scen_bpm.layout(parts, len(bpm.chem_names), len(bpm.tracers))
        if lay0['len'] != q_all.shape[1]:
            ctx.violation('layout-length', 'state vector length is not 11 + sum(nc_i+5) + nchems + ntracers',
                          {'scenario': scn, 'expected': lay0['len'], 'got': int(q_all.shape[1])})
        for k in ks:
            for j in range(pert_per):
                q_prev, t_prev, q, t = q_all[k - 1], t_all[k - 1], q_all[k], t_all[k]
                if j == 0:
                    tag = 'none'
                    # the flags the simulation itself had at that row
                    flags = [not np.isnan(q[sl['X'][0]]) for sl in lay0['particles']]
                    mode = 'stored'
                else:
                    Vel = float(np.linalg.norm(q[3:6])) / q[0]
                    b_guess = math.sqrt(q[0] / (1030. * math.pi * q[6] * Vel)) if Vel > 0 else 0.5 * bpm.D
                    q, tag = _perturb(r, q, lay0, q_prev, b_guess, kinds)
                    flags = [r.random() < 0.7 for _ in parts]
                    mode = r.choice(['stored', 'flag'])
                case = _case(scn, k, q_prev, t_prev, q, t, flags, mode, tag)
                try:
                    with np.errstate(all='ignore'):
                        res = eval_state(tam, bpm, prf, parts, q_prev, t_prev, q, t, flags, mode)
                except Exception as e:
                    if _raised_in_derivs(e):
                        ctx.violation('derivs-raises', 'lmp.derivs raises %s on a state: %s' % (type(e).__name__, e), case)
                    ctx.count('state-rejected:' + type(e).__name__)
                    continue
                states.append((case, res))
                ctx.count('mode=' + mode)
                for p in res['ps']:
                    ctx.count(('soluble' if p['issoluble'] else 'inert') + ('-in' if p['integrate'] else '-out'))
                if res['env']['nchems'] > 0 and np.any(res['env']['k_bio'] != 0):
                    ctx.count('element-k_bio-nonzero')
                elif any(p['issoluble'] and p['integrate'] and np.any(p['k_bio'] != 0) for p in res['ps']):
                    ctx.count('element-k_bio-zero-while-a-particle-biodegrades')
                if res['env']['s'][0] != 0. and np.all(np.isfinite(res['qp'][:11])):
                    ctx.nontrivial.add((i, k, j))
    ctx.evaluations = len(states)
    for case, res in states[:3]:
        ctx.sample({'row': case['row'], 'perturbation': case['perturbation'], 'flags': case['flags'], 'mode': case['mode'],
                    'kinds': [sp['kind'] for sp in case['scenario']['particles']], 'md': res['env']['s'][0],
                    'derivs[0:6]': [float(x) for x in res['qp'][:6]]})
    if nfail_build:
        ctx.notes.append('%d scenarios rejected by the simulator before any state was produced' % nfail_build)
    if not states:
        ctx.oblige('at least one state generated', False, 'no scenario could be simulated')
        return

    # ---- property predicates on the REAL vectors ---------------------------------------------
    worst_id = 0.
    for case, res in states:
        qp, env, ps, lay = res['qp'], res['env'], res['ps'], res['lay']
        if len(qp) != lay['len']:
            ctx.violation('layout-length', 'derivs vector length is not 11 + sum(nc_i+5) + nchems + ntracers',
                          dict(case, expected=lay['len'], got=len(qp)))
            continue
        if not res['unpack_ok']:
            ctx.violation('layout-unpack', 'LagElement.update does not unpack the state with the layout 11 + (nc_i + 5)* + nchems + ntracers',
                          dict(case))
        for i, blk in outside_nonzero(qp, ps, lay):
            ctx.violation('outside-particle-contributes', 'a particle outside the plume has a non-zero derivative slot',
                          dict(case, particle=i, block=blk))
        finite_in = all(np.all(np.isfinite(x)) for x in [env['s'], env['c_chems'], env['ca_chems'], env['cpe'], env['k_bio'],
                                                         env['ca_tracers']])
        for p in ps:
            if p['integrate']:
                finite_in = finite_in and all(np.all(np.isfinite(np.asarray(p[f], dtype=float))) for f in ('beta', 'Cs', 'k_bio', 'm')) \
                    and np.all(np.isfinite(p['s'][:9]))
        if not finite_in:
            ctx.count('closure-nonfinite (budgets skipped)')
            continue
        for key, lhs, rhs, scale in budgets(qp, env, ps, lay):
            if not (math.isfinite(lhs) and math.isfinite(rhs)):
                ctx.violation(key + '-budget', 'budget term is not finite although every closure value is finite',
                              dict(case, budget=key, lhs=float(lhs), rhs=float(rhs)))
                continue
            err = abs(lhs - rhs)
            if scale > 0:
                worst_id = max(worst_id, err / scale)
            if err > TOL['identity'] * scale + TOL['abs_floor']:
                ctx.violation(key + '-budget', 'budget does not close on the vector returned by lmp.derivs: %s' % key,
                              dict(case, budget=key, lhs=float(lhs), rhs=float(rhs), scale=float(scale),
                                   derivs=[float(x) for x in qp]))
    ctx.notes.append('worst budget residual relative to sum|terms| on the real vectors: %.3g' % worst_id)
    ctx.notes.append('observation (not judged by C03): LagElement.update leaves on the element the k_bio of the LAST particle of the '
                     'list; in %d states a soluble particle inside the plume biodegrades while the dissolved pool is given k_bio = 0 '
                     '(last particle inert / younger than its lag time), in %d states the dissolved pool biodegrades; the budget closes '
                     'with that value in every state' % (ctx.hist.get('element-k_bio-zero-while-a-particle-biodegrades', 0),
                                                         ctx.hist.get('element-k_bio-nonzero', 0)))

    # ---- correspondence with the Lean model -----------------------------------------------------
    if not lean_ok:
        return
    lines = [_encode(res['env'], res['ps']) for _case_, res in states]
    tot_lines, tot_want = [], []
    for _case_, res in states:
        c = (len(tot_lines) * 7) % max(res['env']['nchems'], 1)
        short = []
        for p in res['ps']:
            short += [int(p['integrate']), int(p['issoluble']), int(p['nc'])]
        tot_lines.append(req('Lmp.totals', res['qp'], c, *short))
        lay, qp = res['lay'], res['qp']
        ct = qp[lay['chems'][0] + c] if res['env']['nchems'] > 0 else (qp[lay['chems'][0] + c] if lay['chems'][0] + c < len(qp) else 0.)
        ct_scale = abs(ct)
        for i, p in enumerate(res['ps']):
            if p['issoluble']:
                ct += qp[lay['particles'][i]['m'][0] + c]
                ct_scale += abs(qp[lay['particles'][i]['m'][0] + c])
        ht = qp[2] + sum(qp[sl['H']] for sl in lay['particles'])
        ht_scale = abs(qp[2]) + sum(abs(qp[sl['H']]) for sl in lay['particles'])
        tot_want.append((ct, ct_scale, ht, ht_scale, res['env']['nchems']))
    out_all = run_driver(ctx, 'C03', lines + tot_lines)
    if out_all is None:
        return
    out, out_tot = out_all[:len(lines)], out_all[len(lines):]
    nbad_t = 0
    for (ct, cs, ht, hs, nch), o in zip(tot_want, out_tot):
        ok = isinstance(o, list) and len(o) == 2 and close(float(o[1]), float(ht), TOL['gen_vs_source'], abs_floor=TOL['gen_vs_source'] * hs + TOL['abs_floor']) \
            and (nch == 0 or close(float(o[0]), float(ct), TOL['gen_vs_source'], abs_floor=TOL['gen_vs_source'] * cs + TOL['abs_floor']))
        if not ok:
            nbad_t += 1
            if nbad_t <= 3:
                ctx.broken.append(('correspondence', 'Model.Lmp.compoundTotal/heatTotal vs slot sums by the real layout', 'model %r want %r' % (o, (ct, ht))))
    ctx.oblige('read-out functionals Model.Lmp.compoundTotal / heatTotal == slot sums with the layout of LagElement.update on %d real vectors' % len(tot_lines),
               nbad_t == 0, '%d disagree' % nbad_t)
    nbad = 0
    worst = 0.
    for (case, res), o in zip(states, out):
        qp = res['qp']
        if not isinstance(o, list) or not isinstance(o[0], list):
            nbad += 1
            if nbad <= 3:
                ctx.broken.append(('correspondence', 'Model.Lmp.derivs vs lmp.derivs', 'driver answered %r' % (o,)))
            continue
        mv = o[0]
        if len(mv) != len(qp):
            nbad += 1
            if nbad <= 3:
                ctx.broken.append(('correspondence', 'Model.Lmp.derivs vs lmp.derivs (length)',
                                   'model %d slots, code %d slots; row %d pert %s flags %r' % (len(mv), len(qp), case['row'], case['perturbation'], case['flags'])))
            continue
        sc = _slot_scales(res['env'], res['ps'], res['lay'], qp)
        for j in range(len(qp)):
            a, b = float(mv[j]), float(qp[j])
            if close(a, b, TOL['gen_vs_source'], abs_floor=TOL['gen_vs_source'] * (sc[j] if math.isfinite(sc[j]) else 0.) + TOL['abs_floor']):
                if math.isfinite(a) and math.isfinite(b) and sc[j] > 0 and math.isfinite(sc[j]):
                    worst = max(worst, abs(a - b) / sc[j])
                continue
            nbad += 1
            if nbad <= 3:
                ctx.broken.append(('correspondence', 'Model.Lmp.derivs vs lmp.derivs slot %d' % j,
                                   'model=%r code=%r; kinds %r flags %r row %d pert %s' % (a, b, [sp['kind'] for sp in case['scenario']['particles']], case['flags'], case['row'], case['perturbation'])))
            break
    ctx.oblige('correspondence Model.Lmp.derivs == lmp.derivs slot by slot on %d states (rel %g of the slot terms)' % (len(states), TOL['gen_vs_source']),
               nbad == 0, '%d states disagree' % nbad)
    ctx.notes.append('worst slot difference model vs code relative to the slot terms: %.3g' % worst)


def replay(ctx, path):
    """re-evaluate a recorded failing state on the real code and print the budgets"""
    import json
    tam = _tamoc()
    rec = json.load(open(path))
    case = rec['case']
    bpm, prf, parts = scen_bpm.simulate(case['scenario'])
    with np.errstate(all='ignore'):
        res = eval_state(tam, bpm, prf, parts, np.array(case['q_prev']), case['t_prev'], np.array(case['q']), case['t'],
                         case['flags'], case['mode'])
    rc = 0
    for i, blk in outside_nonzero(res['qp'], res['ps'], res['lay']):
        print('outside particle %d has non-zero slots %r' % (i, blk))
        rc = 1
    for key, lhs, rhs, scale in budgets(res['qp'], res['env'], res['ps'], res['lay']):
        ok = abs(lhs - rhs) <= TOL['identity'] * scale + TOL['abs_floor']
        print('%-12s lhs=%.17g rhs=%.17g scale=%.3g %s' % (key, lhs, rhs, scale, 'ok' if ok else 'FAILS'))
        rc = rc or (0 if ok else 1)
    return rc
